#!/usr/bin/env python3
"""harvest.py <PID> <tag> <letter> [extra demo compile flags...]

Takes the uncommitted change a sub-agent left in its scratch worktree /tmp/wt/<PID>-<tag>, and
 1. saves it as seeded/<PID>-mut<letter>/{patch.diff,demo.cpp},
 2. confirms independently that the demonstration passes on the original code and fails with the change,
 3. confirms that the repository's test suite still passes with the change (same stable tests as the baseline),
 4. runs the property's quick check against the changed tree - in a scratch copy of /verif with RS_REPO pointing at
    the worktree, so that /repo and /verif's caches are not disturbed while other work goes on - and records what fired,
 5. writes meta.json.  The worktree is left in place (remove it with `git -C /repo worktree remove --force`).
The official matrix (checks/run_matrix.py) later re-applies every kept patch to /repo itself."""
import json, os, re, shutil, subprocess, sys, time

pid, tag, letter = sys.argv[1:4]
flags = ' '.join(sys.argv[4:])
wt = f'/tmp/wt/{pid}-{tag}'
out = f'/verif/seeded/{pid}-mut{letter}'
VH = f'/tmp/vh_{pid}_{tag}'      # a private scratch copy of /verif per harvest: several may run at once


def sh(cmd, timeout=1800):
    try:
        p = subprocess.run(cmd, shell=True, capture_output=True, text=True, timeout=timeout, errors='replace')
        return p.returncode, p.stdout + p.stderr
    except subprocess.TimeoutExpired as e:
        return 124, 'TIMEOUT ' + str(e.stdout or '')[-500:]


os.makedirs(out, exist_ok=True)
rc, diff = sh(f'git -C {wt} diff -- src')
assert diff.strip(), 'no change under src/'
rc, other = sh(f'git -C {wt} status --porcelain')
open(f'{out}/patch.diff', 'w').write(diff)
shutil.copy(f'{wt}/demo/verif_demo.cpp', f'{out}/demo.cpp')
meta = {'property': pid, 'round': tag, 'worktree_status': other.strip().split('\n')}

# 2. demo on changed / original code
exe = f'/tmp/hdemo_{pid}_{tag}'
build = f'g++ -std=c++14 -I{wt}/src {flags} {out}/demo.cpp -o {exe} -lpcap -lpthread'
res = {}
for phase in ('changed', 'original'):
    if phase == 'original':
        rc, o = sh(f'git -C {wt} apply -R {out}/patch.diff')
        assert rc == 0, o
    rc, o = sh(build, 600)
    if rc != 0:
        res[phase] = {'build': 'FAILED', 'out': o[-800:]}
    else:
        runs = []
        for k in range(2):
            rc, o = sh(f'timeout 300 {exe}', 320)
            runs.append(rc)
        res[phase] = {'exit': runs, 'tail': o[-600:]}
    if phase == 'original':
        rc, o = sh(f'git -C {wt} apply {out}/patch.diff')
        assert rc == 0, o
if os.path.exists(exe):
    os.remove(exe)
meta['demo'] = {'build': build, **res}
demo_ok = all(r == 0 for r in res.get('original', {}).get('exit', [1])) and all(r != 0 for r in res.get('changed', {}).get('exit', [0]))

# 3. unit tests with the change
bd = f'/tmp/hbuild_{pid}_{tag}'
rc, o = sh(f'cmake -G Ninja -S {wt} -B {bd} -DCOMPILE_TESTS=ON >/dev/null && cmake --build {bd} -j6 2>&1 | tail -5', 1500)
tests_ok = False
if rc == 0 and os.path.exists(f'{bd}/test/rs_driver_test'):
    rc, o = sh(f'cd {bd} && timeout 600 ./test/rs_driver_test', 700)
    okset = set(m.replace('.', '::') for m in re.findall(r'\[\s+OK \] (\S+)', o))
    base = json.load(open('/root/.vp/BASELINE.json'))['stable_pass']
    missing = [t for t in base if t not in okset]
    tests_ok = not missing
    meta['unit_tests'] = {'passed_of_baseline': f'{len(base) - len(missing)}/{len(base)}', 'missing': missing}
else:
    meta['unit_tests'] = {'build': 'FAILED', 'out': o[-800:]}
shutil.rmtree(bd, ignore_errors=True)

# 4. the property's quick check against the changed tree (scratch copy of /verif, RS_REPO = worktree)
sh(f'mkdir -p {VH} && rsync -a --delete --exclude .git --exclude replays /verif/ {VH}/')
t0 = time.time()
rc, o = sh(f'cd {VH} && RS_REPO={wt} python3 checks/run_check.py {pid} --tier quick', 2400)
dt = time.time() - t0
fired = ('VIOLATION property=' + pid) in o and rc == 1
keys = re.findall(r'violations by key: (\{.*\})', o)
m = re.search(r'VIOLATION property=\S+ replay=\S+.*\n\s+(.*)', o)
meta['verif_scratch'] = {'how': f'RS_REPO={wt} python3 checks/run_check.py {pid} --tier quick (scratch copy of /verif)', 'exit': rc, 'detected': fired,
                         'violations_by_key': keys[0] if keys else None, 'first_report': m.group(1)[:300] if m else '', 'wall_s': round(dt, 1), 'tail': o[-600:] if not fired else ''}
meta['confirmed'] = {'demo_passes_on_original_and_fails_with_change': demo_ok, 'unit_tests_pass_with_change': tests_ok}
old = {}
if os.path.exists(f'{out}/meta.json'):
    old = json.load(open(f'{out}/meta.json'))
old.update(meta)
json.dump(old, open(f'{out}/meta.json', 'w'), indent=1)
shutil.rmtree(VH, ignore_errors=True)
print(f'{pid}-mut{letter}: demo_ok={demo_ok} tests_ok={tests_ok} detected={fired} keys={keys[0] if keys else None} wall={dt:.0f}s')
if not fired:
    print(o[-1200:])
