#!/usr/bin/env python3
"""dev helper: run a scenario file through the real code and the model and compare everything"""
import sys, os, time
HERE = os.path.dirname(os.path.abspath(__file__)); sys.path.insert(0, HERE)
import common as C, compare as CMP
log = []
C.regenerate(log)
ok, why = C.build_model(log); assert ok, why
exe, why = C.build_harness(sys.argv[2] if len(sys.argv) > 2 else 'asan', log); assert exe, why
inp = sys.argv[1]
t = time.time(); rc, out, dt = C.run_impl(exe, inp, inp + '.impl'); print('impl', rc, f'{dt:.1f}s', out[-1500:] if rc or 'ERROR' in out else '')
rc, out, dt = C.run_model(inp, inp + '.model'); print('model', rc, f'{dt:.1f}s', out[-500:])
r = CMP.compare_files(inp + '.impl', inp + '.model')
print(r['scenarios'], 'scenarios', len(r['mismatch']), 'mismatches')
for m in r['mismatch'][:12]:
    print(m[0], m[1][0], '\n   impl :', m[1][1][:230], '\n   model:', m[1][2][:230])
