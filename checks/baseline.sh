#!/bin/bash
# Runs the repository's own test suite with the verification guard OFF (no -DRS_DRIVER_VERIF) and
# compares with the stable baseline recorded in /root/.vp/BASELINE.json.
set -e
REPO=${RS_REPO:-/repo}
B=$REPO/_build
if [ ! -f $B/build.ninja ] && [ ! -f $B/Makefile ]; then
  cmake -G Ninja -S $REPO -B $B -DCOMPILE_TESTS=ON >/dev/null
fi
cmake --build $B -j16 >/dev/null
cd $B
OUT=$(timeout 600 ./test/rs_driver_test 2>&1 || true)
python3 - "$OUT" <<'PY'
import json, re, sys
out = sys.argv[1]
ok = set(m.replace('.', '::') for m in re.findall(r'\[\s+OK \] (\S+)', out))
base = json.load(open('/root/.vp/BASELINE.json'))['stable_pass']
missing = [t for t in base if t not in ok]
print(f'baseline: {len(base) - len(missing)}/{len(base)} stable tests pass with the guard off')
if missing:
    print('MISSING:', missing)
    sys.exit(1)
PY
