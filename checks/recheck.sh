#!/bin/bash
# recheck.sh <seeded-dir-name> [<PID of the check to run>] [tier]
# Applies the seeded patch to a fresh scratch worktree of /repo, runs the property's check in a private scratch copy of
# /verif with RS_REPO pointing at that worktree (so /repo, /verif/.cache and /verif/evidence are left alone), removes both.
set -u
M=$1; P=${2:-${M%%-*}}; T=${3:-quick}
W=/tmp/rc_wt_$M; V=/tmp/rc_vh_$M
git -C /repo worktree add -q --detach $W HEAD || exit 2
git -C $W apply /verif/seeded/$M/patch.diff || { echo "apply failed"; git -C /repo worktree remove --force $W; exit 2; }
rsync -a --delete --exclude .git --exclude replays /verif/ $V/
(cd $V && RS_REPO=$W python3 checks/run_check.py $P --tier $T 2>&1 | tail -${TAILN:-5})
git -C /repo worktree remove --force $W; rm -rf $V
