"""common.py - shared pipeline of all checks: regenerate -> prove -> extract/build -> correspond -> decide."""
import fcntl, hashlib, json, os, re, subprocess, sys, time, shutil

VERIF = os.path.dirname(os.path.dirname(os.path.abspath(__file__)))
REPO = os.environ.get('RS_REPO', '/repo')
CACHE = os.path.join(VERIF, '.cache')
COQ = os.path.join(VERIF, 'coq')
GUARD = 'RS_DRIVER_VERIF'
sys.path.insert(0, os.path.join(VERIF, 'harness'))

os.makedirs(CACHE, exist_ok=True)


def sh(cmd, timeout=1800, cwd=None, env=None, quiet=True):
    t0 = time.time()
    try:
        p = subprocess.run(cmd, shell=isinstance(cmd, str), cwd=cwd, env=env, timeout=timeout,
                           stdout=subprocess.PIPE, stderr=subprocess.STDOUT, text=True, errors='replace')
        return p.returncode, p.stdout, time.time() - t0
    except subprocess.TimeoutExpired as e:
        return 124, (e.stdout or '') if isinstance(e.stdout, str) else '', time.time() - t0


def tree_hash(paths, exts=None):
    h = hashlib.sha256()
    for root in paths:
        if os.path.isfile(root):
            h.update(root.encode()); h.update(open(root, 'rb').read()); continue
        for dp, dn, fn in sorted(os.walk(root)):
            dn.sort()
            if '.git' in dn:
                dn.remove('.git')
            for f in sorted(fn):
                if exts and not f.endswith(exts):
                    continue
                p = os.path.join(dp, f)
                h.update(p.encode())
                try:
                    h.update(open(p, 'rb').read())
                except OSError:
                    pass
    return h.hexdigest()[:16]


class Lock:
    def __init__(self, name):
        self.path = os.path.join(CACHE, name + '.lock')

    def __enter__(self):
        self.f = open(self.path, 'w')
        fcntl.flock(self.f, fcntl.LOCK_EX)
        return self

    def __exit__(self, *a):
        fcntl.flock(self.f, fcntl.LOCK_UN)
        self.f.close()


def repo_key():
    return tree_hash([os.path.join(REPO, 'src'), os.path.join(REPO, 'CMakeLists.txt')])


def tools_key():
    return tree_hash([os.path.join(VERIF, 'tools'), os.path.join(VERIF, 'harness'), os.path.join(VERIF, 'ocaml')])


def coq_src_key():
    return tree_hash([COQ], exts=('.v', '_CoqProject'))


def stamp_ok(name, key):
    p = os.path.join(CACHE, name + '.stamp')
    return os.path.exists(p) and open(p).read() == key


def stamp_set(name, key):
    open(os.path.join(CACHE, name + '.stamp'), 'w').write(key)


def install_if_changed(src, dst):
    """copy a regenerated file over the one the Coq build sees only when its content changed, so that
    unchanged generated parts do not trigger a rebuild of the proofs that depend on them"""
    new = open(src).read()
    if not os.path.exists(dst) or open(dst).read() != new:
        open(dst, 'w').write(new)


# ------------------------------------------------------------------------------ regeneration
def regenerate(log):
    """probe + kt -> coq/Gen/*.v ; returns dict(status) ; failures are recorded, not raised"""
    key = repo_key() + tools_key()
    st_path = os.path.join(CACHE, 'regen.json')
    with Lock('regen'):
        if stamp_ok('regen', key) and os.path.exists(st_path):
            return json.load(open(st_path))
        st = {'probe': 'ok', 'kt': {}, 'key': key}
        os.makedirs(os.path.join(COQ, 'Gen'), exist_ok=True)
        rc, out, dt = sh(['g++', '-std=c++14', '-O0', '-I' + os.path.join(REPO, 'src'), '-DUNIT_TEST', '-DENABLE_DIFOP_PARSE', '-D' + GUARD,
                          os.path.join(VERIF, 'tools/probe.cpp'), '-o', os.path.join(CACHE, 'probe'), '-lpthread'], timeout=300)
        log.append(f'[regen] probe build rc={rc} {dt:.1f}s')
        if rc != 0:
            st['probe'] = 'build failed: ' + out[-2000:]
        else:
            rc, out, dt = sh([os.path.join(CACHE, 'probe')], timeout=60)
            if rc != 0:
                st['probe'] = f'run failed rc={rc}: ' + out[-1000:]
            else:
                open(os.path.join(CACHE, 'probe.json'), 'w').write(out)
                tmpv = os.path.join(CACHE, 'Params_gen.v')
                rc, out2, dt = sh([sys.executable, os.path.join(VERIF, 'tools/gen_params.py'), os.path.join(CACHE, 'probe.json'), tmpv])
                if rc != 0:
                    st['probe'] = 'gen_params failed: ' + out2[-1500:]
                else:
                    install_if_changed(tmpv, os.path.join(COQ, 'Gen/Params_gen.v'))
        tmpk = os.path.join(CACHE, 'Kernels_gen.v')
        rc, out, dt = sh([sys.executable, os.path.join(VERIF, 'tools/kt.py'), REPO, tmpk], timeout=900)
        log.append(f'[regen] kt rc={rc} {dt:.1f}s')
        if os.path.exists(tmpk):
            install_if_changed(tmpk, os.path.join(COQ, 'Gen/Kernels_gen.v'))
        try:
            st['kt'] = json.load(open(tmpk + '.status.json'))
        except Exception:
            st['kt'] = {'_': 'kt crashed: ' + out[-1500:]}
        json.dump(st, open(st_path, 'w'), indent=1)
        stamp_set('regen', key)
        return st


# ------------------------------------------------------------------------------ Coq
def coq_build(targets, log):
    """make the given .vo targets (full build, -k). returns {target: ok?}, log text"""
    with Lock('coq'):
        if not os.path.exists(os.path.join(COQ, 'Makefile.coq')) or \
           os.path.getmtime(os.path.join(COQ, 'Makefile.coq')) < os.path.getmtime(os.path.join(COQ, '_CoqProject')):
            sh('coq_makefile -f _CoqProject -o Makefile.coq', cwd=COQ)
        cmd = 'timeout 1500 make -f Makefile.coq -k -j16 ' + ' '.join(targets)
        rc, out, dt = sh(cmd, cwd=COQ, timeout=1600)
        log.append(f'[coq] {cmd} rc={rc} {dt:.1f}s')
        res = {}
        for t in targets:
            # up to date w.r.t. ALL its dependencies (a stale .vo left by an earlier build does not count)
            rq, _, _ = sh(f'make -f Makefile.coq -q {t}', cwd=COQ, timeout=120)
            res[t] = (rq == 0) and os.path.exists(os.path.join(COQ, t))
        return res, out, cmd


def coq_assumptions(vfile):
    """compile-log independent: re-run coqc on a property file is expensive; instead parse the output of
    `Print Assumptions` captured at build time (make prints it). Here: run coqc on the file only (deps built)."""
    rc, out, dt = sh(f'timeout 600 coqc -Q . RS {vfile}', cwd=COQ, timeout=700)
    return rc, out


def assumptions_of(vfile):
    """`Print Assumptions` output of a property file (cached per compiled .vo)"""
    vo = os.path.join(COQ, vfile + 'o')
    cache = os.path.join(CACHE, 'assumptions', vfile.replace('/', '_') + '.txt')
    os.makedirs(os.path.dirname(cache), exist_ok=True)
    if not os.path.exists(vo):
        return ''
    if not os.path.exists(cache) or os.path.getmtime(cache) < os.path.getmtime(vo):
        with Lock('coq'):
            rc, out, dt = sh(f'timeout 900 coqc -Q . RS {vfile}', cwd=COQ, timeout=1000)
        open(cache, 'w').write(out if rc == 0 else '')
        # coqc rewrote the .vo: keep the cache newer than it
        os.utime(cache, None)
    return open(cache).read()


def summarize_assumptions(txt):
    """names of axioms reported (first token of each `name : type` entry under `Axioms:`), or 'Closed under the global context'"""
    names = set()
    closed = txt.count('Closed under the global context')
    for block in re.findall(r'Axioms:\n((?:.*\n)*?)(?=\S.*\n(?!\s)|\Z)', txt):
        pass
    for m in re.finditer(r'^([A-Za-z_][\w.]*)\s*$|^([A-Za-z_][\w.]*) :', txt, re.M):
        n = m.group(1) or m.group(2)
        if n and '.' in n and not n.startswith('RS.'):
            names.add(n)
    return closed, sorted(names)


def count_theorems(vfile):
    txt = open(os.path.join(COQ, vfile)).read()
    return re.findall(r'^\s*(?:Theorem|Example)\s+(\w+)', txt, re.M)


def hygiene():
    """the development must declare no axioms / admits / switched-off checks"""
    bad = []
    pat = re.compile(r'\b(Admitted|admit|Axiom|Axioms|Parameter|Parameters|Conjecture|Unset Guard Checking|bypass_check|Unset Positivity|Unset Universe Checking|type-in-type|impredicative-set|native_compute|Admit Obligations)\b')
    for dp, dn, fn in os.walk(COQ):
        for f in fn:
            if f.endswith('.v') or f == '_CoqProject':
                for n, line in enumerate(open(os.path.join(dp, f), errors='replace'), 1):
                    code = re.sub(r'\(\*.*?\*\)', '', line)
                    if pat.search(code):
                        bad.append(f'{os.path.relpath(os.path.join(dp, f), COQ)}:{n}: {line.strip()[:120]}')
                    if re.match(r'\s*(Variable|Variables|Hypothesis|Hypotheses|Context)\b', code):
                        # allowed only inside sections: checked coarsely by requiring a Section opener earlier in the file
                        txt = open(os.path.join(dp, f), errors='replace').read()
                        if 'Section ' not in txt:
                            bad.append(f'{f}:{n}: Variable/Hypothesis outside a Section')
    return bad


# ------------------------------------------------------------------------------ extraction + binaries
def build_model(log):
    key = coq_src_key() + repo_key() + tree_hash([os.path.join(VERIF, 'ocaml')])
    ml = os.path.join(CACHE, 'ml')
    with Lock('ml'):
        if stamp_ok('ml', key) and os.path.exists(os.path.join(ml, 'rsm')):
            return True, ''
        os.makedirs(ml, exist_ok=True)
        res, out, _ = coq_build(['Model/Scenario.vo', 'Gen/Kernels_gen.vo', 'Gen/Params_gen.vo', 'Model/Spec.vo', 'Model/Queue.vo', 'Model/Lifecycle.vo'], log)
        if not all(res.values()):
            return False, 'model does not compile: ' + out[-3000:]
        rc, out, dt = sh(f'timeout 600 coqc -Q {COQ} RS {COQ}/Extract/Extract.v', cwd=ml)
        log.append(f'[extract] rc={rc} {dt:.1f}s')
        if rc != 0:
            return False, 'extraction failed: ' + out[-3000:]
        shutil.copy(os.path.join(VERIF, 'ocaml/driver.ml'), ml)
        rc, out, dt = sh('ocamlfind ocamlopt -w -a -package unix model.mli model.ml driver.ml -o rsm', cwd=ml, timeout=600)
        log.append(f'[ocaml] rc={rc} {dt:.1f}s')
        if rc != 0:
            return False, 'ocaml build failed: ' + out[-3000:]
        # the queue / lifecycle models and their trace validator
        rc, out, dt = sh(f'timeout 600 coqc -Q {COQ} RS {COQ}/Extract/ExtractQ.v', cwd=ml)
        if rc != 0:
            return False, 'extraction (queue model) failed: ' + out[-3000:]
        shutil.copy(os.path.join(VERIF, 'ocaml/qv.ml'), ml)
        rc, out, dt = sh('ocamlfind ocamlopt -w -a qmodel.mli qmodel.ml qv.ml -o qv', cwd=ml, timeout=600)
        log.append(f'[ocaml qv] rc={rc} {dt:.1f}s')
        if rc != 0:
            return False, 'ocaml build (qv) failed: ' + out[-3000:]
        stamp_set('ml', key)
        return True, ''


HARNESS_VARIANTS = {
    # name: (compiler, flags)
    'asan': ('clang++', '-O1 -g0 -fsanitize=address,undefined -fno-sanitize-recover=all'),
    'tsan': ('clang++', '-O1 -g0 -fsanitize=thread'),
    'plain': ('g++', '-O1'),
}


def build_harness(variant, log, defines=()):
    comp, flags = HARNESS_VARIANTS[variant.split('+')[0]]
    name = 'rsh_' + variant.replace('+', '_') + ''.join('_' + d for d in defines)
    key = repo_key() + tree_hash([os.path.join(VERIF, 'harness/rsh.cpp')]) + flags
    exe = os.path.join(CACHE, name)
    with Lock(name):
        if stamp_ok(name, key) and os.path.exists(exe):
            return exe, ''
        dflags = ' '.join('-D' + d for d in defines)
        inc = '-I' + os.path.join(REPO, 'src')
        if 'ENABLE_TRANSFORM' in defines:
            inc += ' -I/usr/include/eigen3'
        cmd = f'{comp} -std=c++14 {flags} -D{GUARD} {dflags} {inc} {VERIF}/harness/rsh.cpp -o {exe} -lpcap -lpthread'
        rc, out, dt = sh(cmd, timeout=900)
        log.append(f'[harness] {name} rc={rc} {dt:.1f}s')
        if rc != 0:
            return None, out[-4000:]
        stamp_set(name, key)
        return exe, ''


def run_impl(exe, infile, outfile, timeout=900, env_extra=None):
    env = dict(os.environ)
    env['ASAN_OPTIONS'] = 'detect_leaks=0:abort_on_error=0:exitcode=66'
    env['UBSAN_OPTIONS'] = 'print_stacktrace=0:halt_on_error=1:exitcode=67'
    env['TSAN_OPTIONS'] = 'exitcode=68:halt_on_error=1'
    if env_extra:
        env.update(env_extra)
    rc, out, dt = sh([exe, infile, outfile], timeout=timeout, env=env)
    return rc, out, dt


def run_qv(infile, outfile, timeout=900):
    rc, out, dt = sh([os.path.join(CACHE, 'ml', 'qv'), infile, outfile], timeout=timeout)
    return rc, out, dt


def run_model(infile, outfile, timeout=900):
    # the extracted list functions are not tail-recursive: frames of several hundred thousand points need a deep stack
    rc, out, dt = sh(f"ulimit -s unlimited 2>/dev/null || ulimit -s 1000000; exec {os.path.join(CACHE, 'ml', 'rsm')} {infile} {outfile}", timeout=timeout)
    return rc, out, dt


# ------------------------------------------------------------------------------ findings / evidence
def load_known():
    known, fixed = [], []
    p = os.path.join(VERIF, 'KNOWN_FINDINGS.txt')
    if os.path.exists(p):
        for line in open(p):
            line = line.strip()
            m = re.match(r'known:\s+property=(\w+)\s+key=(\S+)\s*(.*)', line)
            if m:
                known.append((m.group(1), m.group(2), m.group(3)))
            m = re.match(r'fixed:\s+property=(\w+)\s+(\S+)\s*(.*)', line)
            if m:
                fixed.append((m.group(1), m.group(2), m.group(3)))
    return known, fixed


def write_evidence(pid, tier, seed, coverage, wall, violations, assumptions):
    os.makedirs(os.path.join(VERIF, 'evidence'), exist_ok=True)
    ev = {'property_id': pid, 'tier': tier, 'seed': seed, 'level': 'proof', 'coverage': coverage,
          'assumptions': assumptions, 'wall_s': round(wall, 2), 'violations': violations}
    json.dump(ev, open(os.path.join(VERIF, 'evidence', pid + '.json'), 'w'), indent=1)


TRUSTED_BASE = [
    'Coq 8.16.1 kernel (coqc, full .vo build); vm_compute used for finite sweeps and examples; native_compute not used',
    'no Axiom/Parameter/Admitted in the development (checked by grep on every run)',
    'translators: tools/probe.cpp + tools/gen_params.py (layouts/constants/tables), tools/kt.py (clang-14 JSON AST -> Gallina kernels)',
    'extraction: ExtrOcamlBasic only (bool, option, unit, list, prod, sumbool, sumor mapped to OCaml types); OCaml 4.13.1',
    'correspondence glue: harness/rsh.cpp, ocaml/driver.ml (numeric evaluation of projections, printing), harness/compare.py tolerances (1 mm + 2^-20 rel, 1 us)',
    'g++ 12 / clang 14, ASan/UBSan/TSan, glibc mktime/localtime, libpcap',
    'modelled, not verified: the C++ text itself (no C++ semantics in Coq); tie = regeneration + differential correspondence',
]
