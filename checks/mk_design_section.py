#!/usr/bin/env python3
"""Rewrites DESIGN.md section 6.0 (the as-built, per-property summary) from checks/claims.json and the theorem names in coq/Props."""
import json, os, re
V = os.path.dirname(os.path.dirname(os.path.abspath(__file__)))
claims = json.load(open(f'{V}/checks/claims.json'))
s = open(f'{V}/DESIGN.md').read()
a = s.index('### 6.0 As built, property by property')
b = s.index('### C01 — every wire sample')
head = s[a:s.index('* **C01**', a)]
out = [head]
for pid in sorted(claims):
    c = claims[pid]
    names = re.findall(r'^\s*(?:Theorem|Example)\s+(\w+)', open(f'{V}/coq/Props/Properties_{pid}.v').read(), re.M)
    out.append(f"* **{pid}** — theorems in `Props/Properties_{pid}.v`: " + ', '.join(f'`{n}`' for n in names) + '.  \n'
               f"  {c['text']}  \n  *Limits:* {c['note']}  \n  *Technique:* {c['technique']}\n\n")
s = s[:a] + ''.join(out) + s[b:]
open(f'{V}/DESIGN.md', 'w').write(s)
print('section 6.0 rewritten for', len(claims), 'properties')
