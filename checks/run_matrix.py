#!/usr/bin/env python3
"""run_matrix.py [ids...] - applies every seeded change under /verif/seeded to /repo in turn, runs the quick check of its
property (and, with --cross, of the other properties listed in CROSS), undoes it, and records what fired in
seeded/MATRIX.md and in each meta.json ("verif" field).  /repo must be clean when it starts."""
import json, os, re, subprocess, sys, time
V = '/verif'
def sh(cmd, **kw):
    return subprocess.run(cmd, shell=True, capture_output=True, text=True, **kw)
def scratch_one(d):
    """one seeded change in a scratch worktree of /repo + a private copy of /verif (RS_REPO points at the worktree): /repo,
    /verif/.cache and /verif/evidence are not touched, so several can run at once and other work can go on"""
    pid = d.split('-')[0]
    p = f'{V}/seeded/{d}/patch.diff'
    W, VH = f'/tmp/mx_wt_{d}', f'/tmp/mx_vh_{d}'
    sh(f'git -C /repo worktree remove --force {W}; rm -rf {W} {VH}')
    r = sh(f'git -C /repo worktree add -q --detach {W} HEAD && git -C {W} apply {p}')
    if r.returncode != 0:
        sh(f'git -C /repo worktree remove --force {W}')
        return d, pid, None, 'patch does not apply', 0, ''
    sh(f'rsync -a --delete --exclude .git --exclude replays {V}/ {VH}/')
    t0 = time.time()
    r = sh(f'cd {VH} && RS_REPO={W} python3 checks/run_check.py {pid} --tier quick', timeout=2400)
    dt = time.time() - t0
    sh(f'git -C /repo worktree remove --force {W}; rm -rf {VH}')
    return d, pid, r.returncode, r.stdout + r.stderr, dt, f'scratch worktree of /repo with the patch applied, RS_REPO pointing at it, private copy of /verif'


FIELD = ([a.split('=')[1] for a in sys.argv[1:] if a.startswith('--field=')] or ['verif'])[0]


def record(d, pid, rc, out, dt, how):
    fired = rc == 1 and ('VIOLATION property=' + pid) in out
    keys = re.findall(r'violations by key: (\{.*\})', out)
    m = re.search(r'VIOLATION property=\S+ replay=\S+.*\n\s+(.*)', out)
    first = m.group(1)[:160] if m else ''
    mp = f'{V}/seeded/{d}/meta.json'
    try:
        meta = json.load(open(mp))
    except Exception:
        meta = {}
    meta[FIELD] = {'seed': os.environ.get('VERIF_SEED', '1'), 'applied_with': how, 'check': f'python3 checks/run_check.py {pid} --tier quick', 'exit': rc,
                     'detected': bool(fired), 'violations_by_key': keys[0] if keys else None, 'first_report': first, 'wall_s': round(dt, 1)}
    json.dump(meta, open(mp, 'w'), indent=1)
    return fired


def write_table():
    with open(f'{V}/seeded/MATRIX.md', 'w') as f:
        f.write('# Seeded changes vs checks (quick tier, seed 1)\n\nEach row: the change was applied to a checkout of /repo (either `git -C /repo apply` + undo, or a scratch worktree of /repo with '
                '`RS_REPO` pointing at it - see `verif.applied_with` in each meta.json), the property\'s quick check was run against it, the change was discarded.\n\n'
                '| change | property | result | what fired | wall s |\n|---|---|---|---|---|\n')
        for d in sorted(os.listdir(f'{V}/seeded')):
            mp = f'{V}/seeded/{d}/meta.json'
            if not os.path.exists(mp):
                continue
            v = json.load(open(mp)).get('verif')
            if not v:
                continue
            what = ((v.get('violations_by_key') or '') + ' :: ' + (v.get('first_report') or '')).replace('|', '/')
            f.write(f"| {d} | {d.split('-')[0]} | {'DETECTED' if v.get('detected') else 'missed'} | {what} | {v.get('wall_s', 0):.0f} |\n")


def main():
    only = [a for a in sys.argv[1:] if not a.startswith('-')]
    par = [int(a.split('=')[1]) for a in sys.argv[1:] if a.startswith('--scratch=')]
    if par:
        from concurrent.futures import ThreadPoolExecutor
        ds = [d for d in sorted(os.listdir(f'{V}/seeded')) if os.path.exists(f'{V}/seeded/{d}/patch.diff') and (not only or d in only or d.split('-')[0] in only)]
        missed = []
        with ThreadPoolExecutor(par[0]) as ex:
            for (d, pid, rc, out, dt, how) in ex.map(scratch_one, ds):
                if rc is None:
                    print((d, pid, out), flush=True); missed.append(d); continue
                ok = record(d, pid, rc, out, dt, how)
                print((d, pid, 'DETECTED' if ok else 'missed', round(dt)), flush=True)
                if not ok:
                    missed.append(d)
        if FIELD == 'verif':
            write_table()
        print('missed:', missed)
        return
    st = sh('git -C /repo status --porcelain --untracked-files=no').stdout.strip()
    if st:
        print('repo not clean:', st); sys.exit(2)
    rows = []
    for d in sorted(os.listdir(f'{V}/seeded')):
        p = f'{V}/seeded/{d}/patch.diff'
        if not os.path.exists(p) or (only and d not in only and d.split('-')[0] not in only):
            continue
        pid = d.split('-')[0]
        r = sh(f'git -C /repo apply {p}')
        if r.returncode != 0:
            rows.append((d, pid, 'patch does not apply', '', 0)); continue
        ev = f'{V}/evidence/{pid}.json'
        saved = open(ev).read() if os.path.exists(ev) else None      # evidence of a run on a changed tree is not kept
        t0 = time.time()
        r = sh(f'python3 {V}/checks/run_check.py {pid} --tier quick', timeout=1800)
        dt = time.time() - t0
        sh('git -C /repo checkout -- .')
        if saved is not None:
            open(ev, 'w').write(saved)
        out = r.stdout + r.stderr
        fired = 'VIOLATION property=' + pid in out
        keys = re.findall(r'violations by key: (\{.*\})', out)
        first = ''
        m = re.search(r'VIOLATION property=\S+ replay=\S+.*\n\s+(.*)', out)
        if m: first = m.group(1)[:160]
        rows.append((d, pid, 'DETECTED' if fired and r.returncode == 1 else 'missed', (keys[0] if keys else '') + ' :: ' + first, dt))
        mp = f'{V}/seeded/{d}/meta.json'
        try:
            meta = json.load(open(mp))
        except Exception:
            meta = {}
        meta['verif'] = {'applied_with': f'git -C /repo apply {p}', 'check': f'python3 checks/run_check.py {pid} --tier quick', 'exit': r.returncode,
                         'detected': bool(fired and r.returncode == 1), 'violations_by_key': keys[0] if keys else None, 'first_report': first,
                         'undone_with': 'git -C /repo checkout -- .', 'wall_s': round(dt, 1)}
        json.dump(meta, open(mp, 'w'), indent=1)
        print(rows[-1][:3], flush=True)
    # the table is rebuilt from every meta.json, so a partial run refreshes only its own rows
    with open(f'{V}/seeded/MATRIX.md', 'w') as f:
        f.write('# Seeded changes vs checks (quick tier, seed 1)\n\nEach row: the change was applied with `git -C /repo apply`, the property\'s quick check was run, the change was undone.\n\n'
                '| change | property | result | what fired | wall s |\n|---|---|---|---|---|\n')
        for d in sorted(os.listdir(f'{V}/seeded')):
            mp = f'{V}/seeded/{d}/meta.json'
            if not os.path.exists(mp):
                continue
            v = json.load(open(mp)).get('verif')
            if not v:
                continue
            what = ((v.get('violations_by_key') or '') + ' :: ' + (v.get('first_report') or '')).replace('|', '/')
            f.write(f"| {d} | {d.split('-')[0]} | {'DETECTED' if v.get('detected') else 'missed'} | {what} | {v.get('wall_s', 0):.0f} |\n")
    print('missed:', [r[0] for r in rows if r[2] != 'DETECTED'])
if __name__ == '__main__':
    main()
