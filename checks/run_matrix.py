#!/usr/bin/env python3
"""run_matrix.py [ids...] - applies every seeded change under /verif/seeded to /repo in turn, runs the quick check of its
property (and, with --cross, of the other properties listed in CROSS), undoes it, and records what fired in
seeded/MATRIX.md and in each meta.json ("verif" field).  /repo must be clean when it starts."""
import json, os, re, subprocess, sys, time
V = '/verif'
def sh(cmd, **kw):
    return subprocess.run(cmd, shell=True, capture_output=True, text=True, **kw)
def main():
    only = [a for a in sys.argv[1:] if not a.startswith('-')]
    st = sh('git -C /repo status --porcelain --untracked-files=no').stdout.strip()
    if st:
        print('repo not clean:', st); sys.exit(2)
    rows = []
    for d in sorted(os.listdir(f'{V}/seeded')):
        p = f'{V}/seeded/{d}/patch.diff'
        if not os.path.exists(p) or (only and d not in only and d.split('-')[0] not in only):
            continue
        pid = d.split('-')[0]
        r = sh(f'git -C /repo apply {p}')
        if r.returncode != 0:
            rows.append((d, pid, 'patch does not apply', '', 0)); continue
        ev = f'{V}/evidence/{pid}.json'
        saved = open(ev).read() if os.path.exists(ev) else None      # evidence of a run on a changed tree is not kept
        t0 = time.time()
        r = sh(f'python3 {V}/checks/run_check.py {pid} --tier quick', timeout=1800)
        dt = time.time() - t0
        sh('git -C /repo checkout -- .')
        if saved is not None:
            open(ev, 'w').write(saved)
        out = r.stdout + r.stderr
        fired = 'VIOLATION property=' + pid in out
        keys = re.findall(r'violations by key: (\{.*\})', out)
        first = ''
        m = re.search(r'VIOLATION property=\S+ replay=\S+.*\n\s+(.*)', out)
        if m: first = m.group(1)[:160]
        rows.append((d, pid, 'DETECTED' if fired and r.returncode == 1 else 'missed', (keys[0] if keys else '') + ' :: ' + first, dt))
        mp = f'{V}/seeded/{d}/meta.json'
        try:
            meta = json.load(open(mp))
        except Exception:
            meta = {}
        meta['verif'] = {'applied_with': f'git -C /repo apply {p}', 'check': f'python3 checks/run_check.py {pid} --tier quick', 'exit': r.returncode,
                         'detected': bool(fired and r.returncode == 1), 'violations_by_key': keys[0] if keys else None, 'first_report': first,
                         'undone_with': 'git -C /repo checkout -- .', 'wall_s': round(dt, 1)}
        json.dump(meta, open(mp, 'w'), indent=1)
        print(rows[-1][:3], flush=True)
    # the table is rebuilt from every meta.json, so a partial run refreshes only its own rows
    with open(f'{V}/seeded/MATRIX.md', 'w') as f:
        f.write('# Seeded changes vs checks (quick tier, seed 1)\n\nEach row: the change was applied with `git -C /repo apply`, the property\'s quick check was run, the change was undone.\n\n'
                '| change | property | result | what fired | wall s |\n|---|---|---|---|---|\n')
        for d in sorted(os.listdir(f'{V}/seeded')):
            mp = f'{V}/seeded/{d}/meta.json'
            if not os.path.exists(mp):
                continue
            v = json.load(open(mp)).get('verif')
            if not v:
                continue
            what = ((v.get('violations_by_key') or '') + ' :: ' + (v.get('first_report') or '')).replace('|', '/')
            f.write(f"| {d} | {d.split('-')[0]} | {'DETECTED' if v.get('detected') else 'missed'} | {what} | {v.get('wall_s', 0):.0f} |\n")
    print('missed:', [r[0] for r in rows if r[2] != 'DETECTED'])
if __name__ == '__main__':
    main()
