#!/usr/bin/env python3
"""run_check.py <PROPERTY_ID> [--tier quick|thorough] [--replay FILE]

Decides one property: regenerates the model's generated parts from /repo, re-checks the property's
theorems with coqc, runs the correspondence (extracted model vs real code) on generated scenarios,
applies the property's oracle to the implementation's output, writes evidence/<id>.json and prints
VIOLATION / KNOWN-FINDING lines.  Exit 0 = held on everything explored, 1 = violation."""
import argparse, importlib, json, os, random, re, sys, time

HERE = os.path.dirname(os.path.abspath(__file__))
sys.path.insert(0, HERE)
import common as C
import compare as CMP
import pktgen


def main():
    ap = argparse.ArgumentParser()
    ap.add_argument('pid')
    ap.add_argument('--tier', default=os.environ.get('VERIF_TIER', 'quick'))
    ap.add_argument('--replay', default=None)
    a = ap.parse_args()
    seed = int(os.environ.get('VERIF_SEED', '1'))
    t0 = time.time()
    pid = a.pid
    mod = importlib.import_module('props.' + pid)
    P = mod.Prop()
    log = []
    violations = []       # (key, description, replay_payload)
    broken = []           # obligations / correspondences that no longer check (no concrete input yet)
    known, fixed = C.load_known()
    known_keys = {k: d for (p, k, d) in known if p == pid}

    # 1. regenerate
    reg = C.regenerate(log)
    if reg['probe'] != 'ok':
        broken.append('parameter/layout translator (tools/probe.cpp): ' + reg['probe'][:500])
    for kname in P.kernels:
        st = reg['kt'].get(kname, 'missing')
        if st != 'ok':
            broken.append(f'kernel translator could not translate {kname}: {st[:300]}')

    # 2. prove
    vo_res, coq_out, coq_cmd = C.coq_build(P.vo_targets, log)
    theorems = []
    for f in P.prop_files:
        theorems += C.count_theorems(f)
    obligations = len(theorems) + len(P.vo_targets) - len(P.prop_files)
    discharged = 0
    for t, ok in vo_res.items():
        src = t[:-1]
        if ok:
            discharged += len(C.count_theorems(src)) if src in P.prop_files else 1
        else:
            m = re.search(r'File "\./' + re.escape(src) + r'", line (\d+)', coq_out)
            where = f' (first error at line {m.group(1)})' if m else ''
            if src in P.prop_files and m:
                # theorems stated before the failing line were accepted
                txt = open(os.path.join(C.COQ, src)).read().split('\n')[:int(m.group(1)) - 1]
                discharged += len(re.findall(r'^\s*(?:Theorem|Example)\s+\w+', '\n'.join(txt), re.M)) - 1 if False else 0
            err = ''
            if m:
                i = coq_out.find(m.group(0))
                err = coq_out[i:i + 600].replace('\n', ' | ')
            broken.append(f'proof obligation {src} no longer checks{where}: {err}')
    closed_n, axiom_names = 0, []
    for f in P.prop_files:
        if vo_res.get(f + 'o'):
            cn, names = C.summarize_assumptions(C.assumptions_of(f))
            closed_n += cn; axiom_names += names
    hyg = C.hygiene()
    if hyg:
        broken.append('hygiene: ' + '; '.join(hyg[:5]))

    # 3. build executable sides
    ok, why = C.build_model(log)
    if not ok:
        broken.append('model/extraction: ' + why[:800])
    exes = {}
    from concurrent.futures import ThreadPoolExecutor
    with ThreadPoolExecutor(max_workers=8) as ex:
        futs = {v: ex.submit(C.build_harness, v, log, P.defines.get(v, ())) for v in P.harness_variants}
    for v in P.harness_variants:
        exe, why = futs[v].result()
        if exe is None:
            broken.append(f'harness build ({v}) failed against the current tree: ' + why[-800:])
        exes[v] = exe

    # 4. correspond
    stats = {'evaluations': 0, 'distinct_nontrivial': 0, 'classes': {}, 'samples': []}
    if ok and all(exes.values()):
        L, G = pktgen.load(os.path.join(C.CACHE, 'probe.json'))
        P.setup(L, G, C)
        P.exes = exes
        rng = random.Random(seed)
        work = os.path.join(C.CACHE, 'work', pid)
        os.makedirs(work, exist_ok=True)
        if a.replay:
            batches = [('replay', open(a.replay).read())]
        else:
            batches = P.generate(rng, a.tier)
        for bi, (bname, text) in enumerate(batches):
            inp = os.path.join(work, f'{bname}.in')
            open(inp, 'w').write(text)
            variant = P.variant_for(P.replay_batch(text) if bname == 'replay' and hasattr(P, 'replay_batch') else bname)
            rc_i, out_i, dt_i = C.run_impl(exes[variant], inp, inp[:-3] + '.impl', timeout=getattr(P, 'impl_timeout', 900), env_extra=P.env_for(bname))
            rc_m, out_m, dt_m = C.run_model(inp, inp[:-3] + '.model')
            log.append(f'[run] {bname}: impl rc={rc_i} {dt_i:.1f}s, model rc={rc_m} {dt_m:.1f}s')
            if rc_i != 0:
                broken.append(f'harness run failed on batch {bname} rc={rc_i}: {out_i[-400:]}')
                continue
            if rc_m != 0:
                broken.append(f'model run failed on batch {bname} rc={rc_m}: {out_m[-400:]}')
                continue
            P.judge(bname, inp, inp[:-3] + '.impl', inp[:-3] + '.model', out_i, violations, broken, stats)

    # 5. decide
    os.makedirs(os.path.join(C.VERIF, 'replays'), exist_ok=True)
    rc = 0
    reported_known = set()
    nviol = 0
    for (key, desc, payload) in violations:
        if key in known_keys:
            if key not in reported_known:
                print(f'KNOWN-FINDING: property={pid} {key} {known_keys[key]}')
                reported_known.add(key)
            continue
        nviol += 1
        if nviol <= 5:
            rp = os.path.join(C.VERIF, 'replays', f'{pid}-{seed}-{nviol}.scn')
            open(rp, 'w').write(payload + f'\n# property {pid}: {desc}\n')
            print(f'VIOLATION property={pid} replay={rp}')
            print(f'  {desc[:400]}')
        rc = 1
    if nviol == 0 and broken:
        rp = os.path.join(C.VERIF, 'replays', f'{pid}-{seed}-broken.txt')
        open(rp, 'w').write('\n'.join(['# no failing input found; the following no longer check:'] + broken) + '\n')
        print(f'VIOLATION property={pid} replay={rp} no-failing-input-found')
        for b in broken[:6]:
            print('  ' + b[:400])
        rc = 1
        nviol = 1

    cov = {
        'obligations': obligations, 'discharged': discharged if not broken else min(discharged, obligations - 1),
        'checker_cmd': f'cd {C.COQ} && {coq_cmd}',
        'trusted_base': C.TRUSTED_BASE + P.trusted_extra,
        'theorems': theorems,
        'print_assumptions': {'closed_under_the_global_context': closed_n, 'axioms': sorted(set(axiom_names))},
        'evaluations': stats['evaluations'], 'distinct_nontrivial': stats['distinct_nontrivial'],
        'rule': P.rule, 'boundary_classes': stats['classes'], 'samples': stats['samples'][:4],
        'regenerated': {'kernels': {k: reg['kt'].get(k) for k in P.kernels}, 'probe': reg['probe'][:60]},
        'known_findings_reported': sorted(reported_known),
        'broken': broken[:10],
        'explanation': P.explanation,
    }
    C.write_evidence(pid, a.tier, seed, cov, time.time() - t0, nviol, P.assumptions)
    if os.environ.get('VERIF_VERBOSE'):
        print('\n'.join(log))
    bykey = {}
    for (key, desc, payload) in violations:
        bykey[key] = bykey.get(key, 0) + 1
    if bykey:
        print(f'[{pid}] violations by key: {bykey}')
    print(f'[{pid}] tier={a.tier} seed={seed} obligations={obligations} discharged={cov["discharged"]} '
          f'evaluations={stats["evaluations"]} nontrivial={stats["distinct_nontrivial"]} violations={nviol} wall={time.time() - t0:.1f}s')
    sys.exit(rc)


if __name__ == '__main__':
    main()
