#!/usr/bin/env python3
"""setup: build the framework from files on disk (offline): regenerate, full Coq build, extraction,
OCaml model, harness variants.  Warm caches for the per-property checks."""
import os, sys, time
HERE = os.path.dirname(os.path.abspath(__file__))
sys.path.insert(0, HERE)
import common as C
from concurrent.futures import ThreadPoolExecutor

t0 = time.time()
log = []
reg = C.regenerate(log)
print('regen:', reg['probe'][:80], reg['kt'])
C.sh('coq_makefile -f _CoqProject -o Makefile.coq', cwd=C.COQ)
with ThreadPoolExecutor(4) as ex:
    futs = [ex.submit(C.build_harness, v, log) for v in ('asan', 'tsan')]
    rc, out, dt = C.sh('timeout 3000 make -f Makefile.coq -k -j12', cwd=C.COQ, timeout=3100)
    print(f'coq full build rc={rc} {dt:.0f}s')
    if rc != 0:
        print(out[-3000:])
    for f in futs:
        exe, why = f.result()
        print('harness:', exe, why[-300:] if not exe else '')
ok, why = C.build_model(log)
print('model:', ok, why[:500])
print('\n'.join(log))
print(f'setup done in {time.time() - t0:.0f}s')
