#!/bin/bash
# Re-bases every seeded patch that no longer applies to /repo's HEAD with plain `git apply` (context moved by
# later fix / hook commits): applies it with fuzz in a scratch worktree and regenerates patch.diff from `git diff`.
set -u
W=/tmp/rebase_wt_$$
git -C /repo worktree add --detach $W HEAD >/dev/null 2>&1
for d in /verif/seeded/*/; do
  p=$d/patch.diff
  [ -f $p ] || continue
  if git -C $W apply --check $p 2>/dev/null; then continue; fi
  if (cd $W && patch -p1 -F3 --no-backup-if-mismatch -s < $p) 2>/dev/null; then
    find $W -name '*.orig' -delete; find $W -name '*.rej' -delete
    [ -f $d/patch.orig.diff ] || cp $p $d/patch.orig.diff
    git -C $W diff > $p
    echo "rebased $(basename $d)"
  else
    echo "CANNOT rebase $(basename $d)"
  fi
  git -C $W checkout -q -- . ; git -C $W clean -fdq
done
git -C /repo worktree remove --force $W
