"""C03 - Mechanical frames split exactly at every crossing of the split angle."""
from props.base import PropBase
import pktgen

MECH = ['RS16', 'RS32', 'RSBP', 'RSHELIOS', 'RSHELIOS_16P', 'RS128', 'RS80', 'RS48', 'RSP128', 'RSP80', 'RSP48']
SPLITS = [0, 1, 1000, 17999, 18000, 35980, 35990, 35999]
STEPS = [0, 1, 20, 99, 100, 101, 400, 17999, 35999]


class Prop(PropBase):
    pid = 'C03'
    kernels = ['SplitStrategyByAngle']
    vo_targets = ['Props/Properties_C03.vo', 'Proofs/Eq_SplitAngle.vo', 'Proofs/SplitAngle.vo']
    prop_files = ['Props/Properties_C03.v']
    rule = ('kernel lattice: (split, prev, angle) triples around the split angle, 0 and 35999, fed to the real SplitStrategyByAngle; '
            'driver scenarios: azimuth streams (steps 0..35999 cdeg, all phases) through the real decoders of all 11 mechanical types; '
            'non-trivial = at least one cloud boundary or a boundary-adjacent triple; distinct = distinct (class, outcome)')
    explanation = ('Theorems C03_T0..T4 (Coq) over the kernel regenerated from split_strategy.hpp by kt.py; correspondence of the '
                   'extracted model against the real decoders on cloud boundaries and is_frame_begin flags')
    assumptions = ['azimuths on the wire are < 36000 (property quantifier)', 'the decoder calls the split kernel once per block before the block\'s points (checked by correspondence on all 11 types)']
    projection = {'kinds': {'cloud', 'pkt', 'open', 'crash'}, 'ignore_ts': True, 'ignore_pkt_bytes': True, 'drop_points': True}

    def kernel_class(self, k):
        _, _, s, p, a = k.split()
        s, p, a = int(s), int(p), int(a)
        d = (a - p) % 36000
        e = (s - p) % 36000
        if a < p:
            return 'wrap+' + ('cross' if 0 < e <= d else 'nocross')
        if e == d:
            return 'land-on-split'
        if e == d + 1 or e == 0:
            return 'adjacent'
        return 'cross' if 0 < e <= d else 'plain'

    def kernel_verdict(self, k, impl, model, spec):
        _, _, s, p, a = k.split()
        if all(0 <= int(x) < 36000 for x in (s, p, a)):
            if spec is not None and impl[2] != spec[0]:
                return f'the forward arc ({p}, {a}] {"contains" if spec[0] == "1" else "does not contain"} split angle {s} (spec crosses = {spec[0]})'
            if impl[3] != a:
                return f'the kernel must remember azimuth {a}'
        return None

    def generate(self, rng, tier):
        out = []
        # ---- kernel lattice
        ks = []
        splits = SPLITS + [rng.randrange(36000) for _ in range(4 if tier == 'quick' else 12)]
        for s in splits:
            pts = set()
            for base in (s, 0, 35999, (s + 18000) % 36000):
                for d in (-2, -1, 0, 1, 2, 20, -20, 100, -100):
                    pts.add((base + d) % 36000)
            step = 3000 if tier == 'quick' else 50
            lat = sorted(pts | set(range(0, 36000, step)))
            near = sorted(pts)
            for p in (lat if tier != 'quick' else near + lat[::3]):
                for a in near:
                    ks.append(f'K angle {s} {p} {a}')
            for _ in range(200 if tier == 'quick' else 5000):
                ks.append(f'K angle {s} {rng.randrange(36000)} {rng.randrange(36000)}')
        out.append(('kern', '\n'.join(ks) + '\n'))
        # ---- driver scenarios
        scn = []
        types = MECH
        reps = 2 if tier == 'quick' else 12
        for name in types:
            l = self.L[name]
            for r in range(reps):
                s = rng.choice(SPLITS + [rng.randrange(36000)])
                dual = rng.random() < 0.3
                cfg = pktgen.Cfg(angle=s, pktcb=1, wait=1)
                if r % 2 == 1:
                    # a restricted field of view that does NOT contain the split angle (or starts exactly at it): frames are
                    # cut by the azimuth of the blocks, whether or not their points survive the window
                    w = rng.choice([3000, 9000, 17000])
                    st_ = (s + rng.choice([0, 1, 100, 9000])) % 36000
                    cfg.start, cfg.end = st_, (st_ + w) % 36000
                lines = [f'S c03_{name}_{r}_s{s}', cfg.line(0, l), 'I 0', 'W 10', 'P 0 ' + l.difop(dual=dual, rpm=rng.choice([300, 600, 1200])).hex()]
                # start within a few steps before the split angle so boundaries happen early
                az = (s - rng.choice([0, 1, 19, 20, 21, 50, 399, 5000])) % 36000
                npk = rng.choice([2, 3, 4])
                t = 12
                for k in range(npk):
                    blocks = []
                    for b in range(l.nblk):
                        blocks.append((az, [(rng.choice([0, 400, 2000]), (k * 16 + b) % 256)] * l.nchan))
                        st = rng.choice(STEPS) if rng.random() < 0.3 else rng.choice([18, 20, 22, 40])
                        if rng.random() < 0.15:
                            st = (s - az) % 36000 + rng.choice([-1, 0, 1])   # land on / next to the split angle
                        az = (az + st) % 36000
                    if rng.random() < 0.1:
                        az = (az + rng.choice([240, 2400, 12000])) % 36000    # whole-packet loss
                    lines += [f'W {t}', 'P 0 ' + l.msop(blocks).hex()]
                    t += 2
                lines += ['R 0', 'E']
                scn.append('\n'.join(lines))
        # revolutions that hold very few valid points (0, 1, lasers-1, lasers, ...) in dense and NaN-kept output: each crossing still
        # begins a new cloud and every non-empty frame is delivered on its own
        import scen as _scen
        for ti, name in enumerate(types):
            for dn in (1, 0):
                if tier == 'quick' and dn == 0 and ti % 3 != 0:
                    continue
                scn.append(_scen.sparse_scenario(rng, self.L, name, f'c03_sparse_{name}_{"d" if dn else "n"}', dense=dn, angle=[0, 12345, 35990][ti % 3], pktcb=1))
        # the crossing placed at every block position of a packet in turn (single and dual return, every type): whichever block
        # of a packet crosses the split angle opens the cloud
        for ti, name in enumerate(types):
            l = self.L[name]
            for r in range(min(l.nblk, 3) if tier == 'quick' else l.nblk):
                for dual in (False, True):
                    s = rng.choice([0, 100, 18000, 35990])
                    tb = (ti * 2 + r + (1 if dual else 0)) % l.nblk
                    step = rng.choice([18, 20, 40])
                    az = (s - step * (l.nblk + tb) + step // 2) % 36000      # block tb of the second packet is the first at / past s
                    cfg = pktgen.Cfg(angle=s, pktcb=1, wait=1)
                    lines = [f'S c03_pos_{name}_{r}_{"d" if dual else "s"}_b{tb}', cfg.line(0, l), 'I 0', 'W 10', 'P 0 ' + l.difop(dual=dual, rpm=600).hex()]
                    t = 12
                    for k in range(3):
                        blocks = []
                        for b in range(l.nblk):
                            blocks.append((az, [(rng.choice([400, 2000]), (k * 16 + b) % 256)] * l.nchan))
                            az = (az + step) % 36000
                        lines += [f'W {t}', 'P 0 ' + l.msop(blocks).hex()]
                        t += 2
                    lines += ['R 0', 'E']
                    scn.append('\n'.join(lines))
        # two instances of one type, packets interleaved: instance 1 crosses its split angle with the FIRST block of a packet whose
        # azimuth equals the last azimuth of the packet instance 0 handled just before (the split state belongs to the instance)
        for ti, name in enumerate(types):
            l = self.L[name]
            s1 = rng.choice([18000, 9000, 100])
            X = s1 + 5
            cfg0 = pktgen.Cfg(angle=0, pktcb=1, wait=1); cfg1 = pktgen.Cfg(angle=s1, pktcb=1, wait=1)
            def pk(azs):
                return l.msop([(a % 36000, [(rng.choice([400, 2000]), b % 256)] * l.nchan) for b, a in enumerate(azs)])
            n = l.nblk
            b_before = [X - 20 * (n - k) for k in range(n)]              # instance 1: ..., X-40, X-20
            a_mid = [X - 41 * (n - 1 - k) for k in range(n)]             # instance 0: ..., X-41, X   (ends exactly at X)
            b_after = [X + 20 * k for k in range(n)]                     # instance 1: X, X+20, ...  (first block crosses s1)
            lines = [f'S c03_pair_{name}', cfg0.line(0, l), 'I 0', cfg1.line(1, l), 'I 1', 'W 10',
                     'P 0 ' + l.difop(rpm=600).hex(), 'P 1 ' + l.difop(rpm=600).hex(),
                     'W 12', 'P 1 ' + pk(b_before).hex(), 'W 14', 'P 0 ' + pk(a_mid).hex(), 'W 16', 'P 1 ' + pk(b_after).hex(),
                     'W 18', 'P 0 ' + pk([X + 41 * (k + 1) for k in range(n)]).hex(), 'R 0', 'R 1', 'E']
            scn.append('\n'.join(lines))
        out.append(('drv', '\n'.join(scn) + '\n'))
        return out

    def classify(self, name, lines):
        n = sum(1 for l in lines if l.startswith('cloud'))
        return [f'clouds={min(n, 5)}']

    def signature(self, name, lines):
        n = sum(1 for l in lines if l.startswith('cloud'))
        return name if n > 0 else None
