"""C02 - Point coordinates are the polar-to-Cartesian image of the wire measurement."""
import math
from props.base import PropBase
import pktgen, scen


class Prop(PropBase):
    pid = 'C02'
    kernels = []
    vo_targets = ['Props/Properties_C02.vo', 'Proofs/Coords.vo', 'Proofs/FloatErr.vo', 'Proofs/Transform.vo']
    prop_files = ['Props/Properties_C02.v']
    rule = ('all 17 types; large ranges (>= 150 m, where a 0.01 deg index error is > 2.6 cm), azimuths within a step of 0/360 deg, calibrations at +-89.99 / +-20 deg, '
            'both echo modes, rpm 300/600/1200/2400, FOV gaps, Bpearl v3/v4 and reversal, Ruby Plus 80/80v model bytes, M1 pitch/yaw over the table range, signed unit vectors; '
            'compared: x,y,z of every valid point against the double-precision evaluation of the model\'s projection, tolerance 1 mm + 2^-20 relative; '
            'non-trivial = scenario with valid points beyond 100 m or near the 0/360 wrap')
    explanation = 'C02_T1..T3 (Coq: table indices exact and unclamped under the property ranges (finite sweep of the azimuth interpolation), float-evaluation error budget < 1 mm (Interval), variant tables) + correspondence of x,y,z'
    assumptions = ['Trigon tables within 2^-23 of sin/cos (validated numerically by the correspondence, not proved)', 'no FMA contraction / extended precision in the build (x86-64 SSE)']
    projection = {'kinds': {'cloud', 'p', 'open', 'crash', 'nodrv'}, 'ignore_ts': True, 'ignore_buf': True}
    # the transform build: rotated points are judged against the length of the whole vector (+ the largest translation used)
    projection_tf = {'kinds': {'cloud', 'p', 'open', 'crash', 'nodrv'}, 'ignore_ts': True, 'ignore_buf': True, 'xyz_rigid_tol': 90.0}
    harness_variants = ['asan', 'asan+transform']
    defines = {'asan+transform': ('ENABLE_TRANSFORM',)}

    def variant_for(self, bname):
        return 'asan+transform' if bname == 'tf' else 'asan'

    def judge(self, bname, *a, **kw):
        keep = self.projection
        if bname == 'tf':
            self.projection = self.projection_tf
        try:
            return PropBase.judge(self, bname, *a, **kw)
        finally:
            self.projection = keep

    TF_CASES = [
        (0.0, 0.0, 0.0, 0.0, 0.0, 0.0),                    # identity
        (1.5, -2.25, 0.75, 0.0, 0.0, 0.0),                 # pure translation
        (0.0, 0.0, 0.0, 0.3, 0.0, 0.0), (0.0, 0.0, 0.0, 0.0, -0.4, 0.0), (0.0, 0.0, 0.0, 0.0, 0.0, 1.1),   # one axis at a time
        (0.0, 0.0, 0.0, math.pi / 2, 0.0, math.pi / 2),    # quarter turns: the order of the rotations is visible
        (0.0, 0.0, 0.0, 0.5, 0.5, 0.0), (0.0, 0.0, 0.0, 0.0, 0.5, 0.5), (0.0, 0.0, 0.0, 0.5, 0.0, 0.5),   # pairs: order of each pair
    ]

    def tf_scenarios(self, rng, tier):
        out = []
        reps = 1 if tier == 'quick' else 4
        far = lambda r_: r_.choice([30000, 40000, 60000, 65535, 20000, 2000])
        k = 0
        for r in range(reps):
            for t in scen.ALL:
                if t == 'RSM1_JUMBO' and r > 0:
                    continue
                # every type meets the fixed cases in turn and a fully random pose
                tfs = [self.TF_CASES[(k + j) % len(self.TF_CASES)] for j in range(2)]
                tfs.append((rng.uniform(-50, 50), rng.uniform(-50, 50), rng.uniform(-50, 50), rng.uniform(-3.2, 3.2), rng.uniform(-1.6, 1.6), rng.uniform(-3.2, 3.2)))
                k += 2
                for j, tf in enumerate(tfs):
                    cfg = scen.rand_cfg(rng, dense=rng.randrange(2), wait=0 if rng.random() < 0.3 else 1, pktcb=0, min=0.0, max=0.0, tf=tf)
                    out.append(scen.mixed_scenario(rng, self.L, t, f'c02_tf_{t}_{r}_{j}', cfg, malformed_p=0.0, badblk_p=0.0, gap_p=0.1,
                                                   dist=far, rpm=rng.choice([600, 1200]), npk=2 if t != 'RSM1_JUMBO' else 1))
        # the pose belongs to the instance: an identity-pose driver next to one with a pose, same and different types
        for k, (a, b) in enumerate([('RS16', 'RS16'), ('RSM1', 'RSHELIOS')] if tier == 'quick' else [('RS16', 'RS16'), ('RSM1', 'RSHELIOS'), ('RS32', 'RS32'), ('RSBP', 'RS128')]):
            out.append(scen.tf_pair_scenario(rng, self.L, f'c02_tfpair_{k}', a, b) if self.L[a].mech and self.L[b].mech else scen.tf_pair_scenario(rng, self.L, f'c02_tfpair_{k}'))
        return out

    def generate(self, rng, tier):
        scn_all = []
        self.corpus = {}
        reps = 3 if tier == 'quick' else 20
        far = lambda r_: r_.choice([30000, 40000, 45000, 60000, 65535, 20000, 2000, 300])
        for r in range(reps):
            for t in scen.ALL:
                if t == 'RSM1_JUMBO' and r % 3 != 0:
                    continue
                cfg = scen.rand_cfg(rng, dense=rng.randrange(2), wait=0 if rng.random() < 0.3 else 1, pktcb=0, min=0.0, max=rng.choice([0.0, 400.0]))
                scn_all.append(scen.mixed_scenario(rng, self.L, t, f'c02_{t}_{r}', cfg, malformed_p=0.0, badblk_p=0.0, gap_p=0.15,
                                                   start_az=rng.choice([None, 35900, 35990, 0]), dist=far, rpm=rng.choice([300, 600, 1200, 2400]),
                                                   npk=3 if t != 'RSM1_JUMBO' else 1))
        # a FOV-gap sized azimuth jump (> 1 deg) that crosses 0 deg inside a packet, single and dual return, every mechanical type:
        # the last block before the gap takes the nominal step for its channel azimuths
        for k, t in enumerate(scen.MECH):
            cfg = scen.rand_cfg(rng, dense=0, wait=1, pktcb=0, min=0.0, max=0.0)
            scn_all.append(scen.mixed_scenario(rng, self.L, t, f'c02_zerogap_{t}', cfg, malformed_p=0.0, badblk_p=0.0, gap_p=0.0, difop_at=0, zero_gap=True,
                                               start_az=rng.choice([33000, 35000, 35900]), step=rng.choice([20, 40, 80]), dist=far, dual=bool(k % 2), npk=3,
                                               fov=(1000, 35000), rpm=rng.choice([600, 1200])))
        # Ruby Plus 80: the 80v variant from the first packet on, a change 80 -> 80v and 80v -> 80 mid-stream (the firing table follows
        # the model byte of each packet), with steps and ranges large enough for the tables to tell
        for k, ms_ in enumerate(([3], [2, 2, 3, 3], [3, 3, 2, 2], [2], [0, 3])):
            cfg = scen.rand_cfg(rng, dense=0, wait=1, pktcb=0, min=0.0, max=0.0)
            scn_all.append(scen.mixed_scenario(rng, self.L, 'RSP80', f'c02_RSP80_model_{k}', cfg, malformed_p=0.0, badblk_p=0.0, gap_p=0.0, difop_at=0,
                                               step=80, dist=far, npk=4, rpm=1200, model_seq=ms_))
        # Bpearl: v3/v4 x normal/reversed with non-zero horizontal calibration
        for v4 in (False, True):
            for rev in (0, 1):
                cfg = scen.rand_cfg(rng, dense=0, wait=1, pktcb=0, min=0.0, max=0.0)
                scn_all.append(scen.mixed_scenario(rng, self.L, 'RSBP', f'c02_RSBP_{"v4" if v4 else "v3"}_{"rev" if rev else "fwd"}', cfg, malformed_p=0.0, badblk_p=0.0,
                                                   dist=far, npk=2, bpv4=v4, reversal=rev, difop_at=0))
        # corpus: recorded findings D18 (M1 angles below -90 deg) and D17 (MX x decoded unsigned)
        l = self.L['RSM1']
        s = scen.Scn('c02_corpus_m1_low_yaw')
        s.drv(0, l, pktgen.Cfg(wait=0, dense=0))
        blocks = [(0, [{'dist': 2000, 'int': 7, 'pitch': 32768 + 500, 'yaw': 32768 - 10000}] * l.nchan)] * l.nblk
        s.pkt(0, l.mems_sub(1, blocks))
        scn_all.append(s.text())
        self.corpus['c02_corpus_m1_low_yaw'] = ('m1-angle-clamp', [10.0 * math.cos(math.radians(5.0)) * math.cos(math.radians(-100.0)),
                                                                   10.0 * math.cos(math.radians(5.0)) * math.sin(math.radians(-100.0)), 10.0 * math.sin(math.radians(5.0))])
        l = self.L['RSMX']
        s = scen.Scn('c02_corpus_mx_negative_x')
        s.drv(0, l, pktgen.Cfg(wait=0, dense=0))
        blocks = [(0, [{'dist': 2000, 'int': 7, 'x': -16384, 'y': 8192, 'z': -8192, 'dist2': 0}] * l.nchan)] * l.nblk
        s.pkt(0, l.mems_sub(1, blocks, return_mode=4))
        scn_all.append(s.text())
        self.corpus['c02_corpus_mx_negative_x'] = ('mx-unsigned-x', [-5.0, 2.5, -2.5])
        return [('drv', '\n'.join(scn_all) + '\n'), ('tf', '\n'.join(self.tf_scenarios(rng, tier)) + '\n')]

    def oracle(self, name, impl, model, scn):
        if name in self.corpus:
            key, want = self.corpus[name]
            for l in impl:
                if l.startswith('p 1'):
                    got = [float(x) for x in l.split()[2:5]]
                    if any(abs(g - w) > 1e-3 + 2 ** -20 * abs(w) for g, w in zip(got, want)):
                        return [(key, f'first valid point is ({got[0]:.4f}, {got[1]:.4f}, {got[2]:.4f}) but the projection of the wire values is ({want[0]:.4f}, {want[1]:.4f}, {want[2]:.4f})')]
                    return []
        return []

    def classify(self, name, lines):
        far = 0
        for l in lines:
            if l.startswith('p 1'):
                t = l.split()
                if abs(float(t[2])) + abs(float(t[3])) > 100:
                    far += 1
        return ['far-points' if far else 'near-only']

    def signature(self, name, lines):
        return name if any(l.startswith('p 1') for l in lines) else None
