"""base.py - common behaviour of per-property check descriptions"""
import os, sys
sys.path.insert(0, os.path.dirname(os.path.dirname(os.path.abspath(__file__))))
import compare as CMP


class PropBase:
    pid = '?'
    kernels = []                 # kt.py kernels that must translate
    vo_targets = []              # coq targets (Props file + equivalence files)
    prop_files = []              # Props/Properties_<id>.v
    harness_variants = ['asan']
    defines = {}
    trusted_extra = []
    assumptions = []
    rule = ''
    explanation = ''
    projection = {}
    mismatch_is_violation = True   # the projected output is uniquely determined by the property

    def setup(self, L, G, C):
        self.L, self.G, self.C = L, G, C

    def variant_for(self, bname):
        return self.harness_variants[0]

    def env_for(self, bname):
        return None

    def generate(self, rng, tier):
        raise NotImplementedError

    # default judge: compare impl and model under the projection; classify scenarios
    def judge(self, bname, inp, impl_path, model_path, impl_log, violations, broken, stats):
        if bname.startswith('kern'):
            return self.judge_kernels(bname, inp, impl_path, model_path, violations, broken, stats)
        scn_text = {}
        cur = None
        for line in open(inp):
            if line.startswith('S '):
                cur = line[2:].strip(); scn_text[cur] = [line.rstrip('\n')]
            elif cur is not None:
                scn_text[cur].append(line.rstrip('\n'))
        model = dict(CMP.split_scenarios(model_path))
        seen = set()
        for name, lines in CMP.split_scenarios(impl_path):
            if name is None:
                continue
            stats['evaluations'] += 1
            cls = self.classify(name, lines)
            for c in cls:
                stats['classes'][c] = stats['classes'].get(c, 0) + 1
            sig = self.signature(name, lines)
            if sig is not None and sig not in seen:
                seen.add(sig)
                stats['distinct_nontrivial'] += 1
            if len(stats['samples']) < 3 and sig is not None:
                stats['samples'].append({'scenario': name, 'input_head': [x[:160] for x in scn_text.get(name, [])[:6]],
                                         'impl_head': [x[:160] for x in CMP.project(lines, self.projection)[:5]]})
            crashed = [l for l in lines if l.startswith('crash')]
            payload = '\n'.join(scn_text.get(name, []))
            if crashed and not self.crash_expected(name):
                tail = impl_log[-1500:]
                violations.append((self.crash_key(name, lines, impl_log), f'implementation crashed on scenario {name}: {crashed[0]} :: {tail[-600:]}', payload))
                continue
            for (key, desc) in self.oracle(name, lines, model.get(name, []), scn_text.get(name, [])):
                violations.append((key, f'scenario {name}: {desc}', payload))
            d = CMP.compare_scenario(lines, model.get(name, []), self.projection)
            if d is not None:
                key = self.mismatch_key(name, d, lines)
                desc = f'scenario {name}: implementation and model disagree on the property projection at item {d[0]}: impl `{d[1]}` vs model `{d[2]}`'
                if self.mismatch_is_violation:
                    violations.append((key, desc, payload))
                else:
                    broken.append('correspondence: ' + desc)

    def judge_kernels(self, bname, inp, impl_path, model_path, violations, broken, stats):
        il = [l.rstrip('\n') for l in open(impl_path) if l.startswith('k ')]
        ml = [l.rstrip('\n') for l in open(model_path) if l.startswith('k ')]
        kl = [l.rstrip('\n') for l in open(inp) if l.startswith('K ')]
        if not (len(il) == len(ml) == len(kl)):
            broken.append(f'kernel batch {bname}: line counts differ impl={len(il)} model={len(ml)} input={len(kl)}')
            return
        sig = set()
        for k, a, b in zip(kl, il, ml):
            stats['evaluations'] += 1
            parts = [x.strip() for x in b.split(' | ')]
            mod = parts[0]
            spec = [p for p in parts[1:] if p.startswith('spec ')]
            gen = [p for p in parts[1:] if p.startswith('gen ')]
            kind = k.split()[1]
            cls = self.kernel_class(k)
            if cls:
                stats['classes'][cls] = stats['classes'].get(cls, 0) + 1
                sig.add((cls, a))
            if len(stats['samples']) < 2:
                stats['samples'].append({'kernel_input': k, 'impl': a, 'model': b})
            v = self.kernel_verdict(k, a.split(), mod.split(), spec[0].split()[1:] if spec else None)
            if v:
                violations.append((f'kernel:{kind}', f'{k} -> impl `{a}` but {v}', k))
            if gen:
                g = gen[0].split()[1:]
                if a.split()[2:2 + len(g)] != g:
                    broken.append(f'translated kernel disagrees with the compiled code on `{k}`: impl `{a}` gen `{gen[0]}` (kt.py semantics)')
        stats['distinct_nontrivial'] += len(sig)

    # hooks
    def kernel_class(self, kline):
        return None

    def kernel_verdict(self, kline, impl, model, spec):
        if impl != model:
            return f'model says `{" ".join(model)}`'
        return None

    def classify(self, name, lines):
        return []

    def signature(self, name, lines):
        return name

    def oracle(self, name, impl_lines, model_lines, scn_lines):
        return []

    def crash_expected(self, name):
        return False

    def crash_key(self, name, lines, log):
        return 'crash'

    def mismatch_key(self, name, d, lines):
        return 'mismatch'
