"""C05 - Point and cloud timestamps are an exact function of the packet clock."""
from props.base import PropBase
import pktgen, scen


class Prop(PropBase):
    pid = 'C05'
    kernels = ['parseTimeUTCWithUs', 'createTimeUTCWithUs']
    vo_targets = ['Props/Properties_C05.vo', 'Proofs/TimeCodec.vo', 'Proofs/Timestamps.vo', 'Proofs/Eq_Time.vo', 'Proofs/Timestamps2.vo']
    prop_files = ['Props/Properties_C05.v']
    rule = ('codec kernels: parse/create of UTC (6+4 byte) and calendar (YMD; fixed-offset zones, and zones with daylight saving - European, US, Australian rules - around every kind of transition) header times at epoch/rollover/sub-second boundaries against the real '
            'functions (glibc mktime/localtime under TZ=<fixed offset> or TZ=<POSIX rule>); driver: all 17 types, lidar clock and host clock, FOV gaps (> 1 deg jumps incl. across 0 deg), '
            'DIFOP rpm/FOV changes, dual return, ts_first_point on/off, dense/NaN-kept; compared: every point, cloud and packet-record timestamp within 1 us; '
            'non-trivial = scenario with >= 1 cloud; distinct by scenario')
    explanation = 'C05_T1..T7 (Coq: UTC/YMD round trips, calendar sweep 2000..2255, point ts = hdr+block+channel, cloud ts chain, host independence) + correspondence of all timestamps'
    assumptions = ['zones with daylight saving: the calendar times of the hour skipped in spring and of the two hours around the end of daylight saving (which coincide) are not generated; the daylight periods are computed from the POSIX rule by harness/tzrules.py and given to the model', 'timestamps compared within 1 us + 4e-16 relative (binary64 resolution at 1.7e9 s is 0.24 us)']
    projection = {'kinds': {'cloud', 'p', 'pkt', 'open', 'crash', 'nodrv'}, 'ignore_xyz': True, 'ignore_intensity': True, 'ignore_buf': True}

    def kernel_verdict(self, k, impl, model, spec):
        if impl != model:
            return f'model says `{" ".join(model)}`'
        return None

    def kernel_class(self, k):
        return k.split()[1]

    def generate(self, rng, tier):
        out = []
        ks = []
        n = 60 if tier == 'quick' else 2000
        secs = [0, 1, 59, 946684800, 1700000000, 2147483647, 2147483648, 4294967295, 4294967296, 2 ** 40, 2 ** 44 - 1]
        for i in range(n):
            sec = rng.choice(secs + [rng.randrange(2 ** 34)])
            sub = rng.choice([0, 1, 999999, rng.randrange(1000000)])
            ks.append('K parse_utc ' + (sec.to_bytes(6, 'big') + sub.to_bytes(4, 'big')).hex())
            ks.append(f'K create_utc {sec * 1000000 + sub}')
        ks.append('K parse_utc ' + 'ff' * 10)
        ks.append('K parse_utc ' + (2 ** 44).to_bytes(6, 'big').hex() + '000f423f')
        for i in range(n):
            tz = rng.choice([0, 0, 28800, -18000, 19800, -12600, 3600])
            yy = rng.choice([0, 1, 23, 24, 37, 38, 99, 100, 199, 255])
            mo, dd = rng.choice([(1, 1), (2, 28), (2, 29), (3, 1), (12, 31), (rng.randrange(1, 13), rng.randrange(1, 29))])
            if mo == 2 and dd == 29 and not ((2000 + yy) % 4 == 0 and ((2000 + yy) % 100 != 0 or (2000 + yy) % 400 == 0)):
                dd = 28
            hh, mi, ss = rng.choice([(0, 0, 0), (23, 59, 59), (rng.randrange(24), rng.randrange(60), rng.randrange(60))])
            ms, us = rng.choice([(0, 0), (999, 999), (rng.randrange(1000), rng.randrange(1000))])
            b = bytes([yy, mo, dd, hh, mi, ss]) + ms.to_bytes(2, 'big') + us.to_bytes(2, 'big')
            ks.append(f'K parse_ymd {tz} {b.hex()}')
            t = rng.choice([946684800, 1700000000, 2147483647, 2147483648, 4102444800, rng.randrange(946684800 + 50000, 9000000000)]) * 1000000 + rng.randrange(1000000)
            ks.append(f'K create_ymd {tz} {t}')
        # process time zones WITH daylight saving (northern, southern, US rules): instants around every kind of transition and inside
        # summer / winter, written by createTimeYMD and read back by parseTimeYMD; the calendar time is interpreted in the process
        # time zone - as daylight time when it is one. (The two hours that share their calendar times when daylight saving ends are left out.)
        import tzrules
        for zone in tzrules.ZONES:
            std = tzrules.std_offset(zone); rule = tzrules.ZONES[zone][0]
            for sec in tzrules.interesting_instants(zone, rng, 40 if tier == 'quick' else 1500):
                near = [q for q in tzrules.periods(zone) if abs(q[0] - sec) < 3 * 366 * 86400]
                ctx = f'{rule} {len(near)} ' + ' '.join(f'{a} {b}' for a, b in near)
                t_us = sec * 1000000 + rng.choice([0, 1, 999999, rng.randrange(1000000)])
                f = tzrules.ymd_fields(zone, t_us)
                b = bytes(f[:6]) + f[6].to_bytes(2, 'big') + f[7].to_bytes(2, 'big')
                ks.append(f'K create_ymdz {std} {t_us} {ctx}')
                ks.append(f'K parse_ymdz {std} {b.hex()} {ctx}')
        out.append(('kern', '\n'.join(ks) + '\n'))
        scn_all = []
        reps = 2 if tier == 'quick' else 16
        for r in range(reps):
            for t in scen.ALL:
                if t == 'RSM1_JUMBO' and r % 4 != 0:
                    continue
                cfg = scen.rand_cfg(rng, dense=rng.randrange(2), wait=rng.randrange(2), lclock=1, pktcb=rng.randrange(2))
                if t in ('RS16', 'RS32', 'RSBP'):
                    import tzrules
                    cfg.tzd = list(tzrules.ZONES)[(r + len(t)) % 3] if r % 2 == 1 else None     # calendar header read in a zone with daylight saving: summer and winter dates
                scn_all.append(scen.mixed_scenario(rng, self.L, t, f'c05_lidar_{t}_{r}', cfg, malformed_p=0.05, gap_p=0.25, badblk_p=0.03,
                                                   start_az=rng.choice([None, 35800, 35990, 31400]), npk=rng.choice([3, 4, 6]) if t != 'RSM1_JUMBO' else 1,
                                                   zero_gap=(r % 2 == 0), dual=(r % 4 == 0) or None, difop_at=0,
                                                   fov=rng.choice([(0, 36000), (4500, 31500), (1000, 35000), (31500, 4500)])))
                if self.L[t].mech and r % 2 == 1:
                    # dense output whose frames end in filtered slots: the cloud stamp is the last DECODED slot's time
                    cfg = scen.rand_cfg(rng, dense=1, wait=0, lclock=1, pktcb=0, tsfirst=0, mode=3, nblk=rng.choice([1, 2, 3, 5]))
                    scn_all.append(scen.mixed_scenario(rng, self.L, t, f'c05_densetail_{t}_{r}', cfg, malformed_p=0.0, gap_p=0.05, badblk_p=0.0,
                                                       npk=3, tail_invalid_p=1.0))
                if self.L[t].mech:
                    # ts_first_point with frames that begin in the middle of a packet: the stamp is the first BLOCK's time, not the packet's
                    cfg = scen.rand_cfg(rng, dense=0, wait=0, lclock=1, pktcb=0, tsfirst=1, mode=3, nblk=rng.choice([5, 7]))
                    scn_all.append(scen.mixed_scenario(rng, self.L, t, f'c05_tsfirst_{t}_{r}', cfg, malformed_p=0.0, gap_p=0.0, badblk_p=0.0,
                                                       npk=rng.choice([4, 6]), difop_at=0))
                if r % 2 == 0:
                    cfg = scen.rand_cfg(rng, dense=rng.randrange(2), wait=0, lclock=0, pktcb=rng.randrange(2))
                    scn_all.append(scen.mixed_scenario(rng, self.L, t, f'c05_host_{t}_{r}', cfg, malformed_p=0.05, gap_p=0.1, host=True,
                                                       npk=3 if t != 'RSM1_JUMBO' else 1))
        out.append(('drv', '\n'.join(scn_all) + '\n'))
        return out

    def oracle(self, name, impl, model, scn):
        res = []
        cfg = [l for l in scn if l.startswith('D ')]
        if cfg and cfg[0].split()[13] == '1' and cfg[0].split()[4] == '0':
            # ts_first_point, NaN points kept: a cloud's stamp is the acquisition time of its first block/packet,
            # i.e. within one block period before its first point's time
            for i, l in enumerate(impl):
                if l.startswith('cloud') and i + 1 < len(impl) and impl[i + 1].startswith('p '):
                    cts = float(l.split()[7]); pts = float(impl[i + 1].split()[7])
                    if not (pts - 120e-6 <= cts <= pts + 1e-6):
                        key = 'first-cloud-ts0' if (l.split()[2] == '0' and cts == 0.0) else 'ts-first'
                        res.append((key, f'ts_first_point: cloud seq {l.split()[2]} stamped {cts:.6f} but its first point was acquired at {pts:.6f}'))
                        break
        if res:
            return res
        # host clock: every timestamp within [feed - packet_duration, feed] (+ blind gaps); checked coarsely: ts <= last host value + 1.05 s and >= first host - 2 ms (the exact value is what the model comparison checks)
        if '_host_' not in name:
            return []
        hs = [int(l.split()[1]) for l in scn if l.startswith('H ')]
        if not hs:
            return []
        # upper slack: a packet that straddles the FOV-blind sector stamps its later blocks one blind duration ahead, and the
        # announced blind duration can approach a whole revolution (1 s at 60 rpm); the scenario's host clock does not advance by it
        lo, hi = min(hs) / 1e6 - 0.002, max(hs) / 1e6 + 1.05
        for l in impl:
            if l.startswith('p '):
                ts = float(l.split()[7])
                if not (lo <= ts <= hi):
                    return [('host-bounds', f'point timestamp {ts:.6f} outside the host-clock window [{lo:.6f}, {hi:.6f}]')]
        return []

    def classify(self, name, lines):
        c = sum(1 for l in lines if l.startswith('cloud'))
        return [('host' if '_host_' in name else 'lidar') + f'/clouds={min(c, 3)}']

    def signature(self, name, lines):
        return name if any(l.startswith('cloud') for l in lines) else None
