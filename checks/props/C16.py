"""C16 - Jumbo reassembly delivers exactly the original datagram or nothing."""
import os
from props.base import PropBase
import pktgen, scen
from pktgen import udp_frame, fragments


class Prop(PropBase):
    pid = 'C16'
    kernels = []
    vo_targets = ['Props/Properties_C16.vo', 'Proofs/InputSafe.vo', 'Proofs/JumboIff.vo']
    prop_files = ['Props/Properties_C16.v']
    rule = ('RSM1_JUMBO driver reading pcap files through InputPcapJumbo/Jumbo (real threads, ASan): trains of 2..45 fragments (sizes multiples of 8, totals up to 65535), '
            'unfragmented datagrams, IP identification 0 and repeated ids, IP headers with options, lost / duplicated / reordered fragments, interleaved trains of two ids, '
            'non-IPv4 and non-UDP frames in between, unfragmented datagrams inside a train, records cut short by the snap length, foreign destination ports; compared: the exact payload bytes handed to the decoder (packet callback) in order; '
            'non-trivial = scenario with >= 1 reassembled datagram')
    explanation = 'C16_T1..T5 (Coq: unfragmented pass-through; in-order train delivers concat minus UDP header to the header\'s port, any number/sizes; ignored frames inert; fill level bounded; id 0 regression) + correspondence'
    assumptions = ['libpcap reads the generated capture files faithfully']
    projection = {'kinds': {'pkt', 'ierr', 'crash', 'nodrv', 'initfail'}, 'ignore_ts': True, 'ierr_last': True}

    def generate(self, rng, tier):
        base = 28000 + (os.getpid() % 30) * 100      # a port block of this property only, below the ephemeral range
        lj = self.L['RSM1_JUMBO']
        scn = []
        n = 10 if tier == 'quick' else 80
        for k in range(n):
            msop, difop = base, base + 1
            cfg = pktgen.Cfg(wait=0, dense=0, pktcb=1, lclock=1)
            s = scen.Scn(f'c16_{k}')
            s.lines.append(cfg.line(0, lj)); s.lines.append(f'N 0 3 {msop} {difop} 0 0')
            frames = []
            ids = [0, 0, 1, 0x1234, 0xFFFF, 7]
            for j in range(rng.choice([3, 6, 10])):
                size = rng.choice([1, 8, 100, 1472, 1473, 3000, 9000, 20000]) if rng.random() < 0.85 else rng.choice([62152, 65507 - 0, 65000])
                payload = rng.choice([b'\x55\xaa', b'\xa5\xff', b'\x55\xaa']) + bytes(rng.randrange(256) for _ in range(max(0, min(size, 300) - 2))) + bytes(max(0, size - 300))
                payload = payload[:size]
                if size == 62152 and rng.random() < 0.5:
                    payload = scen.mems_msop(rng, lj, 1 + 63 * j)
                port = rng.choice([msop, msop, msop, difop, base + 5])
                ipid = rng.choice(ids)
                ihl = rng.choice([5, 5, 5, 6, 15])
                if len(payload) + 8 <= 1480 and rng.random() < 0.6:
                    train = [udp_frame(payload, port, ip_id=ipid, ihl=ihl, df=rng.random() < 0.4)]      # often with the don't-fragment bit, as real senders set it
                else:
                    fs = rng.choice([8, 64, 1480, 1480, 4000, 8000])
                    dg = (6699).to_bytes(2, 'big') + port.to_bytes(2, 'big') + ((8 + len(payload)) & 0xffff).to_bytes(2, 'big') + b'\x00\x00' + payload
                    train, off = [], 0
                    while off < len(dg):
                        chunk = dg[off:off + fs]
                        train.append(udp_frame(b'', port, ip_id=ipid, ihl=ihl, frag_off=off, more=(off + fs < len(dg)), raw_ip_payload=chunk, df=rng.random() < 0.05))
                        off += fs
                    if len(train) > 400:
                        train = train[:2]      # keep files small: an unfinished train
                mode = rng.choice(['ok', 'ok', 'ok', 'lose', 'dup', 'swap', 'inter', 'junk', 'cut', 'plain_inside'])
                if mode == 'lose' and len(train) > 1:
                    del train[rng.randrange(len(train))]
                elif mode == 'dup' and len(train) > 1:
                    i = rng.randrange(len(train)); train.insert(i, train[i])
                elif mode == 'swap' and len(train) > 2:
                    i = rng.randrange(len(train) - 1); train[i], train[i + 1] = train[i + 1], train[i]
                elif mode == 'inter' and frames:
                    # interleave with the previous train
                    prev = frames.pop() if isinstance(frames[-1], list) else None
                    if prev:
                        mix = []
                        a, b = list(prev), list(train)
                        while a or b:
                            if a and (not b or rng.random() < 0.5):
                                mix.append(a.pop(0))
                            else:
                                mix.append(b.pop(0))
                        train = mix
                elif mode == 'cut':
                    # a record cut short by the snap length (caplen < len): the frame's bytes were never all seen, so neither it
                    # nor the datagram it belongs to may be delivered
                    i = rng.randrange(len(train)); f = train[i]
                    train[i] = (len(f), f[:rng.choice([60, 96, max(43, len(f) - 1), max(43, len(f) - 8), max(43, len(f) // 2)])])
                elif mode == 'plain_inside' and len(train) > 1:
                    # an unfragmented datagram (DIFOP-like, MSOP-port or foreign-port) recorded between the fragments of a train:
                    # it is delivered at once and the train completes all the same
                    other = udp_frame(rng.choice([b'\xa5\xff', b'\x55\xaa']) + bytes(rng.randrange(256) for _ in range(rng.choice([30, 254, 1000]))),
                                      rng.choice([difop, msop, base + 5]), ip_id=rng.choice(ids + [ipid]))
                    train.insert(rng.randrange(1, len(train)), other)
                elif mode == 'junk':
                    train.insert(rng.randrange(len(train) + 1), rng.choice([udp_frame(b'x' * 20, msop, ethertype=0x0806), udp_frame(b'y' * 20, msop, proto=6),
                                                                             udp_frame(b'z' * 30, msop, ipv6=True), udp_frame(b'', msop, ip_id=999, frag_off=800, more=True, raw_ip_payload=bytes(64))]))
                frames.append(train)
            for ti_, tr in enumerate(frames):
                # bytes behind the end of the IP datagram (Ethernet padding of short frames, a frame check sequence kept by the
                # capture) on every frame of some trains: they belong to no fragment
                trail = bytes([0xEE] * [0, 0, 4, 0, 18][(ti_ + k) % 5]) if not any(isinstance(f, tuple) for f in tr) else b''
                for f in tr:
                    if not isinstance(f, tuple):
                        f = f + trail
                    if isinstance(f, tuple):
                        s.lines.append(f'F 0 {f[0]} {f[1].hex()}')
                    else:
                        s.lines.append(f'F 0 {len(f)} {f.hex()}')
            s.lines.append('GO 0')
            scn.append(s.text(residual=()))
        # one fixed scenario with every pattern the reassembler has to get right, whatever the seed
        msop, difop = base, base + 1
        cfg = pktgen.Cfg(wait=0, dense=0, pktcb=1, lclock=1)
        s = scen.Scn('c16_fixed')
        s.lines.append(cfg.line(0, lj)); s.lines.append(f'N 0 3 {msop} {difop} 0 0')
        def dgram(tag, size, port=msop):
            payload = (b'\x55\xaa' + bytes([tag]) + bytes((tag * 7 + q) & 0xff for q in range(size - 3)))
            return (6699).to_bytes(2, 'big') + port.to_bytes(2, 'big') + ((8 + len(payload)) & 0xffff).to_bytes(2, 'big') + b'\x00\x00' + payload
        def frags(dg, ipid, fs, port=msop, ihl=5, df=False):
            out_, off = [], 0
            while off < len(dg):
                out_.append(udp_frame(b'', port, ip_id=ipid, ihl=ihl, frag_off=off, more=(off + fs < len(dg)), raw_ip_payload=dg[off:off + fs], df=df)); off += fs
            return out_
        seqs = []
        seqs += frags(dgram(1, 4000), 0x2222, 1480)                                  # plain train
        seqs += frags(dgram(2, 4000), 0x2222, 1480)                                  # the same identification again, right behind it
        seqs += [udp_frame(dgram(3, 300)[8:], msop, ip_id=0x2222)]                   # unfragmented, same identification
        seqs += frags(dgram(4, 3000), 7, 1480, ihl=6)                                # IP options on every fragment
        seqs += [udp_frame(dgram(5, 200)[8:], msop, ip_id=8, ihl=15, df=True)]       # unfragmented, options, don't-fragment bit
        t6 = frags(dgram(6, 4000), 9, 1480); seqs += [t6[0], t6[2], t6[1]]           # the last fragment overtakes: nothing delivered
        t7 = frags(dgram(7, 4000), 10, 1480); seqs += [t7[0], t7[1], t7[0], t7[2]]   # the first fragment repeated after the second
        t8 = frags(dgram(8, 4000), 11, 1480); seqs += [t8[0], (len(t8[1]), t8[1][:96]), t8[2]]      # a fragment cut by the snap length
        t9 = frags(dgram(9, 4000), 12, 1480); seqs += [t9[0], udp_frame(dgram(10, 100, difop)[8:], difop, ip_id=12), t9[1], t9[2]]   # unfragmented inside a train
        seqs += frags(dgram(11, 2000), 0, 1480) + [udp_frame(dgram(12, 50)[8:], msop, ip_id=0), udp_frame(dgram(13, 60)[8:], msop, ip_id=0)]   # identification 0
        # frames longer than their IP datagram: a frame check sequence kept on every frame of a train, a short last fragment and a
        # short unfragmented datagram padded to the 60-byte Ethernet minimum
        seqs += [f + bytes([0xFC] * 4) for f in frags(dgram(14, 3500), 13, 1480)]
        t15 = frags(dgram(15, 2970), 14, 1480); seqs += [t15[0], t15[1], t15[2] + bytes(60 - len(t15[2]))]
        u16 = udp_frame(dgram(16, 10)[8:], msop, ip_id=15); seqs += [u16 + bytes(60 - len(u16))]
        for f in seqs:
            s.lines.append(f'F 0 {f[0]} {f[1].hex()}' if isinstance(f, tuple) else f'F 0 {len(f)} {f.hex()}')
        s.lines.append('GO 0')
        scn.append(s.text(residual=()))
        return [('jumbo', '\n'.join(scn) + '\n')]

    def classify(self, name, lines):
        n = sum(1 for l in lines if l.startswith('pkt'))
        return [f'delivered={min(n, 5)}']

    def signature(self, name, lines):
        return name if any(l.startswith('pkt') for l in lines) else None
