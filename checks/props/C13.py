"""C13 - Malformed captures, runt/oversized datagrams, bogus fragments: memory stays safe."""
import os
from props.base import PropBase
import pktgen, scen
from pktgen import udp_frame, fragments


class Prop(PropBase):
    pid = 'C13'
    kernels = ['InputRaw_feedPacket', 'InputPcap_copy', 'InputSock_copy']
    vo_targets = ['Props/Properties_C13.vo', 'Proofs/InputSafe.vo', 'Proofs/Layout.vo', 'Proofs/Eq_Copy.vo']
    prop_files = ['Props/Properties_C13.v']
    rule = ('ASan+UBSan build, real receive/decode threads. pcap files: records truncated by the snap length (caplen < len), frames shorter than the headers (0..60 bytes), '
            'longer than an MTU (3000), ARP/IPv6/IP-options/fragments, inconsistent IP total length and header length; user/tail layers 0/4/64, VLAN; sockets (loopback UDP): '
            'datagram sizes 0,1,..,around user+tail, around 1546 and 65507; raw API sizes likewise; jumbo pcap: bogus fragment trains (tot_len < ihl*4, fill level beyond 64 KiB, '
            'UDP shorter than 8 bytes, frames cut inside the IP header); with and without a packet callback. The model predicts exactly which payloads reach the decoder; '
            'any sanitizer report, crash, escaped exception or extra/missing payload is a violation. Non-trivial = scenario with a malformed record/datagram')
    explanation = ('C13_T1..T2 (Coq contract on the input models: a delivered payload is a slice inside the captured bytes and fits the packet buffer; short/long/truncated records deliver nothing; '
                   'jumbo fill level bounded) + sanitizer-backed correspondence. PARTIAL: binary-level safety rests on ASan/UBSan')
    assumptions = ['libpcap, the kernel UDP stack and loopback delivery are trusted', 'UB-freedom of the binary rests on sanitizer runs']
    projection = {'kinds': {'pkt', 'ierr', 'crash', 'nodrv', 'initfail'}, 'ignore_ts': True, 'ierr_last': True}

    def generate(self, rng, tier):
        out = []
        base = 20000 + (os.getpid() % 30) * 100      # a port block of this property only, below the ephemeral range
        L = self.L
        l = L['RS32']
        ms = scen.MechStream(rng, l)
        good = lambda: ms.msop()
        scn = []
        n_p = 6 if tier == 'quick' else 40
        # ---- pcap, non-jumbo
        for k in range(n_p):
            user, tail, vlan = rng.choice([(0, 0, 0), (0, 0, 0), (4, 0, 0), (0, 2, 0), (64, 64, 0), (0, 0, 1), (4, 2, 1)])
            cfg = pktgen.Cfg(wait=0, dense=0, pktcb=1, user=user, tail=tail, lclock=1)
            msop, difop = base, base + 1
            s = scen.Scn(f'c13_pcap_{k}')
            s.lines.append(cfg.line(0, l)); s.lines.append(f'N 0 1 {msop} {difop} {vlan} 0')
            for j in range(rng.choice([4, 8])):
                p = good()
                wire = bytes(rng.randrange(256) for _ in range(user)) + p + bytes(rng.randrange(256) for _ in range(tail))
                f = udp_frame(wire, rng.choice([msop, msop, difop, base + 9]), vlan=bool(vlan))
                kind = rng.choice(['ok', 'ok', 'trunc', 'runt', 'huge', 'arp', 'ipv6', 'opts', 'frag', 'short_payload', 'badtot'])
                ln = len(f)
                if kind == 'trunc':
                    cap = rng.choice([0, 1, 13, 14, 20, 33, 34, 41, 42, 43, 46, 100, ln - 1]); f = f[:cap]
                elif kind == 'runt':
                    f = f[:rng.choice([0, 1, 12, 14, 20, 34, 38, 41, 42, 43, 45, 46, 50, 60])]; ln = len(f)
                elif kind == 'huge':
                    f = udp_frame(bytes(user) + p + bytes(rng.choice([300, 1700, 3000])), msop, vlan=bool(vlan)); ln = len(f)
                elif kind == 'arp':
                    f = udp_frame(wire, msop, vlan=bool(vlan), ethertype=0x0806); ln = len(f)
                elif kind == 'ipv6':
                    f = udp_frame(wire, msop, vlan=bool(vlan), ipv6=True); ln = len(f)
                elif kind == 'opts':
                    f = udp_frame(wire, msop, vlan=bool(vlan), ihl=rng.choice([6, 10, 15])); ln = len(f)
                elif kind == 'frag':
                    f = udp_frame(wire, msop, vlan=bool(vlan), frag_off=rng.choice([8, 1480]), more=rng.random() < 0.5); ln = len(f)
                elif kind == 'short_payload':
                    f = udp_frame(bytes(rng.randrange(0, user + tail + 2)), msop, vlan=bool(vlan)); ln = len(f)
                elif kind == 'badtot':
                    f = udp_frame(wire, msop, vlan=bool(vlan), tot_len=rng.choice([0, 10, 19, 20, 28, 65535])); ln = len(f)
                s.lines.append(f'F 0 {ln} {f.hex()}' if f else f'F 0 {ln}')
            s.lines.append('GO 0')
            scn.append(s.text(residual=()))
        # ---- jumbo pcap
        lj = L['RSM1_JUMBO']
        for k in range(max(2, n_p // 3)):
            cfg = pktgen.Cfg(wait=0, dense=0, pktcb=1, lclock=1)
            msop, difop = base, base + 1
            s = scen.Scn(f'c13_jumbo_{k}')
            s.lines.append(cfg.line(0, lj)); s.lines.append(f'N 0 3 {msop} {difop} 0 0')
            big = scen.mems_msop(rng, lj, 1)
            frs = fragments(big, msop, 0x1234, [1480])
            kinds = ['train', 'tot_lt_ihl', 'tot_lt_ihl', 'overflow', 'udp_short', 'cut', 'runt', 'ihl_small', 'orphans', 'orphans_big', 'train']
            rng.shuffle(kinds)
            for kind in kinds:
                if kind in ('orphans', 'orphans_big'):
                    # first fragments whose tails never come, each of another identification (the third way an assembly ends:
                    # superseded): every one starts at the beginning of the buffer, however many there are; then a complete train
                    nfr, sz = (50, 1480) if kind == 'orphans' else (3, 40000)
                    for q in range(nfr):
                        f = udp_frame(b'', msop, raw_ip_payload=(6699).to_bytes(2, 'big') + msop.to_bytes(2, 'big') + bytes(sz - 4), ip_id=0x3000 + q, frag_off=0, more=True)
                        s.lines.append(f'F 0 {len(f)} {f.hex()}')
                    for f in fragments(big, msop, 0x4000, [1480]):
                        s.lines.append(f'F 0 {len(f)} {f.hex()}')
                elif kind == 'train':
                    for f in frs:
                        s.lines.append(f'F 0 {len(f)} {f.hex()}')
                elif kind == 'tot_lt_ihl':
                    f = udp_frame(b'', msop, raw_ip_payload=bytes(16), tot_len=rng.choice([0, 8, 19]), more=rng.random() < 0.5, ip_id=7)
                    s.lines.append(f'F 0 {len(f)} {f.hex()}')
                    # headers with options whose total length covers the fixed 20 bytes but not the options: every such length,
                    # unfragmented and as a first fragment
                    hl = rng.choice([6, 7, 10, 15])
                    for tl in (20, 22, hl * 4 - 1, hl * 4 - 4):
                        for more in (False, True):
                            f = udp_frame(b'', msop, raw_ip_payload=(6699).to_bytes(2, 'big') + msop.to_bytes(2, 'big') + bytes(20), ihl=hl, tot_len=tl, more=more, ip_id=7)
                            s.lines.append(f'F 0 {len(f)} {f.hex()}')
                elif kind == 'overflow':
                    # fragments of one id whose fill level passes 64 KiB
                    off = 0
                    for q in range(46):
                        f = udp_frame(b'', msop, raw_ip_payload=bytes(1480), ip_id=9, frag_off=off, more=True); off += 1480
                        s.lines.append(f'F 0 {len(f)} {f.hex()}')
                elif kind == 'udp_short':
                    f = udp_frame(b'', msop, raw_ip_payload=bytes(rng.choice([0, 1, 7])), ip_id=11); s.lines.append(f'F 0 {len(f)} {f.hex()}')
                elif kind == 'cut':
                    f = frs[0]; cap = rng.choice([14, 20, 30, 33, 34, 40, 100]); s.lines.append(f'F 0 {len(f)} {f[:cap].hex()}')
                elif kind == 'runt':
                    f = frs[0][:rng.choice([0, 1, 13, 14, 15, 33])]; s.lines.append(f'F 0 {len(f)} {f.hex()}' if f else 'F 0 0')
                elif kind == 'ihl_small':
                    f = udp_frame(b'', msop, raw_ip_payload=bytes(40), ihl=rng.choice([0, 1, 4]), ip_id=13, tot_len=60); s.lines.append(f'F 0 {len(f)} {f.hex()}')
            s.lines.append('GO 0')
            scn.append(s.text(residual=()))
            # the same input with use_vlan: tagged frames, whole, and cut by the snap length a few bytes before their end
            s = scen.Scn(f'c13_jumbo_vlan_{k}')
            s.lines.append(cfg.line(0, lj)); s.lines.append(f'N 0 3 {msop} {difop} 1 0')
            small = b'\x55\xaa' + bytes(rng.randrange(256) for _ in range(98))     # dispatched as MSOP: whatever is delivered shows as a packet record
            whole = udp_frame(small, msop, vlan=True, ip_id=21)
            s.lines.append(f'F 0 {len(whole)} {whole.hex()}')
            for cut in (1, 2, 3, 4, 5, 8):
                s.lines.append(f'F 0 {len(whole)} {whole[:len(whole) - cut].hex()}')
            for f in fragments(big, msop, 0x2345, [1480])[:3]:
                tagged = f[:12] + (0x8100).to_bytes(2, 'big') + (100).to_bytes(2, 'big') + f[12:]
                s.lines.append(f'F 0 {len(tagged)} {tagged[:len(tagged) - rng.choice([0, 0, 1, 4])].hex()}')
            s.lines.append('GO 0')
            scn.append(s.text(residual=()))
        # ---- sockets
        n_s = 3 if tier == 'quick' else 12
        for k in range(n_s):
            user, tail = [(4, 4), (64, 64), (0, 0), (4, 0)][k % 4] if k < 4 else rng.choice([(0, 0), (4, 0), (4, 4), (64, 64)])
            cfg = pktgen.Cfg(wait=0, dense=0, pktcb=rng.randrange(2) if k else 1, user=user, tail=tail, lclock=1)
            msop, difop = base + 20 + 2 * k, base + 21 + 2 * k
            s = scen.Scn(f'c13_sock_{k}')
            s.lines.append(cfg.line(0, l)); s.lines.append(f'N 0 2 {msop} {difop} 0 0')
            sizes = [0, 1, 2, user + tail - 1, user + tail, user + tail + 1, user + tail + 2, 1248 + user + tail, 1545, 1546, 1547, 3000, 65507]
            for j in range(len(sizes) + (4 if tier == 'quick' else 20)):
                n = max(0, sizes[j] if j < len(sizes) else rng.choice(sizes))      # every boundary size in every scenario, then random ones
                p = good()
                wire = (bytes([0x55, 0xAA] * (user // 2)) + p + bytes(tail) + bytes(70000))[:n] if rng.random() < 0.6 else \
                       (bytes(user) + b'\x55\xaa' + bytes(70000))[:n]
                s.lines.append(f'U 0 {rng.choice([msop, msop, difop])} {wire.hex()}' if n else f'U 0 {msop}')
            s.lines.append('GO 0')
            scn.append(s.text(residual=()))
        # ---- raw API sizes
        for k in range(n_s):
            user, tail = [(4, 4), (64, 64), (0, 0), (300, 0)][k % 4] if k < 4 else rng.choice([(0, 0), (4, 4), (64, 64), (300, 0)])
            cfg = pktgen.Cfg(wait=0, dense=0, pktcb=rng.randrange(2), user=user, tail=tail, lclock=1)
            s = scen.Scn(f'c13_raw_{k}')
            s.drv(0, l, cfg)
            for n in [0, 1, user + tail - 1, user + tail, user + tail + 1, 1248 + user + tail, 1546 + user + tail, 1547 + user + tail, 4000, 65535]:
                wire = (bytes(user) + good() + bytes(70000))[:max(0, n)]
                s.pkt(0, wire)
            scn.append(s.text(residual=()))
        out.append(('inp', '\n'.join(scn) + '\n'))
        return out

    def classify(self, name, lines):
        return [name.split('_')[1]]

    def signature(self, name, lines):
        return name
