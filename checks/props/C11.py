"""C11 - Lifecycle calls are safe in any order and stop() is a barrier."""
import os
from props.base import PropBase
import pktgen, scen, compare as CMP
from pktgen import udp_frame

KINDS = {'lcreate', 'linit', 'lstart', 'lstop', 'lopen', 'lstate', 'lproc', 'leof', 'ldestroy', 'late', 'crash', 'nodrv', 'hang'}


class Prop(PropBase):
    pid = 'C11'
    kernels = ['LidarDriverImpl_processPacket', 'InputSock_recvPacket', 'InputPcap_recvPacket', 'InputPcapJumbo_recvPacket', 'fx_splitFrame', 'fx_start', 'fx_stop', 'fx_decodePacket', 'fx_dtor']
    vo_targets = ['Props/Properties_C11.vo', 'Proofs/LifecycleInv.vo', 'Model/Lifecycle.vo', 'Model/Worker.vo', 'Proofs/WorkerExit.vo', 'Proofs/Handover.vo', 'Proofs/LifecycleCode.vo']
    prop_files = ['Props/Properties_C11.v']
    harness_variants = ['asan', 'tsan']
    rule = ('random call histories (6..16 calls) over {create, init, start, stop, decodePacket, wait-idle, wait-end-of-file, destroy, re-create} on real LidarDriver objects with real threads: RAW_PACKET, '
            'PCAP_FILE (repeat and no-repeat; stop/start after end-of-file; missing file) and ONLINE_LIDAR (bind success and failure) inputs; always included: start before init, init twice, start twice, stop without start, '
            'decodePacket before init / while stopped, destroy while running; after every call the return value, init/start flags, existence (joinability) of both worker threads, processed-packet count, the size of the open frame after stop() and the number of '
            'close() calls on descriptors the process never opened are compared with the model; any callback after stop() returned is reported; cloud and packet sequence numbers must continue across restarts; '
            'the same histories under ThreadSanitizer; thorough tier adds every call sequence of length 4 over six calls (RAW_PACKET, 1296 histories) and of length 3 over seven calls (PCAP_FILE, 343 histories); non-trivial = history with a restart or a failed init or a destroy while running')
    explanation = ('C11_T1..T4 (Coq: for every call history threads exist iff started, started implies initialised; stop/destroy are barriers; init/start idempotent; start before init and failed init are inert; '
                   'counts never go back and packets accepted while stopped are decoded after restart) + call-history correspondence on the real driver + TSan')
    assumptions = ['the caller waits for an idle pipeline before stop() whenever a count is compared afterwards (whether stop() overtakes queued packets is timing; either outcome satisfies the property)',
                   'deadlock freedom is observed (every history must terminate within the harness time-out), not proved',
                   'the worker threads are represented by their existence; what they do between start and stop is the subject of C10/C12']
    projection = {'kinds': KINDS}

    def variant_for(self, bname):
        return 'tsan' if bname.startswith('tsan') else 'asan'

    def history(self, rng, kind, name, port):
        l = self.L['RS16']
        # frames of 3 blocks (a packet of 12 blocks ends on a frame boundary), of 13 (the boundary drifts through the packets), or of 1:
        # then the first block after every (re)start closes a frame that is empty - stop() emptied it -: nothing is delivered for it
        # and no sequence number is used up
        self._nh = getattr(self, '_nh', 0) + 1
        cfg = pktgen.Cfg(wait=0, dense=0, pktcb=1, lclock=1, mode=3, nblk=(3, 13, 1)[self._nh % 3])
        lines = [f'S {name}', cfg.line(0, l)]
        ms = scen.MechStream(rng, l)
        pk = [l.difop()] + [ms.msop() for _ in range(4)]
        repeat = 0
        if kind in ('pcap', 'pcaprep'):
            repeat = 1 if kind == 'pcaprep' else 0
            lines.append(f'N 0 1 {port} {port + 1} 0 {repeat}')
            for p in pk:
                f = udp_frame(p, port if p[0] == 0x55 else port + 1); lines.append(f'F 0 {len(f)} {f.hex()}')
        elif kind == 'sock':
            lines.append(f'N 0 2 {port} {port + 1} 0 0')
        ok = 0 if (kind != 'raw' and rng.random() < 0.3) else 1
        lines.append(f'LC 0 {ok}')
        # the generator tracks the model state only to avoid waits that would just time out
        st = {'init': False, 'start': False, 'unread': False, 'alive': True}
        feats = set()
        n = rng.randrange(6, 17)
        forced = rng.choice([['LS', 'LI', 'LI', 'LS', 'LS'], ['LP', 'LI', 'LP', 'LS', 'LW', 'LX', 'LP', 'LS', 'LW'], ['LX', 'LI', 'LS', 'LD'], ['LI', 'LS', 'LE', 'LX', 'LS', 'LE', 'LW', 'LX'], []])
        calls = list(forced)
        while len(calls) < n:
            calls.append(rng.choice(['LI', 'LS', 'LS', 'LX', 'LP', 'LP', 'LW', 'LE', 'LD', 'LC', 'LX', 'LS']))
        for c in calls:
            if c == 'LC':
                if rng.random() < 0.6:
                    continue
                ok = 0 if (kind != 'raw' and rng.random() < 0.3) else 1
                if st['alive'] and st['start']: feats.add('destroy-running')
                lines.append(f'LC 0 {ok}'); st = {'init': False, 'start': False, 'unread': False, 'alive': True}
                continue
            if c == 'LE' and not (st['alive'] and st['start'] and st['unread'] and kind in ('pcap', 'pcaprep')):
                continue
            if c == 'LW' and kind == 'pcaprep':
                continue
            if c == 'LP':
                if kind != 'raw' and rng.random() < 0.7:
                    continue
                lines.append(f'LP 0 {rng.choice(pk).hex()}')
                continue
            if c == 'LX' and st['alive'] and st['start'] and kind != 'pcaprep':
                lines.append('LW 0')        # whether stop() overtakes packets still queued is timing: the caller waits for an idle pipeline first
            lines.append(f'{c} 0')
            if not st['alive']:
                continue
            if c == 'LS' and kind == 'pcap' and st['init'] and not st['start']:
                lines.append('LE 0')        # a session always reads the capture file to its end (how far a reader got when stopped mid-file is a matter of timing)
            if c == 'LI':
                if not st['init'] and not ok: feats.add('failed-init')
                st['init'] = st['init'] or bool(ok)
            elif c == 'LS':
                if st['init'] and not st['start']:
                    if st.get('stopped_once'): feats.add('restart')
                    st['start'] = True; st['unread'] = (kind != 'pcap')
            elif c == 'LX':
                if st['start']: st['stopped_once'] = True
                st['start'] = False; st['unread'] = False
            elif c == 'LE':
                st['unread'] = False
            elif c == 'LD':
                if st['start']: feats.add('destroy-running')
                st = {'init': False, 'start': False, 'unread': False, 'alive': False}
        if rng.random() < 0.5:
            lines.append('LD 0')
        lines.append('E')
        self.feats[name] = feats
        return '\n'.join(lines)

    def bgfeed(self, rng, name):
        """stop() / restart while a thread of the caller keeps feeding: stop() must return although the queue never runs dry
        (a watchdog turns a call that does not return into a `hang` line), no callback may run between stop() and the next start()"""
        l = self.L[rng.choice(['RS16', 'RSHELIOS', 'RSM1'])]
        cfg = pktgen.Cfg(wait=0, dense=0, pktcb=1, lclock=1, mode=3, nblk=3)
        pk = scen.MechStream(rng, l).msop() if l.mech else scen.mems_msop(rng, l, 7)
        lines = [f'S {name}', cfg.line(0, l), 'WD 25', 'LC 0 1', 'LI 0', 'LS 0', f'LB 0 {rng.choice([200, 500, 1000])} {pk.hex()}', f'SL {rng.choice([20, 40])}']
        for k in range(rng.choice([1, 2])):
            lines += ['LX 0', f'SL {rng.choice([5, 20])}', 'LS 0', f'SL {rng.choice([10, 30])}']
        lines += ['LX 0', 'LY 0', 'LD 0', 'E']
        self.feats[name] = {'stop-while-feeding', 'restart'}
        return '\n'.join(lines)

    def generate(self, rng, tier):
        base = 12000 + (os.getpid() % 16) * 100      # a port block of this property only, below the ephemeral range
        self.feats = {}
        n = 6 if tier == 'quick' else 60
        hs = []
        for k in range(n):
            for kind in ('raw', 'raw', 'pcap', 'pcaprep', 'sock'):
                hs.append(self.history(rng, kind, f'c11_{kind}_{len(hs)}', base + 4 * len(hs)))
        hs += [self.bgfeed(rng, f'c11_bg_{k}') for k in range(3 if tier == 'quick' else 20)]
        out = [('life', '\n'.join(hs) + '\n')]
        ts = [self.history(rng, kind, f'c11_t_{kind}_{k}', base + 2000 + 4 * (5 * k + j)) for k in range(2 if tier == 'quick' else 12)
              for j, kind in enumerate(('raw', 'pcap', 'pcaprep', 'sock'))]
        ts += [self.bgfeed(rng, f'c11_t_bg_{k}') for k in range(2 if tier == 'quick' else 8)]
        out.append(('tsan_life', '\n'.join(ts) + '\n'))
        if tier != 'quick':
            # every call sequence of length 4 over the six calls on a RAW_PACKET driver (1296 histories), and of length 3 over
            # seven calls on a no-repeat PCAP_FILE driver (343 histories): small-scope exhaustive, on the real code
            import itertools
            l = self.L['RS16']
            cfg = pktgen.Cfg(wait=0, dense=0, pktcb=1, lclock=1, mode=3, nblk=3)
            ms = scen.MechStream(rng, l)
            pk = [l.difop()] + [ms.msop() for _ in range(3)]
            ex = []
            for k, seq in enumerate(itertools.product(['LI', 'LS', 'LX', 'LP', 'LW', 'LD'], repeat=4)):
                name = f'c11_x_raw_{k}'
                self.feats[name] = {'exhaustive'}
                lines = [f'S {name}', cfg.line(0, l), 'LC 0 1']
                st = {'init': False, 'start': False}
                for c in seq:
                    if c == 'LX' and st['start']:
                        lines.append('LW 0')
                    lines.append(f'LP 0 {pk[1].hex()}' if c == 'LP' else f'{c} 0')
                    if c == 'LI': st['init'] = True
                    elif c == 'LS' and st['init']: st['start'] = True
                    elif c == 'LX': st['start'] = False
                    elif c == 'LD': st = {'init': False, 'start': False}
                lines.append('E')
                ex.append('\n'.join(lines))
            out.append(('life_exh_raw', '\n'.join(ex) + '\n'))
            ex = []
            port = base + 3000
            for k, seq in enumerate(itertools.product(['LI', 'LS', 'LX', 'LW', 'LD', 'LS+LE', 'LX+LS'], repeat=3)):
                name = f'c11_x_pcap_{k}'
                self.feats[name] = {'exhaustive'}
                lines = [f'S {name}', cfg.line(0, l), f'N 0 1 {port} {port + 1} 0 0']
                for p in pk:
                    f = udp_frame(p, port if p[0] == 0x55 else port + 1); lines.append(f'F 0 {len(f)} {f.hex()}')
                lines.append('LC 0 1')
                st = {'init': False, 'start': False}
                for c in seq:
                    for cc in c.split('+'):
                        if cc == 'LE':
                            if not (st['init'] and st['start'] and st.get('unread')):
                                continue
                            st['unread'] = False
                        if cc == 'LW' and st['start'] and st.get('unread'):
                            lines.append('LE 0'); st['unread'] = False
                        if cc == 'LX' and st['start']:
                            lines.append('LW 0')
                        lines.append(f'{cc} 0')
                        if cc == 'LI': st['init'] = True
                        elif cc == 'LS' and st['init'] and not st['start']:
                            st['start'] = True; st['unread'] = True
                            lines.append('LE 0'); st['unread'] = False       # a session reads the file to its end (see history())
                        elif cc == 'LX': st['start'] = False; st['unread'] = False
                        elif cc == 'LD': st = {'init': False, 'start': False}
                lines.append('E')
                ex.append('\n'.join(lines))
            out.append(('life_exh_pcap', '\n'.join(ex) + '\n'))
        return out

    def classify(self, name, lines):
        return sorted(self.feats.get(name, set())) or ['plain']

    def signature(self, name, lines):
        return name if self.feats.get(name) else None

    def crash_key(self, name, lines, log):
        if any(l.startswith('hang') for l in lines):
            return 'hang'
        return 'tsan' if any('exit 68' in l for l in lines if l.startswith('crash')) else 'crash'

    def oracle(self, name, impl_lines, model_lines, scn_lines):
        res = []
        hung = [l for l in impl_lines if l.startswith('hang')]
        if hung:
            res.append(('hang', f'a lifecycle call did not return within the watchdog time although only the feeding went on: `{hung[0][5:]}` (stop() must return once the worker threads have seen the exit request)'))
        # init() is idempotent: only the first successful init() of an object asks the caller for a cloud buffer (a repeated init()
        # that built everything anew would ask again, and would forget what the decoder had learned)
        # every cloud handed over is followed by one get (for the next frame), from the decoding thread, at any moment: what is
        # counted is the excess of get calls over delivered clouds since the object was created - 1 after its first init(), never more
        gets, clouds, inited = 0, 0, False
        for l in impl_lines:
            t = l.split()
            if not t:
                continue
            if t[0] == 'get':
                gets += 1
            elif t[0] == 'cloud':
                clouds += 1
            elif t[0] in ('lcreate', 'ldestroy'):
                inited = False; gets = 0; clouds = 0
            elif t[0] == 'linit' and t[2] == '1':
                inited = True
            if inited and gets > clouds + 1:
                res.append(('init-not-idempotent', f'the get-cloud callback was called {gets} times for {clouds} delivered clouds and one init(): a repeated init() on an initialised driver initialised it a second time')); break
        if any(l.startswith('late') for l in impl_lines):
            res.append(('late-callback', 'a callback ran after stop() / the destructor had returned: ' + [l for l in impl_lines if l.startswith('late')][0]))
        # numbering continues across restarts (until the object is destroyed or replaced)
        exp_c, exp_p = 0, 0
        for l in impl_lines:
            t = l.split()
            if not t:
                continue
            if t[0] in ('lcreate', 'ldestroy'):
                exp_c, exp_p = 0, 0
            elif t[0] == 'cloud':
                if int(t[2]) != exp_c:
                    res.append(('cloud-seq', f'cloud sequence number {t[2]} where {exp_c} is due (numbering must continue across stop/start)')); break
                exp_c += 1
            elif t[0] == 'pkt':
                if int(t[2]) != exp_p:
                    res.append(('pkt-seq', f'packet sequence number {t[2]} where {exp_p} is due')); break
                exp_p += 1
        return res
