"""C08 - Arbitrary bytes never cause memory-unsafe or undefined behaviour in decoding."""
from props.base import PropBase
import pktgen, scen, compare as CMP


def mutate(rng, b):
    b = bytearray(b)
    k = rng.choice(['flip', 'flip', 'trunc', 'extend', 'ff', 'zero', 'rand', 'keep'])
    if k == 'flip' and b:
        for _ in range(rng.choice([1, 2, 8, 64])):
            b[rng.randrange(len(b))] ^= 1 << rng.randrange(8)
    elif k == 'trunc' and b:
        b = b[:rng.choice([0, 1, 2, 3, 8, 41, 42, 43, len(b) - 1, len(b) - 2, len(b) - 6, len(b) // 2])]
    elif k == 'extend':
        b += bytes(rng.randrange(256) for _ in range(rng.choice([1, 2, 6, 100, 298, 300])))
    elif k == 'ff' and b:
        i = rng.randrange(len(b)); n = rng.choice([1, 10, 100, len(b)])
        b[i:i + n] = b'\xff' * len(b[i:i + n])
    elif k == 'zero' and b:
        i = rng.randrange(len(b)); n = rng.choice([1, 10, 100, len(b)])
        b[i:i + n] = b'\x00' * len(b[i:i + n])
    elif k == 'rand':
        b = bytearray(rng.randrange(256) for _ in range(len(b)))
        b[0:2] = rng.choice([b'\x55\xaa', b'\xa5\xff', bytes(b[0:2])])
    return bytes(b)


class Prop(PropBase):
    pid = 'C08'
    kernels = ['Trigon', 'InputRaw_feedPacket']
    vo_targets = ['Props/Properties_C08.vo', 'Proofs/Layout.vo', 'Proofs/Eq_Trigon.vo', 'Proofs/Eq_Copy.vo', 'Proofs/Footprint.vo']
    prop_files = ['Props/Properties_C08.v']
    rule = ('all 17 types, ASan+UBSan build: structured mutations of valid MSOP/DIFOP packets (bit flips, truncation to 0/1/2/3/8/41..len-1, extension, 0xFF/0x00 runs, random bodies '
            'under both dispatch prefixes), datagram lengths around every accepted length and the packet-buffer size (1546/65536), with and without a packet callback, user/tail layers, '
            'through decodePacket and through a decoder directly (exact-size heap buffers); the model must agree on every output and no sanitizer report / crash / escaped exception may occur; '
            'metamorphic oracle: the handling of a packet shorter than the 2 dispatch bytes must not depend on earlier packets; non-trivial = scenario containing a mutated packet that the driver accepted')
    explanation = ('C08_T2..T4 (Coq: layouts of all 17 regenerated descriptors cover exactly the accepted lengths, table/iterator index bounds, trig clamp, raw-path contract) + '
                   'sanitizer-backed correspondence. PARTIAL: absence of UB in the compiled C++ is not a theorem')
    assumptions = ['configuration values inside their documented ranges', 'UB-freedom of the binary rests on ASan/UBSan runs, not on proof']
    projection = {'kinds': {'get', 'cloud', 'p', 'pkt', 'open', 'temp', 'crash', 'nodrv', 'k'}, 'ignore_buf': True}   # reported codes are C19's subject

    def kernel_class(self, k):
        return k.split()[1]

    def judge_kernels(self, bname, inp, impl_path, model_path, violations, broken, stats):
        if bname != 'kern_trig':
            return super().judge_kernels(bname, inp, impl_path, model_path, violations, broken, stats)
        # Trigon::sin / cos on arbitrary int32 angles: (1) the index the translated code forms (gen) must lie inside the table
        # the constructor allocates (tab: offset and length recorded by the probe) - a failing angle is the replay;
        # (2) the value the compiled code returns must be the table entry of the clamped index (independent oracle: binary32
        # of sin / cos of index x 0.01 deg, one ulp), and the call must not fault
        import math, struct
        il = [l.rstrip('\n') for l in open(impl_path) if l.startswith('k ')]
        ml = [l.rstrip('\n') for l in open(model_path) if l.startswith('k ')]
        kl = [l.rstrip('\n') for l in open(inp) if l.startswith('K ')]
        if not (len(il) == len(ml) == len(kl)):
            broken.append(f'kernel batch {bname}: line counts differ impl={len(il)} model={len(ml)} input={len(kl)}'); return
        f32 = lambda v: struct.unpack('<I', struct.pack('<f', v))[0]
        def ulps(a, b):
            key = lambda u: u ^ 0x80000000 if u < 0x80000000 else 0xFFFFFFFF - u + 0x80000000
            return abs(key(a) - key(b))
        cls = set()
        for k, a, m in zip(kl, il, ml):
            stats['evaluations'] += 1
            ang = int(k.split()[2])
            parts = [x.split() for x in m.split(' | ')]
            idx = int(parts[0][2]); gs, gc = int(parts[1][1]), int(parts[1][2]); slo, sn, clo, cn = map(int, parts[2][1:5])
            c = 'in-table' if -9000 <= ang < 45000 else ('below' if ang < -9000 else 'above')
            cls.add(c); stats['classes']['trig:' + c] = stats['classes'].get('trig:' + c, 0) + 1
            if len(stats['samples']) < 2:
                stats['samples'].append({'kernel_input': k, 'impl': a, 'model': m})
            if not (slo <= gs < slo + sn) or not (clo <= gc < clo + cn):
                violations.append(('kernel:trig', f'{k}: Trigon::sin/cos (as translated from trigon.hpp) index their tables at {gs} / {gc}, outside the allocated extent [{slo}, {slo + sn}) / [{clo}, {clo + cn}): read outside the driver\'s tables', k))
                continue
            if gs != idx or gc != idx:
                broken.append(f'translated Trigon kernel disagrees with the model clamp on `{k}`: gen {gs}/{gc}, model {idx}')
            t = a.split()
            if t[2] == 'crash':
                violations.append(('kernel:trig', f'{k}: Trigon::sin/cos terminated the process (signal/exit {t[3]})', k)); continue
            ws, wc = f32(math.sin(math.radians(idx * 0.01))), f32(math.cos(math.radians(idx * 0.01)))
            if ulps(int(t[2]), ws) > 1 or ulps(int(t[3]), wc) > 1:
                violations.append(('kernel:trig', f'{k}: compiled Trigon returns bits {t[2]} / {t[3]}, the table entry of the clamped index {idx} is {ws} / {wc}: the value does not come from the table entry the clamp selects', k))
        stats['distinct_nontrivial'] += len(cls)

    def kernel_verdict(self, k, impl, model, spec):
        return None if impl == model else 'decoder-direct run did not complete'

    def generate(self, rng, tier):
        out = []
        reps = 2 if tier == 'quick' else 14
        scn_all, ks = [], []
        for r in range(reps):
            for t in scen.ALL:
                if t == 'RSM1_JUMBO' and r % 2 != 0:
                    continue
                l = self.L[t]
                cfg = scen.rand_cfg(rng, dense=rng.randrange(2), wait=rng.randrange(2), pktcb=rng.randrange(2), lclock=rng.randrange(2),
                                    user=rng.choice([0, 0, 4, 64]), tail=rng.choice([0, 0, 2, 64]))
                if r == 1 and l.mech:
                    cfg.mode, cfg.nblk = 3, 0          # SPLIT_BY_CUSTOM_BLKS with num_blks_split = 0 is accepted: every block closes a frame
                s = scen.Scn(f'c08_{t}_{r}')
                s.drv(0, l, cfg)
                dual = rng.random() < 0.3
                if l.mech:
                    ms = scen.MechStream(rng, l, dual=dual)
                    good_d = l.difop(dual=dual, rpm=rng.choice([600, 0, 1, 30, 59, 60, 61, 65535]))      # also rpm values whose rounds per second are 0
                    mk = lambda: ms.msop(noise=rng.random() < 0.3, bpv4=(t == 'RSBP' and rng.random() < 0.3), model=(rng.choice([0, 1, 2, 3, 2, 3, 4, 0x10, 0x80, 0xff]) if t == 'RSP80' else rng.choice([0, 2, 3])))
                else:
                    st = {'seq': rng.choice([0, 1, 65530])}
                    good_d = l.difop(dual=dual)
                    def mk():
                        st['seq'] = (st['seq'] + 1) % 65536
                        return scen.mems_msop(rng, l, st['seq'], noise=rng.random() < 0.3)
                direct = []
                lens = [0, 1, 2, 3, l.msop_len - 1, l.msop_len, l.msop_len + 1, l.difop_len - 1, l.difop_len + 1, 1545, 1546, 1547, 1600]
                for k in range(rng.choice([6, 10]) if not l.jumbo else 2):
                    base = mk() if rng.random() < 0.65 else good_d
                    pkt = mutate(rng, base) if rng.random() < 0.75 else base
                    if rng.random() < 0.15:
                        n = rng.choice(lens)
                        pkt = (pkt + bytes(2000))[:n]
                    wire = bytes(rng.randrange(256) for _ in range(cfg.user)) + pkt + bytes(rng.randrange(256) for _ in range(cfg.tail))
                    if rng.random() < 0.08:
                        wire = wire[:rng.randrange(0, cfg.user + cfg.tail + 1)]     # cannot even hold the layers
                    s.pkt(0, wire)
                    direct.append(pkt)
                if l.jumbo:
                    # the reserved tail behind the 63 sub packets looks like the start of a 64th one
                    off = l.T['n_sub'] * l.T['sizeof_sub']
                    b = bytearray(mk()); b[off:off + 4] = bytes.fromhex('55aa5aa5')
                    if rng.random() < 0.5:
                        b[off + 4:off + 40] = bytes(rng.randrange(256) for _ in range(36))
                    s.pkt(0, bytes(b)); direct.append(bytes(b))
                s.add('T 0')
                scn_all.append(s.text())
                if not l.jumbo or r == 0:
                    ks.append(f'K direct {l.code} {rng.randrange(2)} ' + ','.join(p.hex() for p in direct))
        # M1 / M1 jumbo: pitch and yaw words over the whole 16-bit range with ranges inside the window (table indices from raw - 32768)
        for t in ('RSM1', 'RSM1_JUMBO'):
            l = self.L[t]
            edge = [0, 1, 23767, 23768, 23769, 32767, 32768, 65535, 12768, 3232, 41768]
            s = scen.Scn(f'c08_{t}_angles')
            s.drv(0, l, pktgen.Cfg(wait=0, dense=0))
            for k in range(2 if t == 'RSM1' else 1):
                blocks = [(rng.randrange(256), [{'dist': rng.choice([400, 2000, 30000]), 'int': rng.randrange(256),
                                                 'pitch': rng.choice(edge + [rng.randrange(65536)]), 'yaw': rng.choice(edge + [rng.randrange(65536)])}
                                                for _ in range(l.nchan)]) for _ in range(l.nblk)]
                s.pkt(0, l.mems_sub(k + 1, blocks) if not l.jumbo else l.jumbo_msop([l.mems_sub(j + 1, blocks, sub_len=l.T['sizeof_sub']) for j in range(l.T['n_sub'])]))
            scn_all.append(s.text())
        out.append(('drv', '\n'.join(scn_all) + '\n'))
        out.append(('kern_direct', '\n'.join(ks) + '\n'))
        angs = sorted(set([-2147483648, -2147483647, 2147483647, -65536, -45001, -45000, -36001, -36000, -35999, -32768, -27001, -27000, -18000, -9002, -9001, -9000, -8999,
                           -1, 0, 1, 8999, 9000, 35999, 36000, 36001, 44998, 44999, 45000, 45001, 53999, 54000, 65535, 72000, 81000, 90000]
                          + [rng.randrange(-100000, 100000) for _ in range(40 if tier == 'quick' else 400)]))
        out.append(('kern_trig', '\n'.join(f'K trig {a}' for a in angs) + '\n'))
        # metamorphic: a 0/1-byte packet after two different predecessors
        meta = []
        for t in ['RS32', 'RSM1', 'RSP128']:
            l = self.L[t]
            for short in ('55', 'a5', ''):
                for prev_name, prev in (('msop', (scen.MechStream(rng, l).msop() if l.mech else scen.mems_msop(rng, l, 5))), ('foreign', bytes([0x12, 0x34]) + bytes(100))):
                    s = scen.Scn(f'c08_meta_{t}_{short or "empty"}_{prev_name}')
                    s.drv(0, l, pktgen.Cfg(wait=0, dense=0, pktcb=1))
                    s.pkt(0, prev)
                    s.add('W 100')
                    s.add('T 0')      # marker: everything after it belongs to the short packet
                    s.lines.append(f'P 0 {short}' if short else 'P 0')
                    meta.append(s.text(residual=()))
        out.append(('meta', '\n'.join(meta) + '\n'))
        return out

    def judge(self, bname, inp, impl_path, model_path, impl_log, violations, broken, stats):
        super().judge(bname, inp, impl_path, model_path, impl_log, violations, broken, stats)
        if bname != 'meta':
            return
        sc = dict(CMP.split_scenarios(impl_path))
        def tail(lines):
            i = max(k for k, l in enumerate(lines) if l.startswith('temp'))
            return lines[i + 1:]
        for name, lines in sc.items():
            if name and name.endswith('_msop'):
                other = name[:-5] + '_foreign'
                a, b = tail(lines), tail(sc.get(other, []))
                if a != b:
                    violations.append(('short-packet-stale-dispatch', f'{name}: a packet shorter than the two dispatch bytes is handled as {a or "nothing"} after an MSOP packet but as {b or "nothing"} after a foreign packet: the dispatch reads bytes outside the packet', open(inp).read()))

    def classify(self, name, lines):
        c = sum(1 for l in lines if l.startswith('cloud') or l.startswith('open'))
        e = len(set(l for l in lines if l.startswith('err')))
        return [f'errs={min(e, 4)}']

    def signature(self, name, lines):
        return name if any(l.startswith('p ') for l in lines) else None
