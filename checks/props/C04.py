"""C04 - MEMS frames follow packet numbers; tolerated loss/reorder never splits a scan."""
from props.base import PropBase
import pktgen, scen

MEMS = ['RSM1', 'RSM2', 'RSM3', 'RSE1', 'RSMX']


def tolerated_stream(scans):
    """the property's hypothesis, on the received numbers alone"""
    p = None
    for si, sc in enumerate(scans):
        if not sc:
            return False
        f = sc[0]
        if not (0 <= f <= 65525):
            return False
        if si > 0 and not (f + 10 < p):
            return False
        p = f
        for n in sc[1:]:
            if not (0 <= n <= 65525 and p - 10 <= n <= p + 10):
                return False
            p = max(p, n)
    return True


class Prop(PropBase):
    pid = 'C04'
    kernels = ['SplitStrategyBySeq']
    vo_targets = ['Props/Properties_C04.vo', 'Proofs/Eq_SplitSeq.vo', 'Proofs/SplitSeq.vo']
    prop_files = ['Props/Properties_C04.v']
    rule = ('kernel: all (position, number) pairs in three 48-wide windows (low, mid, up to 65525) x looped/max variants against the real SplitStrategyBySeq; '
            'driver: scan-structured streams for RSM1/M2/M3/E1/MX (+ jumbo) with loss bursts of 0..9, late arrivals up to 10, lost first packets, scan length changes; '
            'oracle on streams meeting the hypothesis: delivered clouds = scans (packet counts); non-trivial = >= 2 clouds')
    explanation = 'C04_T0..T4 (Coq: SplitStrategyBySeq = model under its invariant; rewind iff; position = running max; whole-scans theorem; M1 end split) + correspondence'
    assumptions = ['sequence numbers <= 65525 (above, the 16-bit safe range saturates; property quantifier)']
    projection = {'kinds': {'cloud', 'pkt', 'open', 'crash', 'nodrv'}, 'ignore_ts': True, 'drop_points': True, 'ignore_buf': True, 'ignore_pkt_bytes': True}

    def kernel_class(self, k):
        t = k.split()
        prev, seq = int(t[2]), int(t[5])
        d = seq - prev
        if d < -10:
            return 'rewind'
        if d == -10 or d == -11:
            return 'rewind-edge'
        if d in (10, 11):
            return 'ahead-edge'
        return 'late' if d < 0 else ('ahead' if d <= 10 else 'far-ahead')

    def kernel_verdict(self, k, impl, model, spec):
        t = k.split()
        if spec is not None and impl[2] != spec[0]:
            return f'number {t[5]} is {"more than" if spec[0] == "1" else "not more than"} 10 below the tracked position {t[2]} (spec rewind = {spec[0]})'
        if impl != model:
            return f'model says `{" ".join(model)}`'
        return None

    def generate(self, rng, tier):
        out = []
        ks = []
        wins = [0, 30000, 65525 - 47]
        w = 48 if tier == 'quick' else 64
        for base in wins:
            for p in range(base, min(base + w, 65536), 1 if tier != 'quick' else 2):      # packet numbers are 16-bit on the wire
                for s in range(max(0, base - 12), min(65536, base + w + 12)):
                    mx = rng.choice([p, p + 5, 65000, 0])
                    ks.append(f'K seq {p} {min(mx, 65535)} {rng.randrange(2)} {s}')
        out.append(('kern', '\n'.join(ks) + '\n'))
        scn_all = []
        self.expect = {}
        reps = 4 if tier == 'quick' else 40
        for r in range(reps):
            for t in MEMS + (['RSM1_JUMBO'] if r % 4 == 0 else []):
                l = self.L[t]
                nscans = rng.choice([3, 4])
                base_len = rng.choice([12, 20, 31]) if t != 'RSM1_JUMBO' else 12
                start0 = 1 if t in ('RSM1',) or rng.random() < 0.7 else 0
                scans = []
                for si in range(nscans):
                    ln = base_len if rng.random() < 0.75 else rng.choice([base_len * 2, base_len - 5, base_len + 7])
                    nums = list(range(start0, start0 + ln))
                    if si == 0 and rng.random() < 0.3:
                        nums = nums[rng.randrange(1, ln // 2):]          # truncated first scan
                    mode = rng.choice(['clean', 'loss', 'late', 'firstlost', 'both'])
                    if mode in ('loss', 'both') and len(nums) > 14:
                        i = rng.randrange(1, len(nums) - 11); k = rng.choice([1, 5, 9, 9])
                        del nums[i:i + k]
                    if mode in ('late', 'both') and len(nums) > 14:
                        i = rng.randrange(1, len(nums) - 11); j = i + rng.choice([1, 5, 9, 10])
                        x = nums.pop(i); nums.insert(min(j, len(nums) - 1) if t == 'RSM1' else min(j, len(nums)), x)
                    if mode == 'firstlost':
                        del nums[:rng.choice([1, 5, 9])]
                    if rng.random() < 0.08:
                        # outside the hypothesis: loss of 10+, or a far-late packet
                        i = rng.randrange(1, max(2, len(nums) - 12)); del nums[i:i + rng.choice([10, 11, 15])]
                    scans.append(nums)
                name = f'c04_{t}_{r}'
                cfg = pktgen.Cfg(wait=0, dense=0, pktcb=1)
                s = scen.Scn(name)
                s.drv(0, l, cfg)
                mul = 63 if l.jumbo else 1
                for nums in scans:
                    for n in nums:
                        s.pkt(0, scen.mems_msop(rng, l, n * mul, return_mode=4), tick=0)
                scn_all.append(s.text())
                lens = [len(x) for x in scans]
                # RSM1 closes a scan after the packet carrying the highest number seen so far (all-time maximum, in force after the first
                # rewind): a later scan that grows beyond every earlier one is the recorded finding m1-scan-growth
                m1_ok = t != 'RSM1' or all(max(sc) <= max(max(x) for x in scans[:k]) and sc[-1] == max(sc) for k, sc in enumerate(scans) if k >= 1) and all(sc[0] >= 1 for sc in scans)
                if not l.jumbo and tolerated_stream(scans):
                    self.expect[name] = (lens, l.nblk * l.nchan, t, m1_ok, scans)
        # corpus: recorded finding D16 (M1: the scan grows after the first rewind)
        l = self.L['RSM1']
        sc = scen.Scn('c04_corpus_m1_growth')
        sc.drv(0, l, pktgen.Cfg(wait=0, dense=0, pktcb=1))
        scans = [list(range(1, 21)), list(range(1, 21)), list(range(1, 31)), list(range(1, 31))]
        for nums in scans:
            for n in nums:
                sc.pkt(0, scen.mems_msop(rng, l, n, return_mode=4), tick=0)
        scn_all.append(sc.text())
        self.expect['c04_corpus_m1_growth'] = ([len(x) for x in scans], l.nblk * l.nchan, 'RSM1', False, scans)
        out.append(('drv', '\n'.join(scn_all) + '\n'))
        return out

    def oracle(self, name, impl, model, scn):
        if name not in getattr(self, 'expect', {}):
            return []
        lens, ppp, t, m1_ok, scans = self.expect[name]
        got = [int(l.split()[8]) // ppp for l in impl if l.startswith('cloud')]
        opn = [int(l.split()[3]) // ppp for l in impl if l.startswith('open')]
        allc = got + opn
        want = lens
        if t == 'RSM1':
            # M1 closes a scan right after its last packet (once looped): the open frame may be empty
            allc = [x for x in allc if x]
        if allc != want:
            if t == 'RSM1' and not m1_ok:
                return [('m1-scan-growth', f'RSM1: clouds hold {allc} packets but the scans have {want} (scan maximum grew after the first rewind / packet after the scan end)')]
            return [('clouds-vs-scans', f'{t}: clouds hold {allc} packets but the received scans have {want} packets')]
        return []

    def classify(self, name, lines):
        c = sum(1 for l in lines if l.startswith('cloud'))
        return [f'clouds={min(c, 4)}', 'hypothesis-met' if name in getattr(self, 'expect', {}) else 'outside-hypothesis']

    def signature(self, name, lines):
        return name if sum(1 for l in lines if l.startswith('cloud')) >= 2 else None
