"""C14 - Recorded packets replay to the same clouds."""
import os
from props.base import PropBase
import pktgen, scen, compare as CMP


class Prop(PropBase):
    pid = 'C14'
    kernels = ['createTimeUTCWithUs', 'fx_internalProcessPacket', 'fx_runPacketCallBack']
    vo_targets = ['Props/Properties_C14.vo', 'Proofs/Record.vo', 'Proofs/Eq_Time.vo', 'Proofs/DispatchCode.vo']
    prop_files = ['Props/Properties_C14.v']
    rule = ('all 17 types, host and LiDAR clock on the recording side, 3 split modes, fixed-offset zones; phase 1: record a session through the packet callback (real driver; decodePacket streams, and loopback UDP with user / tail layers around every datagram) and compare '
            'every record (seq, is_difop, is_frame_begin, time, bytes incl. rewritten header) with the model; phase 2: feed the recorded bytes to a second real driver with '
            'use_lidar_clock and compare with the original clouds: same frames, same points, timestamps shifted by one constant <= packet duration (+1 us); non-trivial = >= 1 cloud replayed')
    explanation = 'C14_T1..T3 (Coq: record numbering/flags/bytes; recorded header decodes to receive time = original + packet duration exactly, both formats) + record-then-replay on the real driver'
    assumptions = ['process time zones: fixed offsets, and POSIX rules with daylight saving (European, US, Australian); receive times inside the two hours around the end of daylight saving, whose calendar times coincide, are not generated']
    projection = {'kinds': {'cloud', 'p', 'pkt', 'open', 'crash', 'nodrv', 'initfail'}, 'ignore_buf': True}

    def generate(self, rng, tier):
        scn_all = []
        reps = 2 if tier == 'quick' else 12
        self.cfgs = {}
        for r in range(reps):
            for t in scen.ALL:
                if t == 'RSM1_JUMBO' and r % 4 != 0:
                    continue
                host = (r % 2 == 0)
                cfg = scen.rand_cfg(rng, dense=rng.randrange(2), wait=rng.randrange(2), lclock=0 if host else 1, pktcb=1, tsfirst=0)
                name = f'c14_{"host" if host else "lidar"}_{t}_{r}'
                self.cfgs[name] = (t, cfg)
                scn_all.append(scen.mixed_scenario(rng, self.L, t, name, cfg, malformed_p=0.15, gap_p=0.1, host=host,
                                                   npk=rng.choice([4, 6]) if t != 'RSM1_JUMBO' else 2, start_az=rng.choice([None, 35900]),
                                                   bpv4=(r % 4 == 0) if t == 'RSBP' else None))
                if t == 'RSBP' and r % 2 == 1:
                    # both Bpearl header formats under the host clock
                    for v4 in (False, True):
                        cfg2 = scen.rand_cfg(rng, dense=0, wait=0, lclock=0, pktcb=1, tsfirst=0)
                        n2 = f'c14_host_RSBP{"v4" if v4 else "v3"}_{r}'
                        self.cfgs[n2] = (t, cfg2)
                        scn_all.append(scen.mixed_scenario(rng, self.L, t, n2, cfg2, malformed_p=0.0, host=True, npk=4, bpv4=v4, start_az=35900))
        # the 16-beam types under the host clock with a DIFOP packet announcing dual return after the first MSOP packet, whatever the seed:
        # the receive time minus one packet duration is the packet time before and after the change of the return mode
        for t in ('RS16', 'RSHELIOS_16P'):
            for k, at in enumerate((1, 2)):
                cfg = scen.rand_cfg(rng, dense=0, wait=0, lclock=0, pktcb=1, tsfirst=0)
                name = f'c14_host_dual_{t}_{k}'
                self.cfgs[name] = (t, cfg)
                scn_all.append(scen.mixed_scenario(rng, self.L, t, name, cfg, malformed_p=0.0, gap_p=0.0, host=True, npk=5, start_az=35900, dual=True, difop_at=at, cali_kind='valid'))
        # process time zones WITH daylight saving, while it is in force and while it is not (calendar-header types under the host clock:
        # the header is written with localtime() and read back with mktime()), and the LiDAR clock in such zones
        import tzrules
        for zi, zone in enumerate(tzrules.ZONES):
            for ti, t in enumerate(('RS16', 'RS32', 'RSBP')):
                for season, hb in (('nov', 1700000000000000), ('jul', 1721043045000000)):
                    host = not (ti == zi and season == 'nov')
                    cfg = scen.rand_cfg(rng, dense=0, wait=rng.randrange(2), lclock=0 if host else 1, pktcb=1, tsfirst=0)
                    cfg.tzd = zone
                    name = f'c14_dst_{zone}_{season}_{"host" if host else "lidar"}_{t}'
                    self.cfgs[name] = (t, cfg)
                    scn_all.append(scen.mixed_scenario(rng, self.L, t, name, cfg, malformed_p=0.0, gap_p=0.1, host=host, npk=4, start_az=35900, bpv4=False, host_base=hb))
        # recording from the UDP sockets with user / tail layers around every datagram: the record must hold the packet, not the layers
        base = 8000 + (os.getpid() % 30) * 100        # a port block of this property only, below the ephemeral range
        socks = []
        stypes = (rng.sample(scen.MECH, 2) + ['RSM1']) if tier == 'quick' else [t for t in scen.ALL if t != 'RSM1_JUMBO']
        for gi, t in enumerate(stypes):
            l = self.L[t]
            user, tail = rng.choice([(4, 0), (16, 4), (64, 64)])
            cfg = pktgen.Cfg(wait=0, dense=rng.randrange(2), pktcb=1, lclock=1, mode=3, nblk=rng.choice([3, 7]), angle=0, user=user, tail=tail)
            port = base + 2 * gi
            s = scen.Scn(f'c14_sock_{t}_{gi}')
            s.lines.append(cfg.line(0, l)); s.lines.append(f'N 0 4 {port} {port} 0 0')
            pk = []
            if l.mech:
                ms = scen.MechStream(rng, l)
                pk = [l.difop()] + [ms.msop() for _ in range(5)]
            else:
                pk = [scen.mems_msop(rng, l, 1), l.difop()] + [scen.mems_msop(rng, l, 2 + k) for k in range(3)]
            for p in pk:
                w = bytes(rng.randrange(256) for _ in range(user)) + p + bytes(rng.randrange(256) for _ in range(tail))
                s.lines.append(f'U 0 {port} {w.hex()}')
            s.lines.append('GO 0')
            socks.append(s.text(residual=()))
        # two recording drivers at once (one feeding thread each, ThreadSanitizer build): each driver's records must be its own
        # packets, numbered consecutively, whatever the other driver does meanwhile (scenarios and judge of C17's concurrent batch)
        from props import C17 as C17mod
        self.c17 = C17mod.Prop(); self.c17.setup(self.L, self.G, self.C)
        par = [txt for (bn, txt) in self.c17.generate(rng, 'quick') if bn == 'par'][0]
        return [('rec', '\n'.join(scn_all) + '\n'), ('rec_sock', '\n'.join(socks) + '\n'), ('par', par)]

    harness_variants = ['asan', 'tsan']

    def variant_for(self, bname):
        return 'tsan' if bname == 'par' else 'asan'

    def judge(self, bname, inp, impl_path, model_path, impl_log, violations, broken, stats):
        if bname == 'par' or (bname == 'replay' and '\nPAR\n' in open(inp).read()):
            if not hasattr(self, 'c17'):
                from props import C17 as C17mod
                self.c17 = C17mod.Prop(); self.c17.setup(self.L, self.G, self.C)
            return self.c17.judge('par', inp, impl_path, model_path, impl_log, violations, broken, stats)
        super().judge(bname, inp, impl_path, model_path, impl_log, violations, broken, stats)
        # phase 2: replay on the implementation
        rec = dict(CMP.split_scenarios(impl_path))
        lines = []
        for name, out in rec.items():
            if name not in self.cfgs:
                continue
            t, cfg = self.cfgs[name]
            l = self.L[t]
            import copy
            c2 = copy.copy(cfg); c2.lclock = 1; c2.pktcb = 0
            lines.append(f'S replay_{name}')
            if getattr(c2, 'tzd', None):
                import tzrules
                lines.append(tzrules.line(c2.tzd))
            lines.append(c2.line(0, l)); lines.append('I 0')
            w = 10
            for o in out:
                if o.startswith('pkt '):
                    tk = o.split()
                    w += 2
                    lines.append(f'W {w}')
                    lines.append(f'P 0 {tk[7]}' if len(tk) > 7 else 'P 0')
            lines.append('R 0'); lines.append('E')
        rp = inp[:-3] + '.replay.in'
        open(rp, 'w').write('\n'.join(lines) + '\n')
        rc, out, dt = self.C.run_impl(self.exes['asan'], rp, rp[:-3] + '.impl')
        if rc != 0:
            broken.append(f'replay run failed rc={rc}: {out[-300:]}')
            return
        rep = dict(CMP.split_scenarios(rp[:-3] + '.impl'))
        for name, out in rec.items():
            if name not in self.cfgs:
                continue
            t, cfg = self.cfgs[name]
            a = [l for l in out if l.split(' ', 1)[0] in ('cloud', 'p', 'open')]
            b = [l for l in rep.get('replay_' + name, []) if l.split(' ', 1)[0] in ('cloud', 'p', 'open')]
            text = '\n'.join(x for x in open(inp).read().split('\nS ') if x.startswith(name) or x.startswith('S ' + name))
            if len(a) != len(b):
                violations.append(('replay-frames', f'{name}: replay produced {len(b)} cloud/point lines, the recording {len(a)}', 'S ' + text))
                continue
            offs = []
            bad = None
            for x, y in zip(a, b):
                tx, ty = x.split(), y.split()
                if tx[0] != ty[0]:
                    bad = (x, y); break
                if tx[0] == 'p':
                    if tx[1] != ty[1] or tx[5:7] != ty[5:7] or (tx[1] == '1' and any(abs(float(p) - float(q)) > 1e-3 for p, q in zip(tx[2:5], ty[2:5]))):
                        bad = (x, y); break
                    offs.append(float(ty[7]) - float(tx[7]))
                elif tx[0] == 'cloud':
                    if tx[2:7] != ty[2:7] or tx[8] != ty[8]:
                        bad = (x, y); break
                    offs.append(float(ty[7]) - float(tx[7]))
            if bad:
                violations.append(('replay-points', f'{name}: replay differs from the recording: `{bad[0][:100]}` vs `{bad[1][:100]}`', 'S ' + text))
                continue
            if offs and cfg.lclock == 0:
                pd = self.L[t].T['packet_duration']
                import struct
                pdur = struct.unpack('<d', struct.pack('<Q', pd))[0]
                if max(offs) - min(offs) > 2.5e-6 or not (-1e-6 <= min(offs) and max(offs) <= pdur + 2e-6):
                    violations.append(('replay-time', f'{name}: timestamps shift by {min(offs) * 1e6:.2f}..{max(offs) * 1e6:.2f} us on replay (packet duration {pdur * 1e6:.2f} us)', 'S ' + text))
            elif offs and (max(map(abs, offs)) > 1.5e-6):
                violations.append(('replay-time', f'{name}: LiDAR-clock recording replays with a time shift of {max(map(abs, offs)) * 1e6:.2f} us', 'S ' + text))
            if offs:
                stats['classes']['replayed'] = stats['classes'].get('replayed', 0) + 1

    def classify(self, name, lines):
        return ['host' if '_host_' in name else 'lidar']

    def signature(self, name, lines):
        return name if any(l.startswith('cloud') for l in lines) else None
