"""C18 - Status getters report the last accepted packet, and only once one was seen."""
from props.base import PropBase
import pktgen, scen


class Prop(PropBase):
    pid = 'C18'
    kernels = ['parseTempInLe', 'parseTempInBe']
    vo_targets = ['Props/Properties_C18.vo', 'Proofs/Status.vo', 'Proofs/Eq_Misc.vo']
    prop_files = ['Props/Properties_C18.v']
    harness_variants = ['asan', 'asan+parse']
    defines = {'asan+parse': ('ENABLE_DIFOP_PARSE',)}
    rule = ('kernel: parseTempInLe/Be on sampled and boundary field values (the complete 65,536-value sweep is the Coq lemma against the regenerated kernel); '
            'driver: all 17 types, getTemperature/getDeviceInfo/getDeviceStatus queried before any packet, after accepted, rejected (wrong length/id), bad-block and DIFOP packets, '
            'default build and ENABLE_DIFOP_PARSE build; compared: getter results; non-trivial = scenario with a successful and an unavailable reading')
    explanation = 'C18_T0..T4 (Coq: temperature kernels = code on all values; sign-magnitude formats; reading = last accepted packet; device info with/without parsing; rejected packets inert) + correspondence'
    assumptions = []
    projection = {'kinds': {'temp', 'devinfo', 'devstatus', 'crash', 'nodrv'}}

    def variant_for(self, bname):
        return 'asan+parse' if 'parse' in bname else 'asan'

    def kernel_class(self, k):
        return k.split()[1]

    def generate(self, rng, tier):
        out = []
        ks = []
        vals = [(0, 0), (0xF8, 0x7F), (0xF8, 0xFF), (0x08, 0x80), (0xFF, 0xFF), (0x07, 0x00), (0x00, 0x80)]
        vals += [(rng.randrange(256), rng.randrange(256)) for _ in range(100 if tier == 'quick' else 5000)]
        for a, b in vals:
            ks.append(f'K temple {a} {b}'); ks.append(f'K tempbe {a} {b}')
        out.append(('kern', '\n'.join(ks) + '\n'))
        for build in ('plain', 'parse'):
            scn_all = []
            reps = 2 if tier == 'quick' else 12
            for r in range(reps):
                for t in scen.ALL:
                    if t == 'RSM1_JUMBO' and r > 0:
                        continue
                    l = self.L[t]
                    cfg = scen.rand_cfg(rng, dense=rng.randrange(2), wait=rng.randrange(2), pktcb=0)
                    if l.mech and r % 2 == 1:
                        cfg.from_file = 1; cfg.wait = 0      # calibration 'from file': DIFOP packets still carry identity and status
                    s = scen.Scn(f'c18_{build}_{t}_{r}')
                    s.add(f'B 0 {1 if build == "parse" else 0}')
                    s.drv(0, l, cfg)
                    s.add('T 0'); s.add('G 0')
                    dual = rng.random() < 0.3
                    if l.mech:
                        ms = scen.MechStream(rng, l, dual=dual)
                        mk = lambda: ms.msop(bad_blk=(rng.randrange(l.nblk) if rng.random() < 0.2 else None), model=rng.choice([0, 2, 3]) if t == 'RSP80' else None)
                    else:
                        st = {'seq': 1}
                        def mk():
                            st['seq'] += 1
                            # jumbo: trailing sub packets with a wrong identifier (rejected) carry other temperatures than the accepted ones
                            bad = tuple(range(rng.randrange(30, 63), 63)) if (l.jumbo and rng.random() < 0.7) else ()
                            return scen.mems_msop(rng, l, st['seq'], bad_subs=bad)
                    sn_first = [rng.randrange(256) for _ in range(6)]
                    for k in range(6):
                        # every scenario sees three DIFOP packets: the second has the serial number of the first and another MAC address /
                        # other versions / another voltage, the third another serial number: the last accepted packet is what is reported
                        ev = 'difop' if k in (1, 3, 5) else rng.choice(['msop', 'msop', 'difop', 'bad', 'msop'])
                        sn = sn_first if k in (1, 3) else [rng.randrange(256) for _ in range(6)]
                        if ev == 'msop':
                            s.pkt(0, mk())
                        elif ev == 'difop':
                            kd, vert, horiz, raw = scen.cali_table(rng, l, 'valid') if l.mech else (None, None, None, None)
                            d = bytearray(l.difop(dual=dual, vert=vert, horiz=horiz, raw_cali=raw, rng=rng if (k in (1, 3) or rng.random() < 0.8) else None, sn=sn))
                            s.pkt(0, bytes(d))
                        else:
                            kind, bad = scen.malformed(rng, l, mk(), l.difop())
                            s.pkt(0, bad)
                        s.add('T 0'); s.add('G 0')
                    scn_all.append(s.text(residual=()))
            out.append((f'drv_{build}', '\n'.join(scn_all) + '\n'))
        return out

    def classify(self, name, lines):
        a = any(l.startswith('temp') and l.split()[2] == '1' for l in lines)
        u = any(l.startswith('temp') and l.split()[2] == '0' for l in lines)
        di = any(l.startswith('devinfo') and l.split()[2] == '1' for l in lines)
        return ['temp:' + ('both' if a and u else 'avail' if a else 'unavail'), 'devinfo:' + ('yes' if di else 'no')]

    def signature(self, name, lines):
        a = any(l.startswith('temp') and l.split()[2] == '1' for l in lines)
        u = any(l.startswith('temp') and l.split()[2] == '0' for l in lines)
        return name if a and u else None
