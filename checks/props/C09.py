"""C09 - No cloud before calibration; atomic calibration load; ring = vertical rank."""
from props.base import PropBase
import pktgen, scen


class Prop(PropBase):
    pid = 'C09'
    kernels = ['ChanAngles']
    vo_targets = ['Props/Properties_C09.vo', 'Proofs/Calib.vo', 'Proofs/Eq_Misc.vo']
    prop_files = ['Props/Properties_C09.v']
    rule = ('kernel: ChanAngles::angleCheck around +-9000; driver: all 11 mechanical types with calibration tables valid / one 0xFF entry / +-90.00 deg / out of range / '
            'duplicated angles / RS16 3-byte and RS32 0.001-deg encodings, in every order relative to MSOP packets (bad before good, good then bad, good then different good), '
            'repeated DIFOPs changing rpm/FOV/return mode, wait_for_difop on and off; MEMS types; compared: cloud presence, ring and time of every point, NODIFOPRECV; '
            'oracle: rings of one block are ranks of the vertical angles in force (first accepted table); non-trivial = scenario with >= 2 DIFOP packets and a cloud/open frame')
    explanation = 'C09_T0..T6 (Coq: gate, all-or-nothing load, latch, ring = rank with order/bounds, MEMS never wait, DIFOP-governed rps/FOV state) + correspondence'
    assumptions = []
    projection = {'kinds': {'cloud', 'p', 'open', 'err', 'crash', 'nodrv'}, 'ignore_xyz': True, 'ignore_buf': True, 'err_codes': {'65'}}

    def kernel_class(self, k):
        v = int(k.split()[2])
        return 'edge' if abs(abs(v) - 9000) <= 1 else 'inner'

    def generate(self, rng, tier):
        out = []
        ks = [f'K anglecheck {v}' for v in (-9001, -9000, -8999, 0, 8999, 9000, 9001, 65535, -65535, 20000)]
        out.append(('kern', '\n'.join(ks) + '\n'))
        scn_all = []
        reps = 4 if tier == 'quick' else 24
        for r in range(reps):
            for t in scen.MECH + (['RSM1', 'RSMX'] if r == 0 else []):
                l = self.L[t]
                cfg = scen.rand_cfg(rng, dense=0, wait=(1 if rng.random() < 0.8 else 0), pktcb=0, mode=rng.choice([1, 3]), nblk=rng.choice([2, 5]))
                s = scen.Scn(f'c09_{t}_{r}')
                s.drv(0, l, cfg)
                if not l.mech:
                    seq = 1
                    for k in range(4):
                        s.pkt(0, scen.mems_msop(rng, l, seq)); seq += 1
                    scn_all.append(s.text()); continue
                dual = rng.random() < 0.3
                ms = scen.MechStream(rng, l, dual=dual)
                # DIFOP plan: kinds in order; MSOP packets between them
                plan = rng.choice([
                    ['valid'], ['ff', 'valid'], ['range', 'valid', 'range'], ['valid', 'valid2'], ['edge', 'valid2'], ['dup'],
                    ['ff', 'range', 'valid', 'valid2', 'ff'], ['valid', 'ff', 'valid2'], ['range'], ['edge', 'ff'],
                    # packets that are not "of the right length and identifier" but carry a perfectly good table: they must not open the gate
                    ['badid', 'valid2'], ['badid'], ['badlen', 'valid2'], ['badid', 'badlen', 'valid', 'badid'], ['badid', 'valid2']])
                # every type meets every kind of table / packet in the first three scenarios, whatever the seed
                if r < 4:
                    # each kind of table gets to be the first accepted one (the latch keeps it for the session)
                    plan = [['ff', 'valid', 'valid2'], ['badid', 'range', 'valid2', 'ff'], ['badlen', 'dup', 'valid'], ['edge', 'ff', 'valid2']][r]
                idpos = 2 + (r * 5 + len(scn_all)) % (len(l.difop_id) - 2)      # every identifier byte behind the two dispatch bytes in turn
                for kind in plan:
                    for k in range(rng.choice([0, 1, 2])):
                        s.pkt(0, ms.msop(gap_prob=0.05))
                    kd, vert, horiz, raw = scen.cali_table(rng, l, 'valid' if kind in ('valid2', 'badid', 'badlen') else kind)
                    dp = l.difop(dual=dual, rpm=rng.choice([300, 600, 1200]), fov=rng.choice([(0, 36000), (4500, 31500), (31500, 4500), (27000, 9000), (0, 0)]), vert=vert, horiz=horiz, raw_cali=raw)
                    if kind == 'badid':
                        b = bytearray(dp); b[idpos] ^= rng.choice([0x01, 0x80, 0xFF]); dp = bytes(b)
                        idpos = 2 + (idpos - 1) % (len(l.difop_id) - 2)
                    elif kind == 'badlen':
                        dp = dp[:-1] if rng.random() < 0.5 else dp + b'\x00'
                    s.pkt(0, dp)
                for k in range(rng.choice([2, 3])):
                    s.pkt(0, ms.msop(gap_prob=0.1))
                if rng.random() < 0.5:
                    # a later DIFOP changes rpm / FOV / return mode: must govern the following MSOP packets
                    dual = not dual if rng.random() < 0.5 else dual
                    ms.dual = dual
                    s.pkt(0, l.difop(dual=dual, rpm=rng.choice([300, 1200, 2400]), fov=rng.choice([(0, 36000), (9000, 27000), (33000, 3000), (18000, 17000)])))
                    for k in range(2):
                        s.pkt(0, ms.msop(gap_prob=0.3))
                scn_all.append(s.text())
        out.append(('drv', '\n'.join(scn_all) + '\n'))
        return out

    def classify(self, name, lines):
        c = sum(1 for l in lines if l.startswith('cloud'))
        e = any(l.startswith('err 0 65') for l in lines)
        return [f'clouds={min(c, 3)}', 'nodifop-reported' if e else 'no-nodifop']

    def signature(self, name, lines):
        return name if any(l.startswith('p ') for l in lines) else None
