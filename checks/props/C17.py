"""C17 - Driver instances in one process do not influence each other's output."""
from props.base import PropBase
import pktgen, scen, compare as CMP

PROJ = {'kinds': {'cloud', 'p', 'pkt', 'get', 'temp', 'open', 'crash', 'nodrv', 'initfail'}}


def units_of(text, k):
    """split a single-instance scenario (instance 0) into units re-indexed to instance k: (setup lines, [unit lines])"""
    setup, units, cur = [], [], []
    for line in text.split('\n'):
        t = line.split(' ')
        if t[0] in ('S', 'E', 'B') or not line:
            continue
        if t[0] in ('D', 'A', 'I', 'P', 'T', 'G', 'R', 'X') and len(t) > 1 and t[1] == '0':
            t[1] = str(k); line = ' '.join(t)
        if t[0] in ('D', 'A', 'I'):
            setup.append(line)
            continue
        cur.append(line)
        if t[0] in ('P', 'T', 'G', 'R', 'X'):
            units.append(cur); cur = []
    if cur:
        units.append(cur)
    return setup, units


def by_instance(lines):
    """group output lines by instance (field 1); point lines follow their cloud / open line"""
    out, last = {}, None
    for l in lines:
        t = l.split(' ', 2)
        if t[0] == 'p':
            if last is not None:
                out.setdefault(last, []).append(l)
            continue
        if len(t) > 1 and t[1].lstrip('-').isdigit():
            last = int(t[1]) if t[0] in ('cloud', 'open') else None
            out.setdefault(int(t[1]), []).append(l)
        else:
            last = None
    return out


class Prop(PropBase):
    pid = 'C17'
    kernels = ['throttle_sites']
    vo_targets = ['Props/Properties_C17.vo', 'Proofs/Instances.vo', 'Proofs/Throttle.vo']
    prop_files = ['Props/Properties_C17.v']
    harness_variants = ['asan', 'tsan', 'plain']
    rule = ('2..4 real LidarDriver instances in one process (all 17 types over the runs; always: the same type twice, Bpearl v3 + v4, Ruby Plus 80 + 80v, 16-beam single + dual return, mechanical + MEMS), '
            'each with its own random configuration and DIFOP/MSOP stream incl. malformed packets; random sequential interleavings of the packets, late creation, destruction and re-creation of instances in between; '
            'every instance\'s clouds, buffer requests, packet records, getter results compared (a) with the same instance run alone in a fresh process and (b) with the model; '
            'concurrent runs: the instances fed from one thread each under ThreadSanitizer, per-instance outputs compared with the model; non-trivial = multi-instance scenario in which >= 2 instances deliver a cloud')
    explanation = ('C17_T1..T3 (Coq: per-instance outputs of any multi-instance history = outputs of the history restricted to that instance; other instances\' events are inert; the shared throttle reaches error reports only) '
                   '+ solo-vs-together metamorphic runs of the real code + correspondence')
    assumptions = ['error reports are outside the property (their throttle is process-wide by design)',
                   'concurrent runs exercise the schedules ThreadSanitizer happens to see; the all-interleavings claim for sequential feeding is the Coq theorem, for concurrent feeding it rests on the absence of shared mutable state shown by TSan runs']
    projection = dict(PROJ)
    mismatch_is_violation = True

    def variant_for(self, bname):
        if bname == 'recreate':
            return 'plain'       # the real allocator: a destroyed instance's heap block is handed to the next one
        return 'tsan' if bname.startswith('par') else 'asan'

    def combos(self, rng, tier):
        base = [('RSBP', 'RSBP'), ('RSP80', 'RSP80'), ('RS16', 'RS16'), ('RSHELIOS_16P', 'RSHELIOS_16P'), ('RS32', 'RSM1'), ('RSBP', 'RSBP', 'RSP80', 'RSP80')]
        n = 6 if tier == 'quick' else 60
        for _ in range(n):
            k = rng.choice([2, 2, 3])
            c = [rng.choice(scen.ALL) for _ in range(k)]
            if rng.random() < 0.5:
                c[1] = c[0]
            if sum(1 for t in c if t == 'RSM1_JUMBO') > 1:
                continue
            base.append(tuple(c))
        return base

    def stream(self, rng, t, slot, sname, par=False, tz=0):
        """one instance's scenario text (as instance 0) with the variant forced by its slot"""
        cfg = scen.rand_cfg(rng, dense=rng.randrange(2), lclock=1 if par else rng.randrange(2), pktcb=1 if par else rng.randrange(2), wait=0 if par else rng.randrange(2), tz=tz,
                            **(dict(mode=3, nblk=rng.choice([1, 2, 5])) if rng.random() < 0.6 else {}))
        kw = dict(host=not cfg.lclock, residual=True, temp_query=True)
        if t == 'RSBP':
            kw['bpv4'] = bool(slot % 2)                 # v3 in even slots, v4 in odd ones
            kw['reversal'] = [0, 1][slot % 2] if rng.random() < 0.5 else 0
        if t in ('RS16', 'RSHELIOS_16P'):
            kw['dual'] = bool(slot % 2)
        if par:
            # concurrent runs stay clear of throttled error reports: LIMIT_CALL's process-wide clock is unsynchronised by design and
            # error reports are outside the property
            kw['malformed_p'] = 0.0; kw['badblk_p'] = 0.0; kw['difop_at'] = 0
        return scen.mixed_scenario(rng, self.L, t, sname, cfg, npk=(rng.choice([4, 6, 8]) if not self.L[t].jumbo else 1), **kw)

    def generate(self, rng, tier):
        out = []
        self.solo_of = {}
        seq, solo = [], []
        # variant pairs once more with a forced order: the odd-slot variant (Bpearl v4, dual return, ...) runs to its end before the
        # even-slot instance is even created, and the other way round
        forced = [(c, m) for c in [('RSBP', 'RSBP'), ('RSP80', 'RSP80'), ('RS16', 'RS16'), ('RSHELIOS_16P', 'RSHELIOS_16P'), ('RSMX', 'RSMX')] for m in ('rev', 'fwd')]
        allc = [(c, None) for c in self.combos(rng, tier)] + forced
        for ci, (combo, force) in enumerate(allc):
            name = f'c17_{ci}_' + '+'.join(combo) + (f'_{force}' if force else '')
            parts = []
            tz = rng.choice([0, 28800, -12600])      # the time zone is the process's, not an instance's
            for k, t in enumerate(combo):
                txt = self.stream(rng, t, k, 'x', tz=tz)
                if t == 'RSP80':
                    pass       # mixed_scenario already mixes model bytes 0/2/3/...: 80 and 80v within and across instances
                parts.append(units_of(txt, k))
            # merged history
            lines = [f'S {name}']
            pos = [0] * len(parts)
            created = [False] * len(parts)
            destroyed = set()
            solo_lines = {k: [] for k in range(len(parts))}
            def emit(k, ls):
                for l in ls:
                    lines.append(l)
                    for j in solo_lines:
                        if j == k or l.split(' ')[0] in ('W', 'H'):
                            solo_lines[j].append(l)
            # the first instance exists from the start; the others are created at random moments
            order = []
            for k, (_, us) in enumerate(parts):
                order += [k] * len(us)
            rng.shuffle(order)
            if rng.random() < 0.5:          # sometimes strictly one after the other
                order.sort(key=lambda k: (k if rng.random() < 0.9 else rng.random() * len(parts)))
            if force:
                order = sorted(order, reverse=(force == 'rev'))
            kill = rng.choice(range(len(parts))) if (rng.random() < 0.5 and not force) else None
            kill_at = rng.randrange(len(order)) if kill is not None else None
            for n, k in enumerate(order):
                if kill is not None and n == kill_at and created[kill] and kill not in destroyed:
                    emit(kill, [f'Z {kill}']); destroyed.add(kill)
                    if rng.random() < 0.4:       # ... and created again, from scratch
                        emit(kill, parts[kill][0]); destroyed.discard(kill)
                if k in destroyed:
                    pos[k] += 1
                    continue
                if not created[k]:
                    emit(k, parts[k][0]); created[k] = True
                emit(k, parts[k][1][pos[k]]); pos[k] += 1
            lines.append('E')
            seq.append('\n'.join(lines))
            for k in solo_lines:
                sn = f'{name}@{k}'
                solo.append('\n'.join([f'S {sn}'] + solo_lines[k] + ['E']))
                self.solo_of[(name, k)] = sn
        out.append(('seq', '\n'.join(seq) + '\n'))
        out.append(('solo', '\n'.join(solo) + '\n'))
        # an instance is created, fed and destroyed, and an instance of the same type is created in its place and fed the same
        # stream (same rpm, return mode, variant): on a build without sanitizers the new object reuses the old one's memory, and
        # its output must still be that of a fresh instance (the model has no heap)
        rec = []
        for k, t in enumerate(scen.MECH + ['RSM1', 'RSMX'] if tier != 'quick' else rng.sample(scen.MECH, 4) + ['RS32', 'RSM1']):
            cfg = scen.rand_cfg(rng, dense=0, lclock=1, pktcb=rng.randrange(2), wait=1, mode=rng.choice([1, 2, 2]))
            kw = dict(rpm=rng.choice([300, 1200, 2400]), difop_at=0, malformed_p=0.0, dual=bool(k % 2)) if self.L[t].mech else {}
            body = scen.mixed_scenario(rng, self.L, t, 'x', cfg, npk=4, **kw).split('\n')[1:-1]
            other = scen.mixed_scenario(rng, self.L, t, 'x', scen.rand_cfg(rng, dense=1, lclock=1, pktcb=0, wait=0), npk=rng.choice([0, 1, 3]), **kw).split('\n')[1:-1]
            first = body if k % 2 == 0 else other       # the predecessor is the same stream, or another one with the same rpm
            rec.append('\n'.join([f'S c17_recreate_{t}_{k}'] + first + ['Z 0'] + body + ['E']))
        out.append(('recreate', '\n'.join(rec) + '\n'))
        # two decoders of one process whose open frames are beyond (or at) the documented limit, hit by an MSOP-dispatched packet within
        # the same second, one second and several seconds apart: the discard of an instance's frame must not depend on the other's
        codes = [self.L[t].code for t in ('RSM1', 'RS16', 'RSHELIOS', 'RSM2')]
        ks = [f'K overflow2 {a} {n1} {b} {n2} {dt}' for (a, b) in [(codes[0], codes[0]), (codes[0], codes[1]), (codes[2], codes[3])]
              for (n1, n2) in [(1000001, 1000001), (1000000, 1000001), (1000001, 7)] for dt in (0, 1, 5)]
        out.append(('kern_ovf', '\n'.join(ks) + '\n'))
        # concurrent feeding under TSan
        par = []
        pcombos = [('RSBP', 'RSBP'), ('RSP80', 'RSP80'), ('RS16', 'RS16'), ('RS128', 'RSM1'), ('RSHELIOS', 'RSHELIOS', 'RSE1')]
        if tier != 'quick':
            pcombos += [tuple(rng.choice(scen.ALL[:-1]) for _ in range(rng.choice([2, 3, 4]))) for _ in range(20)]
        for ci, combo in enumerate(pcombos):
            name = f'c17_par_{ci}_' + '+'.join(combo)
            lines = [f'S {name}']
            per = []
            tz = rng.choice([0, 28800, -12600])
            for k, t in enumerate(combo):
                setup, us = units_of(self.stream(rng, t, k, 'x', par=True, tz=tz), k)
                lines += setup
                per.append([l for u in us for l in u if l.startswith('P ')])
            # the model runs them sequentially in a random merge that keeps each instance's own order; the harness feeds each instance from its own thread
            body = []
            while any(per):
                k = rng.choice([i for i, q in enumerate(per) if q])
                body.append(per[k].pop(0))
            lines.append('PAR')
            lines += body
            lines.append('ENDPAR')
            for k in range(len(combo)):
                lines.append(f'R {k}')
            lines.append('E')
            par.append('\n'.join(lines))
        out.append(('par', '\n'.join(par) + '\n'))
        # an instance owns its settings: the parameter object handed to init() is the caller's, who overwrites and frees it right after
        # init() returned (the harness does so for every instance) - e.g. to configure the next LiDAR. Capture-file inputs consult
        # their settings for every record: the jumbo reader's datagrams must still be those of its own configuration
        from props import C16 as C16mod
        self.c16 = C16mod.Prop(); self.c16.setup(self.L, self.G, self.C)
        out.append(('owncfg_jumbo', [txt for (bn, txt) in self.c16.generate(rng, 'quick') if bn == 'jumbo'][0]))
        return out

    def kernel_class(self, k):
        return 'two-overflows'

    def kernel_verdict(self, kline, impl, model, spec):
        if impl != model:
            t = kline.split()
            return (f'with open frames of {t[3]} and {t[5]} points in two decoders of one process, {t[6]} s apart, the frames discarded were {impl[2:]} (first, second, first again); '
                    f'each instance discards exactly when its own open frame holds more than 1,000,000 points: {model[2:]}')
        return None

    def judge(self, bname, inp, impl_path, model_path, impl_log, violations, broken, stats):
        if bname.startswith('kern'):
            return self.judge_kernels(bname, inp, impl_path, model_path, violations, broken, stats)
        text = open(inp).read()
        if bname == 'owncfg_jumbo' or (bname == 'replay' and '\nS c16_' in '\n' + text):
            if not hasattr(self, 'c16'):
                from props import C16 as C16mod
                self.c16 = C16mod.Prop(); self.c16.setup(self.L, self.G, self.C)
            return self.c16.judge('jumbo', inp, impl_path, model_path, impl_log, violations, broken, stats)
        impl = dict(CMP.split_scenarios(impl_path))
        model = dict(CMP.split_scenarios(model_path))
        if bname == 'seq':
            self.seq_impl = impl
        for name, lines in impl.items():
            if name is None:
                continue
            stats['evaluations'] += 1
            payload = self.scn_of(text, name)
            crashed = [l for l in lines if l.startswith('crash')]
            if crashed:
                kind = 'tsan' if 'exit 68' in crashed[0] else 'crash'
                violations.append((kind, f'scenario {name}: {crashed[0]} :: {impl_log[-900:]}', payload))
                continue
            a = by_instance(CMP.project(lines, PROJ))
            b = by_instance(CMP.project(model.get(name, []), PROJ))
            nontriv = 0
            for k in sorted(set(a) | set(b)):
                d = CMP.compare_scenario(a.get(k, []), b.get(k, []), {})
                if any(l.startswith('cloud') for l in a.get(k, [])):
                    nontriv += 1
                if d is not None:
                    violations.append(('mismatch' if bname != 'par' else 'par-mismatch',
                                       f'scenario {name}: instance {k} differs from the model at item {d[0]}: impl `{d[1]}` vs model `{d[2]}`', payload))
            cls = bname + (':multi-cloud' if nontriv >= 2 else ':single')
            stats['classes'][cls] = stats['classes'].get(cls, 0) + 1
            if nontriv >= 2 and bname != 'solo':
                stats['distinct_nontrivial'] += 1
            if len(stats['samples']) < 3 and nontriv >= 2:
                stats['samples'].append({'scenario': name, 'instances': sorted(a), 'lines_per_instance': {str(k): len(v) for k, v in a.items()}})
        if bname == 'solo' and hasattr(self, 'seq_impl'):
            # metamorphic: together vs alone, real code against real code
            seq_text = open(inp.replace('solo.in', 'seq.in')).read()
            for (name, k), sn in self.solo_of.items():
                tog = by_instance(CMP.project(self.seq_impl.get(name, []), PROJ)).get(k, [])
                alone = by_instance(CMP.project(impl.get(sn, []), PROJ)).get(k, [])
                stats['evaluations'] += 1
                d = CMP.compare_scenario(tog, alone, {})
                if d is not None:
                    violations.append(('together-vs-alone', f'scenario {name}: instance {k} produces different output next to the other instances than alone, at item {d[0]}: together `{d[1]}` vs alone `{d[2]}`',
                                       self.scn_of(seq_text, name)))

    @staticmethod
    def scn_of(text, name):
        i = text.find(f'S {name}\n')
        j = text.find('\nE', i)
        return text[i:j + 2] if i >= 0 else text[:100000]
