"""C12 - pcap file, UDP socket and raw-packet API extract the same payloads."""
import os
from props.base import PropBase
import pktgen, scen, compare as CMP
from pktgen import udp_frame


class Prop(PropBase):
    pid = 'C12'
    kernels = ['InputPcap_recvPacket', 'InputPcapJumbo_recvPacket', 'InputSock_recvPacket', 'InputPcap_copy', 'InputSock_copy']
    vo_targets = ['Props/Properties_C12.vo', 'Proofs/InputSafe.vo', 'Model/Worker.vo', 'Proofs/WorkerExit.vo', 'Proofs/Eq_Copy.vo']
    prop_files = ['Props/Properties_C12.v']
    harness_variants = ['asan', 'asan+epoll']
    defines = {'asan+epoll': ('ENABLE_EPOLL_RECEIVE',)}
    rule = ('the same DIFOP/MSOP stream (all 17 types over the runs; quick: a rotating subset) fed three ways through the real driver: a generated pcap file (plain and VLAN-tagged frames), '
            'loopback UDP datagrams (select and epoll receivers; paced, and as one burst queued before start()), decodePacket; user/tail layers 0/4/64; ports distinct / equal / DIFOP port 0; foreign-port, ARP, IPv6, TCP frames interleaved; '
            'pcap_repeat on/off; compared: payloads reaching the decoder and clouds, each path against the model and the three paths against each other; '
            'kernel: the declarative filter predicate against libpcap pcap_offline_filter on mutated frames; non-trivial = scenario delivering >= 1 cloud')
    explanation = 'C12_T1..T2 (Coq: pcap extraction of an accepted complete record = raw extraction of its UDP payload; socket = raw for datagrams that fit; port rules) + three-way correspondence on the real driver'
    assumptions = ['Ethernet/IPv4 frames with a 20-byte IP header (the input\'s fixed 42-byte offset)', 'MSOP/DIFOP datagrams are sent to the two sockets in an order the test waits for (cross-socket order is unspecified)']
    projection = {'kinds': {'pkt', 'cloud', 'p', 'ierr', 'crash', 'nodrv', 'initfail'}, 'ignore_buf': True, 'ierr_last': True}

    def variant_for(self, bname):
        return 'asan+epoll' if 'epoll' in bname else 'asan'

    def kernel_class(self, k):
        return 'bpf'

    def generate(self, rng, tier):
        out = []
        base = 16000 + (os.getpid() % 30) * 100      # a port block of this property only, below the ephemeral range
        # ---- kernel: BPF predicate vs libpcap
        ks = []
        for _ in range(150 if tier == 'quick' else 3000):
            port = rng.choice([6699, 7788, 1, 65535])
            vlan = rng.randrange(2)
            f = bytearray(udp_frame(bytes(rng.randrange(40)), rng.choice([port, port, 7788, 80]), vlan=rng.random() < 0.6, ihl=rng.choice([5, 5, 6, 15]),
                                    frag_off=rng.choice([0, 0, 0, 8]), more=rng.random() < 0.1, proto=rng.choice([17, 17, 17, 6]), ipv6=rng.random() < 0.15,
                                    ethertype=rng.choice([0x0800, 0x0800, 0x0806]), vlan_type=rng.choice([0x8100, 0x8100, 0x88a8, 0x9100, 0x9200])))
            if rng.random() < 0.3:
                f = f[:rng.randrange(0, len(f) + 1)]
            if rng.random() < 0.2 and f:
                f[rng.randrange(len(f))] ^= 1 << rng.randrange(8)
            ks.append(f'K bpf {vlan} {rng.choice([port, port, -1])} {bytes(f).hex()}')
        out.append(('kern_bpf', '\n'.join(ks) + '\n'))
        # ---- three-way scenarios
        types = scen.ALL if tier != 'quick' else rng.sample(scen.MECH, 3) + rng.sample(['RSM1', 'RSM2', 'RSE1', 'RSMX', 'RSM3'], 2) + ['RSM1_JUMBO']
        self.groups = {}
        scn_sel, scn_ep = [], []
        for gi, t in enumerate(types):
            l = self.L[t]
            user, tail = rng.choice([(0, 0), (0, 0), (4, 0), (4, 2), (64, 64)])
            if gi < 6:
                user, tail = [(0, 0), (4, 2), (0, 0), (64, 64), (4, 0), (0, 0)][gi]     # layers on both the select and the epoll groups, whatever the seed
            vlan = rng.randrange(2)
            ports = rng.choice(['distinct', 'distinct', 'equal', 'difop0'])
            if gi < 2:
                ports = ['equal', 'difop0'][gi]     # single-socket groups: sent as one burst before start() (see below)
            if gi == 2:
                ports, vlan = 'distinct', 1         # tagged frames and a separate DIFOP filter
            msop = base + 40 + 3 * gi
            difop = {'distinct': msop + 1, 'equal': msop, 'difop0': 0}[ports]
            repeat = (gi % 5 == 4) and not l.jumbo
            cfgkw = dict(wait=0 if ports == 'difop0' else rng.randrange(2), dense=rng.randrange(2), pktcb=1, lclock=1, user=user, tail=tail,
                         mode=3, nblk=rng.choice([3, 7]), angle=0)
            # the packet list
            pk = []
            dual = rng.random() < 0.3
            if l.mech:
                ms = scen.MechStream(rng, l, dual=dual)
                pk.append(('d', l.difop(dual=dual)))
                for k in range(rng.choice([4, 6])):
                    pk.append(('m', ms.msop()))
                    if rng.random() < 0.2:
                        pk.append(('d', l.difop(dual=dual)))
            else:
                seq = 1
                for k in range(rng.choice([3, 5]) if not l.jumbo else 2):
                    if k == 1:
                        pk.append(('d', l.difop(dual=dual)))
                    pk.append(('m', scen.mems_msop(rng, l, seq))); seq += 63 if l.jumbo else 1
            if difop == 0:
                pk = [(k, p) for (k, p) in pk if k == 'm']
            wrap = lambda p: bytes(rng.randrange(256) for _ in range(user)) + p + bytes(rng.randrange(256) for _ in range(tail))
            wired = [(k, wrap(p)) for (k, p) in pk]
            port_of = lambda k: msop if (k == 'm' or difop == msop) else difop
            name = f'c12_{t}_{gi}'
            self.groups[name] = (t, repeat, vlan, user, tail, l.jumbo)
            # raw
            s = scen.Scn(name + '_raw')
            s.drv(0, l, pktgen.Cfg(**cfgkw))
            for k, w in wired:
                s.pkt(0, w, tick=0)
            scn_sel.append(s.text(residual=()))
            # pcap (with foreign / non-UDP frames interleaved)
            s = scen.Scn(name + '_pcap')
            s.lines.append(pktgen.Cfg(**cfgkw).line(0, l)); s.lines.append(f'N 0 {3 if l.jumbo else 1} {msop} {difop} {vlan} {1 if repeat else 0}')
            for k, w in wired:
                if l.jumbo and len(w) + 8 > 1480:
                    dg = (6699).to_bytes(2, 'big') + port_of(k).to_bytes(2, 'big') + ((8 + len(w)) & 0xffff).to_bytes(2, 'big') + b'\x00\x00' + w
                    off = 0
                    while off < len(dg):
                        f = udp_frame(b'', port_of(k), ip_id=(1000 + gi), frag_off=off, more=(off + 1480 < len(dg)), raw_ip_payload=dg[off:off + 1480], vlan=bool(vlan))
                        s.lines.append(f'F 0 {len(f)} {f.hex()}'); off += 1480
                        if off < len(dg) and rng.random() < 0.15:
                            # foreign traffic recorded between the fragments of the train: an unfragmented datagram to another port
                            j = udp_frame(w[:rng.choice([40, 200])], base + 999, vlan=bool(vlan), ip_id=rng.choice([0, 1000 + gi, 77]))
                            s.lines.append(f'F 0 {len(j)} {j.hex()}')
                else:
                    f = udp_frame(w, port_of(k), vlan=bool(vlan))
                    s.lines.append(f'F 0 {len(f)} {f.hex()}')
                if rng.random() < 0.4:
                    j = rng.choice([udp_frame(w[:60], base + 999, vlan=bool(vlan)), udp_frame(w[:60], port_of(k), vlan=bool(vlan), ethertype=0x0806),
                                    udp_frame(w[:60], port_of(k), vlan=bool(vlan), proto=6), udp_frame(w[:40], port_of(k), vlan=not bool(vlan))])
                    s.lines.append(f'F 0 {len(j)} {j.hex()}')
            if gi % 2 == 1 or repeat:
                # a capture whose writer was killed: one more MSOP record follows, but the file ends in the middle of it. It cannot
                # be read, contributes nothing, and the end of the file is handled as usual
                last_m = [w for k, w in wired if k == 'm'][-1]
                f = udp_frame(last_m, msop, vlan=bool(vlan)) if not l.jumbo else udp_frame(last_m[:1000], msop, vlan=bool(vlan))
                s.lines.append(f'F 0 {len(f)} {f.hex()}'); s.lines.append('FT 0')
            s.lines.append('GO 0')
            scn_sel.append(s.text(residual=()))
            # sockets: select build always, epoll build for every other group
            for variant, acc in (('sock', scn_sel), ('epoll', scn_ep)):
                if variant == 'epoll' and gi % 2:
                    continue
                if variant == 'sock' and tier == 'quick' and gi % 2 == 0 and not l.jumbo:
                    continue
                s = scen.Scn(name + '_' + variant)
                # one socket and a modest volume: queue the whole burst before the receiver starts (mode 4), else pace the datagrams (mode 2)
                burst = ports != 'distinct' and not l.jumbo and sum(len(w) for _, w in wired) < 100000
                s.lines.append(pktgen.Cfg(**cfgkw).line(0, l)); s.lines.append(f'N 0 {4 if burst else 2} {msop + 400} {difop + 400 if difop else 0} 0 0')
                for k, w in wired:
                    s.lines.append(f'U 0 {port_of(k) + 400 if port_of(k) else 0} {w.hex()}')
                    if rng.random() < 0.3 and not burst:
                        s.lines.append(f'U 0 {base + 998} {w[:50].hex()}')
                s.lines.append('GO 0')
                acc.append(s.text(residual=()))
        out.append(('ways', '\n'.join(scn_sel) + '\n'))
        out.append(('ways_epoll', '\n'.join(scn_ep) + '\n'))
        # both sockets readable in the same wake-up (bursts on distinct MSOP / DIFOP ports queued before start, and empty datagrams):
        # every datagram reaches the decoder exactly once, intact, in the order of its socket - on the select and the epoll receiver
        from props import C10 as C10mod
        self.c10 = C10mod.Prop(); self.c10.setup(self.L, self.G, self.C)
        for bn, txt in self.c10.generate(rng, 'quick'):
            if bn in ('sockburst', 'sockpaced'):
                out.append((bn, txt))
                out.append((bn + '_epoll', txt))
        return out

    def judge(self, bname, inp, impl_path, model_path, impl_log, violations, broken, stats):
        if bname.startswith('sock') or (bname == 'replay' and 'S c10_sock' in open(inp).read()):
            if not hasattr(self, 'c10'):
                from props import C10 as C10mod
                self.c10 = C10mod.Prop(); self.c10.setup(self.L, self.G, self.C)
            return self.c10.judge_sockburst(inp, impl_path, impl_log, violations, stats)
        super().judge(bname, inp, impl_path, model_path, impl_log, violations, broken, stats)
        if not bname.startswith('ways'):
            return
        sc = dict(CMP.split_scenarios(impl_path))
        if bname == 'ways':
            self.raw_out = {n[:-4]: l for n, l in sc.items() if n and n.endswith('_raw')}
        def clouds(lines, rounds=1):
            return [l for l in lines if l.split(' ', 1)[0] in ('cloud', 'p')]
        for name, lines in sc.items():
            if not name or name.endswith('_raw'):
                continue
            g, way = name.rsplit('_', 1)
            if g not in self.groups or g not in getattr(self, 'raw_out', {}):
                continue
            t, repeat, vlan, user, tail, jumbo = self.groups[g]
            a = clouds(self.raw_out[g]); b = clouds(lines)
            if way == 'pcap' and repeat:
                b = b[:len(a)]     # the first round of a repeated file
            ok = len(a) == len(b) and all(CMP.line_equal(x, y, {'ignore_buf': True}) or (x.split()[0] == 'cloud' and x.split()[4:7] == y.split()[4:7] and x.split()[8] == y.split()[8]) for x, y in zip(a, b))
            stats['classes'][f'{way}-vs-raw'] = stats['classes'].get(f'{way}-vs-raw', 0) + 1
            if not ok:
                key = 'jumbo-layers' if jumbo and (vlan or user or tail) else f'{way}-differs-from-raw'
                violations.append((key, f'{name}: clouds decoded from the {way} input differ from those of decodePacket for the same packets ({len(b)} vs {len(a)} cloud/point lines)', open(inp).read()[:200000]))

    def classify(self, name, lines):
        return [name.rsplit('_', 1)[-1]]

    def signature(self, name, lines):
        return name if any(l.startswith('cloud') for l in lines) else None
