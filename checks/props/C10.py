"""C10 - Packets cross threads exactly once, in order, intact, under every schedule."""
import os, re
from props.base import PropBase
import pktgen, scen, compare as CMP


class Prop(PropBase):
    pid = 'C10'
    kernels = ['fx_packetGet', 'fx_packetPut', 'fx_sq_push', 'fx_sq_pop', 'fx_sq_popWait', 'fx_sq_clear']
    vo_targets = ['Props/Properties_C10.vo', 'Proofs/QueueInv.vo', 'Proofs/QueueProgress.vo', 'Model/Queue.vo', 'Proofs/QueueCode.vo', 'Proofs/SyncQueueCode.vo']
    prop_files = ['Props/Properties_C10.v']
    harness_variants = ['asan', 'tsan', 'asan+epoll']
    defines = {'asan+epoll': ('ENABLE_EPOLL_RECEIVE',)}
    rule = ('the real LidarDriverImpl / SyncQueue with real threads (RAW_PACKET input): 1..4 feeding threads calling decodePacket with tagged packets while the decoding thread runs, fast and slow consumers '
            '(0 / 200 us / 2 ms per packet callback), 0 / 1023 / 1024 / 1025 / 1030 packets queued before start() (the overflow boundary), bursts far above 1024 against a slow consumer, '
            'schedule perturbation (yields / short sleeps injected at the hook points outside the critical sections, seeded); every run records the linearised synchronisation events through the guarded hooks '
            '(free-pool pop, allocation, push with resulting size, notify, overflow report, clear, popWait result, decode begin/end, recycle) and the extracted Coq model replays them: each event must be enabled in the '
            'model state with the same buffer, size and payload; the payload and byte-integrity the packet callback saw must be the model\'s; ThreadSanitizer runs of the same scenarios without the recording; '
            'non-trivial = run with >= 2 producers or an overflow or a slow consumer')
    explanation = ('C10_T1..T6 (Coq: for every schedule of n producers and the decoding thread - exclusive buffer ownership, decode order = arrival order / at most once / bytes intact, exact accounting of every packet, '
                   'drops only by a reported clear after a push saw > 1024 pending, clear drops the whole backlog, everything decoded once drained, no lost wake-up, progress: the decoding thread alone drains any reachable state) + trace conformance of the real code to the model')
    assumptions = ['the hook events are emitted inside the critical section they describe (sync_queue.hpp), so their recorded order is the linearisation order of each queue',
                   'the memcpy / recvfrom into a buffer happens between packetGet and the push in the input code (read from the source; not hooked)',
                   'fairness of the real scheduler (that the decoding thread eventually runs) is not modelled; C10_T7 shows that whenever it runs nothing can block it']
    projection = {}
    impl_timeout = 3000
    trusted_extra = ['OCaml trace validator ocaml/qv.ml (maps hook events to model actions; ~170 lines)']

    def replay_batch(self, text):
        return 'epoll_sockburst' if ('S c10_epburst_' in text or 'S c10_eppaced_' in text) else 'replay'

    def variant_for(self, bname):
        return 'tsan' if bname.startswith('tsan') else ('asan+epoll' if 'epoll' in bname else 'asan')

    def generate(self, rng, tier):
        L = self.L
        cfgline = pktgen.Cfg(wait=0, dense=0, pktcb=1, lclock=1).line(0, L['RS16'])
        def scn(name, nprod, npkt, prefill, slow, seed, trace):
            return '\n'.join([f'S {name}', cfgline, 'I 0', f'Q 0 {nprod} {npkt} {prefill} {slow} {seed} {trace}', 'E'])
        runs = []
        # the overflow boundary, deterministic: the packets are queued before the decoding thread exists
        for pre in (1023, 1024, 1025, 1030):
            runs.append((f'c10_pre{pre}', 1, 0, pre, 0, 0))      # nothing is fed after start(): the pending count is exact
        combos = [(1, 300, 0, 0), (2, 200, 0, 0), (4, 150, 0, 0), (1, 200, 0, 200), (3, 120, 0, 200), (2, 900, 0, 2000), (4, 400, 1000, 2000), (1, 1500, 0, 2000)]
        if tier != 'quick':
            for _ in range(24):
                combos.append((rng.choice([1, 2, 3, 4, 6]), rng.choice([50, 300, 1200, 2000]), rng.choice([0, 0, 500, 1020, 1024, 1025]), rng.choice([0, 0, 50, 200, 2000])))
        for k, (nprod, npkt, pre, slow) in enumerate(combos):
            for seed in ((0, 1 + k) if tier == 'quick' else (0, 1 + k, 100 + k)):
                runs.append((f'c10_r{k}_s{seed}', nprod, npkt, pre, slow, seed))
        self.meta = {r[0]: r for r in runs}
        out = [('trace', '\n'.join(scn(n, p, k, pre, slow, seed, 1) for (n, p, k, pre, slow, seed) in runs) + '\n')]
        # several threads feeding ONE driver are beyond the property's quantifier (one producer per driver; several only for the bare
        # queue): with two feeders overflowing at once ThreadSanitizer reports the function-local static of LIMIT_CALL in packetPut (the
        # error throttle) - noted in DESIGN.md, not a C10 matter.  TSan runs with several feeders therefore stay below the overflow limit.
        tsan_runs = [r for r in runs if r[2] * r[1] <= 1300 and (r[1] == 1 or r[1] * r[2] + r[3] <= 1000)][: (8 if tier == 'quick' else 60)]
        out.append(('tsan', '\n'.join(scn(n + '_t', p, k, pre, slow, seed, 0) for (n, p, k, pre, slow, seed) in tsan_runs) + '\n'))
        # the receiving side proper: bursts of tagged datagrams on BOTH sockets (distinct MSOP / DIFOP ports) queued before the
        # receiver starts, so that one wake-up finds both sockets readable; every datagram must reach the decoder exactly once, intact,
        # in the order of its own socket (the order between the two sockets is not defined)
        import os
        base = 20000 + (os.getpid() % 30) * 100
        sb = []
        for k in range(4 if tier == 'quick' else 24):
            msop, difop = base + 2 * k, base + 2 * k + 1
            lines = [f'S c10_sockburst_{k}', pktgen.Cfg(wait=0, dense=0, pktcb=1, lclock=1).line(0, L['RS16']), f'N 0 4 {msop} {difop} 0 0']
            n = rng.choice([2, 6, 40, 120])
            for j in range(n):
                dif = (j % 2 == 1) if k % 2 == 0 else (rng.random() < 0.4)
                body = (b'\xa5\xff' if dif else b'\x55\xaa') + j.to_bytes(4, 'big') + bytes((j * 13 + q) & 0xff for q in range(rng.choice([20, 58, 300])))
                lines.append(f'U 0 {difop if dif else msop} {body.hex()}')
                if j % 5 == 2:
                    lines.append(f'U 0 {msop if j % 2 else difop}')       # an empty datagram: dropped, and the buffer fetched for it carries nothing to the decoder
            lines += ['GO 0', 'E']
            sb.append('\n'.join(lines))
        out.append(('sockburst', '\n'.join(sb) + '\n'))
        # paced: an empty datagram arrives on the other socket once the datagram before it has been decoded and its buffer is back in the
        # free pool: the buffer fetched for the empty datagram is that one, still holding the earlier payload - nothing of it may be decoded
        pc = []
        for k in range(2 if tier == 'quick' else 8):
            msop, difop = base + 60 + 2 * k, base + 61 + 2 * k
            lines = [f'S c10_sockpaced_{k}', pktgen.Cfg(wait=0, dense=0, pktcb=1, lclock=1).line(0, L['RS16']), f'N 0 2 {msop} {difop} 0 0']
            for j in range(rng.choice([4, 8])):
                body = (b'\x55\xaa' if j % 3 else b'\xa5\xff') + j.to_bytes(4, 'big') + bytes((j * 11 + q) & 0xff for q in range(40))
                port, other = (msop, difop) if j % 3 else (difop, msop)
                lines += [f'U 0 {port} {body.hex()}', f'U 0 {other}']
            lines += ['GO 0', 'E']
            pc.append('\n'.join(lines))
        out.append(('sockpaced', '\n'.join(pc) + '\n'))
        out.append(('epoll_sockpaced', '\n'.join(pc).replace('S c10_sockpaced_', 'S c10_eppaced_') + '\n'))
        out.append(('epoll_sockburst', '\n'.join(sb).replace('S c10_sockburst_', 'S c10_epburst_') + '\n'))       # the same bursts on the epoll receiver
        return out

    def judge_sockburst(self, inp, impl_path, impl_log, violations, stats):
        sent = {}
        cur = None
        for line in open(inp):
            t = line.split()
            if t and t[0] == 'S':
                cur = t[1]; sent[cur] = {'text': [line.rstrip('\n')], 'm': [], 'd': []}
            elif cur:
                sent[cur]['text'].append(line.rstrip('\n'))
                if t and t[0] == 'U' and len(t) > 3:
                    sent[cur]['d' if t[3].startswith('a5ff') else 'm'].append(t[3])
        for name, lines in CMP.split_scenarios(impl_path):
            if name is None or name not in sent:
                continue
            stats['evaluations'] += 1
            payload = '\n'.join(sent[name]['text'])
            crashed = [l for l in lines if l.startswith('crash') or l.startswith('initfail')]
            if crashed:
                violations.append(('crash', f'{name}: {crashed[0]} :: ' + impl_log[-800:], payload)); continue
            got = {'m': [], 'd': []}
            for l in lines:
                t = l.split()
                if t[0] == 'pkt':
                    got['d' if t[3] == '1' else 'm'].append(t[7] if len(t) > 7 else '')
            ok = True
            for kind, what in (('m', 'MSOP'), ('d', 'DIFOP')):
                if got[kind] != sent[name][kind]:
                    ok = False
                    i = next((i for i, (a, b) in enumerate(zip(got[kind], sent[name][kind])) if a != b), min(len(got[kind]), len(sent[name][kind])))
                    violations.append(('socket-delivery', f'{name}: {len(sent[name][kind])} datagrams sent to the {what} port, {len(got[kind])} reached the decoder as {what}; first difference at position {i}: '
                                       f'got {(got[kind][i][:24] if i < len(got[kind]) else "<nothing>")} expected {(sent[name][kind][i][:24] if i < len(sent[name][kind]) else "<nothing>")} '
                                       '(every datagram exactly once, intact, in the order of its socket)', payload))
            if ok:
                stats['classes']['both-sockets-burst'] = stats['classes'].get('both-sockets-burst', 0) + 1
                stats['distinct_nontrivial'] += 1

    def judge(self, bname, inp, impl_path, model_path, impl_log, violations, broken, stats):
        text = open(inp).read()
        def scn_of(name):
            i = text.find(f'S {name}\n'); j = text.find('\nE', i)
            return text[i:j + 2]
        if bname in ('sockburst', 'epoll_sockburst', 'sockpaced', 'epoll_sockpaced') or (bname == 'replay' and ('\nN 0 4 ' in text or 'paced_' in text)):
            return self.judge_sockburst(inp, impl_path, impl_log, violations, stats)
        if bname == 'trace' or (bname == 'replay' and re.search(r'^Q( \S+){6} 1$', text, re.M)):
            if not hasattr(self, 'meta'):
                self.meta = {}
            ver = impl_path[:-5] + '.qv'
            rc, out, dt = self.C.run_qv(impl_path, ver)
            if rc != 0:
                broken.append(f'trace validator failed rc={rc}: {out[-400:]}')
                return
            seen = set()
            for line in open(ver):
                t = line.split()
                if len(t) < 3 or t[0] != 'qv':
                    continue
                name = t[1]; seen.add(name)
                stats['evaluations'] += 1
                m = self.meta.get(name)
                if t[2] == 'ok':
                    kv = dict(x.split('=') for x in t[3:])
                    cls = []
                    if m and m[1] >= 2: cls.append('multi-producer')
                    if int(kv['reports']) > 0: cls.append('overflow')
                    if m and m[4] > 0: cls.append('slow-consumer')
                    if m and m[3] > 0: cls.append('prefilled')
                    for c in cls or ['plain']:
                        stats['classes'][c] = stats['classes'].get(c, 0) + 1
                    if cls:
                        stats['distinct_nontrivial'] += 1
                    if len(stats['samples']) < 4:
                        stats['samples'].append({'run': name, 'params(nprod,npkt,prefill,slow_us,seed)': m[1:] if m else None, 'verdict': ' '.join(t[2:])})
                    # model-independent cross-checks of the deterministic boundary runs
                    if m and name.startswith('c10_pre'):
                        pre = m[3]
                        if pre <= 1024 and int(kv['dropped']) != 0:
                            violations.append(('boundary', f'{name}: {pre} packets pending is not more than 1024, yet {kv["dropped"]} were dropped', scn_of(name)))
                        if pre > 1024 and int(kv['reports']) < 1:
                            violations.append(('boundary', f'{name}: {pre} packets pending but no overflow was reported', scn_of(name)))
                elif t[2] == 'MISMATCH':
                    violations.append(('trace-mismatch', f'{name}: the real run is not a behaviour of the model: ' + ' '.join(t[3:]), scn_of(name)))
                else:
                    violations.append(('crash', f'{name}: ' + ' '.join(t[2:]) + ' :: ' + impl_log[-600:], scn_of(name)))
            for name in (self.meta if bname == 'trace' else []):
                if name not in seen:
                    violations.append(('crash', f'{name}: the run produced no trace (crash or hang) :: ' + impl_log[-600:], scn_of(name)))
        else:
            # ThreadSanitizer runs: no recording (its lock would hide races); judge what the packet callback saw
            for name, lines in CMP.split_scenarios(impl_path):
                if name is None:
                    continue
                stats['evaluations'] += 1
                crashed = [l for l in lines if l.startswith('crash')]
                if crashed:
                    key = 'tsan' if 'exit 68' in crashed[0] else 'crash'
                    violations.append((key, f'{name}: {crashed[0]} :: ' + impl_log[-1200:], scn_of(name)))
                    continue
                stats['classes']['tsan-clean'] = stats['classes'].get('tsan-clean', 0) + 1
                last = {}
                fed = 0; dec = 0; over = any(l.startswith('err') and l.split()[2] == '72' for l in lines)
                for l in lines:
                    t = l.split()
                    if t[0] != 'q':
                        continue
                    if t[2] == 'f':
                        fed += 1
                    if t[2] == 'D':
                        dec += 1
                        tag = int(t[4], 16); prod = tag // 1000000
                        if t[5] != '1':
                            violations.append(('damaged', f'{name}: packet {tag} reached the decoder with damaged bytes', scn_of(name)))
                        if tag <= last.get(prod, -1):
                            violations.append(('order', f'{name}: packet {tag} decoded after {last[prod]} (twice or out of order)', scn_of(name)))
                        last[prod] = tag
                if not over and dec != fed:
                    violations.append(('lost', f'{name}: {fed} packets fed, {dec} decoded, no overflow reported', scn_of(name)))
