"""C01 - Every wire sample becomes exactly one point, in order, in exactly one frame."""
from props.base import PropBase
import pktgen, scen


class Prop(PropBase):
    pid = 'C01'
    kernels = ['fx_splitFrame']
    vo_targets = ['Props/Properties_C01.vo', 'Proofs/Conservation.vo', 'Proofs/Slots.vo', 'Proofs/Stream.vo', 'Proofs/Handover.vo']
    prop_files = ['Props/Properties_C01.v']
    rule = ('structured DIFOP/MSOP streams for all 17 LidarTypes with malformed packets (wrong length +-1/2/6, wrong id bit, foreign, empty, 1-2 byte, random), '
            'bad block ids, late DIFOP, all split modes, NaN points kept; compared: per cloud and for the open frame the sequence of (valid, intensity, ring); '
            'non-trivial = scenario with >= 1 delivered cloud or a rejected packet; distinct by scenario name')
    explanation = 'C01_T1..T4 (Coq: conservation over sessions, acceptance gate, rejected-inert, bad-block prefix, slot fields); correspondence on all 17 real decoders'
    assumptions = ['packets reach the decoder one at a time (single decode thread)', 'projection compares validity, intensity and ring of every point; coordinates/timestamps are C02/C05']
    projection = {'kinds': {'cloud', 'p', 'open', 'crash', 'nodrv'}, 'ignore_ts': True, 'ignore_xyz': True, 'ignore_buf': True}

    def generate(self, rng, tier):
        out = []
        reps = 3 if tier == 'quick' else 25
        scn_all = []
        for r in range(reps):
            for t in scen.ALL:
                if t == 'RSM1_JUMBO' and r % 3 != 0:
                    continue
                cfg = scen.rand_cfg(rng, dense=0)
                # every third scenario: a caller that owns ONE cloud object and hands it back on every get (legal: each get comes after the
                # previous cloud was consumed by the put callback): the delivered clouds still hold every sample
                scn_all.append(scen.mixed_scenario(rng, self.L, t, f'c01_{t}_{r}', cfg, answers=([1] * 80 if r % 3 == 1 else None)))
        # jumbo packets whose sub-packet numbering rewinds in the middle of a packet (a frame boundary inside one MSOP packet): every
        # sub-packet behind the boundary is still decoded, into the new frame
        l = self.L['RSM1_JUMBO']
        for k, first in enumerate((65536 - 20, 65536 - 1, 65536 - 62)):
            s = scen.Scn(f'c01_jumbo_rewind_{k}')
            s.drv(0, l, pktgen.Cfg(wait=0, dense=0))
            s.pkt(0, scen.mems_msop(rng, l, first - 63))
            s.pkt(0, scen.mems_msop(rng, l, first))            # numbers first .. 65535, 0 .. : the rewind falls inside this packet
            s.pkt(0, scen.mems_msop(rng, l, (first + 63) % 65536))
            scn_all.append(s.text())
        out.append(('mixed', '\n'.join(scn_all) + '\n'))
        # the overflow guard on its own: frame sizes around the documented 1,000,000-point limit
        ks = [f'K overflow {n}' for n in (1, 999999, 1000000, 1000001, 1000002, 1500000, rng.randrange(1, 999999), rng.randrange(1000001, 1200000))]
        out.append(('kern_overflow', '\n'.join(ks) + '\n'))
        if tier != 'quick':
            # documented discard: > 1,000,000 points in the open frame (never-splitting jumbo stream)
            l = self.L['RSM1_JUMBO']
            s = scen.Scn('c01_overflow_jumbo')
            s.drv(0, l, pktgen.Cfg(wait=0, dense=0))
            seq = 1
            for k in range(130):
                s.pkt(0, scen.mems_msop(rng, l, seq), tick=2)
                seq += 63
            out.append(('overflow', s.text() + '\n'))
        return out

    def kernel_class(self, k):
        n = int(k.split()[2])
        return 'at-limit' if n == 1000000 else ('above' if n > 1000000 else 'below')

    def kernel_verdict(self, k, impl, model, spec):
        if impl != model:
            n = int(k.split()[2])
            return f'an open frame of {n} points must {"" if n > 1000000 else "not "}be discarded (documented limit: more than 1,000,000 points)'
        return None

    def classify(self, name, lines):
        c = sum(1 for l in lines if l.startswith('cloud'))
        return [f'clouds={min(c, 4)}']

    def signature(self, name, lines):
        return name if any(l.startswith('cloud') or l.startswith('open') for l in lines) else None
