"""C06 - Delivered clouds: non-empty, well-shaped, gap-free seq, no stale points."""
from props.base import PropBase
import pktgen, scen


class Prop(PropBase):
    pid = 'C06'
    kernels = ['fx_splitFrame', 'fx_setPointCloudHeader', 'fx_getPointCloud']
    vo_targets = ['Props/Properties_C06.vo', 'Proofs/DriverInv.vo', 'Proofs/Stream.vo', 'Proofs/Handover.vo']
    prop_files = ['Props/Properties_C06.v']
    rule = ('streams for all 17 LidarTypes x 3 split modes x dense/NaN-kept with adversarial get-callback scripts: fresh buffers, recycled buffers holding 3 stale points '
            'and garbage header fields, the same id again right after hand-back, bursts of nulls; oracle on the implementation output = the `scan` rules '
            '(non-empty, h*w = n, height/is_dense as configured, seq consecutive, buffer = last non-null get answer, no stale marker, frame_id); non-trivial = >= 1 cloud')
    explanation = 'C06_T1..T4 (Coq: every session history passes scan; shape; null retry; no stale) + correspondence of cloud headers/buffer ids'
    assumptions = ['the caller never returns the buffer the driver currently holds (API contract)']
    projection = {'kinds': {'cloud', 'get', 'open', 'crash', 'nodrv', 'err'}, 'ignore_ts': True, 'drop_points': True, 'err_codes': {'130'}}

    def generate(self, rng, tier):
        reps = 3 if tier == 'quick' else 25
        scn_all = []
        for r in range(reps):
            for t in scen.ALL:
                if t == 'RSM1_JUMBO' and r % 3 != 0:
                    continue
                cfg = scen.rand_cfg(rng, dense=rng.randrange(2), wait=0)
                # answers: ids 1..3 cycle (recycled), N bursts; never the buffer currently held: alternate ids
                # every get happens after the previous buffer was handed back (or after a null), so any
                # script is a legal caller: a single-buffer caller, a small pool, nulls in bursts
                ans = []
                pool = rng.choice([(1,), (1, 2), (1, 2, 3)])
                for k in range(rng.choice([4, 8, 12, 30])):
                    if rng.random() < 0.25:
                        ans += ['N'] * rng.choice([1, 2, 3])
                    ans.append(rng.choice(pool))
                scn_all.append(scen.mixed_scenario(rng, self.L, t, f'c06_{t}_{r}', cfg, answers=ans, npk=rng.choice([4, 6, 9]) if t != 'RSM1_JUMBO' else 2,
                                                   malformed_p=0.1, step=rng.choice([20, 200, 2000]), big_steps=True))
        # frames of 0, 1, lasers-1, lasers, lasers+1 valid points in dense output (a frame smaller than one column of lasers is still
        # a non-empty frame: delivered, height 1), and NaN-kept output under a window that cuts through blocks (still whole columns)
        for ti, t in enumerate(scen.MECH):
            scn_all.append(scen.sparse_scenario(rng, self.L, t, f'c06_sparse_{t}', dense=1, angle=[0, 9000, 35990][ti % 3], answers=[1, 2, 3] * 8))
            cfg = scen.rand_cfg(rng, dense=0, wait=0, mode=1, start=[9010, 27000, 35990][ti % 3], end=[27000, 9000, 18005][ti % 3])
            scn_all.append(scen.mixed_scenario(rng, self.L, t, f'c06_window_{t}', cfg, npk=6, malformed_p=0.0, step=200, gap_p=0.0, difop_at=0))
        # stop() / restart while the caller's pool is dry: the decoding thread is retrying the get callback when the exit request
        # arrives; the null answers must still never be dereferenced and the clouds of both sessions must pass the rules
        ns = []
        for k in range(3 if tier == 'quick' else 12):
            t = rng.choice(['RS16', 'RS32', 'RSHELIOS', 'RSP128', 'RSM1'])
            l = self.L[t]
            cfg = pktgen.Cfg(wait=0, dense=rng.randrange(2), pktcb=0, lclock=1, mode=3, nblk=3)
            pk = [scen.MechStream(rng, l).msop() for _ in range(6)] if l.mech else [scen.mems_msop(rng, l, q) for q in (1, 2, 3, 1, 2, 3)]
            ans = [1] + ['N'] * rng.choice([150, 300]) + [2, 1, 'N', 'N', 2, 1, 2, 1, 2, 1, 2, 1, 2, 1, 2, 1, 2, 1, 2]
            lines = [f'S c06_nullstop_{t}_{k}', cfg.line(0, l), 'A 0 ' + ' '.join(str(a) for a in ans), 'WD 30', 'LC 0 1', 'LI 0', 'LS 0']
            lines += [f'LP 0 {p.hex()}' for p in pk[:3]] + [f'SL {rng.choice([20, 60])}', 'LX 0', 'LS 0'] + [f'LP 0 {p.hex()}' for p in pk[3:]] + ['LW 0', 'LX 0', 'LD 0', 'E']
            ns.append('\n'.join(lines))
        # stop() while the put callback is still running (a slow consumer): the cloud handed over belongs to the caller - it must
        # keep its points and shape - and what the decoding thread appends afterwards must not survive into the next session
        for k in range(2 if tier == 'quick' else 8):
            t = ['RSM1', 'RS16', 'RSHELIOS', 'RSM2'][k % 4]
            l = self.L[t]
            cfg = pktgen.Cfg(wait=0, dense=rng.randrange(2), pktcb=0, lclock=1, mode=3, nblk=3)
            pk = [scen.MechStream(rng, l).msop() for _ in range(6)] if l.mech else [scen.mems_msop(rng, l, q) for q in (1, 2, 3, 1, 2, 3, 1)]
            lines = [f'S c06_slowput_{t}_{k}', cfg.line(0, l), 'A 0 1 2 1 2 1 2 1 2 1 2 1 2 1 2 1 2 1 2 1 2 1 2 1 2 1 2 1 2', 'WD 30', 'PS 0 250', 'LC 0 1', 'LI 0', 'LS 0']
            lines += [f'LP 0 {p.hex()}' for p in pk[:4]] + ['SL 60', 'LX 0', 'PS 0 0', 'LS 0'] + [f'LP 0 {p.hex()}' for p in pk[3:]] + ['LW 0', 'LX 0', 'LD 0', 'E']
            ns.append('\n'.join(lines))
        return [('hist', '\n'.join(scn_all) + '\n'), ('nullstop', '\n'.join(ns) + '\n')]

    projection_threads = {'kinds': {'crash', 'hang', 'nodrv'}}

    def judge(self, bname, *a, **kw):
        keep = self.projection
        if bname == 'nullstop':
            self.projection = self.projection_threads     # real threads: judged by the history rules below, not line by line against the model
        try:
            return PropBase.judge(self, bname, *a, **kw)
        finally:
            self.projection = keep

    def oracle(self, name, impl, model, scn):
        errs = []
        mod = [l for l in impl if l.startswith('cloudmod')]
        if mod:
            t = mod[0].split()
            errs.append(('cloud-modified', f'cloud seq {t[2]} had {t[3]} points when it was handed to the put callback and {t[4]} before the callback returned: the driver changed a cloud it no longer owns'))
        hung = [l for l in impl if l.startswith('hang')]
        if hung:
            errs.append(('hang', f'a call did not return: {hung[0][5:]}'))
        dense = None
        for l in scn:
            if l.startswith('D '):
                t = l.split(); dense = int(t[4]); code = int(t[2])
        laser = None
        for n, l in self.L.items():
            if l.code == code:
                laser = l.laser
        seq = 0
        buf = None
        i = 0
        while i < len(impl):
            t = impl[i].split()
            if t[0] == 'get' and t[2] != 'N':
                buf = t[2]
            if t[0] == 'cloud':
                s, b, h, w, dn, n = int(t[2]), t[3], int(t[4]), int(t[5]), int(t[6]), int(t[8])
                if n == 0:
                    errs.append(('empty-cloud', f'cloud seq {s} is empty'))
                if h * w != n:
                    errs.append(('shape', f'cloud seq {s}: height {h} x width {w} != {n} points'))
                if dn != dense or h != (1 if dense else laser):
                    errs.append(('shape', f'cloud seq {s}: height {h} is_dense {dn} but dense_points={dense}, lasers={laser}'))
                if s != seq:
                    errs.append(('seq', f'cloud seq {s}, expected {seq}'))
                seq = s + 1
                if buf is None or b != buf:
                    errs.append(('buffer', f'cloud seq {s} delivered in buffer {b} but the last obtained buffer is {buf}'))
                buf = None
                if 'BADFRAMEID' in impl[i]:
                    errs.append(('frame_id', f'cloud seq {s} has a wrong frame_id'))
                for j in range(i + 1, min(i + 1 + n, len(impl))):
                    if impl[j].endswith(' 201 9999 42.000000000'):
                        errs.append(('stale', f'cloud seq {s} contains a point left in the recycled buffer'))
                        break
                i += n
            i += 1
        return errs[:3]

    def classify(self, name, lines):
        c = sum(1 for l in lines if l.startswith('cloud'))
        nn = sum(1 for l in lines if l.startswith('get') and l.endswith(' N'))
        return [f'clouds={min(c, 4)}', f'nulls={min(nn, 3)}']

    def signature(self, name, lines):
        return name if any(l.startswith('cloud') for l in lines) else None
