"""C07 - Range and field-of-view filtering; NaN placeholders versus dense output."""
from props.base import PropBase
import pktgen, scen, compare as CMP


class Prop(PropBase):
    pid = 'C07'
    kernels = ['AzimuthSection']
    vo_targets = ['Props/Properties_C07.vo', 'Proofs/Eq_AzSection.vo', 'Proofs/Window.vo', 'Proofs/Dense.vo']
    prop_files = ['Props/Properties_C07.v']
    rule = ('kernel lattice: AzimuthSection(start,end).in(a) for windows plain/wrapping/full/start=end and a in [-9100, 45100] around every boundary; '
            'driver scenarios (all 17 types) run twice, dense and NaN-kept, with raw distances at the float ties around min/res and max/res, user ranges '
            '(unset, one-sided, negative), calibrations pushing the final azimuth below 0 and above 360 deg, azimuths within one step of 0 deg; '
            'oracle: dense clouds == NaN-kept clouds with placeholders deleted and empty frames omitted; non-trivial = scenario with both valid and invalid slots')
    explanation = 'C07_T0..T4 (Coq: window kernel = code; window set; range; slot validity; dense-is-filter simulation over sessions) + correspondence incl. dense vs NaN-kept on the real code'
    assumptions = ['start/end angles and distances within the documented configuration ranges']
    projection = {'kinds': {'cloud', 'p', 'open', 'crash', 'nodrv'}, 'ignore_ts': True, 'ignore_xyz': True, 'ignore_buf': True}

    def kernel_class(self, k):
        _, _, s, e, a = k.split()
        s, e, a = int(s), int(e), int(a)
        if (e - s) % 36000 == 0:
            w = 'full'
        elif s % 36000 > e % 36000:
            w = 'wrap'
        else:
            w = 'plain'
        return w + ('/unnormalised' if not 0 <= a < 36000 else '')

    def kernel_verdict(self, k, impl, model, spec):
        if spec is not None and impl[2] != spec[0]:
            _, _, s, e, a = k.split()
            return f'azimuth {a} (mod 36000 = {int(a) % 36000}) is {"inside" if spec[0] == "1" else "outside"} [{s}, {e}) (spec in_window = {spec[0]})'
        return None

    def generate(self, rng, tier):
        out = []
        ks = []
        wins = [(0, 36000), (0, 0), (9000, 9000), (0, 18000), (1000, 35000), (35000, 1000), (18000, 100), (27000, 9000), (100, 99), (36100, 36200), (-9000, 9000)]
        wins += [(rng.randrange(36001), rng.randrange(36001)) for _ in range(3 if tier == 'quick' else 30)]
        for (s, e) in wins:
            pts = set()
            for base in (s, e, 0, 36000, -9000, 45000, s + 36000, e + 36000, s - 36000, e - 36000):
                for d in (-2, -1, 0, 1, 2):
                    pts.add(base + d)
            for _ in range(20 if tier == 'quick' else 400):
                pts.add(rng.randrange(-9100, 45100))
            for a in sorted(pts):
                ks.append(f'K azin {s} {e} {a}')
        out.append(('kern', '\n'.join(ks) + '\n'))
        # driver scenarios, each run NaN-kept (name ..._n) and dense (name ..._d)
        scn_all = []
        reps = 2 if tier == 'quick' else 16
        for r in range(reps):
            for t in scen.ALL:
                if t == 'RSM1_JUMBO' and r % 4 != 0:
                    continue
                st, en = rng.choice(wins[:9] + [(0, 36000)] * 2 + [(35000, 1000), (0, 18000), (34000, 3000)] * 2)
                mn, mx = rng.choice([(0.0, 0.0), (0.0, 0.0), (0.5, 0.0), (0.0, 50.0), (1.0, 120.0), (-2.0, 30.0), (3.0, -1.0), (0.2, 0.2)])
                seed = rng.randrange(1 << 30)
                for dn in (0, 1):
                    import random
                    r2 = random.Random(seed)
                    cfg = scen.rand_cfg(r2, dense=dn, wait=0, start=st % 36001, end=en % 36001, min=mn, max=mx, pktcb=0)
                    cfg.start, cfg.end = st, en
                    scn_all.append(scen.mixed_scenario(r2, self.L, t, f'c07_{t}_{r}_{"d" if dn else "n"}', cfg, malformed_p=0.05,
                                                       start_az=r2.choice([35900, 35990, 35700, 0, 10, 17990, None]), gap_p=0.02, difop_at=0))
        # Bpearl installed upside down (DIFOP reversal flag), v3 and v4, with windows that are not symmetric about 0 deg and a
        # non-zero horizontal calibration: the window applies to the mirrored, calibrated azimuth the point is placed at
        for k in range(4 if tier == 'quick' else 16):
            st, en = rng.choice([(3000, 12000), (30000, 4500), (0, 18000), (27000, 33000), (100, 99), (9000, 9001)])
            seed = rng.randrange(1 << 30)
            for dn in (0, 1):
                import random
                r2 = random.Random(seed)
                cfg = scen.rand_cfg(r2, dense=dn, wait=1, start=st, end=en, min=0.0, max=0.0, pktcb=0)
                scn_all.append(scen.mixed_scenario(r2, self.L, 'RSBP', f'c07_RSBP_rev_{k}_{"d" if dn else "n"}', cfg, malformed_p=0.0, badblk_p=0.0, gap_p=0.02, difop_at=0,
                                                   bpv4=(k % 2 == 1), reversal=1, start_az=r2.choice([None, 2900, 11900, 35900]), step=r2.choice([None, 200, 2000]), npk=4))
        # every mechanical type, whatever the seed: a loaded calibration with horizontal offsets of up to +-20 deg and a stream that sweeps
        # across the start edge (and, the other half, the end edge) of a restricted window in 0.2 deg steps: the window applies to the
        # calibrated azimuth of each channel, not to the block's
        for ti, t in enumerate(scen.MECH):
            seed = rng.randrange(1 << 30)
            st, en = [(9000, 27000), (27000, 9000), (100, 35900)][ti % 3]
            edge = st if ti % 2 == 0 else en
            for dn in (0, 1):
                import random
                r2 = random.Random(seed)
                cfg = scen.rand_cfg(r2, dense=dn, wait=1, start=st, end=en, min=0.0, max=0.0, pktcb=0, mode=1)
                scn_all.append(scen.mixed_scenario(r2, self.L, t, f'c07_edge_{t}_{"d" if dn else "n"}', cfg, malformed_p=0.0, badblk_p=0.0, gap_p=0.0, difop_at=0,
                                                   start_az=(edge - 500) % 36000, step=20, npk=5, cali_kind='valid', fov=(0, 36000), bpv4=False, reversal=0))
        # revolutions with very few valid points (0, 1, lasers-1, lasers, ...): dense output delivers each non-empty frame with exactly
        # its valid points (a frame smaller than one column of lasers included), and omits only the empty ones
        for ti, t in enumerate(scen.MECH):
            seed = rng.randrange(1 << 30)
            for dn in (0, 1):
                import random
                scn_all.append(scen.sparse_scenario(random.Random(seed), self.L, t, f'c07_sparse_{t}_{"d" if dn else "n"}', dense=dn, angle=[0, 18000, 35999][ti % 3]))
        out.append(('drv', '\n'.join(scn_all) + '\n'))
        return out

    def judge(self, bname, inp, impl_path, model_path, impl_log, violations, broken, stats):
        super().judge(bname, inp, impl_path, model_path, impl_log, violations, broken, stats)
        if bname != 'drv':
            return
        # metamorphic oracle on the implementation: dense == squeeze(NaN-kept)
        sc = dict(CMP.split_scenarios(impl_path))
        texts = {}
        cur = None
        for line in open(inp):
            if line.startswith('S '):
                cur = line[2:].strip(); texts[cur] = [line.rstrip('\n')]
            elif cur:
                texts[cur].append(line.rstrip('\n'))
        def clouds(lines):
            res, curc = [], None
            for l in lines:
                if l.startswith('cloud') or l.startswith('open'):
                    curc = []; res.append(curc)
                elif l.startswith('p ') and curc is not None:
                    t = l.split()
                    curc.append((t[1], t[5], t[6]))
            return res
        for name, lines in sc.items():
            if not name or not name.endswith('_n'):
                continue
            dn = name[:-2] + '_d'
            if dn not in sc:
                continue
            a = [[p for p in c if p[0] == '1'] for c in clouds(lines)]
            flat_a = [p for c in a for p in c]
            b = clouds(sc[dn])
            flat_b = [p for c in b for p in c]
            nn = sum(1 for c in clouds(lines) for p in c if p[0] == '0')
            if flat_a and nn:
                stats['classes']['both-valid-and-invalid'] = stats['classes'].get('both-valid-and-invalid', 0) + 1
            if flat_a != flat_b or any(p[0] == '0' for p in flat_b):
                violations.append(('dense-vs-nan', f'{dn}: dense output is not the NaN-kept output with placeholders deleted ({len(flat_b)} vs {len(flat_a)} valid points)', '\n'.join(texts[name] + texts[dn])))
            # frames: dense delivered clouds = non-empty filtered NaN-kept delivered clouds (the open frame is listed last on both sides)
            an = [c for c in [[p for p in c if p[0] == '1'] for c in clouds([l for l in lines if not l.startswith('open')] )] if c]
            bd = clouds([l for l in sc[dn] if not l.startswith('open')])
            if 'open' not in ''.join(l[:4] for l in lines):
                continue
            # strip the trailing open frame from both (it follows an `open` line)
            def delivered(ls):
                res, curc, mode = [], None, None
                for l in ls:
                    if l.startswith('cloud'):
                        curc = []; res.append(curc); mode = 'c'
                    elif l.startswith('open'):
                        mode = 'o'
                    elif l.startswith('p ') and mode == 'c':
                        t = l.split(); curc.append((t[1], t[5], t[6]))
                return res
            dn_n = [c for c in [[p for p in c if p[0] == '1'] for c in delivered(lines)] if c]
            dn_d = delivered(sc[dn])
            if dn_n != dn_d:
                violations.append(('dense-frames', f'{dn}: dense clouds differ from the non-empty filtered NaN-kept clouds ({len(dn_d)} vs {len(dn_n)} clouds)', '\n'.join(texts[name] + texts[dn])))

    def classify(self, name, lines):
        v = sum(1 for l in lines if l.startswith('p 1'))
        i = sum(1 for l in lines if l.startswith('p 0'))
        return ['valid+invalid' if v and i else ('valid-only' if v else 'invalid-only')]

    def signature(self, name, lines):
        v = any(l.startswith('p 1') for l in lines)
        i = any(l.startswith('p 0') for l in lines)
        return name if (v and i) or name.endswith('_d') and v else None
