"""C20 - Optional build features change only what they document."""
import os, zlib
from props.base import PropBase
import pktgen, scen, compare as CMP
from pktgen import udp_frame

ERR_CRC = str(0x4A)

FLAGS = {
    'asan+transform': ('ENABLE_TRANSFORM',),
    'asan+parse': ('ENABLE_DIFOP_PARSE',),
    'asan+wait': ('ENABLE_WAIT_IF_QUEUE_EMPTY',),
    'asan+epoll': ('ENABLE_EPOLL_RECEIVE',),
    'asan+recvbuf': ('ENABLE_MODIFY_RECVBUF',),
    'asan+nopcap': ('DISABLE_PCAP_PARSE',),
    'asan+allflags': ('ENABLE_TRANSFORM', 'ENABLE_DIFOP_PARSE', 'ENABLE_WAIT_IF_QUEUE_EMPTY', 'ENABLE_EPOLL_RECEIVE', 'ENABLE_MODIFY_RECVBUF'),
    'asan+crc': ('ENABLE_CRC32_CHECK',),
}
THOROUGH_FLAGS = {
    'asan+allnopcap': ('ENABLE_TRANSFORM', 'ENABLE_DIFOP_PARSE', 'ENABLE_WAIT_IF_QUEUE_EMPTY', 'ENABLE_EPOLL_RECEIVE', 'ENABLE_MODIFY_RECVBUF', 'DISABLE_PCAP_PARSE'),
    'asan+waitepoll': ('ENABLE_WAIT_IF_QUEUE_EMPTY', 'ENABLE_EPOLL_RECEIVE'),
    'asan+crcall': ('ENABLE_CRC32_CHECK', 'ENABLE_TRANSFORM', 'ENABLE_DIFOP_PARSE', 'ENABLE_WAIT_IF_QUEUE_EMPTY', 'ENABLE_EPOLL_RECEIVE', 'ENABLE_MODIFY_RECVBUF'),
}


def with_crc(pkt):
    """store the IEEE CRC-32 of everything before the field plus the final 2-byte counter, big-endian at length-6"""
    c = zlib.crc32(pkt[:-6] + pkt[-2:]) & 0xffffffff
    return pkt[:-6] + c.to_bytes(4, 'big') + pkt[-2:]


def with_zero_crc(pkt):
    """as with_crc, with the rolling counter chosen so that one of the first three bytes of the CRC is 0x00"""
    for c in range(65536):
        q = pkt[:-2] + c.to_bytes(2, 'big')
        v = zlib.crc32(q[:-6] + q[-2:]) & 0xffffffff
        b = v.to_bytes(4, 'big')
        if 0 in b[:3]:
            return q[:-6] + b + q[-2:], b[:3].index(0)
    return with_crc(pkt), None


def crc_rule(pkt):
    return len(pkt) >= 6 and int.from_bytes(pkt[-6:-2], 'big') == (zlib.crc32(pkt[:-6] + pkt[-2:]) & 0xffffffff)


class Prop(PropBase):
    pid = 'C20'
    kernels = []
    vo_targets = ['Props/Properties_C20.vo', 'Proofs/Crc.vo', 'Proofs/CrcBits.vo', 'Proofs/BuildFlags.vo']
    prop_files = ['Props/Properties_C20.v']
    tier = os.environ.get('VERIF_TIER', 'quick')
    harness_variants = ['asan'] + list(FLAGS)
    defines = dict(FLAGS)
    rule = ('the real driver compiled 9 ways (default; each of ENABLE_TRANSFORM with identity parameters, ENABLE_DIFOP_PARSE, ENABLE_WAIT_IF_QUEUE_EMPTY, ENABLE_EPOLL_RECEIVE, ENABLE_MODIFY_RECVBUF, '
            'DISABLE_PCAP_PARSE alone; the five ENABLE_ options together; ENABLE_CRC32_CHECK; thorough adds three more combinations) under ASan/UBSan; the same scenarios - decodePacket streams of all 17 types with malformed '
            'packets, pcap files (short, and one of 1300+ packets read at one packet per 100 us), loopback UDP (paced and burst) with real threads - run on every applicable build: default build against the model, every other build against the default build '
            '(clouds, points, packet records, errors); CRC build: packets with a valid stored CRC, single-bit corruptions anywhere in the packet, wrong stored values, against the model with the check on and '
            'against an independent zlib.crc32 oracle; kernels calcCrc32/isCrc32Correct against the model and zlib on random strings; non-trivial = scenario with >= 1 cloud (flags) or >= 1 rejected and >= 1 accepted packet (CRC)')
    explanation = ('C20_T1..T6 (Coq: ENABLE_DIFOP_PARSE inert for every packet history; regenerated table = bitwise reflected 0xEDB88320; table-driven = bit-by-bit IEEE CRC-32 for all byte strings; chaining; '
                   'acceptance rule; the check rejects exactly the failing packets and changes nothing else; every single-bit flip of the covered data changes the CRC, of the stored value changes the value read) + build-variant correspondence')
    assumptions = ['ENABLE_TRANSFORM is exercised with the default (identity) transform parameters, as the property states',
                   'the epoll/recvbuf/wait options act below the model (receiver and queue): decided by the differential runs of the real builds, not by a theorem']
    # error reports: all codes but WRONGMSOPBLKID (0x44), whose absence on RS128 / RS80 is a recorded C19 finding, not a build-option matter
    projection = {'kinds': {'cloud', 'p', 'pkt', 'err', 'ierr', 'temp', 'open', 'crash', 'nodrv', 'initfail'}, 'ignore_buf': True, 'ierr_last': True,
                  'err_codes': {str(c) for c in range(0x40, 0x60)} - {str(0x44)}}
    trusted_extra = ['python zlib.crc32 as the independent IEEE CRC-32 oracle of the CRC scenarios']

    def __init__(self):
        if os.environ.get('VERIF_TIER') == 'thorough' or '--tier thorough' in ' '.join(os.sys.argv) or 'thorough' in os.sys.argv:
            self.harness_variants = ['asan'] + list(FLAGS) + list(THOROUGH_FLAGS)
            self.defines = dict(FLAGS); self.defines.update(THOROUGH_FLAGS)

    def variant_for(self, bname):
        if bname == 'tfpair':
            return 'asan+transform'
        return 'asan+crc' if bname.startswith('crc') or bname == 'kern_crc' else 'asan'

    def kernel_class(self, k):
        return k.split()[1]

    def kernel_verdict(self, kline, impl, model, spec):
        if impl != model:
            return f'model says `{" ".join(model)}`'
        t = kline.split()
        data = bytes.fromhex(t[2]) if len(t) > 2 else b''
        if t[1] == 'crc' and int(impl[2]) != (zlib.crc32(data) & 0xffffffff):
            return f'zlib.crc32 says {zlib.crc32(data) & 0xffffffff}'
        if t[1] == 'crcok' and int(impl[2]) != int(crc_rule(data)):
            return f'the stated rule (zlib) says {int(crc_rule(data))}'
        return None

    # which builds a batch is replayed on
    def builds_for(self, bname):
        allv = [v for v in self.harness_variants if v not in ('asan', 'asan+crc', 'asan+crcall')]
        if bname == 'raw':
            return allv
        if bname in ('pcap', 'pcapfast'):
            return [v for v in allv if 'nopcap' not in v]
        if bname == 'sock':
            return allv
        return []

    def generate(self, rng, tier):
        out = []
        base = 24000 + (os.getpid() % 30) * 100      # a port block of this property only, below the ephemeral range
        L = self.L
        # ---- kernels
        ks = []
        for k in range(120 if tier == 'quick' else 3000):
            n = rng.choice([1, 1, 2, 5, 6, 7, 8, 9, 64, 255, 256, 1248, rng.randrange(1, 1500)])
            data = bytes(rng.randrange(256) for _ in range(n))
            ks.append(f'K crc {data.hex()}')
            if n >= 8 and rng.random() < 0.3:
                q, zi = with_zero_crc(data)
                b = bytearray(q)
                if zi is not None and rng.random() < 0.8:
                    b[len(b) - 6 + rng.randrange(zi + 1, 4)] ^= 1 << rng.randrange(8)
                ks.append(f'K crcok {bytes(b).hex()}')
            if n >= 6:
                p = with_crc(data) if rng.random() < 0.6 else data
                if rng.random() < 0.4:
                    b = bytearray(p); b[rng.randrange(len(b))] ^= 1 << rng.randrange(8); p = bytes(b)
                ks.append(f'K crcok {p.hex()}')
        out.append(('kern_crc', '\n'.join(ks) + '\n'))
        # ---- raw streams on every build
        types = scen.ALL if tier != 'quick' else rng.sample(scen.MECH, 5) + ['RSM1', 'RSE1', 'RSMX', 'RSM1_JUMBO'] + rng.sample(['RSM2', 'RSM3'], 1)
        sc = []
        for r in range(1 if tier == 'quick' else 6):
            for t in types:
                if t == 'RSM1_JUMBO' and r > 1:
                    continue
                cfg = scen.rand_cfg(rng, dense=rng.randrange(2), lclock=rng.randrange(2), pktcb=rng.randrange(2))
                txt = scen.mixed_scenario(rng, L, t, f'c20_raw_{t}_{r}', cfg, host=not cfg.lclock, temp_query=True, dev_query=True)
                sc.append(txt)
        out.append(('raw', '\n'.join(sc) + '\n'))
        # ---- ENABLE_TRANSFORM: the identity pose of one driver is not disturbed by another driver's pose in the same process
        # (run on the transform build only, against the model, which applies each instance's own pose)
        out.append(('tfpair', '\n'.join(scen.tf_pair_scenario(rng, L, f'c20_tfpair_{k}', a, b) for k, (a, b) in enumerate([('RS16', 'RS16'), ('RS32', 'RSHELIOS')])) + '\n'))
        # ---- both sockets readable at one wake-up (distinct ports, bursts queued before the receiver starts), on every build:
        # each datagram exactly once, intact, in the order of its socket (scenarios and oracle of C10's receiving-side batch)
        from props import C10 as C10mod
        self.c10 = C10mod.Prop(); self.c10.setup(self.L, self.G, self.C)
        out.append(('sockburst', [txt for (bn, txt) in self.c10.generate(rng, 'quick') if bn == 'sockburst'][0]))
        # ---- threaded inputs
        pc, so = [], []
        ttypes = rng.sample(scen.MECH, 2) + ['RSM1'] if tier == 'quick' else scen.ALL
        for gi, t in enumerate(ttypes):
            l = L[t]
            if l.jumbo:
                continue
            msop = base + 50 + 3 * gi
            equal = gi % 2 == 0
            difop = msop if equal else msop + 1
            cfgkw = dict(wait=rng.randrange(2), dense=rng.randrange(2), pktcb=1, lclock=1, mode=3, nblk=rng.choice([3, 7]), angle=0)
            pk = []
            dual = rng.random() < 0.3
            if l.mech:
                ms = scen.MechStream(rng, l, dual=dual)
                pk.append(('d', l.difop(dual=dual)))
                for k in range(rng.choice([6, 12])):
                    pk.append(('m', ms.msop()))
            else:
                for k in range(6):
                    if k == 1:
                        pk.append(('d', l.difop(dual=dual)))
                    pk.append(('m', scen.mems_msop(rng, l, 1 + k)))
            port_of = lambda k: msop if (k == 'm' or equal) else difop
            s = scen.Scn(f'c20_pcap_{t}_{gi}')
            s.lines.append(pktgen.Cfg(**cfgkw).line(0, l)); s.lines.append(f'N 0 1 {msop} {difop} 0 0')
            for k, w in pk:
                f = udp_frame(w, port_of(k)); s.lines.append(f'F 0 {len(f)} {f.hex()}')
            s.lines.append('GO 0')
            pc.append(s.text(residual=()))
            s = scen.Scn(f'c20_sock_{t}_{gi}')
            s.lines.append(pktgen.Cfg(**cfgkw).line(0, l)); s.lines.append(f'N 0 {4 if equal else 2} {msop + 400} {difop + 400} 0 0')
            for k, w in pk:
                s.lines.append(f'U 0 {port_of(k) + 400} {w.hex()}')
            s.lines.append('GO 0')
            so.append(s.text(residual=()))
        out.append(('pcap', '\n'.join(pc) + '\n'))
        out.append(('sock', '\n'.join(so) + '\n'))
        # a long capture file read at about one packet per 100 us: far more than 1024 packets arrive within the half second a
        # consumer may spend in one wait; small DIFOP-dispatched packets, so that every build's decoder keeps up with a wide margin
        l = L['RS16']
        port = base + 90
        s = scen.Scn('c20_pcapfast_RS16')
        s.lines.append(pktgen.Cfg(wait=0, dense=0, pktcb=1, lclock=1).line(0, l)); s.lines.append(f'N 0 1 {port} {port} 0 0 6.66')
        for k in range(1300 if tier == 'quick' else 2600):
            f = udp_frame(b'\xa5\xff' + k.to_bytes(4, 'big') + bytes((k * 7 + j) & 0xff for j in range(58)), port)
            s.lines.append(f'F 0 {len(f)} {f.hex()}')
        s.lines.append('GO 0')
        out.append(('pcapfast', s.text(residual=()) + '\n'))
        # ---- CRC build
        self.crc_expect = {}
        sc = []
        for r in range(1 if tier == 'quick' else 8):
            for t in scen.ALL:
                l = L[t]
                if l.jumbo and r > 0:
                    continue
                name = f'c20_crc_{t}_{r}'
                cfg = scen.rand_cfg(rng, dense=rng.randrange(2), wait=0, lclock=1, pktcb=rng.randrange(2))
                s = scen.Scn(name)
                s.add('B 1 0')
                s.drv(0, l, cfg)
                dual = rng.random() < 0.3
                if l.mech:
                    ms = scen.MechStream(rng, l, dual=dual)
                    mk = lambda: ms.msop(model=rng.choice([0, 2, 3]) if t == 'RSP80' else None)
                    s.pkt(0, l.difop(dual=dual))
                else:
                    st = {'seq': 0}
                    def mk():
                        st['seq'] += 63 if l.jumbo else 1
                        return scen.mems_msop(rng, l, st['seq'])
                exp = []
                for k in range(rng.choice([5, 8]) if not l.jumbo else 3):
                    p = with_crc(mk())
                    how = rng.choice(['ok', 'ok', 'flip', 'flip', 'flipcrc', 'flipcnt', 'stale', 'zero', 'short', 'runt', 'zerobyte', 'zerobyte'])
                    b = bytearray(p)
                    if how == 'zerobyte':   # the correct CRC holds a 0x00 byte; the stored value is wrong only behind it (or right)
                        q, zi = with_zero_crc(p)
                        b = bytearray(q)
                        if zi is not None and rng.random() < 0.75:
                            b[len(b) - 6 + rng.randrange(zi + 1, 4)] ^= 1 << rng.randrange(8)
                    if how == 'short':      # wrong length: rejected for its length, whatever its trailing bytes say
                        q = p[:rng.choice([100, 6, 7, len(p) - 1, len(p) - 6])]
                        b = bytearray(with_crc(q) if rng.random() < 0.4 else q)
                    elif how == 'runt':     # shorter than the CRC trailer itself
                        b = bytearray(p[:rng.choice([2, 3, 4, 5])])
                    if how == 'flip':
                        b[rng.randrange(len(b))] ^= 1 << rng.randrange(8)
                    elif how == 'flipcrc':
                        b[len(b) - 6 + rng.randrange(4)] ^= 1 << rng.randrange(8)
                    elif how == 'flipcnt':
                        b[len(b) - 2 + rng.randrange(2)] ^= 1 << rng.randrange(8)
                    elif how == 'stale':
                        b[-6:-2] = rng.randrange(1 << 32).to_bytes(4, 'big')
                    elif how == 'zero':
                        b[-6:-2] = bytes(4)
                    p = bytes(b)
                    s.pkt(0, p)
                    s.add('R 0'); s.add('T 0')
                    exp.append((how, crc_rule(p), p[:2] == b'\x55\xaa'))
                self.crc_expect[name] = exp
                sc.append(s.text(residual=()))
        out.append(('crc', '\n'.join(sc) + '\n'))
        return out

    def judge(self, bname, inp, impl_path, model_path, impl_log, violations, broken, stats):
        if bname == 'pcapfast':
            # only the packet records: which packets reached the decoder, in which order, with which bytes (error reports of
            # these deliberately short packets are throttled by the real clock)
            saved = self.projection
            self.projection = {'kinds': {'pkt', 'crash', 'nodrv', 'initfail'}, 'ignore_ts': True}
            try:
                return self.judge2(bname, inp, impl_path, model_path, impl_log, violations, broken, stats)
            finally:
                self.projection = saved
        if bname == 'sockburst' or (bname == 'replay' and '\nN 0 4 ' in open(inp).read() and 'c10_sockburst' in open(inp).read()):
            if not hasattr(self, 'c10'):
                from props import C10 as C10mod
                self.c10 = C10mod.Prop(); self.c10.setup(self.L, self.G, self.C)
            self.c10.judge_sockburst(inp, impl_path, impl_log, violations, stats)
            for v in [x for x in self.harness_variants if x not in ('asan', 'asan+crc', 'asan+crcall')]:
                outp = impl_path[:-5] + '.' + v.replace('+', '_')
                rc, out, dt = self.C.run_impl(self.exes[v], inp, outp)
                if rc != 0:
                    violations.append((f'crash:{v}', f'build {v} ({" ".join(self.defines[v])}) failed on batch {bname} rc={rc}: {out[-500:]}', open(inp).read()[:100000])); continue
                before = len(violations)
                self.c10.judge_sockburst(inp, outp, out, violations, stats)
                for k in range(before, len(violations)):
                    key, desc, payload = violations[k]
                    violations[k] = (f'{key}:{v}', f'build {v} ({" ".join(self.defines[v])}): {desc}', payload)
            return
        if bname == 'tfpair':
            saved = self.projection
            self.projection = dict(saved, xyz_rigid_tol=10.0)     # rotated points: judged against the length of the vector
            try:
                return self.judge2(bname, inp, impl_path, model_path, impl_log, violations, broken, stats)
            finally:
                self.projection = saved
        return self.judge2(bname, inp, impl_path, model_path, impl_log, violations, broken, stats)

    def judge2(self, bname, inp, impl_path, model_path, impl_log, violations, broken, stats):
        super().judge(bname, inp, impl_path, model_path, impl_log, violations, broken, stats)
        if bname.startswith('kern'):
            return
        text = open(inp).read()
        if bname == 'crc':
            return self.judge_crc(inp, impl_path, violations, stats)
        ref = dict(CMP.split_scenarios(impl_path))
        for v in self.builds_for(bname):
            outp = impl_path[:-5] + '.' + v.replace('+', '_')
            rc, out, dt = self.C.run_impl(self.exes[v], inp, outp)
            if rc != 0:
                violations.append((f'crash:{v}', f'build {v} ({" ".join(self.defines[v])}) failed on batch {bname} rc={rc}: {out[-500:]}', text[:200000]))
                continue
            other = dict(CMP.split_scenarios(outp))
            for name, lines in ref.items():
                if name is None:
                    continue
                stats['evaluations'] += 1
                stats['classes'][v] = stats['classes'].get(v, 0) + 1
                d = CMP.compare_scenario(other.get(name, []), lines, self.projection)
                if d is not None:
                    violations.append((f'flag:{v}', f'scenario {name}: build with {" ".join(self.defines[v])} differs from the default build at item {d[0]}: `{d[1]}` vs default `{d[2]}`',
                                       self.scn_of(text, name)))

    @staticmethod
    def scn_of(text, name):
        i = text.find(f'S {name}\n')
        j = text.find('\nE', i)
        return text[i:j + 2] if i >= 0 else text[:100000]

    def judge_crc(self, inp, impl_path, violations, stats):
        """independent oracle: between consecutive `temp` delimiters, a packet failing the rule must add no point to the
        open frame and (when it is the check that rejects it) report WRONGCRC32; one passing it must not report it"""
        text = open(inp).read()
        for name, lines in CMP.split_scenarios(impl_path):
            exp = getattr(self, 'crc_expect', {}).get(name)
            if not exp:
                continue
            segs, cur = [], []
            for l in lines:
                cur.append(l)
                if l.startswith('temp'):
                    segs.append(cur); cur = []
            # the first segment holds init + DIFOP + first packet
            if len(segs) != len(exp):
                continue
            prev_open = 0
            for (how, ok, is_msop), seg in zip(exp, segs):
                if not is_msop:
                    continue       # not dispatched as MSOP at all (first two bytes)
                errs = [l.split()[2] for l in seg if l.startswith('err ')]
                clouds = sum(1 for l in seg if l.startswith('cloud'))
                opens = [l for l in seg if l.startswith('open')]
                nopen = int(opens[-1].split()[3]) if opens and len(opens[-1].split()) > 3 else None
                stats['classes'][f'crc:{how}:{"pass" if ok else "fail"}'] = stats['classes'].get(f'crc:{how}:{"pass" if ok else "fail"}', 0) + 1
                if ok and ERR_CRC in errs:
                    violations.append(('crc-false-reject', f'scenario {name}: a packet satisfying the stated CRC rule ({how}) was rejected with WRONGCRC32', self.scn_of(text, name)))
                if not ok:
                    if clouds or (nopen is not None and nopen != prev_open and nopen != 0 and nopen > prev_open):
                        violations.append(('crc-accepted-bad', f'scenario {name}: a packet violating the stated CRC rule ({how}) contributed points ({prev_open} -> {nopen} open points, {clouds} clouds)', self.scn_of(text, name)))
                    if ERR_CRC not in errs and not any(e in errs for e in ('66', '67')):   # not rejected earlier for its length / identifier
                        violations.append(('crc-no-report', f'scenario {name}: a packet violating the stated CRC rule ({how}) was not reported (errors: {errs})', self.scn_of(text, name)))
                if nopen is not None:
                    prev_open = nopen

    def classify(self, name, lines):
        return [name.split('_')[1]]

    def signature(self, name, lines):
        if '_crc_' in name:
            e = [l.split()[2] for l in lines if l.startswith('err ')]
            return name if (ERR_CRC in e and any(l.startswith('open') and l.split()[3:4] not in ([], ['0']) for l in lines)) else None
        return name if any(l.startswith('cloud') for l in lines) else None
