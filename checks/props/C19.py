"""C19 - Reported errors are truthful: none on clean input, documented code on bad input."""
from props.base import PropBase
import pktgen, scen


class Prop(PropBase):
    pid = 'C19'
    kernels = ['throttle_sites', 'gates_msop', 'gates_difop']
    vo_targets = ['Props/Properties_C19.vo', 'Proofs/Errors.vo', 'Proofs/Throttle.vo', 'Proofs/Gates.vo']
    prop_files = ['Props/Properties_C19.v']
    rule = ('all 17 types; clean calibrated streams (must be silent); every malformed kind (length +-1/2/6, identifier bit flips, bad block id at block k, foreign, empty, '
            '1-2 byte, random), DIFOP-less waiting streams, null get answers; wall clock (interposed time()) stepping by 0, 1, 2 s so that throttles are exercised; '
            'compared: the exact sequence of reported codes; oracle: clean scenarios report nothing; non-trivial = >= 1 reported code or a clean multi-cloud stream')
    explanation = 'C19_T1..T5 (Coq: clean packets silent; each code implies its cause incl. length-before-id; first/throttled/again reports; block-id code; severities) + correspondence of reported code sequences'
    assumptions = ['one decode thread; wall clock = seconds returned by time() (interposed in the harness executable)']
    projection = {'kinds': {'err', 'temp', 'crash', 'nodrv'}}   # `temp` lines (one query after every packet) delimit packets

    def generate(self, rng, tier):
        scn_all = []
        reps = 3 if tier == 'quick' else 20
        self.clean = set()
        self.types = {}
        for r in range(reps):
            for t in scen.ALL:
                if t == 'RSM1_JUMBO' and r % 3 != 0:
                    continue
                l = self.L[t]
                name = f'c19_{t}_{r}'
                self.types[name] = t
                clean = (r % 3 == 0)
                cfg = scen.rand_cfg(rng, dense=rng.randrange(2), wait=1 if l.mech else 0, pktcb=rng.randrange(2))
                s = scen.Scn(name)
                nulls = (not clean) and rng.random() < 0.4
                s.drv(0, l, cfg, answers=([1, 'N', 2, 'N', 'N', 1, 2, 'N', 3] if nulls else None))
                dual = rng.random() < 0.3
                tick = lambda: rng.choice([2, 2, 3]) if clean else rng.choice([0, 0, 1, 2, 5])
                if l.mech:
                    ms = scen.MechStream(rng, l, dual=dual)
                    good_d = l.difop(dual=dual)
                    n = rng.choice([4, 6])
                    late = (not clean) and rng.random() < 0.5
                    if not late:
                        s.pkt(0, good_d, tick=tick())
                    for k in range(n):
                        if late and k == n // 2:
                            s.pkt(0, good_d, tick=tick())
                        if k == n - 2 and r % 2 == 0:
                            # a later DIFOP packet, correct length and identifier, whose angle table cannot be loaded (unprogrammed / out of
                            # range): the calibration already received stays in force - no waiting-for-calibration report, nothing dropped
                            kd_, v_, h_, raw_ = scen.cali_table(rng, l, ['ff', 'range'][(r // 2) % 2])
                            s.pkt(0, l.difop(dual=dual, vert=v_, horiz=h_, raw_cali=raw_), tick=tick())
                        bb = None if clean else (rng.randrange(l.nblk) if rng.random() < 0.35 else None)
                        m = ms.msop(bad_blk=bb, model=rng.choice([2, 3]) if t == 'RSP80' else None, gap_prob=0.05)
                        s.pkt(0, m, tick=tick())
                        if not clean and rng.random() < 0.5:
                            kind, bad = scen.malformed(rng, l, m, good_d)
                            for _ in range(rng.choice([1, 1, 2])):
                                s.pkt(0, bad, tick=tick())
                else:
                    seq = 1
                    good_d = l.difop(dual=dual)
                    for k in range(rng.choice([3, 5]) if not l.jumbo else 1):
                        if k == 1:
                            s.pkt(0, good_d, tick=tick())
                        m = scen.mems_msop(rng, l, seq); seq += 63 if l.jumbo else 1
                        s.pkt(0, m, tick=tick())
                        if not clean and rng.random() < 0.6:
                            kind, bad = scen.malformed(rng, l, m, good_d)
                            s.pkt(0, bad, tick=tick())
                if l.mech and r % 3 == 1:
                    # unthrottled sites: the same per-packet error twice within one wall-clock second must be reported twice
                    for _ in range(2):
                        s.pkt(0, ms.msop(bad_blk=rng.randrange(l.nblk), model=rng.choice([2, 3]) if t == 'RSP80' else None), tick=0)
                        s.pkt(0, ms.msop(model=rng.choice([2, 3]) if t == 'RSP80' else None), tick=0)
                if clean:
                    self.clean.add(name)
                # a getTemperature query after every packet delimits the packets in the output
                s.lines = [x for l in s.lines for x in ((l, 'T 0') if l.startswith('P ') else (l,))]
                scn_all.append(s.text(residual=()))
        # two different conditions within one second, with real threads: the caller's pool runs dry (null buffers: ERRCODE_POINTCLOUDNULL)
        # and, while the decoding thread is held up by that, more than 1024 packets arrive (ERRCODE_PKTBUFOVERFLOW). The first occurrence
        # of EACH condition in a process must be reported, whatever else was reported just before
        thr = []
        for k in range(2 if tier == 'quick' else 6):
            t = ['RS16', 'RSM1', 'RSHELIOS'][k % 3]
            l = self.L[t]
            cfg = pktgen.Cfg(wait=0, dense=0, pktcb=0, lclock=1, mode=3, nblk=3)
            pk = [scen.MechStream(rng, l).msop() for _ in range(2)] if l.mech else [scen.mems_msop(rng, l, q) for q in (1, 2, 1)]
            filler = b'\xa5\xff' + bytes(rng.randrange(256) for _ in range(40))        # wrong-length DIFOP-dispatched packets: cheap to queue
            lines = [f'S c19_thr_{t}_{k}', cfg.line(0, l), 'A 0 1 ' + ' '.join(['N'] * 700) + ' 2 1 2 1 2 1 2', 'WD 40', 'LC 0 1', 'LI 0', 'LS 0']
            lines += [f'LP 0 {p.hex()}' for p in pk] + ['SL 30'] + [f'LP 0 {filler.hex()}'] * 1100 + ['SL 1200', 'LX 0', 'LD 0', 'E']
            thr.append('\n'.join(lines))
            self.types[f'c19_thr_{t}_{k}'] = t
        return [('drv', '\n'.join(scn_all) + '\n'), ('thr', '\n'.join(thr) + '\n')]

    projection_thr = {'kinds': {'crash', 'hang', 'nodrv'}}

    def judge(self, bname, *a, **kw):
        keep = self.projection
        if bname == 'thr':
            self.projection = self.projection_thr        # real threads: judged by the oracle below
        try:
            return PropBase.judge(self, bname, *a, **kw)
        finally:
            self.projection = keep

    def oracle(self, name, impl, model, scn):
        if name.startswith('c19_thr_'):
            res = []
            codes = {l.split()[2] for l in impl if l.startswith('err ')}
            nulls = sum(1 for l in impl if l.startswith('get') and l.endswith(' N'))
            if nulls and '130' not in codes:
                res.append(('first-not-reported', f'the get callback returned null {nulls} times but ERRCODE_POINTCLOUDNULL was never reported (codes reported: {sorted(codes)})'))
            if nulls >= 600 and '72' not in codes:
                res.append(('first-not-reported', f'1100 packets were queued behind a decoding thread held up for {nulls} ms (limit 1024) but the first ERRCODE_PKTBUFOVERFLOW of the process was not reported (codes reported: {sorted(codes)})'))
            return res
        if name in self.clean:
            errs = [l for l in impl if l.startswith('err')]
            if errs:
                return [('clean-not-silent', f'clean calibrated stream reported {errs[0]}')]
        return []

    def mismatch_key(self, name, d, lines):
        t = self.types.get(name, '?')
        impl_l, model_l = d[1], d[2]
        if model_l.startswith('err 0 68'):
            if impl_l.startswith('err 0 '):
                return f'blkid-wrong-code:{t}'
            return f'blkid-silent:{t}'
        return 'mismatch'

    def classify(self, name, lines):
        codes = sorted(set(l.split()[2] for l in lines if l.startswith('err')))
        return ['codes=' + ('+'.join(codes) if codes else 'none')]

    def signature(self, name, lines):
        return name
