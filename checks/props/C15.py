"""C15 - Fixed-size frame modes deliver exactly N blocks per cloud."""
from props.base import PropBase
import pktgen, scen


class Prop(PropBase):
    pid = 'C15'
    kernels = ['SplitStrategyByNum']
    vo_targets = ['Props/Properties_C15.vo', 'Proofs/Eq_SplitNum.vo', 'Proofs/SplitNum.vo']
    prop_files = ['Props/Properties_C15.v']
    rule = ('kernel: SplitStrategyByNum(N).newBlock from counter values around N and the uint16 limits; driver: all 11 mechanical types in CUSTOM mode '
            '(N in {1,2,3,12,13,40,...}) and FIXED mode with DIFOP rpm {300,600,1200,arbitrary}/return-mode changes at random stream positions and streams long '
            'enough to cross one fixed-size frame (1200/2400 rpm: 450-1800 blocks); compared: points per cloud; non-trivial = >= 1 cloud delivered')
    explanation = 'C15_T0..T3 (Coq: counting kernel = code; closed form of split positions; N = exact floor for all rps; N after DIFOP; live read) + correspondence'
    assumptions = ['num_blks_split in 1..65535']
    projection = {'kinds': {'cloud', 'open', 'crash', 'nodrv'}, 'ignore_ts': True, 'drop_points': True, 'ignore_buf': True}

    def kernel_class(self, k):
        _, _, n, b = k.split()
        n, b = int(n), int(b)
        return 'hits' if b + 1 >= n else 'counts'

    def generate(self, rng, tier):
        out = []
        ks = []
        for n in [1, 2, 3, 12, 900, 1800, 65534, 65535, 0]:
            for b in {0, 1, n - 2, n - 1, n, n + 1, 65534, 65535}:
                if 0 <= b <= 65535:
                    ks.append(f'K num {n} {b}')
        for _ in range(100 if tier == 'quick' else 5000):
            n = rng.randrange(1, 65536)
            ks.append(f'K num {n} {rng.choice([n - 2, n - 1, rng.randrange(0, n)]) % 65536}')
        out.append(('kern', '\n'.join(ks) + '\n'))
        scn_all = []
        reps = 1 if tier == 'quick' else 6
        for r in range(reps):
            for t in scen.MECH:
                l = self.L[t]
                # CUSTOM
                n = rng.choice([1, 2, 3, l.nblk - 1, l.nblk, l.nblk + 1, 40])
                cfg = scen.rand_cfg(rng, mode=3, nblk=n, wait=rng.randrange(2), dense=0, pktcb=0)
                scn_all.append(scen.mixed_scenario(rng, self.L, t, f'c15_custom_{t}_{r}_n{n}', cfg, npk=rng.choice([4, 7]), malformed_p=0.1, badblk_p=0.05))
                # FIXED: rpm high enough that one frame (N blocks) fits a short stream: 6000 rpm -> N ~ 180,
                # 30000 -> 36, 60000 -> 18 (x2 dual, /2 16-beam single); two DIFOP phases per scenario
                nfix = 2 if tier == 'quick' else 4
                for q in range(nfix):
                    cfg = scen.rand_cfg(rng, mode=2, wait=rng.randrange(2), dense=0, pktcb=0)
                    if q % 2 == 1:
                        cfg.from_file = 1; cfg.wait = 0     # calibration "from file" (file missing): DIFOP still governs rpm / return mode
                    rpm1, rpm2 = rng.sample([6000, 30000, 60000, 12000, 65535], 2)
                    d1 = rng.random() < 0.5
                    d2 = d1 if rng.random() < 0.5 else (not d1)
                    if rng.random() < 0.3:
                        rpm2 = rpm1          # pure return-mode change (or a plain repeat)
                    if t == 'RSBP' and q % 2 == 0 and r == 0:
                        # Bpearl v4, whatever the seed: the same rpm announced before and after the first MSOP packet (which replaces the
                        # block period): N follows the period in force when each DIFOP packet is decoded (90, then 89 at 12000 rpm)
                        rpm1 = rpm2 = 12000
                    s = scen.Scn(f'c15_fixed_{t}_{r}_{q}_rpm{rpm1}{"d" if d1 else "s"}_rpm{rpm2}{"d" if d2 else "s"}')
                    s.drv(0, l, cfg)
                    ms = scen.MechStream(rng, l, dual=d1)
                    v4 = (t == 'RSBP' and q % 2 == 0)      # Bpearl v4 hardware (its own block period, detected on the first MSOP packet)
                    if v4:
                        pre0 = ms.msop
                        ms.msop = lambda **kw: pre0(bpv4=True, **kw)
                    def nblocks(rpm, dual):
                        n = int(1.0 / ((rpm // 60) * 55.5e-6))
                        return n * 2 if dual else n
                    n1 = nblocks(rpm1, d1) * 3 // l.nblk + 3
                    n2 = nblocks(rpm2, d2) * 3 // l.nblk + 3
                    pre = 0 if v4 else rng.randrange(0, 3)      # v4: the DIFOP packet (return mode) comes before the first MSOP packet
                    for k in range(pre):
                        s.pkt(0, ms.msop(dist=lambda r_: 0, gap_prob=0.0), tick=0)
                    s.pkt(0, l.difop(dual=d1, rpm=rpm1), tick=0)
                    for k in range(min(n1, 150)):
                        s.pkt(0, ms.msop(dist=lambda r_: 0, gap_prob=0.0), tick=0)
                    s.pkt(0, l.difop(dual=d2, rpm=rpm2), tick=0)
                    ms.dual = d2
                    for k in range(min(n2, 150)):
                        s.pkt(0, ms.msop(dist=lambda r_: 0, gap_prob=0.0), tick=0)
                    scn_all.append(s.text())
        out.append(('drv', '\n'.join(scn_all) + '\n'))
        return out

    def classify(self, name, lines):
        c = sum(1 for l in lines if l.startswith('cloud'))
        return [('custom' if 'custom' in name else 'fixed') + f'/clouds={min(c, 3)}']

    def signature(self, name, lines):
        return name if any(l.startswith('cloud') for l in lines) else None
