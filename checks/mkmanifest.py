#!/usr/bin/env python3
"""(re)writes MANIFEST.json from the registry below, so that it always validates."""
import json, os
VERIF = os.path.dirname(os.path.dirname(os.path.abspath(__file__)))
CLAIMED = json.load(open(os.path.join(VERIF, 'checks', 'claims.json')))
props = [json.loads(l) for l in open(os.path.join(VERIF, 'properties.jsonl'))]
checks, na = [], []
for p in props:
    pid = p['id']
    c = CLAIMED.get(pid)
    if not c or c.get('not_applicable'):
        na.append({'property_id': pid, 'reason': (c or {}).get('not_applicable', 'check not built yet in this development (no theorem/correspondence committed for it)')})
        continue
    checks.append({
        'property_id': pid,
        'quick_cmd': f'python3 checks/run_check.py {pid} --tier quick',
        'thorough_cmd': f'python3 checks/run_check.py {pid} --tier thorough',
        'evidence_file': f'/verif/evidence/{pid}.json',
        'replay_cmd_template': f'python3 checks/run_check.py {pid} --replay {{path}}',
        'engine': 'coq-model+correspondence',
        'level_claimed': {'category': 'proof', 'text': c['text'], 'design_ref': c.get('design_ref', 'DESIGN.md section 6 ' + pid)},
        'level_note': c['note'],
        'technique': c['technique'],
    })
man = {
    'version': 1,
    'setup_cmd': 'python3 checks/setup.py',
    'hooks': {'guard': 'RS_DRIVER_VERIF', 'enable': 'harness and probe are compiled with -DRS_DRIVER_VERIF against /repo/src (header-only)',
              'baseline_off_cmd': 'bash /verif/checks/baseline.sh', 'source_commits': json.load(open(os.path.join(VERIF, 'checks', 'hook_commits.json'))), 'add_only': True},
    'engines': [{'name': 'coq-model+correspondence', 'path': '/verif/checks/run_check.py', 'serves_properties': [c['property_id'] for c in checks],
                 'kind_free_text': 'Coq 8.16 theorems over an executable Gallina model; model tied to /repo by regeneration (probe + clang-AST kernel translator) and by differential correspondence of the extracted OCaml model against the real C++ built with sanitizers'}],
    'checks': checks,
    'not_applicable': na,
    'notes': 'See DESIGN.md. KNOWN_FINDINGS.txt lists recorded findings and fix: commits.',
}
json.dump(man, open(os.path.join(VERIF, 'MANIFEST.json'), 'w'), indent=1)
print('claimed', [c['property_id'] for c in checks], 'n/a', len(na))
