#!/usr/bin/env python3
"""mk_agent_prompts.py <outdir> <round-tag> - prompts for fresh sub-agents that seed property-breaking changes.
A prompt contains only the property text, the agent's own scratch worktree and a one-line summary of the
mechanisms earlier rounds used (so that the new change differs); nothing about the checks in /verif."""
import json, glob, os, sys

out, tag = sys.argv[1], sys.argv[2]
os.makedirs(out, exist_ok=True)
props = {}
for l in open('/verif/properties.jsonl'):
    p = json.loads(l); props[p['id']] = p

TMPL = '''You are helping test a verification effort for the open-source C++ library RoboSense-LiDAR/rs_driver (header-only LiDAR driver: decoders turning MSOP/DIFOP UDP or pcap packets into point clouds). You have your own scratch git worktree of the repository at {wt} (work ONLY inside that directory and /tmp; do not touch /repo or /verif, and do not read anything under /verif).

The property under test ({pid}: {title}):

"{stmt}"

Your task: write ONE realistic change to the library source (under {wt}/src) that BREAKS this property while (1) still compiling, and (2) still passing the repository's existing unit tests. It should look like a plausible human mistake or well-meant refactor/optimisation (an off-by-one, a swapped operand or statement order, a wrong field, a moved guard, a stale cached value, a missing reset, a shared static, ...), not sabotage, and should be small (a few lines).

Important: the change must need something SPECIFIC to manifest - a particular interleaving, a fault at a particular point, a multi-step sequence of operations, an unusual input, a particular LiDAR type/configuration combination, or two cooperating sites that each look fine alone. It must NOT be something ordinary use would expose at once (e.g. every cloud of every type being wrong).

These mechanisms have already been used by earlier testers for this property, so pick a DIFFERENT mechanism and preferably a different site in the code:
{used}

Deliverables, all inside {wt}:
 1. The source change itself, left UNCOMMITTED in the worktree (so that `git -C {wt} diff` shows exactly the change; no other files modified under src/ or test/).
 2. A demonstration program {wt}/demo/verif_demo.cpp (a small standalone C++14 program including the library headers from {wt}/src, compiled e.g. with `g++ -std=c++14 -I{wt}/src {wt}/demo/verif_demo.cpp -o /tmp/demo_{pid}_{tag} -lpcap -lpthread`; add -DENABLE_xxx or -I/usr/include/eigen3 if your change needs a build option, and say so) that exits 0 on the ORIGINAL code and exits non-zero (printing what went wrong) WITH your change. Check both. Do NOT use `git stash` (the stash is shared between worktrees and other people work in sibling worktrees); to flip between original and changed source use `git -C {wt} diff -- src > /tmp/{pid}_{tag}.patch`, `git -C {wt} apply -R /tmp/{pid}_{tag}.patch` and `git -C {wt} apply /tmp/{pid}_{tag}.patch` (the demo file is untracked so it survives).
 3. Confirm the existing test-suite still passes with your change: `cmake -G Ninja -S {wt} -B /tmp/build_{pid}_{tag} -DCOMPILE_TESTS=ON && cmake --build /tmp/build_{pid}_{tag} -j4 && /tmp/build_{pid}_{tag}/test/rs_driver_test` - the same tests must pass as on the original code (4 tests that need data files fail on the original too: TestChanAngles.loadFromFile, TestChanAngles.memberLoadFromFile, TestDecoder.angles_from_file, TestParseTime.parseTimeYMD - ignore those). Remove /tmp/build_{pid}_{tag} and /tmp/demo_{pid}_{tag} when done.

Always run compiled programs under `timeout` (e.g. `timeout 60 ./prog`). There is no network. Use at most 4 parallel compile jobs.

Final answer: a short report with (a) the file/function changed and what the change is, (b) why it breaks the property, (c) exactly what is needed for it to manifest, (d) the exact commands you ran and their outcomes (demo exit status on original and on changed code; test-suite result). Leave the change applied (uncommitted) in the worktree when you finish.'''

for pid in sorted(props):
    used = []
    for d in sorted(glob.glob(f'/verif/seeded/{pid}-mut*')):
        m = json.load(open(d + '/meta.json'))
        used.append(' - ' + (m.get('summary') or m.get('what') or '')[:330].replace('\n', ' '))
    p = props[pid]
    open(f'{out}/{pid}.txt', 'w').write(TMPL.format(wt=f'/tmp/wt/{pid}-{tag}', pid=pid, tag=tag, title=p['title'], stmt=p['statement'], used='\n'.join(used)))
print('wrote', len(props), 'prompts to', out)
