#!/bin/bash
# usage: try_mut.sh <seeded-dir-name> <PID> [tier]  -- apply a seeded patch to /repo, run the check, undo
set -u
M=$1; P=$2; T=${3:-quick}
git -C /repo apply /verif/seeded/$M/patch.diff || { echo "apply failed"; exit 2; }
cp /verif/evidence/$P.json /tmp/evidence_$P.bak 2>/dev/null   # the evidence of a run on a changed tree is not kept
python3 /verif/checks/run_check.py $P --tier $T 2>&1 | tail -${TAILN:-4}
git -C /repo checkout -- .
[ -f /tmp/evidence_$P.bak ] && mv /tmp/evidence_$P.bak /verif/evidence/$P.json
