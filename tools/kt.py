#!/usr/bin/env python3
"""kt.py - kernel translator: clang JSON AST of small integer C++ functions -> Gallina.

Usage: kt.py <repo> <out.v>

For every kernel listed in KERNELS the current text of /repo is parsed by clang
(-ast-dump=json) and re-translated.  The supported statement language is deliberately
small (member/local reads and writes, if/else, return, && || !, comparisons,
+ - * / % << >> & | ^, integral casts, ++/--, compound assignment, ?:, calls to
other translated members, for-loops with literal bounds).  Anything else makes the
translator fail loudly (exit 2): a failed translation is reported by the checks as
"proof obligation no longer checks", never skipped.

Semantics given to the C subset (trusted, see DESIGN.md section 5):
  * values of unsigned type narrower-or-equal 64 bits are reduced mod 2^n at every
    arithmetic result/cast whose clang type is that unsigned type;
  * signed arithmetic is done in Z (no wrap); casts *to* a signed type narrower than
    the operand wrap two's-complement (wraps n);
  * integer promotions/conversions are exactly the ImplicitCastExpr nodes clang inserted.
"""
import json, subprocess, sys, os, re, tempfile

UNSIGNED = {'uint8_t': 8, 'unsigned char': 8, 'uint16_t': 16, 'unsigned short': 16,
            'uint32_t': 32, 'unsigned int': 32, 'uint64_t': 64, 'unsigned long': 64,
            'size_t': 64, 'u_char': 8}
SIGNED = {'int8_t': 8, 'signed char': 8, 'char': 8, 'int16_t': 16, 'short': 16, 'int32_t': 32, 'int': 32,
          'int64_t': 64, 'long': 64, 'time_t': 64}


class Unsupported(Exception):
    pass


def strip_q(t):
    t = t.replace('const ', '').replace('volatile ', '').strip()
    t = re.sub(r'\s*&$', '', t)
    t = t.replace('robosense::lidar::', '')
    return t.strip()


def coq_ident(s):
    if s in ('in', 'end', 'at', 'as', 'fun', 'let', 'match', 'with', 'return', 'if', 'then', 'else', 'Type', 'Set', 'Prop', 'fix', 'forall', 'exists'):
        return s + '_'
    return s


def wrap_for(qt, e):
    t = strip_q(qt)
    if t == 'bool':
        return e
    if t in UNSIGNED:
        return f'(wrapu {UNSIGNED[t]} {e})'
    return e


class Fn:
    """Translate one function/method body by forward symbolic execution with continuation
    duplication at `if` (kernels are tiny)."""

    def __init__(self, tr, cls, node, fields, is_ctor=False):
        self.tr = tr
        self.cls = cls
        self.node = node
        self.fields = fields  # ordered list of (name, qualType)
        self.is_ctor = is_ctor
        self.cnt = 0
        self.extra_params = []  # (name, type) discovered (pointer derefs / array reads)

    def fresh(self, base):
        self.cnt += 1
        return f'{coq_ident(base)}_{self.cnt}'

    # ---------- expressions
    def expr(self, n, env):
        k = n['kind']
        if k in ('ParenExpr', 'ConstantExpr', 'ExprWithCleanups', 'MaterializeTemporaryExpr', 'CXXFunctionalCastExpr') and k != 'CXXFunctionalCastExpr':
            return self.expr(n['inner'][0], env)
        if k == 'IntegerLiteral':
            return f'({n["value"]})' if n['value'].startswith('-') else n['value']
        if k == 'CXXBoolLiteralExpr':
            return 'true' if n['value'] else 'false'
        if k == 'CharacterLiteral':
            return str(n['value'])
        if k == 'ImplicitCastExpr' or k == 'CStyleCastExpr' or k == 'CXXStaticCastExpr' or k == 'CXXFunctionalCastExpr':
            ck = n.get('castKind')
            inner = n['inner'][-1]
            if ck in ('LValueToRValue', 'NoOp', 'ArrayToPointerDecay', 'FunctionToPointerDecay'):
                return self.expr(inner, env)
            if ck == 'IntegralCast':
                e = self.expr(inner, env)
                tt = strip_q(n['type']['qualType'])
                st = strip_q(inner['type']['qualType'])
                if tt in UNSIGNED:
                    # widening from an unsigned/bool value never changes it
                    if st in UNSIGNED and UNSIGNED[st] <= UNSIGNED[tt]:
                        return e
                    return f'(wrapu {UNSIGNED[tt]} {e})'
                if tt in SIGNED:
                    sb = UNSIGNED.get(st) or SIGNED.get(st)
                    if sb is not None and (sb < SIGNED[tt] or (st in SIGNED and sb <= SIGNED[tt])):
                        return e
                    return f'(wraps {SIGNED[tt]} {e})'
                # enums
                return e
            if ck == 'IntegralToBoolean':
                return f'(negb ({self.expr(inner, env)} =? 0))'
            if ck == 'BooleanToSignedIntegral' or (ck == 'IntegralCast' and strip_q(inner['type']['qualType']) == 'bool'):
                return f'(Z.b2z {self.expr(inner, env)})'
            raise Unsupported(f'cast {ck}')
        if k == 'DeclRefExpr':
            name = n['referencedDecl']['name']
            rk = n['referencedDecl']['kind']
            if rk == 'EnumConstantDecl':
                return self.tr.enum_value(name)
            if name in env:
                return env[name]
            if name in self.tr.static_consts:
                return self.tr.static_consts[name]
            raise Unsupported(f'unbound name {name}')
        if k == 'MemberExpr':
            base = n['inner'][0]
            name = n['name']
            if self._is_this(base):
                if 'F:' + name in env:
                    return env['F:' + name]
                if name in self.tr.static_consts:
                    return self.tr.static_consts[name]
                if getattr(self, 'fields_as_params', False):
                    return self._extra(name, n['type']['qualType'], env)
                raise Unsupported(f'field {name} read before set')
            # param->field / param.field : becomes an extra parameter
            bn = self._base_name(base)
            if bn is not None:
                pname = f'{bn}_{name}'
                return self._extra(pname, n['type']['qualType'], env)
            raise Unsupported('member of non-this')
        if k == 'ArraySubscriptExpr':
            base, idx = n['inner']
            ie = self.expr(idx, env)
            if not re.fullmatch(r'\d+', ie):
                raise Unsupported('non-literal array index')
            b = base
            while b['kind'] in ('ImplicitCastExpr', 'ParenExpr'):
                b = b['inner'][0]
            if b['kind'] == 'MemberExpr':
                bn = self._base_name(b['inner'][0])
                if bn is not None:
                    if f'O:{bn}_{b["name"]}_{ie}' in env:
                        return env[f'O:{bn}_{b["name"]}_{ie}']
                    return self._extra(f'{bn}_{b["name"]}_{ie}', n['type']['qualType'], env)
            raise Unsupported('array subscript')
        if k == 'UnaryOperator':
            op = n['opcode']
            sub = n['inner'][0]
            if op == '!':
                return f'(negb {self.expr(sub, env)})'
            if op == '-':
                return wrap_for(n['type']['qualType'], f'(- {self.expr(sub, env)})')
            if op == '+':
                return self.expr(sub, env)
            if op == '~':
                t = strip_q(n['type']['qualType'])
                if t in UNSIGNED:
                    return f'(wrapu {UNSIGNED[t]} (- {self.expr(sub, env)} - 1))'
                return f'(- {self.expr(sub, env)} - 1)'
            if op == '*':
                s = sub
                while s['kind'] in ('ImplicitCastExpr', 'ParenExpr'):
                    s = s['inner'][0]
                if s['kind'] == 'MemberExpr' and self._is_this(s['inner'][0]):
                    return self._extra(s['name'] + 'deref', n['type']['qualType'], env)
                raise Unsupported('deref')
            raise Unsupported(f'unary {op} as rvalue')
        if k == 'BinaryOperator':
            op = n['opcode']
            a, b = n['inner']
            if op in ('&&', '||'):
                return f'({self.expr(a, env)} {op} {self.expr(b, env)})'
            ea, eb = self.expr(a, env), self.expr(b, env)
            isbool = strip_q(a['type']['qualType']) == 'bool' and strip_q(b['type']['qualType']) == 'bool'
            cmpm = {'<': '<?', '<=': '<=?', '>': '>?', '>=': '>=?', '==': '=?'}
            if op in cmpm:
                if isbool and op == '==':
                    return f'(Bool.eqb {ea} {eb})'
                return f'({ea} {cmpm[op]} {eb})'
            if op == '!=':
                if isbool:
                    return f'(negb (Bool.eqb {ea} {eb}))'
                return f'(negb ({ea} =? {eb}))'
            ar = {'+': '+', '-': '-', '*': '*'}
            qt = n['type']['qualType']
            if op in ar:
                return wrap_for(qt, f'({ea} {ar[op]} {eb})')
            if op == '/':
                return wrap_for(qt, f'(Z.quot {ea} {eb})')
            if op == '%':
                return wrap_for(qt, f'(Z.rem {ea} {eb})')
            if op == '<<':
                return wrap_for(qt, f'(Z.shiftl {ea} {eb})')
            if op == '>>':
                return f'(Z.shiftr {ea} {eb})'
            if op == '&':
                return f'(Z.land {ea} {eb})'
            if op == '|':
                return f'(Z.lor {ea} {eb})'
            if op == '^':
                return f'(Z.lxor {ea} {eb})'
            raise Unsupported(f'binop {op}')
        if k == 'ConditionalOperator':
            c, a, b = n['inner']
            return f'(if {self.expr(c, env)} then {self.expr(a, env)} else {self.expr(b, env)})'
        if k == 'CXXMemberCallExpr' or k == 'CallExpr':
            callee = n['inner'][0]
            while callee['kind'] in ('ImplicitCastExpr', 'ParenExpr'):
                callee = callee['inner'][0]
            if callee['kind'] == 'MemberExpr':
                name = callee['name']
            elif callee['kind'] == 'DeclRefExpr':
                name = callee['referencedDecl']['name']
            else:
                raise Unsupported('call')
            args = [self.expr(a, env) for a in n['inner'][1:]]
            if name in ('ntohs', 'htons', 'ntohl', 'htonl', '__bswap_16', '__bswap_32'):
                raise Unsupported('byte swap in kernel')
            pure = self.tr.pure_fns.get((self.cls, name))
            if pure is None:
                raise Unsupported(f'call to {name}')
            return f'({pure} {" ".join(args)})'
        raise Unsupported(f'expr kind {k}')

    def _is_this(self, n):
        while n['kind'] in ('ImplicitCastExpr', 'ParenExpr'):
            n = n['inner'][0]
        return n['kind'] == 'CXXThisExpr'

    def _base_name(self, n):
        while n['kind'] in ('ImplicitCastExpr', 'ParenExpr', 'UnaryOperator'):
            n = n['inner'][0]
        if n['kind'] == 'DeclRefExpr':
            return n['referencedDecl']['name']
        return None

    def _extra(self, name, qt, env):
        name = coq_ident(name)
        if name not in [p for p, _ in self.extra_params]:
            self.extra_params.append((name, qt))
        return name

    # ---------- statements (continuation style)
    def assign(self, lhs, val, env, qt):
        while lhs['kind'] == 'ParenExpr':
            lhs = lhs['inner'][0]
        if lhs['kind'] == 'MemberExpr' and self._is_this(lhs['inner'][0]):
            key = 'F:' + lhs['name']
            base = lhs['name']
        elif lhs['kind'] == 'DeclRefExpr':
            key = lhs['referencedDecl']['name']
            base = key
        elif lhs['kind'] == 'ArraySubscriptExpr':
            b0, idx = lhs['inner']
            ie = self.expr(idx, env)
            if not re.fullmatch(r'\d+', ie):
                raise Unsupported('write with a non-literal array index')
            b = b0
            while b['kind'] in ('ImplicitCastExpr', 'ParenExpr'):
                b = b['inner'][0]
            bn = self._base_name(b['inner'][0]) if b['kind'] == 'MemberExpr' else None
            if bn is None:
                raise Unsupported('assignment target')
            key = f'O:{bn}_{b["name"]}_{ie}'
            base = key[2:]
        else:
            raise Unsupported('assignment target')
        v = self.fresh(base)
        env2 = dict(env)
        env2[key] = v
        return v, val, env2

    def stmts(self, lst, env, k):
        """translate statement list `lst` then continue with k(env) -> string"""
        if not lst:
            return k(env)
        s, rest = lst[0], lst[1:]
        kind = s['kind']
        cont = lambda e: self.stmts(rest, e, k)
        if kind == 'CompoundStmt':
            return self.stmts(s.get('inner', []) + rest, env, k)
        if kind == 'NullStmt':
            return cont(env)
        if kind == 'DeclStmt':
            out_env = dict(env)
            pre = ''
            for d in s['inner']:
                if d['kind'] != 'VarDecl':
                    raise Unsupported('decl ' + d['kind'])
                if 'inner' in d:
                    val = self.expr(d['inner'][-1], out_env)
                else:
                    val = 'false' if strip_q(d['type']['qualType']) == 'bool' else '0'
                v = self.fresh(d['name'])
                pre += f'let {v} := {val} in\n'
                out_env[d['name']] = v
            return pre + cont(out_env)
        if kind == 'ReturnStmt':
            if 'inner' in s and getattr(self, 'ret_index', False):
                # `return table_[idx];` with table_ a pointer member of this: the function is translated to the index it uses
                r = s['inner'][0]
                while r['kind'] in ('ImplicitCastExpr', 'ParenExpr'):
                    r = r['inner'][0]
                if r['kind'] != 'ArraySubscriptExpr':
                    raise Unsupported('ret_index: return is not a table read')
                base, idx = r['inner']
                b = base
                while b['kind'] in ('ImplicitCastExpr', 'ParenExpr'):
                    b = b['inner'][0]
                if not (b['kind'] == 'MemberExpr' and self._is_this(b['inner'][0])):
                    raise Unsupported('ret_index: table is not a member')
                if self.ret_table is not None and b['name'] != self.ret_table:
                    raise Unsupported(f'ret_index: reads table {b["name"]}, expected {self.ret_table}')
                return self.finish(self.expr(idx, env), env)
            if 'inner' in s:
                return self.finish(self.expr(s['inner'][0], env), env)
            return self.finish(None, env)
        if kind == 'IfStmt':
            inner = s['inner']
            c = self.expr(inner[0], env)
            th = inner[1]
            el = inner[2] if len(inner) > 2 else None
            a = self.stmts([th] + rest, env, k)
            b = self.stmts(([el] if el else []) + rest, env, k)
            return f'if {c}\nthen ({a})\nelse ({b})'
        if kind in ('BinaryOperator',) and s['opcode'] == '=':
            lhs, rhs = s['inner']
            v, val, env2 = self.assign(lhs, self.expr(rhs, env), env, s['type']['qualType'])
            return f'let {v} := {val} in\n' + cont(env2)
        if kind == 'CompoundAssignOperator':
            lhs, rhs = s['inner']
            op = s['opcode'][:-1]
            cur = self.expr(lhs, env)
            r = self.expr(rhs, env)
            m = {'+': '+', '-': '-', '*': '*', '<<': None, '>>': None, '&': None, '|': None, '^': None}
            if op in ('+', '-', '*'):
                e = f'({cur} {op} {r})'
            elif op == '<<':
                e = f'(Z.shiftl {cur} {r})'
            elif op == '>>':
                e = f'(Z.shiftr {cur} {r})'
            elif op == '&':
                e = f'(Z.land {cur} {r})'
            elif op == '|':
                e = f'(Z.lor {cur} {r})'
            elif op == '^':
                e = f'(Z.lxor {cur} {r})'
            elif op == '/':
                e = f'(Z.quot {cur} {r})'
            elif op == '%':
                e = f'(Z.rem {cur} {r})'
            else:
                raise Unsupported('compound ' + op)
            e = wrap_for(s['type']['qualType'], e)
            v, val, env2 = self.assign(lhs, e, env, s['type']['qualType'])
            return f'let {v} := {val} in\n' + cont(env2)
        if kind == 'UnaryOperator' and s['opcode'] in ('++', '--'):
            lhs = s['inner'][0]
            cur = self.expr(lhs, env)
            e = wrap_for(s['type']['qualType'], f'({cur} {"+" if s["opcode"] == "++" else "-"} 1)')
            v, val, env2 = self.assign(lhs, e, env, s['type']['qualType'])
            return f'let {v} := {val} in\n' + cont(env2)
        if kind in ('CXXMemberCallExpr',):
            # void member call on this: inline the callee body
            callee = s['inner'][0]
            while callee['kind'] in ('ImplicitCastExpr', 'ParenExpr'):
                callee = callee['inner'][0]
            if callee['kind'] == 'MemberExpr' and self._is_this(callee['inner'][0]):
                m = self.tr.find_method(self.cls, callee['name'])
                if m is None:
                    raise Unsupported('inline call ' + callee['name'])
                params = [c for c in m.get('inner', []) if c['kind'] == 'ParmVarDecl']
                body = [c for c in m.get('inner', []) if c['kind'] == 'CompoundStmt'][0]
                env2 = dict(env)
                pre = ''
                for p, a in zip(params, s['inner'][1:]):
                    v = self.fresh(p['name'])
                    pre += f'let {v} := {self.expr(a, env)} in\n'
                    env2[p['name']] = v
                # inlined void callee must not contain `return` (checked)
                if self._has_return(body):
                    raise Unsupported('return inside inlined callee')
                saved = {kk: vv for kk, vv in env.items() if not kk.startswith('F:')}

                def after(e):
                    e2 = {kk: vv for kk, vv in e.items() if kk.startswith('F:')}
                    e2.update(saved)
                    return cont(e2)
                return pre + self.stmts([body], env2, after)
            raise Unsupported('call stmt')
        if kind == 'ForStmt':
            # for (int i = A; i <op> B; i++ / i--) body   with literal A, B: unrolled; the body must not contain break / continue / return
            init, _condvar, condn, inc, body = (s['inner'] + [None] * 5)[:5]
            try:
                vd = init['inner'][0]
                var = vd['name']
                a = int(self.expr(vd['inner'][-1], env).strip('()'))
                c = condn
                while c['kind'] in ('ImplicitCastExpr', 'ParenExpr'):
                    c = c['inner'][0]
                op = c['opcode']
                lhs = c['inner'][0]
                while lhs['kind'] in ('ImplicitCastExpr', 'ParenExpr'):
                    lhs = lhs['inner'][0]
                assert lhs['kind'] == 'DeclRefExpr' and lhs['referencedDecl']['name'] == var
                b = int(self.expr(c['inner'][1], env).strip('()'))
                assert inc['kind'] == 'UnaryOperator' and inc['opcode'] in ('++', '--')
                d = 1 if inc['opcode'] == '++' else -1
            except (KeyError, IndexError, ValueError, AssertionError, TypeError):
                raise Unsupported('for loop that is not `for (int i = A; i op B; i++/--)` with literal bounds')
            if self._has_kind(body, ('BreakStmt', 'ContinueStmt', 'ReturnStmt')):
                raise Unsupported('break / continue / return inside a for loop')
            test = {'<': lambda i: i < b, '<=': lambda i: i <= b, '>': lambda i: i > b, '>=': lambda i: i >= b, '!=': lambda i: i != b}[op]
            iters, i = [], a
            while test(i):
                iters.append(i); i += d
                if len(iters) > 64:
                    raise Unsupported('for loop with more than 64 iterations')
            saved_var = env.get(var)

            def run(k, e):
                if k == len(iters):
                    e2 = dict(e)
                    if saved_var is None:
                        e2.pop(var, None)
                    else:
                        e2[var] = saved_var
                    return cont(e2)
                e2 = dict(e); e2[var] = str(iters[k]) if iters[k] >= 0 else f'({iters[k]})'
                return self.stmts([body], e2, lambda e3: run(k + 1, e3))
            return run(0, env)
        raise Unsupported('stmt kind ' + kind)

    def _has_kind(self, n, kinds):
        if n.get('kind') in kinds:
            return True
        return any(self._has_kind(c, kinds) for c in n.get('inner', []) if isinstance(c, dict))

    def _has_return(self, n):
        if n.get('kind') == 'ReturnStmt':
            return True
        return any(self._has_return(c) for c in n.get('inner', []) if isinstance(c, dict))

    def finish(self, ret, env):
        fs = ' '.join(env.get('F:' + f, '0') for f, _ in self.fields)
        st = f'(mk_{self.cls} {fs})' if self.fields else 'tt'
        if self.is_ctor:
            return st
        outs = sorted((k for k in env if k.startswith('O:')), key=lambda k: (re.sub(r'_\d+$', '', k), int(k.rsplit('_', 1)[1])))
        if ret is None and self.pure and outs:
            return '[' + '; '.join(env[k] for k in outs) + ']'
        if ret is None:
            return st
        if self.pure:
            return ret
        return f'({ret}, {st})'

    def translate(self, name_override=None, pure=False):
        self.pure = pure
        n = self.node
        params = [c for c in n.get('inner', []) if c['kind'] == 'ParmVarDecl']
        env = {}
        plist = []
        for p in params:
            pn = coq_ident(p.get('name', 'arg_unnamed'))
            t = strip_q(p['type']['qualType'])
            if '*' in t:
                env[p.get('name', pn)] = None  # pointer param: only used through member/array access
                continue
            env[p.get('name', pn)] = pn
            plist.append((pn, 'bool' if t == 'bool' else 'Z'))
        pre = ''
        if not self.is_ctor and self.fields and not pure:
            for f, qt in self.fields:
                env['F:' + f] = f'({self.cls}_{f} s)'
        if self.is_ctor:
            for init in [c for c in n.get('inner', []) if c['kind'] == 'CXXCtorInitializer']:
                if 'anyInit' in init:
                    fname = init['anyInit']['name']
                    if '*' in init['anyInit']['type']['qualType']:
                        val = '0'  # pointer member: opaque, only ever read through `*p` (an explicit parameter)
                    else:
                        val = self.expr(init['inner'][0], env)
                    v = self.fresh(fname)
                    pre += f'let {v} := {val} in\n'
                    env['F:' + fname] = v
            # in-class default member initialisers are not followed: unsupported if any field unset later
        bodies = [c for c in n.get('inner', []) if c['kind'] == 'CompoundStmt']
        if not bodies:
            raise Unsupported('no body')
        body = pre + self.stmts([bodies[0]], env, lambda e: self.finish(None, e))
        fname = name_override or f'{self.cls}_{coq_ident(n["name"])}'
        if self.is_ctor:
            fname = name_override or f'{self.cls}_ctor'
        args = ''
        if not self.is_ctor and self.fields and not pure:
            args += f' (s : {self.cls}_state)'
        for p, t in plist:
            args += f' ({p} : {t})'
        for p, qt in self.extra_params:
            args += f' ({p} : {"bool" if strip_q(qt) == "bool" else "Z"})'
        return f'Definition {fname}{args} :=\n{body}.\n'


class CopyFn(Fn):
    """A function that validates sizes and then copies:  guards `if (c) return;` followed by memcpy / setData calls.
    Translated to  option [copy source offset; copy length; data offset; data length]  (None = rejected), with the C integer
    semantics of the expression translator (size_t arithmetic wraps mod 2^64); member fields read become parameters.
    Every other statement (declarations of non-integers, other calls) is skipped: it cannot change the sizes."""

    def strip(self, n):
        while n.get('kind') in ('ImplicitCastExpr', 'ParenExpr', 'ExprWithCleanups', 'MaterializeTemporaryExpr', 'CXXBindTemporaryExpr'):
            n = n['inner'][0]
        return n

    def callee_name(self, n):
        c = self.strip(n['inner'][0])
        if c.get('kind') == 'MemberExpr':
            return c.get('name')
        if c.get('kind') == 'DeclRefExpr':
            return c.get('referencedDecl', {}).get('name')
        return None

    def ptr_offset(self, n, env):
        """`ptr + e` -> e ; `ptr` -> 0"""
        n = self.strip(n)
        if n.get('kind') == 'BinaryOperator' and n.get('opcode') == '+':
            a, b = n['inner']
            if '*' in a['type']['qualType']:
                return self.expr(b, env)
            if '*' in b['type']['qualType']:
                return self.expr(a, env)
        if n.get('kind') in ('DeclRefExpr', 'CXXMemberCallExpr', 'MemberExpr'):
            return '0'
        raise Unsupported('copy source that is not `pointer + offset`')

    def walk(self, lst, env, eff):
        if not lst:
            need = ('src_off', 'copy_len', 'data_off', 'data_len')
            if any(k not in eff for k in need):
                raise Unsupported('no memcpy / setData pair found')
            return 'Some [' + '; '.join(eff[k] for k in need) + ']'
        s, rest = lst[0], lst[1:]
        k = s.get('kind')
        if k == 'CompoundStmt':
            return self.walk(s.get('inner', []) + rest, env, eff)
        if k == 'ReturnStmt':
            return 'None'
        if k == 'IfStmt':
            inner = s['inner']
            c = self.expr(inner[0], env)
            a = self.walk([inner[1]], env, dict(eff)) if self._has_kind(inner[1], ('ReturnStmt',)) else None
            if a is None or len(inner) > 2:
                raise Unsupported('if-statement other than a rejecting guard')
            return f'(if {c} then {a} else {self.walk(rest, env, eff)})'
        if k == 'DeclStmt':
            env2 = dict(env); pre = ''
            for d in s['inner']:
                t = strip_q(d.get('type', {}).get('qualType', ''))
                if d['kind'] == 'VarDecl' and (t in UNSIGNED or t in SIGNED) and 'inner' in d:
                    v = self.fresh(d['name'])
                    pre += f'let {v} := {self.expr(d["inner"][-1], env2)} in\n'
                    env2[d['name']] = v
            return pre + self.walk(rest, env2, eff)
        if k in ('CallExpr', 'CXXMemberCallExpr', 'ExprWithCleanups'):
            c = self.strip(s)
            if c.get('kind') in ('CallExpr', 'CXXMemberCallExpr'):
                name = self.callee_name(c)
                args = c['inner'][1:]
                eff = dict(eff)
                if name == 'memcpy' and len(args) == 3:
                    eff['src_off'] = self.ptr_offset(args[1], env); eff['copy_len'] = self.expr(args[2], env)
                elif name == 'setData' and len(args) == 2:
                    eff['data_off'] = self.expr(args[0], env); eff['data_len'] = self.expr(args[1], env)
            return self.walk(rest, env, eff)
        if self._has_kind(s, ('ReturnStmt', 'WhileStmt', 'ForStmt', 'DoStmt', 'GotoStmt')):
            raise Unsupported(f'{k} in a copy function')
        return self.walk(rest, env, eff)

    # ---- the same inside a worker loop: `while (..) { ...; if (size guard) continue; if (opaque) { memcpy; setData; } ... }`
    def try_expr(self, n, env):
        try:
            return self.expr(n, env)
        except (Unsupported, KeyError, IndexError, TypeError):
            return None

    def has_copy(self, n):
        if n.get('kind') in ('CallExpr', 'CXXMemberCallExpr') and self.callee_name(n) in ('memcpy', 'setData'):
            return True
        return any(self.has_copy(c) for c in n.get('inner', []) if isinstance(c, dict))

    def effects_of(self, n, env, eff):
        """memcpy / setData arguments found in statement n (any nesting)"""
        if n.get('kind') in ('CallExpr', 'CXXMemberCallExpr'):
            name = self.callee_name(n); args = n['inner'][1:]
            if name == 'memcpy' and len(args) == 3:
                eff.setdefault('sites', []).append(('copy', self.ptr_offset(args[1], env), self.expr(args[2], env)))
            elif name == 'setData' and len(args) == 2:
                eff.setdefault('sites', []).append(('data', self.expr(args[0], env), self.expr(args[1], env)))
        for c in n.get('inner', []):
            if isinstance(c, dict):
                self.effects_of(c, env, eff)

    def walk_loop(self, lst, env, guards, eff):
        for s in lst:
            k = s.get('kind')
            if k == 'CompoundStmt':
                self.walk_loop(s.get('inner', []), env, guards, eff)
            elif k == 'DeclStmt':
                for d in s['inner']:
                    t = strip_q(d.get('type', {}).get('qualType', ''))
                    if d['kind'] == 'VarDecl' and (t in UNSIGNED or t in SIGNED or t == 'ssize_t'):
                        v = self.try_expr(d['inner'][-1], env) if 'inner' in d else None
                        env[d['name']] = v if v is not None else self._extra(d['name'], d['type']['qualType'], env)   # e.g. the return value of recvfrom
            elif k == 'IfStmt':
                inner = s['inner']
                if self.has_copy(s):
                    # the branch(es) that copy: conditions that can be translated are further guards of the copy
                    c = self.try_expr(inner[0], env)
                    if self.has_copy(inner[1]):
                        if c is not None and not self.has_copy(inner[2]) if len(inner) > 2 else c is not None:
                            guards.append(('need', c))
                        self.walk_loop([inner[1]], env, guards, eff)
                    if len(inner) > 2 and self.has_copy(inner[2]):
                        if c is not None and not self.has_copy(inner[1]):
                            guards.append(('reject', c))
                        self.walk_loop([inner[2]], env, guards, eff)
                elif self._has_kind(inner[1], ('ContinueStmt', 'BreakStmt', 'ReturnStmt')) and len(inner) == 2:
                    c = self.try_expr(inner[0], env)
                    if c is not None:
                        guards.append(('reject', c))
                # other ifs cannot influence the sizes
            elif k == 'ForStmt':
                self.walk_loop([s['inner'][-1]], env, guards, eff)
            elif self.has_copy(s):
                self.effects_of(s, env, eff)

    def translate_loop_copy(self, fname):
        self.fields_as_params = True
        self.pure = True
        body = [c for c in self.node.get('inner', []) if c['kind'] == 'CompoundStmt'][0]
        whiles = [c for c in body.get('inner', []) if c['kind'] == 'WhileStmt']
        if len(whiles) != 1:
            raise Unsupported('no single while loop')
        env, guards, eff = {}, [], {}
        self.walk_loop([whiles[0]['inner'][1]], env, guards, eff)
        sites = eff.get('sites', [])
        copies = sorted(set((a, b) for k, a, b in sites if k == 'copy'))
        datas = sorted(set((a, b) for k, a, b in sites if k == 'data'))
        if len(datas) != 1 or len(copies) > 1:
            raise Unsupported(f'copy sites disagree or are missing: {copies} {datas}')
        res = ([copies[0][0], copies[0][1]] if copies else []) + [datas[0][0], datas[0][1]]
        txt = 'Some [' + '; '.join(res) + ']'
        for kind, c in reversed(guards):
            txt = f'(if {c} then None else {txt})' if kind == 'reject' else f'(if {c} then {txt} else None)'
        args = ''.join(f' ({p_} : Z)' for p_, _ in self.extra_params)
        return f'Definition {fname}{args} : option (list Z) :=\n{txt}.\n'

    def translate_copy(self, fname):
        self.fields_as_params = True
        self.pure = True
        n = self.node
        env = {}; plist = []
        for p_ in [c for c in n.get('inner', []) if c['kind'] == 'ParmVarDecl']:
            pn = coq_ident(p_.get('name', 'arg'))
            if '*' in p_['type']['qualType']:
                env[p_.get('name', pn)] = None
                continue
            env[p_.get('name', pn)] = pn; plist.append(pn)
        body = [c for c in n.get('inner', []) if c['kind'] == 'CompoundStmt'][0]
        txt = self.walk([body], env, {})
        args = ''.join(f' ({p_} : Z)' for p_ in plist) + ''.join(f' ({p_} : Z)' for p_, _ in self.extra_params)
        return f'Definition {fname}{args} : option (list Z) :=\n{txt}.\n'


class LoopRound:
    """Control skeleton of a worker thread's loop `while (guard) { body }`: one round as a function
         round (ex : bool) (cs : list bool) : round_outcome
    where ex is the value every read of the exit flag yields during the round (the flag only ever goes from false to true) and
    cs are the values of the other conditions, in order of appearance (their source text is emitted as <name>_conds).
    RCont = the round ends at `continue` or at the end of the body (the guard is evaluated again), RBrk = the loop is left
    (`break`, `return`, guard false): the thread function returns.  Inner loops must be `do {..} while (0)` or `for` loops with a
    literal bound and no return inside; every call made in the round must be in the job's list of calls known to return
    (time-outs included) - anything else fails the translation."""

    def __init__(self, tr, node, flag, src_path, allowed):
        self.tr, self.node, self.flag, self.allowed = tr, node, flag, set(allowed)
        self.src = open(src_path, 'rb').read()
        self.conds, self.calls = [], []

    def strip(self, n):
        while n.get('kind') in ('ImplicitCastExpr', 'ParenExpr', 'ExprWithCleanups', 'MaterializeTemporaryExpr', 'CXXBindTemporaryExpr', 'ConstantExpr'):
            n = n['inner'][0]
        return n

    def is_flag(self, n):
        n = self.strip(n)
        if n.get('kind') == 'CXXMemberCallExpr':       # std::atomic<bool>::operator bool / load()
            callee = self.strip(n['inner'][0])
            if callee.get('kind') == 'MemberExpr' and callee.get('name') in ('operator bool', 'load', 'operator std::atomic<bool>::__integral_type') and len(n['inner']) == 1:
                return self.is_flag(callee['inner'][0])
            return False
        if n.get('kind') == 'MemberExpr' and n.get('name') == self.flag:
            b = self.strip(n['inner'][0])
            return b.get('kind') == 'CXXThisExpr'
        return False

    def text_of(self, n):
        r = n.get('range', {})
        b = r.get('begin', {}); e = r.get('end', {})
        b = b.get('expansionLoc', b); e = e.get('expansionLoc', e)
        if 'offset' not in b or 'offset' not in e:
            return '?'
        t = self.src[b['offset']: e['offset'] + e.get('tokLen', 1)].decode('utf8', 'replace')
        return ' '.join(t.split())

    def cond(self, n):
        n0 = n
        n = self.strip(n)
        k = n.get('kind')
        if self.is_flag(n):
            return 'ex'
        if k == 'UnaryOperator' and n.get('opcode') == '!':
            return f'(negb {self.cond(n["inner"][0])})'
        if k == 'BinaryOperator' and n.get('opcode') in ('&&', '||'):
            return f'({self.cond(n["inner"][0])} {n["opcode"]} {self.cond(n["inner"][1])})'
        if k == 'IntegerLiteral':
            return 'false' if n['value'] == '0' else 'true'
        if k == 'CXXBoolLiteralExpr':
            return 'true' if n['value'] else 'false'
        self.note_calls(n)
        self.conds.append(self.text_of(n0))
        return f'(nth {len(self.conds) - 1} cs false)'

    def note_calls(self, n):
        k = n.get('kind')
        if k in ('CallExpr', 'CXXMemberCallExpr', 'CXXOperatorCallExpr'):
            c = self.strip(n['inner'][0])
            name = c.get('name') if c.get('kind') == 'MemberExpr' else (c.get('referencedDecl', {}).get('name') if c.get('kind') == 'DeclRefExpr' else None)
            if name is None and k == 'CXXOperatorCallExpr':
                name = 'operator'
            if name is None:
                raise Unsupported('call with a computed callee inside a worker loop')
            if name.startswith('operator'):
                # calling a std::function member (a callback): named after the member
                for a in n['inner'][1:2]:
                    a = self.strip(a)
                    if a.get('kind') == 'MemberExpr':
                        name = a['name'] + '()'
            if name not in self.allowed and name not in ('data', 'dataSize', 'buf', 'bufSize', 'setData', 'get', 'size', 'c_str') and not name.startswith('operator'):
                raise Unsupported(f'call to {name} inside the loop is not in the list of calls known to return')
            if name not in self.calls:
                self.calls.append(name)
        if k in ('LambdaExpr',):
            return
        for c in n.get('inner', []):
            if isinstance(c, dict):
                self.note_calls(c)

    def has(self, n, kinds):
        if n.get('kind') in kinds:
            return True
        return any(self.has(c, kinds) for c in n.get('inner', []) if isinstance(c, dict))

    def codes_in(self, n):
        """ERRCODE_* constants handed to the exception callback in statement n"""
        out = []
        def walk(x):
            if x.get('kind') == 'DeclRefExpr' and x.get('referencedDecl', {}).get('kind') == 'EnumConstantDecl' and x['referencedDecl'].get('name', '').startswith('ERRCODE_'):
                out.append(x['referencedDecl']['name'])
            for c in x.get('inner', []):
                if isinstance(c, dict):
                    walk(c)
        walk(n)
        return out

    def leaf(self, kind, acc):
        if self.mode == 'outcome':
            return kind
        return '[' + '; '.join('"' + c + '"%string' for c in acc) + ']'

    def seq(self, lst, acc=()):
        if not lst:
            return self.leaf('RCont', acc)
        s, rest = lst[0], lst[1:]
        k = s.get('kind')
        if k == 'CompoundStmt':
            return self.seq(s.get('inner', []) + rest, acc)
        if k == 'ContinueStmt':
            return self.leaf('RCont', acc)
        if k in ('BreakStmt', 'ReturnStmt'):
            return self.leaf('RBrk', acc)
        if k == 'IfStmt':
            inner = s['inner']
            c = self.cond(inner[0])
            a = self.seq([inner[1]] + rest, acc)
            b = self.seq(([inner[2]] if len(inner) > 2 else []) + rest, acc)
            return f'(if {c} then {a} else {b})'
        if k == 'DoStmt':
            body, c = s['inner'][0], self.strip(s['inner'][1])
            if not (c.get('kind') == 'IntegerLiteral' and c.get('value') == '0') or self.has(body, ('BreakStmt', 'ContinueStmt', 'ReturnStmt', 'GotoStmt')):
                raise Unsupported('do-loop other than `do {..} while (0)` inside a worker loop')
            return self.seq([body] + rest, acc)
        if k == 'ForStmt':
            parts = s['inner']
            c = self.strip(parts[2]) if len(parts) > 2 and parts[2] else {}
            def is_const(n):
                n = self.strip(n)
                if n.get('kind') in ('IntegerLiteral', 'UnaryExprOrTypeTraitExpr'):
                    return True
                if n.get('kind') == 'BinaryOperator' and n.get('opcode') in ('/', '*', '+', '-'):
                    return all(is_const(x) for x in n['inner'])
                return False
            ok = c.get('kind') == 'BinaryOperator' and c.get('opcode') in ('<', '<=', '!=') and is_const(c['inner'][1])
            if not ok or self.has(s, ('ReturnStmt', 'GotoStmt', 'WhileStmt')):
                raise Unsupported('inner for-loop without a constant bound (or with return / goto / while inside)')
            self.note_calls(s)
            return self.seq(rest, tuple(acc) + tuple(self.codes_in(s)))
        if k in ('WhileStmt', 'SwitchStmt', 'GotoStmt', 'CXXTryStmt', 'CXXForRangeStmt', 'LabelStmt'):
            raise Unsupported(f'{k} inside a worker loop')
        self.note_calls(s)
        return self.seq(rest, tuple(acc) + tuple(self.codes_in(s)))

    def translate(self, fname):
        bodies = [c for c in self.node.get('inner', []) if c['kind'] == 'CompoundStmt']
        if not bodies:
            raise Unsupported('no body')
        whiles = [c for c in bodies[0].get('inner', []) if c['kind'] == 'WhileStmt']
        if len(whiles) != 1 or self.has({'inner': [c for c in bodies[0]['inner'] if c['kind'] != 'WhileStmt']}, ('WhileStmt', 'DoStmt', 'ForStmt', 'GotoStmt')):
            raise Unsupported('thread function is not `prologue; while (guard) { body } epilogue`')
        w = whiles[0]
        self.mode = 'outcome'
        g = self.cond(w['inner'][0])
        body = self.seq([w['inner'][1]])
        conds, calls = list(self.conds), list(self.calls)
        # second pass, same tree: the error codes handed to the exception callback along each path of the round
        self.mode = 'reports'; self.conds = []; self.calls = []
        g2 = self.cond(w['inner'][0])
        rep = self.seq([w['inner'][1]])
        assert g2 == g and self.conds == conds
        q = lambda t: '"' + t.replace('"', '""') + '"%string'
        return (f'Definition {fname}_conds : list string := [{"; ".join(q(c) for c in conds)}].\n'
                f'Definition {fname}_calls : list string := [{"; ".join(q(c) for c in calls)}].\n'
                f'Definition {fname}_round (ex : bool) (cs : list bool) : round_outcome :=\n  if {g} then {body} else RBrk.\n'
                f'Definition {fname}_reports (ex : bool) (cs : list bool) : list string :=\n  if {g} then {rep} else [].\n')


class Translator:
    def __init__(self, repo):
        self.repo = repo
        self.docs = {}
        self.static_consts = {}
        self.pure_fns = {}
        self.enums = {}
        self.classes = {}

    def ast(self, filt, includes):
        key = (filt, tuple(includes))
        if key in self.docs:
            return self.docs[key]
        with tempfile.TemporaryDirectory() as td:
            tu = os.path.join(td, 'tu.cpp')
            with open(tu, 'w') as f:
                f.write('#include <cstdint>\n#include <cstddef>\n#include <cstring>\n#include <string>\n#include <vector>\n#include <iostream>\n#include <arpa/inet.h>\n')
                for inc in includes:
                    f.write(f'#include <{inc}>\n')
            r = subprocess.run(['clang++', '-std=c++14', '-fsyntax-only', '-DUNIT_TEST', '-I' + os.path.join(self.repo, 'src'),
                                '-Xclang', '-ast-dump=json', '-Xclang', '-ast-dump-filter=' + filt, tu],
                               capture_output=True, text=True)
            if r.returncode != 0:
                raise Unsupported('clang failed: ' + r.stderr[:2000])
            s = r.stdout
        dec = json.JSONDecoder()
        i = 0
        docs = []
        while i < len(s):
            while i < len(s) and s[i].isspace():
                i += 1
            if i >= len(s):
                break
            o, j = dec.raw_decode(s, i)
            docs.append(o)
            i = j
        self.docs[key] = docs
        return docs

    def enum_value(self, name):
        if name in self.enums:
            return self.enums[name]
        raise Unsupported('enum ' + name)

    def find_class(self, cls, includes):
        for d in self.ast(cls, includes):
            if d['kind'] in ('CXXRecordDecl',) and d.get('name') == cls and 'inner' in d and d.get('completeDefinition', True):
                if any(c['kind'] in ('CXXMethodDecl', 'FieldDecl', 'CXXConstructorDecl') for c in d['inner']):
                    self.classes[cls] = d
                    return d
        raise Unsupported('class not found ' + cls)

    def find_method(self, cls, name):
        d = self.classes[cls]
        for c in d['inner']:
            if c['kind'] == 'CXXMethodDecl' and c.get('name') == name and any(x['kind'] == 'CompoundStmt' for x in c.get('inner', [])):
                return c
        return None

    def find_function(self, name, includes):
        for d in self.ast(name, includes):
            if d['kind'] == 'FunctionDecl' and d.get('name') == name and any(x['kind'] == 'CompoundStmt' for x in d.get('inner', [])):
                return d
        raise Unsupported('function not found ' + name)

    def class_fields(self, d):
        out = []
        for c in d['inner']:
            if c['kind'] == 'FieldDecl':
                out.append((c['name'], c['type']['qualType']))
            if c['kind'] == 'VarDecl' and c.get('storageClass') == 'static' and 'inner' in c:
                # static constexpr member with literal init
                v = c['inner'][-1]
                while v['kind'] in ('ImplicitCastExpr', 'ConstantExpr', 'ParenExpr'):
                    v = v['inner'][0]
                if v['kind'] == 'IntegerLiteral':
                    self.static_consts[c['name']] = v['value']
                elif v['kind'] == 'UnaryOperator' and v.get('opcode') == '-' and v['inner'][0]['kind'] == 'IntegerLiteral':
                    self.static_consts[c['name']] = '(-' + v['inner'][0]['value'] + ')'
        return out

    def record(self, cls, fields):
        if not fields:
            return ''
        fl = '; '.join(f'{cls}_{f} : {"bool" if strip_q(qt) == "bool" else "Z"}' for f, qt in fields)
        return f'Record {cls}_state := mk_{cls} {{ {fl} }}.\n'


PRELUDE = '''(* GENERATED by tools/kt.py from the current /repo sources -- do not edit. *)
From Coq Require Import ZArith Bool String List.
Import ListNotations.
Local Open Scope Z_scope.
Inductive round_outcome := RCont | RBrk.
(* statement tree of a small function, leaves as source text (see do_effects) *)
Inductive eff := EStmt (s : string) | EIf (c : string) (t e : list eff) | EWhile (c : string) (b : list eff) | EReturn (s : string).
Definition wrapu (n x : Z) : Z := x mod (2 ^ n).
Definition wraps (n x : Z) : Z := (x + 2 ^ (n - 1)) mod (2 ^ n) - 2 ^ (n - 1).
'''


def main():
    repo, out = sys.argv[1], sys.argv[2]
    tr = Translator(repo)
    parts = [PRELUDE]
    D = 'rs_driver/driver/decoder/'
    status = {}

    def do_class(cls, inc, methods, pure_static=()):
        d = tr.find_class(cls, [inc])
        fields = [(f, t) for f, t in tr.class_fields(d) if '*' not in t or True]
        # pointer fields are kept as opaque Z (never read directly)
        parts.append(f'(* ---- class {cls} ---- *)\n')
        for k, v in tr.static_consts.items():
            pass
        for name in pure_static:
            m = tr.find_method(cls, name)
            f = Fn(tr, cls, m, [], False)
            txt = f.translate(pure=True)
            tr.pure_fns[(cls, name)] = f'{cls}_{coq_ident(name)}'
            parts.append(txt)
        parts.append(tr.record(cls, fields))
        ctors = [c for c in d['inner'] if c['kind'] == 'CXXConstructorDecl' and any(x['kind'] == 'CompoundStmt' for x in c.get('inner', []))
                 and not c.get('isImplicit')]
        if ctors:
            f = Fn(tr, cls, ctors[0], fields, True)
            parts.append(f.translate())
        for name in methods:
            m = tr.find_method(cls, name)
            if m is None:
                raise Unsupported(f'{cls}::{name} not found')
            f = Fn(tr, cls, m, fields, False)
            parts.append(f.translate())

    def do_function(name, inc):
        fn = tr.find_function(name, [inc])
        f = Fn(tr, 'fn', fn, [], False)
        parts.append(f'(* ---- function {name} ---- *)\n')
        parts.append(f.translate(name_override='fn_' + name, pure=True))

    jobs = [
        ('SplitStrategyByAngle', lambda: do_class('SplitStrategyByAngle', D + 'split_strategy.hpp', ['newBlock'])),
        ('SplitStrategyByNum', lambda: do_class('SplitStrategyByNum', D + 'split_strategy.hpp', ['newBlock'])),
        ('SplitStrategyBySeq', lambda: do_class('SplitStrategyBySeq', D + 'split_strategy.hpp', ['newPacket', 'maxSeq'])),
        ('AzimuthSection', lambda: do_class('AzimuthSection', D + 'section.hpp', ['in'], pure_static=['_round'])),
        ('ChanAngles', lambda: do_class_static('ChanAngles', D + 'chan_angles.hpp', ['angleCheck'])),
        ('Trigon', lambda: do_class_static('Trigon', D + 'trigon.hpp', ['sin', 'cos'], ret_tables={'sin': 'sins_', 'cos': 'coss_'})),
        ('parseTempInLe', lambda: do_function('parseTempInLe', D + 'basic_attr.hpp')),
        ('parseTempInBe', lambda: do_function('parseTempInBe', D + 'basic_attr.hpp')),
        ('parseTimeUTCWithUs', lambda: do_function('parseTimeUTCWithUs', D + 'basic_attr.hpp')),
        ('createTimeUTCWithUs', lambda: do_function('createTimeUTCWithUs', D + 'basic_attr.hpp')),
    ]

    def do_class_static(cls, inc, names, ret_tables=None):
        d = tr.find_class(cls, [inc])
        tr.class_fields(d)
        parts.append(f'(* ---- class {cls} ({"table index of" if ret_tables else "static members"}) ---- *)\n')
        for name in names:
            m = tr.find_method(cls, name)
            if m is None:
                raise Unsupported(f'{cls}::{name} not found')
            f = Fn(tr, cls, m, [], False)
            if ret_tables:
                f.ret_index = True
                f.ret_table = ret_tables[name]
            parts.append(f.translate(pure=True))

    def do_loop(cls, method, inc, flag, allowed, src=None):
        # the definition is looked up by its qualified name in a TU that includes the whole driver (the input headers are not
        # self-contained; members of class templates are defined out of class)
        m = None
        for doc in tr.ast(f'{cls}::{method}', ['rs_driver/api/lidar_driver.hpp']):
            if doc['kind'] == 'CXXMethodDecl' and doc.get('name') == method and any(x['kind'] == 'CompoundStmt' for x in doc.get('inner', [])):
                m = doc
        if m is None:
            raise Unsupported(f'{cls}::{method} not found')
        lr = LoopRound(tr, m, flag, os.path.join(repo, 'src', src or inc), allowed)
        parts.append(f'(* ---- one round of the loop of {cls}::{method} (exit flag {flag}) ---- *)\n')
        parts.append(lr.translate(f'{cls}_{coq_ident(method)}'))

    def do_copy(cls, method):
        m = None
        for doc in tr.ast(f'{cls}::{method}', ['rs_driver/api/lidar_driver.hpp']):
            if doc['kind'] == 'CXXMethodDecl' and doc.get('name') == method and any(x['kind'] == 'CompoundStmt' for x in doc.get('inner', [])):
                m = doc
        if m is None:
            raise Unsupported(f'{cls}::{method} not found')
        f = CopyFn(tr, cls, m, [], False)
        parts.append(f'(* ---- sizes checked and copied by {cls}::{method} ---- *)\n')
        parts.append(f.translate_copy(f'{cls}_{coq_ident(method)}_copy'))

    def do_throttle_sites(fns):
        """every rate-limited report site (a block with `static time_t prev_tm`, i.e. an expansion of LIMIT_CALL / DELAY_LIMIT_CALL) of the
        listed functions: (function, ERRCODE_* constants mentioned in the limited body, calls in that body other than the exception callback)"""
        sites = []
        def is_site(n):
            for c in n.get('inner', []):
                if c.get('kind') == 'DeclStmt':
                    for v in c.get('inner', []):
                        if v.get('kind') == 'VarDecl' and v.get('name') == 'prev_tm' and v.get('storageClass') == 'static':
                            return True
            return False
        def codes_calls(n, codes, calls):
            if n.get('kind') == 'DeclRefExpr' and n.get('referencedDecl', {}).get('kind') == 'EnumConstantDecl':
                codes.append(n['referencedDecl']['name'])
            if n.get('kind') in ('CallExpr', 'CXXMemberCallExpr', 'CXXOperatorCallExpr'):
                c = n['inner'][0]
                while c.get('kind') in ('ImplicitCastExpr', 'ParenExpr'):
                    c = c['inner'][0]
                name = c.get('name') if c.get('kind') == 'MemberExpr' else c.get('referencedDecl', {}).get('name')
                if n.get('kind') == 'CXXOperatorCallExpr':
                    a = n['inner'][1] if len(n['inner']) > 1 else {}
                    while a.get('kind') in ('ImplicitCastExpr', 'ParenExpr'):
                        a = a['inner'][0]
                    name = (a.get('name') or '?') + '()'
                if name and name not in ('runExceptionCallback', 'cb_excep_()', 'Error', 'operator()'):
                    calls.append(name)
            for c in n.get('inner', []):
                if isinstance(c, dict):
                    codes_calls(c, codes, calls)
        def walk(fname, n):
            if n.get('kind') == 'CompoundStmt' and is_site(n):
                ifs = [c for c in n.get('inner', []) if c.get('kind') == 'IfStmt']
                codes, calls = [], []
                for i in ifs:
                    # the assignment prev_tm = cur_tm is a BinaryOperator, not a call
                    codes_calls(i['inner'][1], codes, calls)
                sites.append((fname, sorted(set(codes)), sorted(set(calls))))
                return
            for c in n.get('inner', []):
                if isinstance(c, dict):
                    walk(fname, c)
        for cls, method in fns:
            m = None
            for doc in tr.ast(f'{cls}::{method}', ['rs_driver/api/lidar_driver.hpp']):
                if doc['kind'] == 'CXXMethodDecl' and doc.get('name') == method and any(x['kind'] == 'CompoundStmt' for x in doc.get('inner', [])):
                    m = doc
            if m is None:
                raise Unsupported(f'{cls}::{method} not found')
            walk(f'{cls}::{method}', m)
        q = lambda t: '"' + t + '"%string'
        parts.append('(* ---- rate-limited report sites (expansions of LIMIT_CALL / DELAY_LIMIT_CALL) ---- *)\n')
        parts.append('Definition throttle_sites : list (string * list string * list string) :=\n  [' +
                     ';\n   '.join(f'({q(f)}, [{"; ".join(q(c) for c in cs)}], [{"; ".join(q(c) for c in ca)}])' for f, cs, ca in sites) + '].\n')

    def do_gates(cls, method, src):
        """the chain of checks at the top of a packet-processing function: for every top-level `if`, in order: the text of its
        condition, the ERRCODE_* constants in its body and whether the body returns"""
        m = None
        for doc in tr.ast(f'{cls}::{method}', ['rs_driver/api/lidar_driver.hpp']):
            if doc['kind'] == 'CXXMethodDecl' and doc.get('name') == method and any(x['kind'] == 'CompoundStmt' for x in doc.get('inner', [])):
                m = doc
        if m is None:
            raise Unsupported(f'{cls}::{method} not found')
        lr = LoopRound(tr, m, '', os.path.join(repo, 'src', src), [])
        body = [c for c in m['inner'] if c['kind'] == 'CompoundStmt'][0]
        rows = []
        for st in body.get('inner', []):
            if st.get('kind') == 'IfStmt':
                rows.append((lr.text_of(st['inner'][0]), sorted(set(lr.codes_in(st['inner'][1]))), lr.has(st['inner'][1], ('ReturnStmt',))))
        q = lambda t: '"' + t.replace('"', '""') + '"%string'
        parts.append(f'(* ---- the checks at the top of {cls}::{method}, in order ---- *)\n')
        parts.append(f'Definition {cls}_{coq_ident(method)}_gates : list (string * list string * bool) :=\n  [' +
                     ';\n   '.join(f'({q(c)}, [{"; ".join(q(x) for x in cs)}], {"true" if r else "false"})' for c, cs, r in rows) + '].\n')

    def do_effects(cls, method, src, name=None):
        """the statement tree of a small member function: `if` / `while` / `return` as structure, every other statement (declarations,
        calls, assignments, macro invocations) as its source text with white space normalised. The Coq side gives each leaf text a
        meaning through a fixed dictionary and proves the interpreted tree equal to the model's function; a text the dictionary does
        not know makes that proof fail."""
        m = None
        for doc in tr.ast(method if method.startswith('~') else f'{cls}::{method}', ['rs_driver/api/lidar_driver.hpp']):
            if doc['kind'] in ('CXXMethodDecl', 'CXXDestructorDecl') and doc.get('name', '').split('<')[0] == method and any(x['kind'] == 'CompoundStmt' for x in doc.get('inner', [])):
                m = doc
        if m is None:
            raise Unsupported(f'{cls}::{method} not found')
        lr = LoopRound(tr, m, '', os.path.join(repo, 'src', src), [])
        q = lambda t: '"' + t.replace('"', '""') + '"%string'
        def is_macro(n):
            b = n.get('range', {}).get('begin', {})
            return 'expansionLoc' in b
        def macro_text(n):
            # the whole invocation NAME(...) as written: from the macro's name to its matching parenthesis
            off = n['range']['begin']['expansionLoc']['offset']
            s = lr.src
            j = off
            while j < len(s) and (chr(s[j]).isalnum() or s[j] == 95):
                j += 1
            k2 = j
            while k2 < len(s) and chr(s[k2]).isspace():
                k2 += 1
            if k2 < len(s) and s[k2] == 40:
                depth = 0
                while k2 < len(s):
                    if s[k2] == 40: depth += 1
                    if s[k2] == 41:
                        depth -= 1
                        if depth == 0:
                            break
                    k2 += 1
                j = k2 + 1
            return ' '.join(s[off:j].decode('utf8', 'replace').split())
        def block(n):
            if n is None:
                return '[]'
            if n.get('kind') == 'CompoundStmt' and not is_macro(n):
                return '[' + '; '.join(stmt(c) for c in n.get('inner', []) if c.get('kind') != 'NullStmt') + ']'
            return '[' + stmt(n) + ']'
        def stmt(n):
            k = n.get('kind')
            if is_macro(n):
                return f'EStmt {q(macro_text(n))}'
            if k == 'IfStmt':
                inner = n['inner']
                els = inner[2] if len(inner) > 2 else None
                return f'EIf {q(lr.text_of(inner[0]))} {block(inner[1])} {block(els)}'
            if k == 'WhileStmt':
                return f'EWhile {q(lr.text_of(n["inner"][0]))} {block(n["inner"][1])}'
            if k == 'ReturnStmt':
                return f'EReturn {q(lr.text_of(n["inner"][0]) if n.get("inner") else "")}'
            if k in ('ForStmt', 'DoStmt', 'SwitchStmt', 'GotoStmt', 'CXXTryStmt', 'CXXForRangeStmt', 'BreakStmt', 'ContinueStmt', 'LabelStmt'):
                raise Unsupported(f'{k} in {cls}::{method}')
            if k == 'CompoundStmt':
                # a nested scope: its statements, then a closing leaf (where the scope's guards are released)
                inner = [stmt(c) for c in n.get('inner', []) if c.get('kind') != 'NullStmt']
                return f'EIf {q("{")} [' + '; '.join(inner + [f'EStmt {q("}")}']) + '] []'
            return f'EStmt {q(lr.text_of(n).rstrip(";").strip())}'
        body = [c for c in m['inner'] if c['kind'] == 'CompoundStmt'][0]
        parts.append(f'(* ---- statement tree of {cls}::{method} ---- *)\n')
        parts.append(f'Definition {cls}_{name or coq_ident(method)}_effects : list eff :=\n  {block(body)}.\n')

    S_IMPL = 'rs_driver/driver/lidar_driver_impl.hpp'
    jobs += [('fx_splitFrame', lambda: do_effects('LidarDriverImpl', 'splitFrame', S_IMPL)),
             ('fx_setPointCloudHeader', lambda: do_effects('LidarDriverImpl', 'setPointCloudHeader', S_IMPL)),
             ('fx_getPointCloud', lambda: do_effects('LidarDriverImpl', 'getPointCloud', S_IMPL)),
             ('fx_start', lambda: do_effects('LidarDriverImpl', 'start', S_IMPL)),
             ('fx_stop', lambda: do_effects('LidarDriverImpl', 'stop', S_IMPL)),
             ('fx_decodePacket', lambda: do_effects('LidarDriverImpl', 'decodePacket', S_IMPL)),
             ('fx_dtor', lambda: do_effects('LidarDriverImpl', '~LidarDriverImpl', S_IMPL, name='dtor')),
             ('fx_packetGet', lambda: do_effects('LidarDriverImpl', 'packetGet', S_IMPL)),
             ('fx_packetPut', lambda: do_effects('LidarDriverImpl', 'packetPut', S_IMPL)),
             ('fx_internalProcessPacket', lambda: do_effects('LidarDriverImpl', 'internalProcessPacket', S_IMPL)),
             ('fx_runPacketCallBack', lambda: do_effects('LidarDriverImpl', 'runPacketCallBack', S_IMPL))]
    S_SQ = 'rs_driver/utility/sync_queue.hpp'
    jobs += [('fx_sq_push', lambda: do_effects('SyncQueue', 'push', S_SQ)),
             ('fx_sq_pop', lambda: do_effects('SyncQueue', 'pop', S_SQ)),
             ('fx_sq_popWait', lambda: do_effects('SyncQueue', 'popWait', S_SQ)),
             ('fx_sq_clear', lambda: do_effects('SyncQueue', 'clear', S_SQ))]
    jobs += [('gates_msop', lambda: do_gates('Decoder', 'processMsopPkt', 'rs_driver/driver/decoder/decoder.hpp')),
             ('gates_difop', lambda: do_gates('Decoder', 'processDifopPkt', 'rs_driver/driver/decoder/decoder.hpp'))]
    jobs += [('throttle_sites', lambda: do_throttle_sites([('Decoder', 'processMsopPkt'), ('Decoder', 'processDifopPkt'),
                                                           ('LidarDriverImpl', 'getPointCloud'), ('LidarDriverImpl', 'packetPut')]))]
    I = 'rs_driver/driver/input/'
    def do_loop_copy(cls, method):
        m = None
        for doc in tr.ast(f'{cls}::{method}', ['rs_driver/api/lidar_driver.hpp']):
            if doc['kind'] == 'CXXMethodDecl' and doc.get('name') == method and any(x['kind'] == 'CompoundStmt' for x in doc.get('inner', [])):
                m = doc
        if m is None:
            raise Unsupported(f'{cls}::{method} not found')
        f = CopyFn(tr, cls, m, [], False)
        parts.append(f'(* ---- sizes checked and copied in the loop of {cls}::{method} ---- *)\n')
        parts.append(f.translate_loop_copy(f'{cls}_{coq_ident(method)}_copy'))

    jobs += [('InputRaw_feedPacket', lambda: do_copy('InputRaw', 'feedPacket')),
             ('InputPcap_copy', lambda: do_loop_copy('InputPcap', 'recvPacket')),
             ('InputSock_copy', lambda: do_loop_copy('InputSock', 'recvPacket'))]
    jobs += [
        ('LidarDriverImpl_processPacket', lambda: do_loop('LidarDriverImpl', 'processPacket', 'rs_driver/driver/lidar_driver_impl.hpp', 'to_exit_handle_',
                                                          ['popWait', 'get', 'internalProcessPacket'])),
        ('InputSock_recvPacket', lambda: do_loop('InputSock', 'recvPacket', I + 'unix/input_sock_select.hpp', 'to_exit_recv_',
                                                 ['select', 'cb_excep_()', 'Error', 'perror', 'cb_get_pkt_()', 'recvfrom', 'buf', 'bufSize', 'setData', 'pushPacket', '__errno_location', 'memset', 'get'])),
        ('InputPcap_recvPacket', lambda: do_loop('InputPcap', 'recvPacket', I + 'input_pcap.hpp', 'to_exit_recv_',
                                                 ['pcap_open_offline', 'c_str', 'cb_excep_()', 'Error', 'pcap_next_ex', 'pcap_close', 'pcap_offline_filter', 'cb_get_pkt_()', 'memcpy', 'data', 'setData',
                                                  'pushPacket', 'sleep_for', 'microseconds', 'get'])),
        ('InputPcapJumbo_recvPacket', lambda: do_loop('InputPcapJumbo', 'recvPacket', I + 'input_pcap_jumbo.hpp', 'to_exit_recv_',
                                                      ['pcap_open_offline', 'c_str', 'cb_excep_()', 'Error', 'pcap_next_ex', 'pcap_close', 'pcap_offline_filter', 'cb_get_pkt_()', 'memcpy', 'data', 'buf', 'setData',
                                                       'pushPacket', 'sleep_for', 'microseconds', 'get', 'new_fragment', 'dataLen', 'ntohs', '__bswap_16'])),
    ]

    failed = []
    for name, job in jobs:
        try:
            job()
            status[name] = 'ok'
        except (Unsupported, KeyError, IndexError, TypeError) as e:
            status[name] = 'UNSUPPORTED: ' + repr(e)
            failed.append(name)
            parts.append(f'(* TRANSLATION FAILED for {name}: {str(e)[:200]} *)\n')
    with open(out, 'w') as f:
        f.write('\n'.join(parts))
    json.dump(status, open(out + '.status.json', 'w'), indent=1)
    for k, v in status.items():
        print(f'kt: {k}: {v}')
    sys.exit(2 if failed else 0)


if __name__ == '__main__':
    main()
