// probe.cpp - executes the real parameter-deriving code of /repo and dumps, as JSON, everything the
// Coq model takes as *data*: packet layouts (sizeof/offsetof), constants, firing tables per model
// variant, echo-mode maps, CRC table, error severities.  Regenerated on every check run.
#include <cstdint>
#include <cstddef>
#include <cstring>
#include <cstdio>
#include <string>
#include <vector>
#include <map>
#include <memory>
#include <functional>
#include <iostream>
#include <sstream>
#include <thread>
#include <mutex>
#include <queue>
#include <condition_variable>
#include <chrono>
#include <cmath>
#include <fstream>
#include <algorithm>
#include <iomanip>
#include <ctime>
// Trigon's tables are the only heap arrays the decoders index with packet-derived values: record what the constructor
// really allocates (requested bytes) so that the table extent in Gen/Params_gen.v is the one of the current source
static size_t g_mallocs[16]; static void* g_malloc_ptr[16]; static int g_nmalloc = 0;
static void* probe_malloc(size_t n) { void* p = malloc(n); if (g_nmalloc < 16) { g_mallocs[g_nmalloc] = n; g_malloc_ptr[g_nmalloc] = p; g_nmalloc++; } return p; }
#define private public
#define protected public
#define malloc(n) probe_malloc(n)
#include <rs_driver/driver/decoder/trigon.hpp>
#undef malloc
#include <rs_driver/driver/decoder/decoder_factory.hpp>
#include <rs_driver/driver/input/input.hpp>
#include <rs_driver/msg/point_cloud_msg.hpp>
#undef private
#undef protected

using namespace robosense::lidar;
typedef PointCloudT<PointXYZIRT> PC;

static uint32_t fbits(float f) { uint32_t u; memcpy(&u, &f, 4); return u; }
static uint64_t dbits(double f) { uint64_t u; memcpy(&u, &f, 8); return u; }

static std::ostringstream J;
static bool first_item = true;
static void key(const char* k) { J << "\"" << k << "\":"; }
static void kv(const char* k, long long v) { J << "\"" << k << "\":" << v << ","; }
static void kvs(const char* k, const std::string& v) { J << "\"" << k << "\":\"" << v << "\","; }
static void karr(const char* k, const uint8_t* p, int n) { J << "\"" << k << "\":["; for (int i = 0; i < n; i++) J << (i ? "," : "") << (int)p[i]; J << "],"; }

static void dump_const(const RSDecoderConstParam& c)
{
  kv("MSOP_LEN", c.MSOP_LEN); kv("DIFOP_LEN", c.DIFOP_LEN);
  kv("MSOP_ID_LEN", c.MSOP_ID_LEN); kv("DIFOP_ID_LEN", c.DIFOP_ID_LEN);
  karr("MSOP_ID", c.MSOP_ID, 8); karr("DIFOP_ID", c.DIFOP_ID, 8); karr("BLOCK_ID", c.BLOCK_ID, 2);
  kv("LASER_NUM", c.LASER_NUM); kv("BLOCKS_PER_PKT", c.BLOCKS_PER_PKT); kv("CHANNELS_PER_BLOCK", c.CHANNELS_PER_BLOCK);
  kv("DISTANCE_MIN", fbits(c.DISTANCE_MIN)); kv("DISTANCE_MAX", fbits(c.DISTANCE_MAX));
  kv("DISTANCE_RES", fbits(c.DISTANCE_RES)); kv("TEMPERATURE_RES", fbits(c.TEMPERATURE_RES));
}

static void dump_tab(const char* name, const RSDecoderConstParam& c, const RSDecoderMechConstParam& m)
{
  J << "\"" << name << "\":{";
  kv("DISTANCE_RES", fbits(c.DISTANCE_RES));
  kv("RX", fbits(m.RX)); kv("RY", fbits(m.RY)); kv("RZ", fbits(m.RZ));
  kv("BLOCK_DURATION", dbits(m.BLOCK_DURATION));
  J << "\"CHAN_TSS\":["; for (int i = 0; i < 128; i++) J << (i ? "," : "") << dbits(m.CHAN_TSS[i]); J << "],";
  J << "\"CHAN_AZIS\":["; for (int i = 0; i < 128; i++) J << (i ? "," : "") << fbits(m.CHAN_AZIS[i]); J << "],";
  J << "\"_\":0},";
}

template <typename D>
static std::shared_ptr<D> mk(RSDecoderParam p = RSDecoderParam())
{
  p.wait_for_difop = false;
  auto d = std::make_shared<D>(p);
  d->point_cloud_ = std::make_shared<PC>();
  d->regCallback([](const Error&) {}, [](uint16_t, double) {});
  return d;
}


// ---- dynamic facts: run the real decoder on crafted packets ------------------------------------
template <typename D>
static void dyn_facts(size_t off_blocks, size_t sizeof_block, int nblk, int blkid_len, size_t off_ret_mode_difop, size_t off_sn)
{
  RSDecoderParam p; p.wait_for_difop = false; p.use_lidar_clock = true;
  auto d = std::make_shared<D>(p);
  d->point_cloud_ = std::make_shared<PC>();
  std::vector<int> errs;
  d->regCallback([&](const Error& e) { errs.push_back((int)e.error_code); }, [](uint16_t, double) {});
  const RSDecoderConstParam& c = d->const_param_;
  std::vector<uint8_t> m(c.MSOP_LEN, 0);
  memcpy(m.data(), c.MSOP_ID, c.MSOP_ID_LEN);
  for (int i = 0; i < nblk; i++) memcpy(m.data() + off_blocks + i * sizeof_block, c.BLOCK_ID, blkid_len);
  kv("dyn_temp_before", d->is_get_temperature_);
  d->processMsopPkt(m.data(), m.size());
  kv("dyn_sets_temp_flag", d->is_get_temperature_);
  kv("dyn_clean_errs", (long long)errs.size());
  if (blkid_len > 0)
  {
    errs.clear();
    m[off_blocks] ^= 0x55;
    d->processMsopPkt(m.data(), m.size());
    kv("dyn_blkid_err", errs.empty() ? 0 : errs[0]);
    kv("dyn_blkid_nerr", (long long)errs.size());
  }
  else { kv("dyn_blkid_err", 0); kv("dyn_blkid_nerr", 0); }
  // difop facts
  std::vector<uint8_t> q(c.DIFOP_LEN, 0);
  memcpy(q.data(), c.DIFOP_ID, c.DIFOP_ID_LEN);
  for (int i = 0; i < 6; i++) q[off_sn + i] = (uint8_t)(0xA1 + i);
  // find a return-mode byte value that means "dual" for families with a DIFOP return mode
  q[off_ret_mode_difop] = 0x00;
  if (q.size() > 9) { q[8] = 0x02; q[9] = 0x58; } // rpm 600 for mechanical layouts (harmless elsewhere)
  d->processDifopPkt(q.data(), q.size());
  kv("dyn_has_devinfo", d->device_info_.state); kv("dyn_has_devstatus", d->device_status_.state);
  int snl = 0; for (int i = 0; i < 6; i++) if (d->device_info_.sn[i] == (uint8_t)(0xA1 + i)) snl = i + 1;
  kv("dyn_sn_len", snl);
}

#define OFF(T, f) (long long)offsetof(T, f)

// ---- mechanical types ---------------------------------------------------------------------------
template <typename D, typename P, typename B, typename Q>
static void mech_common(const char* name, int lidar_type)
{
  J << "\"" << name << "\":{";
  kvs("family", "mech"); kv("lidar_type", lidar_type);
  RSDecoderMechConstParam& cp = D::getConstParam();
  dump_const(cp.base);
  kv("sizeof_msop", sizeof(P)); kv("sizeof_difop", sizeof(Q)); kv("sizeof_block", sizeof(B));
  kv("sizeof_blkid", sizeof(((B*)0)->id));
  kv("off_blocks", OFF(P, blocks)); kv("off_blk_az", OFF(B, azimuth)); kv("off_blk_chan", OFF(B, channels));
  kv("sizeof_chan", sizeof(RSChannel)); kv("off_chan_dist", OFF(RSChannel, distance)); kv("off_chan_int", OFF(RSChannel, intensity));
  kv("off_ts", OFF(P, header.timestamp)); kv("off_temp", OFF(P, header.temp));
  kv("off_difop_rpm", OFF(Q, rpm)); kv("off_difop_fov_start", OFF(Q, fov.start_angle)); kv("off_difop_fov_end", OFF(Q, fov.end_angle));
  kv("off_difop_return_mode", OFF(Q, return_mode));
  kv("off_difop_sn", OFF(Q, sn)); kv("off_difop_mac", OFF(Q, eth.mac_addr));
  kv("off_difop_top_ver", OFF(Q, version.top_ver)); kv("off_difop_bottom_ver", OFF(Q, version.bottom_ver));
  kv("off_difop_vol12", OFF(Q, status.vol_12v));
  // echo map
  J << "\"echo_dual\":["; for (int b = 0; b < 256; b++) J << (b ? "," : "") << (D::getEchoMode((uint8_t)b) == ECHO_DUAL ? 1 : 0); J << "],";
  // initial derived state of a freshly constructed decoder
  auto d = mk<D>();
  kv("init_rps", d->rps_); kv("init_blks_per_frame", d->blks_per_frame_); kv("init_split_blks_per_frame", d->split_blks_per_frame_);
  kv("init_block_az_diff", d->block_az_diff_); kv("init_echo_dual", d->echo_mode_ == ECHO_DUAL);
  kv("packet_duration", dbits(d->packet_duration_));
  kv("init_angles_ready", d->angles_ready_);
  kv("block_duration", dbits(d->mech_const_param_.BLOCK_DURATION));
  dyn_facts<D>(offsetof(P, blocks), sizeof(B), cp.base.BLOCKS_PER_PKT, (int)sizeof(((B*)0)->id), offsetof(Q, return_mode), offsetof(Q, sn));
  J << "\"tabs\":{";
  dump_tab("base", d->const_param_, d->mech_const_param_);
}

template <typename D, typename Q>
static void feed_difop_mode(std::shared_ptr<D> d, int want_dual)
{
  std::vector<uint8_t> buf(sizeof(Q), 0);
  Q* q = (Q*)buf.data();
  memcpy(buf.data(), d->const_param_.DIFOP_ID, d->const_param_.DIFOP_ID_LEN);
  int mode = -1;
  for (int b = 0; b < 256; b++) if ((D::getEchoMode((uint8_t)b) == ECHO_DUAL) == (want_dual != 0)) { mode = b; break; }
  q->return_mode = (uint8_t)mode;
  q->rpm = htons(600);
  d->processDifopPkt(buf.data(), buf.size());
}

static void end_tabs() { J << "\"_\":0},"; }
static void end_type() { J << "\"_\":0},"; }

template <typename D, typename P, typename B, typename Q>
static void mech_plain(const char* name, int lt, const char* cali, const char* iter_single, const char* iter_dual, const char* tskind, const char* tempkind)
{
  mech_common<D, P, B, Q>(name, lt);
  end_tabs();
  kvs("cali", cali); kvs("iter_single", iter_single); kvs("iter_dual", iter_dual); kvs("ts_kind", tskind); kvs("temp_kind", tempkind);
}

// ---- mems ------------------------------------------------------------------------------------------
template <typename D, typename P, typename B, typename C>
static void mems_common(const char* name, int lt)
{
  J << "\"" << name << "\":{";
  kvs("family", "mems"); kv("lidar_type", lt);
  dump_const(D::getConstParam());
  kv("sizeof_msop", sizeof(P)); kv("sizeof_block", sizeof(B)); kv("sizeof_chan", sizeof(C));
  kv("off_blocks", OFF(P, blocks)); kv("off_blk_chan", OFF(B, channel)); kv("off_blk_toff", OFF(B, time_offset));
  kv("sizeof_toff", sizeof(((B*)0)->time_offset));
  kv("off_ts", OFF(P, header.timestamp)); kv("off_temp", OFF(P, header.temperature)); kv("off_seq", OFF(P, header.pkt_seq));
  kv("off_hdr_return_mode", OFF(P, header.return_mode));
  auto d = mk<D>();
  kv("packet_duration", dbits(d->packet_duration_));
  kv("init_angles_ready", d->angles_ready_);
  dyn_facts<D>(0, 0, 0, 0, 44, 38);
  {
    // does a DIFOP with return mode 0 (dual) at the M1 layout offset switch the echo mode?
    auto e = mk<D>();
    std::vector<uint8_t> q(e->const_param_.DIFOP_LEN, 0);
    memcpy(q.data(), e->const_param_.DIFOP_ID, e->const_param_.DIFOP_ID_LEN);
    q[44] = 0x00;
    e->processDifopPkt(q.data(), q.size());
    kv("dyn_sets_echo", e->echo_mode_ == ECHO_DUAL);
  }
}

int main()
{
  J << "{";
  // ------------- global constants
  J << "\"globals\":{";
  kv("ETH_LEN", ETH_LEN); kv("ETH_HDR_LEN", ETH_HDR_LEN); kv("VLAN_HDR_LEN", VLAN_HDR_LEN); kv("IP_LEN", IP_LEN); kv("UDP_HDR_LEN", UDP_HDR_LEN);
  kv("MAX_BLOCKS_PER_PKT", BlockIterator<RS32MsopPkt>::MAX_BLOCKS_PER_PKT);
  kv("SEQ_RANGE", SplitStrategyBySeq::RANGE);
  kv("TRIGON_MIN", Trigon::ANGLE_MIN); kv("TRIGON_MAX", Trigon::ANGLE_MAX);
  {
    // extent of the sine / cosine tables as allocated by Trigon::Trigon(), in elements, relative to the pointers sin()/cos() index
    g_nmalloc = 0;
    Trigon tg;
    long slo = 0, sn = -1, clo = 0, cn = -1;
    for (int i = 0; i < g_nmalloc; i++)
    {
      if (g_malloc_ptr[i] == (void*)tg.o_sins_) { sn = (long)(g_mallocs[i] / sizeof(float)); slo = (long)(tg.o_sins_ - tg.sins_); }
      if (g_malloc_ptr[i] == (void*)tg.o_coss_) { cn = (long)(g_mallocs[i] / sizeof(float)); clo = (long)(tg.o_coss_ - tg.coss_); }
    }
    kv("TRIG_SIN_LO", slo); kv("TRIG_SIN_LEN", sn); kv("TRIG_COS_LO", clo); kv("TRIG_COS_LEN", cn);
  }
  kv("sizeof_cali", sizeof(RSCalibrationAngle)); kv("off_cali_sign", OFF(RSCalibrationAngle, sign)); kv("off_cali_value", OFF(RSCalibrationAngle, value));
  kv("sizeof_ymd", sizeof(RSTimestampYMD)); kv("sizeof_utc", sizeof(RSTimestampUTC));
  J << "\"crc_table\":[";
  for (int b = 0; b < 256; b++)
  {
    // calcCrc32 on the single byte b, first call: table[(0xFF ^ b)] ^ 0x00FFFFFF, xored with 0xFFFFFFFF
    uint8_t x = (uint8_t)(b ^ 0xFF);
    uint32_t r = calcCrc32(&x, 1, 0, true);
    uint32_t t = (r ^ 0xFFFFFFFFU) ^ 0x00FFFFFFU;  // == crc32table[b]
    J << (b ? "," : "") << t;
  }
  J << "],";
  J << "\"err_codes\":{";
  {
    int codes[] = {0x00, 0x01, 0x02, 0x40, 0x41, 0x42, 0x43, 0x44, 0x45, 0x46, 0x47, 0x48, 0x49, 0x4A, 0x80, 0x81, 0x82};
    for (int c : codes)
    {
      Error e((ErrCode)c);
      J << "\"" << e.toString() << "\":[" << c << "," << (int)e.error_code_type << "],";
    }
    J << "\"_\":[0,0]},";
  }
  J << "\"_\":0},";

  J << "\"types\":{";
  // ---------------- RS16
  {
    typedef DecoderRS16<PC> D;
    mech_common<D, RS16MsopPkt, RS16MsopBlock, RS16DifopPkt>("RS16", RS16);
    { auto d = mk<D>(); feed_difop_mode<D, RS16DifopPkt>(d, 1); dump_tab("dual", d->const_param_, d->mech_const_param_);
      kv("dual_split_blks", d->split_blks_per_frame_); }
    { auto d = mk<D>(); feed_difop_mode<D, RS16DifopPkt>(d, 1); feed_difop_mode<D, RS16DifopPkt>(d, 0); dump_tab("single", d->const_param_, d->mech_const_param_); }
    end_tabs();
    kvs("cali", "rs16"); kv("off_difop_pitch_cali", OFF(RS16DifopPkt, pitch_cali));
    kvs("iter_single", "rs16single"); kvs("iter_dual", "rs16dual"); kvs("ts_kind", "ymd"); kvs("temp_kind", "le");
    kv("is16", 1);
    end_type();
  }
  // ---------------- RS32
  {
    typedef DecoderRS32<PC> D;
    mech_plain<D, RS32MsopPkt, RS32MsopBlock, RS32DifopPkt>("RS32", RS32, "rs32", "single", "dual", "ymd", "le");
    kv("off_difop_vert", OFF(RS32DifopPkt, vert_angle_cali)); kv("off_difop_horiz", OFF(RS32DifopPkt, horiz_angle_cali));
    end_type();
  }
  // ---------------- RSBP
  {
    typedef DecoderRSBP<PC> D;
    mech_common<D, RSBPMsopPkt, RSBPMsopBlock, RSBPDifopPkt>("RSBP", RSBP);
    {
      auto d = mk<D>();
      std::vector<uint8_t> buf(sizeof(RSBPMsopPkt), 0);
      RSBPMsopPkt* p = (RSBPMsopPkt*)buf.data();
      memcpy(buf.data(), d->const_param_.MSOP_ID, d->const_param_.MSOP_ID_LEN);
      p->header.lidar_type = 0x03; p->header.lidar_model = 0x04;
      d->param_.use_lidar_clock = true;
      d->processMsopPkt(buf.data(), buf.size());
      dump_tab("bpv4", d->const_param_, d->mech_const_param_);
    }
    end_tabs();
    kvs("cali", "plain"); kvs("iter_single", "single"); kvs("iter_dual", "dual"); kvs("ts_kind", "ymd_or_utc_bpv4"); kvs("temp_kind", "le");
    kv("off_difop_vert", OFF(RSBPDifopPkt, vert_angle_cali)); kv("off_difop_horiz", OFF(RSBPDifopPkt, horiz_angle_cali));
    kv("off_hdr_lidar_type", OFF(RSBPMsopPkt, header.lidar_type)); kv("off_hdr_lidar_model", OFF(RSBPMsopPkt, header.lidar_model));
    kv("off_difop_reversal", OFF(RSBPDifopPkt, reserved_2));
    end_type();
  }
  // ---------------- RSHELIOS
  {
    typedef DecoderRSHELIOS<PC> D;
    mech_plain<D, RSHELIOSMsopPkt, RSHELIOSMsopBlock, RSHELIOSDifopPkt>("RSHELIOS", RSHELIOS, "plain", "single", "dual", "utc", "le");
    kv("off_difop_vert", OFF(RSHELIOSDifopPkt, vert_angle_cali)); kv("off_difop_horiz", OFF(RSHELIOSDifopPkt, horiz_angle_cali));
    end_type();
  }
  // ---------------- RSHELIOS_16P
  {
    typedef DecoderRSHELIOS_16P<PC> D;
    mech_common<D, RSHELIOSMsopPkt, RSHELIOSMsopBlock, RSHELIOSDifopPkt>("RSHELIOS_16P", RSHELIOS_16P);
    { auto d = mk<D>(); feed_difop_mode<D, RSHELIOSDifopPkt>(d, 1); dump_tab("dual", d->const_param_, d->mech_const_param_);
      kv("dual_split_blks", d->split_blks_per_frame_); }
    { auto d = mk<D>(); feed_difop_mode<D, RSHELIOSDifopPkt>(d, 1); feed_difop_mode<D, RSHELIOSDifopPkt>(d, 0); dump_tab("single", d->const_param_, d->mech_const_param_); }
    end_tabs();
    kvs("cali", "plain"); kvs("iter_single", "rs16single"); kvs("iter_dual", "rs16dual"); kvs("ts_kind", "utc"); kvs("temp_kind", "le");
    kv("off_difop_vert", OFF(RSHELIOSDifopPkt, vert_angle_cali)); kv("off_difop_horiz", OFF(RSHELIOSDifopPkt, horiz_angle_cali));
    kv("is16", 1);
    end_type();
  }
#define RUBY(NAME, DT, PT, BT, QT, ITD)                                                                  \
  {                                                                                                        \
    typedef DT<PC> D;                                                                                      \
    mech_plain<D, PT, BT, QT>(#NAME, NAME, "plain", "single", ITD, "utc", "be");                           \
    kv("off_difop_vert", OFF(QT, vert_angle_cali)); kv("off_difop_horiz", OFF(QT, horiz_angle_cali));      \
    kv("off_hdr_lidar_model", OFF(PT, header.lidar_model));                                                \
    end_type();                                                                                            \
  }
  RUBY(RS128, DecoderRS128, RS128MsopPkt, RS128MsopBlock, RS128DifopPkt, "abdual")
  RUBY(RS80, DecoderRS80, RS80MsopPkt, RS80MsopBlock, RS80DifopPkt, "dual")
  RUBY(RS48, DecoderRS48, RSP48MsopPkt, RSP48MsopBlock, RSP48DifopPkt, "dual")
  RUBY(RSP128, DecoderRSP128, RSP128MsopPkt, RSP128MsopBlock, RSP128DifopPkt, "abdual")
  RUBY(RSP48, DecoderRSP48, RSP48MsopPkt, RSP48MsopBlock, RSP48DifopPkt, "dual")
  // ---------------- RSP80 (model byte switches the firing table)
  {
    typedef DecoderRSP80<PC> D;
    mech_common<D, RSP80MsopPkt, RSP80MsopBlock, RSP80DifopPkt>("RSP80", RSP80);
    for (int model = 2; model <= 3; model++)
    {
      auto d = mk<D>();
      std::vector<uint8_t> buf(sizeof(RSP80MsopPkt), 0);
      RSP80MsopPkt* p = (RSP80MsopPkt*)buf.data();
      memcpy(buf.data(), d->const_param_.MSOP_ID, d->const_param_.MSOP_ID_LEN);
      p->header.lidar_model = (uint8_t)model;
      d->param_.use_lidar_clock = true;
      d->processMsopPkt(buf.data(), buf.size());
      dump_tab(model == 2 ? "m80" : "m80v", d->const_param_, d->mech_const_param_);
    }
    end_tabs();
    kvs("cali", "plain"); kvs("iter_single", "single"); kvs("iter_dual", "dual"); kvs("ts_kind", "utc"); kvs("temp_kind", "be");
    kv("off_difop_vert", OFF(RSP80DifopPkt, vert_angle_cali)); kv("off_difop_horiz", OFF(RSP80DifopPkt, horiz_angle_cali));
    kv("off_hdr_lidar_model", OFF(RSP80MsopPkt, header.lidar_model));
    end_type();
  }
  // ---------------- MEMS
  {
    mems_common<DecoderRSM1<PC>, RSM1MsopPkt, RSM1Block, RSM1Channel>("RSM1", RSM1);
    kvs("proj", "pitchyaw"); kv("off_chan_dist", OFF(RSM1Channel, distance)); kv("off_chan_pitch", OFF(RSM1Channel, pitch)); kv("off_chan_yaw", OFF(RSM1Channel, yaw));
    kv("off_chan_int", OFF(RSM1Channel, intensity)); kv("sizeof_difop", sizeof(RSM1DifopPkt)); kv("off_difop_return_mode", OFF(RSM1DifopPkt, return_mode));
    kv("off_difop_sn", OFF(RSM1DifopPkt, sn)); kv("off_difop_mac", OFF(RSM1DifopPkt, eth.mac_addr)); kv("off_difop_top_ver", OFF(RSM1DifopPkt, version.pl_ver));
    kv("off_difop_bottom_ver", OFF(RSM1DifopPkt, version.ps_ver)); kv("off_difop_vol12", OFF(RSM1DifopPkt, status.voltage_1));
    kv("ANGLE_OFFSET", DecoderRSM1<PC>::ANGLE_OFFSET); kv("m1_end_split", 1);
    end_type();
  }
  {
    mems_common<DecoderRSM2<PC>, RSM2MsopPkt, RSM2Block, RSM2Channel>("RSM2", RSM2);
    kvs("proj", "vec"); kv("off_chan_dist", OFF(RSM2Channel, distance)); kv("off_chan_x", OFF(RSM2Channel, x)); kv("off_chan_y", OFF(RSM2Channel, y)); kv("off_chan_z", OFF(RSM2Channel, z));
    kv("off_chan_int", OFF(RSM2Channel, intensity)); kv("sizeof_difop", sizeof(RSM1DifopPkt)); kv("off_difop_return_mode", OFF(RSM1DifopPkt, return_mode));
    kv("off_difop_sn", OFF(RSM1DifopPkt, sn)); kv("off_difop_mac", OFF(RSM1DifopPkt, eth.mac_addr)); kv("off_difop_top_ver", OFF(RSM1DifopPkt, version.pl_ver));
    kv("off_difop_bottom_ver", OFF(RSM1DifopPkt, version.ps_ver)); kv("off_difop_vol12", OFF(RSM1DifopPkt, status.voltage_1));
    kv("VECTOR_BASE", DecoderRSM2<PC>::VECTOR_BASE);
    end_type();
  }
  {
    mems_common<DecoderRSM3<PC>, RSM3MsopPkt, RSM3Block, RSM3Channel>("RSM3", RSM3);
    kvs("proj", "vec"); kv("off_chan_dist", OFF(RSM3Channel, distance)); kv("off_chan_x", OFF(RSM3Channel, x)); kv("off_chan_y", OFF(RSM3Channel, y)); kv("off_chan_z", OFF(RSM3Channel, z));
    kv("off_chan_int", OFF(RSM3Channel, intensity)); kv("sizeof_difop", sizeof(RRSM3DifopPkt));
    kv("VECTOR_BASE", DecoderRSM3<PC>::VECTOR_BASE);
    end_type();
  }
  {
    mems_common<DecoderRSE1<PC>, RSEOSMsopPkt, RSEOSBlock, RSEOSChannel>("RSE1", RSE1);
    kvs("proj", "vec"); kv("off_chan_dist", OFF(RSEOSChannel, distance)); kv("off_chan_x", OFF(RSEOSChannel, x)); kv("off_chan_y", OFF(RSEOSChannel, y)); kv("off_chan_z", OFF(RSEOSChannel, z));
    kv("off_chan_int", OFF(RSEOSChannel, intensity)); kv("sizeof_difop", 256);
    kv("VECTOR_BASE", DecoderRSE1<PC>::VECTOR_BASE);
    end_type();
  }
  {
    mems_common<DecoderRSMX<PC>, RSMXMsopPkt, RSMXBlock, RSMXChannel>("RSMX", RSMX);
    kvs("proj", "vecmx"); kv("off_chan_dist", OFF(RSMXChannel, radius_ft)); kv("off_chan_dist2", OFF(RSMXChannel, radius_sd));
    kv("off_chan_x", OFF(RSMXChannel, x)); kv("off_chan_y", OFF(RSMXChannel, y)); kv("off_chan_z", OFF(RSMXChannel, z));
    kv("off_chan_int", OFF(RSMXChannel, intensity_ft)); kv("off_chan_int2", OFF(RSMXChannel, intensity_sd)); kv("sizeof_difop", sizeof(RSMXDifopPkt));
    kv("off_difop_sn", OFF(RSMXDifopPkt, sn));
    kv("VECTOR_BASE", DecoderRSMX<PC>::VECTOR_BASE);
    end_type();
  }
  {
    // jumbo: 63 M1-like sub packets
    J << "\"RSM1_JUMBO\":{";
    kvs("family", "mems"); kv("lidar_type", RSM1_JUMBO);
    typedef DecoderRSM1_Jumbo<PC> D;
    dump_const(D::getConstParam());
    kv("sizeof_msop", sizeof(RSM1_Jumbo)); kv("sizeof_sub", sizeof(RSM1_Jumbo_MsopPkt)); kv("n_sub", sizeof(((RSM1_Jumbo*)0)->pkts) / sizeof(RSM1_Jumbo_MsopPkt));
    kv("off_subs", OFF(RSM1_Jumbo, pkts));
    kv("sizeof_block", sizeof(RSM1_Jumbo_Block)); kv("sizeof_chan", sizeof(RSM1_Jumbo_Channel));
    kv("off_blocks", OFF(RSM1_Jumbo_MsopPkt, blocks)); kv("off_blk_chan", OFF(RSM1_Jumbo_Block, channel)); kv("off_blk_toff", OFF(RSM1_Jumbo_Block, time_offset));
    kv("sizeof_toff", 1);
    kv("off_ts", OFF(RSM1_Jumbo_MsopPkt, header.timestamp)); kv("off_temp", OFF(RSM1_Jumbo_MsopPkt, header.temperature)); kv("off_seq", OFF(RSM1_Jumbo_MsopPkt, header.pkt_seq));
    kv("off_hdr_return_mode", OFF(RSM1_Jumbo_MsopPkt, header.return_mode));
    auto d = mk<D>();
    kv("packet_duration", dbits(d->packet_duration_)); kv("init_angles_ready", d->angles_ready_);
    {
      RSDecoderParam pp; pp.wait_for_difop = false; pp.use_lidar_clock = true;
      auto e = std::make_shared<D>(pp);
      e->point_cloud_ = std::make_shared<PC>();
      e->regCallback([](const Error&) {}, [](uint16_t, double) {});
      std::vector<uint8_t> m(sizeof(RSM1_Jumbo), 0);
      for (int i = 0; i < 63; i++) memcpy(m.data() + i * sizeof(RSM1_Jumbo_MsopPkt), e->const_param_.MSOP_ID, 4);
      e->processMsopPkt(m.data(), m.size());
      kv("dyn_sets_temp_flag", e->is_get_temperature_); kv("dyn_blkid_err", 0);
      std::vector<uint8_t> q(e->const_param_.DIFOP_LEN, 0);
      memcpy(q.data(), e->const_param_.DIFOP_ID, e->const_param_.DIFOP_ID_LEN);
      for (int i = 0; i < 6; i++) q[38 + i] = (uint8_t)(0xA1 + i);
      e->processDifopPkt(q.data(), q.size());
      kv("dyn_sets_echo", e->echo_mode_ == ECHO_DUAL);
      kv("dyn_has_devinfo", e->device_info_.state); kv("dyn_has_devstatus", e->device_status_.state);
      int snl = 0; for (int i = 0; i < 6; i++) if (e->device_info_.sn[i] == (uint8_t)(0xA1 + i)) snl = i + 1;
      kv("dyn_sn_len", snl);
    }
    kvs("proj", "pitchyaw"); kv("off_chan_dist", OFF(RSM1_Jumbo_Channel, distance)); kv("off_chan_pitch", OFF(RSM1_Jumbo_Channel, pitch)); kv("off_chan_yaw", OFF(RSM1_Jumbo_Channel, yaw));
    kv("off_chan_int", OFF(RSM1_Jumbo_Channel, intensity)); kv("sizeof_difop", sizeof(RSM1DifopPkt)); kv("off_difop_return_mode", OFF(RSM1DifopPkt, return_mode));
    kv("ANGLE_OFFSET", D::ANGLE_OFFSET);
    end_type();
  }
  J << "\"_\":0}";
  J << "}";
  std::cout << J.str() << std::endl;
  return 0;
}
