(* driver.ml - glue around the extracted Coq model (trusted, see DESIGN.md section 5):
   parses the shared scenario format, calls Model.run / kernels, prints canonical output lines.
   Numeric evaluation of projection descriptors (sin/cos in double) happens here. *)
open Model

let rec pos_of_int n = if n = 1 then XH else if n land 1 = 0 then XO (pos_of_int (n lsr 1)) else XI (pos_of_int (n lsr 1))
let z_of_int n = if n = 0 then Z0 else if n > 0 then Zpos (pos_of_int n) else Zneg (pos_of_int (-n))
let rec int_of_pos = function XH -> 1 | XO p -> 2 * int_of_pos p | XI p -> 2 * int_of_pos p + 1
let int_of_z = function Z0 -> 0 | Zpos p -> int_of_pos p | Zneg p -> - (int_of_pos p)
let rec float_of_pos = function XH -> 1. | XO p -> 2. *. float_of_pos p | XI p -> 2. *. float_of_pos p +. 1.
let float_of_z = function Z0 -> 0. | Zpos p -> float_of_pos p | Zneg p -> -. (float_of_pos p)
(* decimal parsing of arbitrarily large integers *)
let z_of_string s =
  let neg = String.length s > 0 && s.[0] = '-' in
  let s = if neg then String.sub s 1 (String.length s - 1) else s in
  if String.length s <= 17 then z_of_int ((if neg then -1 else 1) * int_of_string s)
  else begin
    let ten = z_of_int 10 in
    let acc = ref Z0 in
    String.iter (fun c -> acc := Z.add (Z.mul !acc ten) (z_of_int (Char.code c - 48))) s;
    if neg then Z.opp !acc else !acc
  end
let rec z_to_string z =
  match z with
  | Z0 -> "0"
  | Zneg p -> "-" ^ z_to_string (Zpos p)
  | Zpos _ ->
    let big = z_of_int 1000000000000000 in
    if (match Z.compare z big with Lt -> true | _ -> false) then string_of_int (int_of_z z)
    else
      let q = Z.div z big and r = Z.modulo z big in
      z_to_string q ^ Printf.sprintf "%015d" (int_of_z r)

let float_of_dy (d : dy) = ldexp (float_of_z d.dm) (int_of_z d.de)
let dy_of_f32bits bits =
  let s = if bits lsr 31 = 1 then -1 else 1 in
  let e = (bits lsr 23) land 0xFF in
  let m = bits land 0x7FFFFF in
  let (mm, ee) = if e = 0 then (m, -149) else (m lor (1 lsl 23), e - 150) in
  { dm = z_of_int (s * mm); de = z_of_int (if mm = 0 then 0 else ee) }

let bytes_of_hex s =
  let n = String.length s / 2 in
  let rec go i acc = if i < 0 then acc else go (i - 1) (z_of_int (int_of_string ("0x" ^ String.sub s (2 * i) 2)) :: acc) in
  go (n - 1) []
let hex_of_bytes l =
  let b = Buffer.create (2 * List.length l) in
  List.iter (fun z -> Buffer.add_string b (Printf.sprintf "%02x" (int_of_z z))) l;
  Buffer.contents b

let split_ws s = List.filter (fun x -> x <> "") (String.split_on_char ' ' (String.trim s))
let bool_of s = s <> "0"
let bi b = if b then 1 else 0

let deg_idx a = float_of_int a *. 0.01 *. Float.pi /. 180.0
let xyz (p : proj) : (float * float * float) option =
  match p with
  | PNone -> None
  | PPolar (dist, v, h, hf, rx, rz) ->
    let d = float_of_dy dist in
    let v = deg_idx (int_of_z v) and h = deg_idx (int_of_z h) and hf = deg_idx (int_of_z hf) in
    let rx = Int32.float_of_bits (Int32.of_int (int_of_z rx)) and rz = Int32.float_of_bits (Int32.of_int (int_of_z rz)) in
    Some (d *. cos v *. cos hf +. rx *. cos h, -. d *. cos v *. sin hf -. rx *. sin h, d *. sin v +. rz)
  | PPitchYaw (dist, pitch, yaw) ->
    let d = float_of_dy dist in
    let p = deg_idx (int_of_z pitch) and y = deg_idx (int_of_z yaw) in
    Some (d *. cos p *. cos y, d *. cos p *. sin y, d *. sin p)
  | PVec (dist, vx, vy, vz) ->
    let d = float_of_dy dist in
    let f v = float_of_int (int_of_z v) *. d /. 32768.0 in
    Some (f vx, f vy, f vz)

let out = Buffer.create (1 lsl 20)
let pr fmt = Printf.bprintf out fmt
let ts_str z = Printf.sprintf "%.9f" (float_of_z z /. 1e9)

(* ENABLE_TRANSFORM build: per-instance rigid motion (Proofs/Transform.v: roll about x, pitch about y, yaw about z, then the
   translation), evaluated in double from the binary32 parameter values of the TF line *)
let tfs : (int, float array) Hashtbl.t = Hashtbl.create 4
(* daylight periods of the process time zone (TZD directive) *)
let g_dst : (z * z) list ref = ref []
let apply_tf i (x, y, z) =
  match Hashtbl.find_opt tfs i with
  | None -> (x, y, z)
  | Some t ->
    let (tx, ty, tz, roll, pitch, yaw) = (t.(0), t.(1), t.(2), t.(3), t.(4), t.(5)) in
    let (x, y, z) = (x, cos roll *. y -. sin roll *. z, sin roll *. y +. cos roll *. z) in
    let (x, y, z) = (cos pitch *. x +. sin pitch *. z, y, -. sin pitch *. x +. cos pitch *. z) in
    let (x, y, z) = (cos yaw *. x -. sin yaw *. y, sin yaw *. x +. cos yaw *. y, z) in
    (x +. tx, y +. ty, z +. tz)

let print_point i (p : point) =
  match (match xyz p.p_proj with None -> None | Some v -> Some (apply_tf i v)) with
  | None -> pr "p 0 nan nan nan %d %d %s\n" (int_of_z p.p_int) (int_of_z p.p_ring) (ts_str p.p_ts)
  | Some (x, y, z) -> pr "p 1 %.6f %.6f %.6f %d %d %s\n" x y z (int_of_z p.p_int) (int_of_z p.p_ring) (ts_str p.p_ts)

let print_sout (so : sout) =
  match so with
  | SOut (i, o) ->
    let i = int_of_z i in
    (match o with
     | OGet None -> pr "get %d N\n" i
     | OGet (Some id) -> pr "get %d %d\n" i (int_of_z id)
     | OErr c -> pr "err %d %d\n" i (int_of_z c)
     | OPkt (seq, difop, beg, ts, data) ->
       pr "pkt %d %d %d %d %s %d %s\n" i (int_of_z seq) (bi difop) (bi beg) (ts_str ts) (List.length data) (hex_of_bytes data)
     | OCloud c ->
       pr "cloud %d %d %d %d %d %d %s %d\n" i (int_of_z c.cl_seq) (int_of_z c.cl_buf) (int_of_z c.cl_height) (int_of_z c.cl_width)
         (bi c.cl_dense) (ts_str c.cl_ts) (List.length c.cl_points);
       List.iter (print_point i) c.cl_points)
  | STemp (i, None) -> pr "temp %d 0 0\n" (int_of_z i)
  | STemp (i, Some _) -> assert false
  | SDev (i, info, st) ->
    let i = int_of_z i in
    (match info with
     | None -> pr "devinfo %d 0\n" i
     | Some (((sn, mac), top), bot) -> pr "devinfo %d 1 %s %s %s %s\n" i (hex_of_bytes sn) (hex_of_bytes mac) (hex_of_bytes top) (hex_of_bytes bot));
    (match st with
     | None -> pr "devstatus %d 0\n" i
     | Some v -> pr "devstatus %d 1 %d\n" i (int_of_z v))
  | SOpen (i, buf, pts) ->
    pr "open %d %d %d\n" (int_of_z i) (int_of_z buf) (List.length pts);
    List.iter (print_point (int_of_z i)) pts
  | SNoDrv i -> pr "nodrv %d\n" (int_of_z i)
  | SInErr (i, c) -> pr "ierr %d %d\n" (int_of_z i) (int_of_z c)

(* temperature needs the descriptor's resolution: handled where the driver is known *)
let temp_line i (d : desc) (t : z option) =
  match t with
  | None -> pr "temp %d 0 0\n" i
  | Some raw ->
    let v = match d.d_temp_kind with
      | TempByte80 -> float_of_z raw
      | _ -> float_of_z raw *. float_of_dy d.d_temp_res in
    pr "temp %d 1 %.4f\n" i v

let desc_of_code c =
  match desc_by_type (z_of_int c) with Some d -> d | None -> failwith ("unknown lidar type " ^ string_of_int c)

(* ---- kernel lines ---- *)
let kernel toks =
  let zi s = z_of_string s in
  match toks with
  | ["angle"; s; p; a] ->
    let (r, np) = split_angle_step (zi s) (zi p) (zi a) in
    let (g, gs) = splitStrategyByAngle_newBlock { splitStrategyByAngle_split_angle_ = zi s; splitStrategyByAngle_prev_angle_ = zi p } (zi a) in
    pr "k angle %d %d | spec %d | gen %d %d\n" (bi r) (int_of_z np) (bi (crossesb (zi s) (zi p) (zi a))) (bi g) (int_of_z gs.splitStrategyByAngle_prev_angle_)
  | ["num"; n; b] ->
    let (r, nb) = split_num_step (zi n) (zi b) in
    let (g, gs) = splitStrategyByNum_newBlock { splitStrategyByNum_max_blks_ = Z0; splitStrategyByNum_blks_ = zi b } Z0 (zi n) in
    pr "k num %d %d | gen %d %d\n" (bi r) (int_of_z nb) (bi g) (int_of_z gs.splitStrategyByNum_blks_)
  | ["seq"; prev; mx; looped; sq] ->
    let st = { sq_prev = zi prev; sq_max = zi mx; sq_looped = bool_of looped } in
    let (r, st') = seq_step st (zi sq) in
    let sm p = if (match Z.compare p (z_of_int 10) with Gt -> true | _ -> false) then Z.sub p (z_of_int 10) else Z0 in
    let sx p = Z.modulo (Z.add p (z_of_int 10)) (z_of_int 65536) in
    let g0 = { splitStrategyBySeq_prev_seq_ = zi prev; splitStrategyBySeq_safe_seq_min_ = sm (zi prev); splitStrategyBySeq_safe_seq_max_ = sx (zi prev);
               splitStrategyBySeq_max_seq_ = zi mx; splitStrategyBySeq_looped_ = bool_of looped } in
    let (g, gs) = splitStrategyBySeq_newPacket g0 (zi sq) in
    let (gm, _) = splitStrategyBySeq_maxSeq gs in
    pr "k seq %d %d %d %d %d | spec %d | gen %d %d %d %d %d\n" (bi r) (int_of_z st'.sq_prev) (int_of_z st'.sq_max) (bi st'.sq_looped) (int_of_z (seq_max_seq st'))
      (bi (rewindb (zi prev) (zi sq)))
      (bi g) (int_of_z gs.splitStrategyBySeq_prev_seq_) (int_of_z gs.splitStrategyBySeq_max_seq_) (bi gs.splitStrategyBySeq_looped_) (int_of_z gm)
  | ["azin"; s; e; a] ->
    let w = az_section_init (zi s) (zi e) in
    let r = az_in w (zi a) in
    let (g, _) = azimuthSection_in_ (azimuthSection_ctor (zi s) (zi e)) (zi a) in
    pr "k azin %d | spec %d | gen %d\n" (bi r) (bi (in_windowb (zi s) (zi e) (zi a))) (bi g)
  | ["temple"; b0; b1] -> pr "k temple %d | gen %d\n" (int_of_z (temp_le (zi b0) (zi b1))) (int_of_z (fn_parseTempInLe (zi b0) (zi b1)))
  | ["tempbe"; b0; b1] -> pr "k tempbe %d | gen %d\n" (int_of_z (temp_be (zi b0) (zi b1))) (int_of_z (fn_parseTempInBe (zi b0) (zi b1)))
  | ["trig"; a] -> pr "k trig %d | gen %d %d | tab %d %d %d %d\n" (int_of_z (trig_idx (zi a))) (int_of_z (trigon_sin (zi a))) (int_of_z (trigon_cos (zi a)))
      (int_of_z g_TRIG_SIN_LO) (int_of_z g_TRIG_SIN_LEN) (int_of_z g_TRIG_COS_LO) (int_of_z g_TRIG_COS_LEN)
  | ["anglecheck"; v] -> pr "k anglecheck %d\n" (bi (angle_check (zi v)))
  | ["parse_utc"; hex] ->
    let b = bytes_of_hex hex in
    let g = (match b with
        | [b0; b1; b2; b3; b4; b5; c0; c1; c2; c3] -> z_to_string (fn_parseTimeUTCWithUs b0 b1 b2 b3 b4 b5 c0 c1 c2 c3)
        | _ -> "?") in
    pr "k parse_utc %s | gen %s\n" (z_to_string (parse_utc b Z0)) g
  | ["create_utc"; us] -> pr "k create_utc %s | gen %s\n" (hex_of_bytes (create_utc (zi us))) (hex_of_bytes (fn_createTimeUTCWithUs (zi us)))
  | ["parse_ymd"; tz; hex] -> pr "k parse_ymd %s\n" (z_to_string (parse_ymd_z (zi tz) !g_dst (bytes_of_hex hex) Z0))
  | ["create_ymd"; tz; us] -> pr "k create_ymd %s\n" (hex_of_bytes (create_ymd_z (zi tz) !g_dst (zi us)))
  | "parse_ymdz" :: tz :: hex :: _rule :: _n :: ab ->
    (* the same under a zone with daylight saving: its rule (for glibc) and the daylight periods around the instant (for the model) *)
    let rec pairs = function a :: b :: r -> (zi a, zi b) :: pairs r | _ -> [] in
    pr "k parse_ymd %s\n" (z_to_string (parse_ymd_z (zi tz) (pairs ab) (bytes_of_hex hex) Z0))
  | "create_ymdz" :: tz :: us :: _rule :: _n :: ab ->
    let rec pairs = function a :: b :: r -> (zi a, zi b) :: pairs r | _ -> [] in
    pr "k create_ymd %s\n" (hex_of_bytes (create_ymd_z (zi tz) (pairs ab) (zi us)))
  | ["crc"; hex] -> pr "k crc %s\n" (z_to_string (crc_calc g_crc_table (bytes_of_hex hex) Z0 true))
  | ["crcok"; hex] -> pr "k crcok %d\n" (bi (crc_ok g_crc_table (bytes_of_hex hex)))
  | ["bpf"; vlan; port; hex] ->
    let p = if port = "-1" then None else Some (zi port) in
    pr "k bpf %d\n" (bi (bpf_udp (bool_of vlan) p (bytes_of_hex hex)))
  | ["bpf"; vlan; port] -> pr "k bpf %d\n" (bi (bpf_udp (bool_of vlan) (if port = "-1" then None else Some (zi port)) []))
  | ["direct"; _; _; hex] -> pr "k direct %d\n" (List.length (String.split_on_char ',' hex))
  | ["direct"; _; _] -> pr "k direct 1\n"
  | ["overflow"; n] -> pr "k overflow %d\n" (bi (overflow_guard (zi n)))
  | ["overflow2"; _; n1; _; n2; _] ->
    (* the discard depends on the size of the instance's own open frame only: not on the clock, not on other instances *)
    pr "k overflow2 %d %d %d\n" (bi (overflow_guard (zi n1))) (bi (overflow_guard (zi n2))) (bi (overflow_guard (zi n1)))
  | _ -> pr "k ? %s\n" (String.concat " " toks)

(* ---- scenarios ---- *)
type pending = { mutable cfgs : (int * (desc * dcfg)) list; mutable answers : (int * z option list) list;
                 mutable inputs : (int * (int * incfg * bool)) list; mutable queued : (int * event) list }

let () =
  let ic = if Array.length Sys.argv > 1 then open_in Sys.argv.(1) else stdin in
  let oc = if Array.length Sys.argv > 2 then open_out Sys.argv.(2) else stdout in
  let pend = { cfgs = []; answers = []; inputs = []; queued = [] } in
  let bl = ref { b_crc = false; b_difop_parse = false } in
  let w = ref world0 in
  let descs : (int, desc) Hashtbl.t = Hashtbl.create 8 in
  let life : (int, lst) Hashtbl.t = Hashtbl.create 8 in
  let rec nat_of_int n = if n <= 0 then O else S (nat_of_int (n - 1)) in
  let rec int_of_nat = function O -> 0 | S k -> 1 + int_of_nat k in
  let lcall i c =
    let s0 = try Hashtbl.find life i with Not_found -> lnone in
    let (s1, o) = lstep s0 c in
    Hashtbl.replace life i s1; (s1, o) in
  let lstate i =
    let s = try Hashtbl.find life i with Not_found -> lnone in
    if s.l_alive then pr "lstate %d %d %d %d %d bad=0\n" i (if s.l_init then 1 else 0) (if s.l_start then 1 else 0) (if s.l_handle then 1 else 0) (if s.l_recv then 1 else 0)
    else pr "lstate %d gone\n" i in
  let flush_out () = Buffer.output_buffer oc out; Buffer.clear out in
  let do_event e =
    let (w', o) = step !bl g_crc_table !w e in
    w := w';
    List.iter (fun so ->
        match so with
        | STemp (i, t) -> temp_line (int_of_z i) (Hashtbl.find descs (int_of_z i)) t
        | _ -> print_sout so) o in
  (try
     while true do
       let line = input_line ic in
       (match split_ws line with
        | [] -> ()
        | "S" :: name ->
          pr "S %s\n" (String.concat " " name);
          pend.cfgs <- []; pend.answers <- []; pend.inputs <- []; pend.queued <- []; w := world0; Hashtbl.reset descs; Hashtbl.reset life; Hashtbl.reset tfs;
          bl := { b_crc = false; b_difop_parse = false }; g_dst := []
        | "TZD" :: _posix :: _n :: ab ->
          (* the process time zone has daylight saving: its daylight periods [a, b) in UTC seconds (the harness sets TZ to the rule) *)
          let rec pairs = function a :: b :: r -> (z_of_int (int_of_string a), z_of_int (int_of_string b)) :: pairs r | _ -> [] in
          g_dst := pairs ab
        | ["B"; crc; parse] -> bl := { b_crc = bool_of crc; b_difop_parse = bool_of parse }
        | ["D"; i; ty; wait; dense; mode; angle; nblk; minb; maxb; st; en; lclock; tsfirst; pktcb; tz; user; tail] ->
          let zi s = z_of_int (int_of_string s) in
          let c = { c_wait_for_difop = bool_of wait; c_dense = bool_of dense; c_split_mode = zi mode; c_split_angle = zi angle; c_num_blks = zi nblk;
                    c_min_dist = dy_of_f32bits (int_of_string minb); c_max_dist = dy_of_f32bits (int_of_string maxb);
                    c_start_angle = zi st; c_end_angle = zi en; c_lidar_clock = bool_of lclock; c_ts_first = bool_of tsfirst;
                    c_pkt_cb = bool_of pktcb; c_tz = zi tz; c_user = zi user; c_tail = zi tail; c_from_file = false; c_dst = !g_dst } in
          pend.cfgs <- (int_of_string i, (desc_of_code (int_of_string ty), c)) :: pend.cfgs
        | ["CF"; i] ->
          let i = int_of_string i in
          let (d, c) = List.assoc i pend.cfgs in
          (* the constructor clears wait_for_difop when config_from_file is set *)
          pend.cfgs <- (i, (d, { c with c_from_file = true; c_wait_for_difop = false })) :: List.remove_assoc i pend.cfgs
        | "TF" :: i :: bits when List.length bits = 6 ->
          Hashtbl.replace tfs (int_of_string i) (Array.of_list (List.map (fun b -> Int32.float_of_bits (Int32.of_string ("0u" ^ b))) bits))
        | "A" :: i :: toks ->
          pend.answers <- (int_of_string i, List.map (fun t -> if t = "N" then None else Some (z_of_int (int_of_string t))) toks) :: pend.answers
        | ["I"; i] ->
          let i = int_of_string i in
          let (d, c) = List.assoc i pend.cfgs in
          let a = try List.assoc i pend.answers with Not_found -> [] in
          Hashtbl.replace descs i d;
          do_event (EInit (z_of_int i, d, c, a))
        | "N" :: i :: mode :: msop :: difop :: vlan :: repeat :: _ ->
          let i = int_of_string i in
          let (_, c) = List.assoc i pend.cfgs in
          let ic = { i_msop_port = z_of_int (int_of_string msop); i_difop_port = z_of_int (int_of_string difop); i_vlan = bool_of vlan;
                     i_user = c.c_user; i_tail = c.c_tail } in
          pend.inputs <- (i, (int_of_string mode, ic, bool_of repeat)) :: pend.inputs;
          do_event (ESetInput (z_of_int i, z_of_int (if int_of_string mode = 4 then 2 else int_of_string mode), ic))
        | ["FT"; i] ->
          (* the file ends in the middle of its last record: that record cannot be read and contributes nothing *)
          let i = int_of_string i in
          let rec drop_first = function
            | [] -> []
            | (j, EFrame _) :: r when j = i -> r
            | x :: r -> x :: drop_first r in
          pend.queued <- drop_first pend.queued
        | "F" :: i :: len :: rest ->
          let data = match rest with [h] -> bytes_of_hex h | _ -> [] in
          pend.queued <- (int_of_string i, EFrame (z_of_int (int_of_string i), { pf_len = z_of_int (int_of_string len); pf_data = data })) :: pend.queued
        | "U" :: i :: port :: rest ->
          let data = match rest with [h] -> bytes_of_hex h | _ -> [] in
          pend.queued <- (int_of_string i, EDgram (z_of_int (int_of_string i), z_of_int (int_of_string port), data)) :: pend.queued
        | ["GO"; i] ->
          let i = int_of_string i in
          let (mode, _, repeat) = List.assoc i pend.inputs in
          (if not (Hashtbl.mem descs i) then begin
             let (d, c) = List.assoc i pend.cfgs in
             let a = try List.assoc i pend.answers with Not_found -> [] in
             Hashtbl.replace descs i d;
             do_event (EInit (z_of_int i, d, c, a));
             (* EInit resets nothing of the input configuration *)
           end);
          let evs = List.rev (List.filter_map (fun (j, e) -> if j = i then Some e else None) pend.queued) in
          pend.queued <- List.filter (fun (j, _) -> j <> i) pend.queued;
          List.iter do_event evs;
          if mode <> 2 && mode <> 4 then begin
            if repeat then begin
              pr "ierr %d 1\n" i; List.iter do_event evs; pr "ierr %d 1\n" i
            end else do_event (EEof (z_of_int i))
          end
        | ["W"; t] -> do_event (EWall (z_of_string t))
        | ["H"; t] -> do_event (EHost (z_of_string t))
        | ["P"; i; hex] -> do_event (EPkt (z_of_int (int_of_string i), bytes_of_hex hex))
        | ["P"; i] -> do_event (EPkt (z_of_int (int_of_string i), []))
        | ["Z"; i] -> Hashtbl.remove descs (int_of_string i); do_event (EDestroy (z_of_int (int_of_string i)))
        | ["PAR"] | ["ENDPAR"] -> ()
        | "WD" :: _ | "SL" :: _ | "LB" :: _ | "LY" :: _ | "PS" :: _ -> ()      (* watchdog, sleep, background feeder: harness-side only *)
        | "LC" :: i :: rest ->
          let i = int_of_string i in
          let ok = (match rest with [o] -> o <> "0" | _ -> true) in
          let (kind, npk) =
            (try
               let (mode, ic, _) = List.assoc i pend.inputs in
               if mode = 2 then (KSock, 0)
               else
                 let frames = List.filter_map (fun (j, e) -> match e with EFrame (_, f) when j = i -> Some f | _ -> None) pend.queued in
                 (KPcap, List.length (List.filter (fun f -> pcap_extract ic f <> None) frames))
             with Not_found -> (KRaw, 0)) in
          ignore (lcall i (LCreate (kind, ok, nat_of_int npk))); pr "lcreate %d\n" i; lstate i
        | [("LI" | "LS" | "LX" | "LW" | "LE" | "LD" | "LP") as c; i] | [("LP") as c; i; _] ->
          let i = int_of_string i in
          let alive = (try (Hashtbl.find life i).l_alive with Not_found -> false) in
          if not alive then pr "nodrv %d\n" i
          else begin
            (match c with
             | "LI" -> (match lcall i LInit with (_, OBool b) -> pr "linit %d %d\n" i (if b then 1 else 0) | _ -> ())
             | "LS" -> (match lcall i LStart with (_, OBool b) -> pr "lstart %d %d\n" i (if b then 1 else 0) | _ -> ())
             | "LX" -> ignore (lcall i LStop); pr "lstop %d\n" i; pr "lopen %d 0\n" i
             | "LP" -> ignore (lcall i LFeed)
             | "LW" -> (match lcall i LDrain with (_, OCount n) -> pr "lproc %d %d\n" i (int_of_nat n) | _ -> ())
             | "LE" -> let s0 = Hashtbl.find life i in ignore (lcall i LEof); pr "leof %d %d\n" i (if s0.l_start && s0.l_kind = KPcap then 1 else 0)
             | _ -> ignore (lcall i LDestroy); pr "ldestroy %d\n" i);
            if c <> "LP" then lstate i
          end
        | ["X"; i] -> do_event (EStop (z_of_int (int_of_string i)))
        | ["T"; i] -> do_event (ETemp (z_of_int (int_of_string i)))
        | ["G"; i] -> do_event (EDev (z_of_int (int_of_string i)))
        | ["R"; i] -> do_event (EOpen (z_of_int (int_of_string i)))
        | "K" :: toks -> kernel toks
        | ["E"] -> pr "E\n"
        | _ -> pr "?? %s\n" line);
       if Buffer.length out > (1 lsl 22) then flush_out ()
     done
   with End_of_file -> ());
  flush_out ();
  close_out oc
