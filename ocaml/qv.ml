(* qv: trace validator for C10.  Replays the synchronisation events recorded from the real driver
   (hooks in sync_queue.hpp / lidar_driver_impl.hpp) on the extracted Coq model Queue.step and
   reports the first event the model does not allow, or an observation that differs.
   usage: qv <harness output> <verdict file> *)
open Qmodel

let rec nat_of_int n = if n <= 0 then O else S (nat_of_int (n - 1))
let rec int_of_nat = function O -> 0 | S k -> 1 + int_of_nat k
let rec pos_of_int n = if n = 1 then XH else if n land 1 = 0 then XO (pos_of_int (n lsr 1)) else XI (pos_of_int (n lsr 1))
let z_of_int n = if n = 0 then Z0 else if n > 0 then Zpos (pos_of_int n) else Zneg (pos_of_int (-n))
let rec int_of_pos = function XH -> 1 | XO p -> 2 * int_of_pos p | XI p -> 2 * int_of_pos p + 1
let int_of_z = function Z0 -> 0 | Zpos p -> int_of_pos p | Zneg p -> - (int_of_pos p)

exception Mismatch of string

let validate (name : string) (nprod : int) (events : (int * string) list) : string =
  (* events: (line number, text) of the q lines of one run *)
  let s = ref (init (nat_of_int nprod)) in
  let bind : (int, int) Hashtbl.t = Hashtbl.create 64 in      (* pointer -> model buffer id *)
  let rev : (int, int) Hashtbl.t = Hashtbl.create 64 in       (* model buffer id -> pointer *)
  let next_tag = Array.make (max nprod 1) 0 in
  let pending_fresh = Array.make (max nprod 1) (-1) in
  let nev = ref 0 and ndec = ref 0 and nrep = ref 0 and nclear = ref 0 and maxq = ref 0 in
  let fail ln msg = raise (Mismatch (Printf.sprintf "line %d: %s" ln msg)) in
  let prod_state i = match nth_error !s.q_prods (nat_of_int i) with Some p -> p | None -> PIdle in
  let pstr = function PIdle -> "PIdle" | PGot _ -> "PGot" | PFilled _ -> "PFilled" | PNotify (true, _) -> "PNotify(empty)" | PNotify (false, _) -> "PNotify" | PCheck _ -> "PCheck" | PClear -> "PClear" in
  let cstr = function CIdle -> "CIdle" | CWait -> "CWait" | CHave _ -> "CHave" | CDone _ -> "CDone" in
  let pstep i x = s := step !s (AProd (nat_of_int i, z_of_int x)) in
  (* silent steps of producer i: no notify when the queue was not empty, no report when not above the limit *)
  let rec settle ln i =
    match prod_state i with
    | PNotify (false, _) -> pstep i 0; settle ln i
    | PCheck sz when int_of_nat sz <= int_of_nat pOOL_MAX -> pstep i 0; settle ln i
    | _ -> () in
  let expect_buf ln what ptr b =
    let b = int_of_nat b in
    match Hashtbl.find_opt rev b with
    | Some p when p = ptr -> ()
    | Some p -> fail ln (Printf.sprintf "%s: the code used buffer %x where the model has buffer #%d (= %x)" what ptr b p)
    | None -> fail ln (Printf.sprintf "%s: model buffer #%d is not bound to any real buffer (code used %x)" what b ptr) in
  let unbind_all bs = List.iter (fun b -> let b = int_of_nat b in (match Hashtbl.find_opt rev b with Some p -> Hashtbl.remove bind p | None -> ()); Hashtbl.remove rev b) bs in
  (try
    List.iter (fun (ln, line) ->
      incr nev;
      match String.split_on_char ' ' line with
      | ["q"; thr; ev; q; ptr; a] ->
        let thr = int_of_string thr and ptr = int_of_string ("0x" ^ ptr) and a = int_of_string a in
        (match ev, q with
         | "f", "-" ->                                     (* harness: next payload of producer thr *)
           settle ln thr; next_tag.(thr) <- ptr
         | "o", "F" ->                                     (* packetGet: pop of the free pool *)
           settle ln thr;
           (match prod_state thr with PIdle -> () | p -> fail ln ("free-pool pop while the model's producer is in " ^ pstr p));
           (match !s.q_free with
            | [] -> if ptr <> 0 then fail ln "the free pool is empty in the model but the code popped a buffer"
            | b :: _ -> if ptr = 0 then fail ln "the model's free pool holds a buffer but the code's pop returned none" else expect_buf ln "free-pool pop" ptr b);
           pstep thr 0;
           if List.length !s.q_free <> a then fail ln (Printf.sprintf "free pool size after pop: code %d, model %d" a (List.length !s.q_free));
           (match prod_state thr with PGot b when ptr = 0 -> pending_fresh.(thr) <- int_of_nat b | _ -> ())
         | "g", "D" ->                                     (* packetGet result *)
           (match prod_state thr with
            | PGot b ->
              if a = 1 then begin
                if pending_fresh.(thr) <> int_of_nat b then fail ln "a fresh buffer was allocated although the model took one from the pool";
                if Hashtbl.mem bind ptr then fail ln (Printf.sprintf "fresh buffer %x is still in use in the model (#%d)" ptr (Hashtbl.find bind ptr));
                Hashtbl.replace bind ptr (int_of_nat b); Hashtbl.replace rev (int_of_nat b) ptr; pending_fresh.(thr) <- -1
              end else expect_buf ln "packetGet" ptr b
            | p -> fail ln ("packetGet returned while the model's producer is in " ^ pstr p))
         | "p", "S" ->                                     (* push onto the packet queue *)
           (match prod_state thr with
            | PGot b -> expect_buf ln "push" ptr b; pstep thr next_tag.(thr)          (* fill: the memcpy into the owned buffer *)
            | p -> fail ln ("push while the model's producer is in " ^ pstr p));
           pstep thr 0;
           let n = List.length !s.q_stuffed in
           if n > !maxq then maxq := n;
           if n <> a then fail ln (Printf.sprintf "queue size after push: code %d, model %d" a n)
         | "n", "S" ->
           (match prod_state thr with
            | PNotify (true, _) -> pstep thr 0
            | p -> fail ln ("notify while the model's producer is in " ^ pstr p ^ " (the queue was not empty before its push)"))
         | "V", "D" ->
           (match prod_state thr with
            | PNotify (true, _) -> fail ln "overflow handling before the notify the model requires (lost wake-up)"
            | _ -> ());
           (match prod_state thr with PNotify (false, _) -> pstep thr 0 | _ -> ());
           (match prod_state thr with
            | PCheck sz when int_of_nat sz > int_of_nat pOOL_MAX -> pstep thr 0; incr nrep
            | PCheck sz -> fail ln (Printf.sprintf "overflow reported with %d packets pending (limit: more than %d)" (int_of_nat sz) (int_of_nat pOOL_MAX))
            | p -> fail ln ("overflow report while the model's producer is in " ^ pstr p))
         | "c", "S" ->
           (match prod_state thr with
            | PClear -> let dropped = !s.q_stuffed in pstep thr 0; unbind_all dropped; incr nclear
            | p -> fail ln ("clear of the packet queue while the model's producer is in " ^ pstr p))
         | "w", "S" ->                                     (* popWait returned *)
           (match !s.q_cons with
            | CWait -> s := step !s ATimeout
            | CIdle -> ()
            | c -> fail ln ("popWait returned while the model's consumer is in " ^ cstr c));
           (match !s.q_stuffed with
            | [] -> if ptr <> 0 then fail ln "the packet queue is empty in the model but the code popped a packet"
            | b :: _ -> if ptr = 0 then fail ln "the model's packet queue is not empty but popWait returned nothing under the lock" else expect_buf ln "pop" ptr b);
           s := step !s ACons;
           if ptr <> 0 && List.length !s.q_stuffed <> a then fail ln (Printf.sprintf "queue size after pop: code %d, model %d" a (List.length !s.q_stuffed))
         | "d", "D" ->
           (match !s.q_cons with
            | CHave b -> expect_buf ln "decode" ptr b; s := step !s ACons
            | c -> fail ln ("decode started while the model's consumer is in " ^ cstr c))
         | "D", "-" ->                                     (* harness: the packet callback saw payload `ptr`, intact = a *)
           incr ndec;
           (match !s.q_cons with
            | CDone _ -> ()
            | c -> fail ln ("the packet callback read the buffer while the model's consumer is in " ^ cstr c ^ " (the buffer is no longer the decoder's)"));
           (match List.rev !s.g_decoded with
            | (_, x) :: _ ->
              if int_of_z x <> ptr then fail ln (Printf.sprintf "the decoder saw payload %d, the model says %d (order / exactly-once / intact)" ptr (int_of_z x));
              if a <> 1 then fail ln (Printf.sprintf "payload %d reached the decoder with damaged bytes" ptr)
            | [] -> fail ln "a packet was decoded that the model never handed to the decoder");
           if List.length !s.g_decoded <> !ndec then fail ln (Printf.sprintf "decode count: code %d, model %d" !ndec (List.length !s.g_decoded))
         | "e", "D" -> (match !s.q_cons with CDone b -> expect_buf ln "recycle" ptr b | c -> fail ln ("end of decode while the model's consumer is in " ^ cstr c))
         | "p", "F" ->                                     (* the decoding thread returns the buffer to the pool *)
           (match !s.q_cons with
            | CDone b -> expect_buf ln "push to the free pool" ptr b; s := step !s ACons
            | c -> fail ln ("buffer returned to the pool while the model's consumer is in " ^ cstr c));
           if List.length !s.q_free <> a then fail ln (Printf.sprintf "free pool size after push: code %d, model %d" a (List.length !s.q_free))
         | "n", "F" -> ()                                  (* nobody waits on the free pool *)
         | "c", "F" | "o", "S" | "w", "F" -> fail ln ("unexpected operation " ^ ev ^ " on queue " ^ q)
         | _ -> fail ln ("unknown event " ^ line))
      | _ -> fail ln ("malformed trace line: " ^ line)) events;
    for i = 0 to nprod - 1 do settle 0 i done;
    (* a producer must not be left before a step the code has to take *)
    for i = 0 to nprod - 1 do
      match prod_state i with
      | PIdle -> ()
      | p -> raise (Mismatch (Printf.sprintf "end of trace: producer %d stopped in %s" i (pstr p)))
    done;
    Printf.sprintf "qv %s ok events=%d decoded=%d pushed=%d dropped=%d reports=%d clears=%d maxqueue=%d pool=%d"
      name !nev (List.length !s.g_decoded) (List.length !s.g_pushed) (List.length !s.g_dropped) (int_of_nat !s.g_reports) !nclear !maxq (int_of_nat !s.q_next)
  with Mismatch m -> Printf.sprintf "qv %s MISMATCH %s" name m)

let () =
  let ic = open_in Sys.argv.(1) and oc = open_out Sys.argv.(2) in
  let name = ref "" and nprod = ref 1 and evs = ref [] and ln = ref 0 in
  (try
    while true do
      let line = input_line ic in
      incr ln;
      if String.length line > 2 && String.sub line 0 2 = "S " then (name := String.sub line 2 (String.length line - 2); evs := []; nprod := 1)
      else if String.length line > 6 && String.sub line 0 6 = "qprod " then nprod := int_of_string (String.sub line 6 (String.length line - 6))
      else if String.length line > 2 && String.sub line 0 2 = "q " then evs := (!ln, line) :: !evs
      else if String.length line >= 4 && String.sub line 0 4 = "qend" then begin
        output_string oc (validate !name !nprod (List.rev !evs) ^ "\n"); evs := []
      end
      else if String.length line > 5 && String.sub line 0 5 = "crash" then output_string oc (Printf.sprintf "qv %s CRASH %s\n" !name line)
    done
  with End_of_file -> ());
  close_out oc
