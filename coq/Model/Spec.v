(* Short declarative specifications the property theorems compare the model against. *)
From Coq Require Import ZArith Bool List.
Local Open Scope Z_scope.

(* C03: the forward arc (p, a] (mod 360 deg) contains the split angle s *)
Definition crosses (s p a : Z) : Prop :=
  let d := (a - p) mod 36000 in let e := (s - p) mod 36000 in 0 < e /\ e <= d.
Definition crossesb (s p a : Z) : bool :=
  let d := (a - p) mod 36000 in let e := (s - p) mod 36000 in (0 <? e) && (e <=? d).
(* revolution index of an unwrapped azimuth u relative to split angle s *)
Definition rev_index (s u : Z) : Z := (u - s) / 36000.

(* C04: rewind *)
Definition rewindb (prev seq : Z) : bool := seq + 10 <? prev.

(* C07: window test *)
Definition in_windowb (start end_ a : Z) : bool :=
  let s := start mod 36000 in let e := end_ mod 36000 in let x := a mod 36000 in
  if (end_ - start) mod 36000 =? 0 then true
  else if s >? e then (s <=? x) || (x <? e)
  else (s <=? x) && (x <? e).
