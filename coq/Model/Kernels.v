(* Hand-written canonical kernels.  Every property theorem is stated over these; the tie to the
   C++ text is Proofs/KernelsEq.v, which re-proves  Gen.k = Model.k  against the kernels that
   tools/kt.py regenerates from /repo on every run. *)
From Coq Require Import ZArith Bool List.
Local Open Scope Z_scope.

(* ---------- split by angle (SplitStrategyByAngle) ---------- *)
(* state = azimuth of the previous block (initially the split angle itself) *)
Definition split_angle_step (s prev a : Z) : bool * Z :=
  let wrapped := a <? prev in
  let prev' := if wrapped then prev - 36000 else prev in
  (((prev' <? s) && (s <=? a)) || (wrapped && (prev' <? s - 36000)), a).

(* the kernel as shipped before the fix (kept as a regression fact, see C03_R1) *)
Definition split_angle_step_legacy (s prev a : Z) : bool * Z :=
  let prev' := if a <? prev then prev - 36000 else prev in
  ((prev' <? s) && (s <=? a), a).

(* ---------- split by block count (SplitStrategyByNum) ---------- *)
(* state = blocks counted so far (uint16); n = *max_blks_ read at this block *)
Definition split_num_step (n blks : Z) : bool * Z :=
  let b := (blks + 1) mod 65536 in
  if b >=? n then (true, 0) else (false, b).

(* ---------- split by sequence number (SplitStrategyBySeq) ---------- *)
Definition SEQ_RANGE : Z := 10.
Record seq_state := mk_seq { sq_prev : Z; sq_max : Z; sq_looped : bool }.
Definition seq_init : seq_state := mk_seq 0 0 false.
Definition safe_min (prev : Z) : Z := if prev >? SEQ_RANGE then prev - SEQ_RANGE else 0.
Definition safe_max (prev : Z) : Z := (prev + SEQ_RANGE) mod 65536.
Definition seq_step (st : seq_state) (seq : Z) : bool * seq_state :=
  let mx := if seq >? sq_max st then seq else sq_max st in
  let prev := sq_prev st in
  if seq <? safe_min prev then (true, mk_seq seq mx true)
  else if seq <? prev then (false, mk_seq prev mx (sq_looped st))
  else if seq <=? safe_max prev then (false, mk_seq seq mx (sq_looped st))
  else (false, mk_seq (if prev =? 0 then seq else prev) mx (sq_looped st)).
Definition seq_max_seq (st : seq_state) : Z := if sq_looped st then sq_max st else 0.

(* ---------- azimuth window (AzimuthSection) ---------- *)
Definition az_round (v : Z) : Z := v mod 36000.
Record az_section := mk_az { az_full : bool; az_start : Z; az_end : Z; az_cross : bool }.
Definition az_section_init (start end_ : Z) : az_section :=
  let s := az_round start in let e := az_round end_ in
  mk_az (az_round (end_ - start) =? 0) s e (s >? e).
Definition az_in_raw (w : az_section) (a : Z) : bool :=
  if az_full w then true
  else if az_cross w then (a >=? az_start w) || (a <? az_end w)
  else (a >=? az_start w) && (a <? az_end w).
(* what the decoders evaluate: the window test on the azimuth taken modulo 360 deg *)
Definition az_in (w : az_section) (a : Z) : bool := az_in_raw w (az_round a).

(* ---------- calibration angle check ---------- *)
Definition angle_check (v : Z) : bool := (-9000 <=? v) && (v <? 9000).

(* ---------- temperature words ---------- *)
Definition temp_le (b0 b1 : Z) : Z :=
  let mag := (b1 mod 128) * 32 + b0 / 8 in if b1 >=? 128 then - mag else mag.
Definition temp_be (b0 b1 : Z) : Z :=
  let mag := (b0 mod 128) * 16 + b1 / 16 in if b0 >=? 128 then - mag else mag.
