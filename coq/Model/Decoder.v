(* Executable model of the 17 decoders: one generic function per family, driven by a descriptor. *)
From Coq Require Import ZArith List Bool.
From RS Require Import Base.Bytes Base.Dyadic Model.Desc Model.Kernels.
Import ListNotations.
Local Open Scope Z_scope.

(* ---------------------------------------------------------------- user configuration *)
Record dcfg := mk_dcfg {
  c_wait_for_difop : bool;
  c_dense : bool;
  c_split_mode : Z;            (* 1 angle, 2 fixed blks, 3 custom blks *)
  c_split_angle : Z;           (* (uint16_t)(split_angle*100) *)
  c_num_blks : Z;
  c_min_dist : dy; c_max_dist : dy;   (* user min/max distance (binary32 values) *)
  c_start_angle : Z; c_end_angle : Z; (* (int32_t)(start_angle*100) ... *)
  c_lidar_clock : bool;
  c_ts_first : bool;
  c_pkt_cb : bool;             (* a packet callback is registered (=> header time is rewritten) *)
  c_tz : Z;                    (* seconds east of UTC of the process time zone (fixed offset) *)
  c_user : Z; c_tail : Z;      (* input_param.user_layer_bytes / tail_layer_bytes *)
  c_from_file : bool;          (* decoder_param.config_from_file (debugging aid) with an angle file that cannot be read: the
                                  constructor clears wait_for_difop and no DIFOP packet ever loads calibration *)
  c_dst : list (Z * Z)         (* daylight-saving periods [a, b) of the process time zone, in UTC seconds (none: fixed offset c_tz);
                                  during them local time is c_tz + 3600. A fact of the environment (zone database), like the host clock *)
}.

(* ---------------------------------------------------------------- points *)
Inductive proj :=
| PNone
| PPolar (dist : dy) (v h hf : Z) (rx rz : Z) (* trig table indices after the clamp; lens offsets (bits) *)
| PPitchYaw (dist : dy) (pitch yaw : Z)
| PVec (dist : dy) (vx vy vz : Z).

Record point := mk_point { p_proj : proj; p_int : Z; p_ring : Z; p_ts : Z }.
Definition p_valid (p : point) : bool := match p_proj p with PNone => false | _ => true end.

(* ---------------------------------------------------------------- decoder state *)
Inductive split_state :=
| SsAngle (prev : Z)
| SsNum (blks : Z).

Record dstate := mk_dstate {
  s_angles_ready : bool;
  s_echo_dual : bool;
  s_vert : list Z; s_horiz : list Z; s_ring : list Z;
  s_rps : Z; s_blks_per_frame : Z; s_split_blks : Z; s_block_az_diff : Z; s_blind_ns : Z;
  s_split : split_state;
  s_seq : seq_state;
  s_temp : option Z;           (* raw temperature reading (units of d_temp_res, or byte for MEMS) of the last accepted packet *)
  s_temp_flag : bool;
  s_prev_pkt_ts : Z; s_prev_point_ts : Z; s_first_point_ts : Z;
  s_variant : Z;               (* 0 base; Bpearl: 1 = v4; RSP80: last lidar_model byte *)
  s_first_pkt : bool;          (* Bpearl: the variant check is still pending *)
  s_reversal : bool;
  s_devinfo : option (list Z * list Z * list Z * list Z);  (* sn mac top bottom *)
  s_devstatus : option Z
}.

Definition TRIGON_MIN := -9000.
Definition TRIGON_MAX := 45000.
Definition trig_idx (a : Z) : Z := if (a <? TRIGON_MIN) || (a >=? TRIGON_MAX) then 0 else a.

(* MSOP blocks per revolution: (uint16_t)(1 / (rps * BLOCK_DURATION)) in double arithmetic *)
Definition blks_per_frame_bd (bd : dy) (rps : Z) : Z :=
  (dy_trunc (dy_div_r 53 (dy_of_Z 1) (dy_mul_r 53 (dy_of_Z rps) bd))) mod 65536.
Definition blks_per_frame_of (d : desc) (rps : Z) : Z := blks_per_frame_bd (d_block_duration d) rps.
(* ... scaled by the return mode: doubled in dual-return mode, halved for 16-beam types in single-return mode *)
Definition split_blks_of (d : desc) (dual : bool) (blks : Z) : Z :=
  if d_is16 d then (if dual then blks else blks / 2)
  else (if dual then (blks * 2) mod 65536 else blks).

Definition init_split (c : dcfg) : split_state :=
  if (c_split_mode c =? 2) || (c_split_mode c =? 3) then SsNum 0 else SsAngle (c_split_angle c).

Definition init_dstate (d : desc) (c : dcfg) : dstate :=
  let n := Z.to_nat (d_laser_num d) in
  (* config_from_file: the calibration gate never closes and DIFOP never loads a table: both are what "ready" means below *)
  mk_dstate (d_init_angles_ready d || c_from_file c) false
    (repeat 0 n) (repeat 0 n) (repeat 0 n)
    10 (d_init_blks_per_frame d) (split_blks_of d false (d_init_blks_per_frame d)) 20 0
    (init_split c) seq_init None false 0 0 0 0 true false None None.

(* ---------------------------------------------------------------- distance window *)
Definition dist_window (d : desc) (c : dcfg) : dy * dy :=
  let umin := if dy_ltb (c_min_dist c) dy_zero then dy_zero else c_min_dist c in
  let umax := if dy_ltb (c_max_dist c) dy_zero then dy_zero else c_max_dist c in
  if negb (dy_is_zero umin) || negb (dy_is_zero umax) then (umin, umax) else (d_dist_min d, d_dist_max d).
Definition dist_in (w : dy * dy) (x : dy) : bool := dy_leb (fst w) x && dy_leb x (snd w).

(* ---------------------------------------------------------------- time codecs *)
(* days from civil date (proleptic Gregorian), Howard Hinnant's algorithm; 1970-01-01 = 0 *)
Definition days_from_civil (y m dd : Z) : Z :=
  let y' := if m <=? 2 then y - 1 else y in
  let era := y' / 400 in
  let yoe := y' - era * 400 in
  let mp := (m + 9) mod 12 in
  let doy := (153 * mp + 2) / 5 + dd - 1 in
  let doe := yoe * 365 + yoe / 4 - yoe / 100 + doy in
  era * 146097 + doe - 719468.
Definition civil_from_days (z : Z) : Z * Z * Z :=
  let z := z + 719468 in
  let era := z / 146097 in
  let doe := z - era * 146097 in
  let yoe := (doe - doe / 1460 + doe / 36524 - doe / 146096) / 365 in
  let y := yoe + era * 400 in
  let doy := doe - (365 * yoe + yoe / 4 - yoe / 100) in
  let mp := (5 * doy + 2) / 153 in
  let dd := doy - (153 * mp + 2) / 5 + 1 in
  let m := if mp <? 10 then mp + 3 else mp - 9 in
  ((if m <=? 2 then y + 1 else y), m, dd).

(* parseTimeYMD: mktime() of the broken-down local time (normalising out-of-range fields the way
   mktime does for a fixed-offset zone: plain arithmetic), minus the zone offset; in us *)
Definition parse_ymd (tz : Z) (b : bytes) (off : Z) : Z :=
  let year := u8 b off + 2000 in let mon := u8 b (off + 1) in let day := u8 b (off + 2) in
  let hh := u8 b (off + 3) in let mi := u8 b (off + 4) in let ss := u8 b (off + 5) in
  let ms := be16 b (off + 6) in let us := be16 b (off + 8) in
  (* tm_mon = mon-1 may be -1 (month byte 0): mktime normalises into the previous year *)
  let m0 := mon - 1 in
  let y := year + m0 / 12 in let m := m0 mod 12 + 1 in
  let days := days_from_civil y m 1 + (day - 1) in
  let sec := days * 86400 + hh * 3600 + mi * 60 + ss - tz in
  (sec * 1000000 + ms * 1000 + us) mod 18446744073709551616.
Definition create_ymd (tz : Z) (usec : Z) : bytes :=
  let us := usec mod 1000 in
  let tot_ms := (usec - us) / 1000 in
  let ms := tot_ms mod 1000 in
  let sec := tot_ms / 1000 + tz in
  let days := sec / 86400 in let rem := sec mod 86400 in
  let '(y, m, dd) := civil_from_days days in
  [ (y - 2000) mod 256; m; dd; rem / 3600; (rem mod 3600) / 60; rem mod 60 ] ++ be_bytes 2 ms ++ be_bytes 2 us.

(* ---- zones with daylight saving *)
Definition DST_SAVE := 3600.
Definition in_dst (dst : list (Z * Z)) (s : Z) : bool := existsb (fun ab => (fst ab <=? s) && (s <? snd ab)) dst.
(* createTimeYMD: localtime() applies the offset in force at the instant *)
Definition create_ymd_z (tz : Z) (dst : list (Z * Z)) (usec : Z) : bytes :=
  create_ymd (if in_dst dst (usec / 1000000) then tz + DST_SAVE else tz) usec.
(* parseTimeYMD: mktime() with tm_isdst = -1 decides itself whether the calendar time is daylight time: it is, if read as
   daylight time it falls into a daylight period (times inside the hour skipped in spring are read as standard time) *)
Definition parse_ymd_z (tz : Z) (dst : list (Z * Z)) (b : bytes) (off : Z) : Z :=
  let t_dst := parse_ymd (tz + DST_SAVE) b off in
  if in_dst dst (t_dst / 1000000) then t_dst else parse_ymd tz b off.

Definition parse_utc (b : bytes) (off : Z) : Z :=
  (be48 b off * 1000000 + be32 b (off + 6)) mod 18446744073709551616.
Definition create_utc (usec : Z) : bytes :=
  be_bytes 6 ((usec / 1000000) mod 281474976710656) ++ be_bytes 4 (usec mod 1000000).

(* ---------------------------------------------------------------- calibration *)
Definition nthZ (l : list Z) (i : Z) : Z := nth (Z.to_nat i) l 0.
Definition nthdy (l : list dy) (i : Z) : dy := nth (Z.to_nat i) l dy_zero.

(* (sign, value) pairs as the generic loader sees them, after the per-model adapter *)
Definition f01 : dy := mkdy 13421773 (-27).           (* 0.1f  *)
Definition d001 : dy := mkdy 5764607523034235 (-59).  (* 0.01 (double) *)

Definition cali_entry (d : desc) (b : bytes) (vert : bool) (i : Z) : Z * Z :=
  match d_cali d with
  | CaliRs16 =>
      if vert then
        let v := be24 b (d_off_difop_pitch_cali d + 3 * i) in
        (* (uint16_t)(v * 0.01) in double arithmetic, saturated at 65535 (the 24-bit value may not fit) *)
        let v2 := Z.min 65535 (dy_trunc (dy_mul_r 53 (dy_of_Z v) d001)) in
        ((if i <? 8 then 1 else 0), v2)
      else (0, 0)
  | CaliRs32 =>
      let off := (if vert then d_off_difop_vert d else d_off_difop_horiz d) + 3 * i in
      let v := be16 b (off + 1) in
      (u8 b off, (dy_round_half_away (dy_mul_r 24 (dy_of_Z v) f01)) mod 65536)
  | _ =>
      let off := (if vert then d_off_difop_vert d else d_off_difop_horiz d) + 3 * i in
      (u8 b off, be16 b (off + 1))
  end.

(* ChanAngles::loadFromDifop: all-or-nothing *)
Fixpoint load_angles (d : desc) (b : bytes) (i : Z) (n : nat) (vs hs : list Z) : option (list Z * list Z) :=
  match n with
  | O => Some (rev vs, rev hs)
  | S k =>
      let '(vsign, vval) := cali_entry d b true i in
      if vsign =? 255 then None else
      let v := if vsign =? 0 then vval else - vval in
      if negb (angle_check v) then None else
      let '(hsign, hval) := cali_entry d b false i in
      let h := if hsign =? 0 then hval else - hval in
      if negb (angle_check h) then None else
      load_angles d b (i + 1) k (v :: vs) (h :: hs)
  end.

Definition rank_of (vs : list Z) (a : Z) : Z := Z.of_nat (length (filter (fun x => x <? a) vs)).
Definition gen_user_chan (vs : list Z) : list Z := map (rank_of vs) vs.

(* ---------------------------------------------------------------- tables by variant *)
Definition cur_tab (d : desc) (s : dstate) : tab :=
  match d_variant d with
  | VarNone => d_tab_base d
  | VarEcho16 => if s_echo_dual s then d_tab_alt1 d else d_tab_base d
  | VarBpv4 => if s_variant s =? 1 then d_tab_alt1 d else d_tab_base d
  | VarRsp80 => (* calcParam() runs whenever the header's model byte differs from the remembered one (initially 0);
                   until then the tables are the zero-initialised static ones *)
                if s_first_pkt s then d_tab_base d else if s_variant s =? 3 then d_tab_alt2 d else d_tab_alt1 d
  end.

(* mech_const_param_.BLOCK_DURATION as the decoder holds it now *)
Definition cur_bd (d : desc) (s : dstate) : dy := t_block_dur (cur_tab d s).

(* ---------------------------------------------------------------- DIFOP *)
Definition RS_ONE_ROUND := 36000.

Definition decode_difop_common (d : desc) (s : dstate) (b : bytes) : dstate :=
  let rpm := be16 b (d_off_difop_rpm d) in
  let rps0 := rpm / 60 in
  let rps := if rps0 =? 0 then 10 else rps0 in
  (* mech_const_param_.BLOCK_DURATION as it is now: a Bpearl v4 changed it at its first MSOP packet *)
  let bd := cur_bd d s in
  (* (uint16_t)(1 / (rps * BLOCK_DURATION)) in double arithmetic *)
  let blks := blks_per_frame_bd bd rps in
  (* (uint16_t)std::round(36000 * rps * BLOCK_DURATION) *)
  let azd := (dy_round_half_away (dy_mul_r 53 (dy_of_Z (RS_ONE_ROUND * rps)) bd)) mod 65536 in
  let fs := be16 b (d_off_difop_fov_start d) in let fe := be16 b (d_off_difop_fov_end d) in
  let range := (if fs <? fe then fe - fs else fe + RS_ONE_ROUND - fs) mod 65536 in
  let blind := (RS_ONE_ROUND - range) mod 65536 in
  let blind_ns := (blind * 1000000000) / (RS_ONE_ROUND * rps) in
  let s1 := mk_dstate (s_angles_ready s) (s_echo_dual s) (s_vert s) (s_horiz s) (s_ring s)
              rps blks (s_split_blks s) azd blind_ns
              (s_split s) (s_seq s) (s_temp s) (s_temp_flag s) (s_prev_pkt_ts s) (s_prev_point_ts s) (s_first_point_ts s)
              (s_variant s) (s_first_pkt s) (s_reversal s) (s_devinfo s) (s_devstatus s) in
  if s_angles_ready s then s1 else
    match load_angles d b 0 (Z.to_nat (d_laser_num d)) [] [] with
    | Some (vs, hs) =>
        mk_dstate true (s_echo_dual s1) vs hs (gen_user_chan vs)
          (s_rps s1) (s_blks_per_frame s1) (s_split_blks s1) (s_block_az_diff s1) (s_blind_ns s1)
          (s_split s1) (s_seq s1) (s_temp s1) (s_temp_flag s1) (s_prev_pkt_ts s1) (s_prev_point_ts s1) (s_first_point_ts s1)
          (s_variant s1) (s_first_pkt s1) (s_reversal s1) (s_devinfo s1) (s_devstatus s1)
    | None => s1
    end.

Definition set_echo_split (s : dstate) (echo : bool) (split_blks : Z) (rev : bool) : dstate :=
  mk_dstate (s_angles_ready s) echo (s_vert s) (s_horiz s) (s_ring s)
    (s_rps s) (s_blks_per_frame s) split_blks (s_block_az_diff s) (s_blind_ns s)
    (s_split s) (s_seq s) (s_temp s) (s_temp_flag s) (s_prev_pkt_ts s) (s_prev_point_ts s) (s_first_point_ts s)
    (s_variant s) (s_first_pkt s) rev (s_devinfo s) (s_devstatus s).

Definition set_dev (s : dstate) (di : option (list Z * list Z * list Z * list Z)) (ds : option Z) : dstate :=
  mk_dstate (s_angles_ready s) (s_echo_dual s) (s_vert s) (s_horiz s) (s_ring s)
    (s_rps s) (s_blks_per_frame s) (s_split_blks s) (s_block_az_diff s) (s_blind_ns s)
    (s_split s) (s_seq s) (s_temp s) (s_temp_flag s) (s_prev_pkt_ts s) (s_prev_point_ts s) (s_first_point_ts s)
    (s_variant s) (s_first_pkt s) (s_reversal s) di ds.

Definition echo_of (d : desc) (mode : Z) : bool := nth (Z.to_nat mode) (d_echo_dual d) false.

(* with_parse: ENABLE_DIFOP_PARSE compiled in *)
Definition difop_devinfo (d : desc) (with_parse : bool) (s : dstate) (b : bytes) : dstate :=
  if with_parse && d_has_devinfo d then
    let sn := slice b (d_off_difop_sn d) (d_sn_len d) ++ repeat 0 (Z.to_nat (6 - d_sn_len d)) in
    if d_has_devstatus d then
      set_dev s (Some (sn, slice b (d_off_difop_mac d) 6, slice b (d_off_difop_top_ver d) 5, slice b (d_off_difop_bottom_ver d) 5))
              (Some (be16 b (d_off_difop_vol12 d)))
    else set_dev s (Some (sn, repeat 0 6, repeat 0 5, repeat 0 5)) None
  else s.

Definition decode_difop (d : desc) (with_parse : bool) (s : dstate) (b : bytes) : dstate :=
  match d_family d with
  | Mech =>
      let s1 := decode_difop_common d s b in
      let echo := echo_of d (u8 b (d_off_difop_return_mode d)) in
      let rev := match d_variant d with VarBpv4 => negb (u8 b (d_off_difop_reversal d) =? 0) | _ => s_reversal s1 end in
      let s2 := set_echo_split s1 echo (split_blks_of d echo (s_blks_per_frame s1)) rev in
      difop_devinfo d with_parse s2 b
  | Mems =>
      let s1 := if d_sets_echo d then set_echo_split s (echo_of d (u8 b (d_off_difop_return_mode d))) (s_split_blks s) (s_reversal s) else s in
      difop_devinfo d with_parse s1 b
  end.

(* ---------------------------------------------------------------- block iterators *)
Definition blk_az (d : desc) (b : bytes) (base blk : Z) : Z :=
  be16 b (base + d_off_blocks d + blk * d_sizeof_block d + d_off_blk_az d).

Definition az_step (a0 a1 : Z) : Z := let x := a1 - a0 in if x <? 0 then x + 36000 else x.

(* generic stepping iterator: stride 1 or 2; returns per-block (az_diff, ts_off_ns) *)
Fixpoint iter_steps (d : desc) (b : bytes) (stride : Z) (nom_az : Z) (dur blind : Z) (blk : Z) (n : nat) (tss : Z)
  : list (Z * Z) :=
  match n with
  | O => repeat (nom_az, tss) (Z.to_nat stride)
  | S k =>
      let x := az_step (blk_az d b 0 blk) (blk_az d b 0 (blk + stride)) in
      let gap := x >? 100 in
      let azd := if gap then nom_az else x in
      let tsd := if gap then blind else dur in
      repeat (azd, tss) (Z.to_nat stride) ++ iter_steps d b stride nom_az dur blind (blk + stride) k (tss + tsd)
  end.

Definition block_iter (d : desc) (s : dstate) (t : tab) (b : bytes) : list (Z * Z) :=
  let n := d_blocks_per_pkt d in
  let bd := t_block_ns t in
  let azn := s_block_az_diff s in
  let blind := s_blind_ns s in
  match (if s_echo_dual s then d_iter_dual d else d_iter_single d) with
  | ItSingle => iter_steps d b 1 azn bd blind 0 (Z.to_nat (n - 1)) 0
  | ItRs16Dual => iter_steps d b 1 azn bd blind 0 (Z.to_nat (n - 1)) 0
  | ItRs16Single => iter_steps d b 1 (azn * 2) (bd * 2) blind 0 (Z.to_nat (n - 1)) 0
  | ItDual => iter_steps d b 2 azn bd blind 0 (Z.to_nat ((n - 2) / 2 + (n - 2) mod 2)) 0
  | ItAbDual =>
      let x := az_step (blk_az d b 0 0) (blk_az d b 0 2) in
      let gap := x >? 100 in
      let azd := if gap then azn else x in
      let tsd := if gap then blind else bd in
      if blk_az d b 0 0 =? blk_az d b 0 1 then [(azd, 0); (azd, 0); (azn, tsd)]
      else [(azd, 0); (azn, tsd); (azn, tsd)]
  end.

(* ---------------------------------------------------------------- mechanical MSOP *)
Record blk_out := mk_blk_out { bo_split : bool; bo_cloud_ts : Z; bo_points : list point }.

Definition mech_channel (d : desc) (c : dcfg) (s : dstate) (t : tab) (w : dy * dy) (sect : az_section)
           (b : bytes) (blk_off block_az az_diff block_ts : Z) (chan : Z) : point :=
  let coff := blk_off + d_off_blk_chan d + chan * d_sizeof_chan d in
  let raw := be16 b (coff + d_off_chan_dist d) in
  let inten := u8 b (coff + d_off_chan_int d) in
  let ts := block_ts + nthZ (t_chan_ns t) chan in
  let adv := dy_trunc (dy_mul_r 24 (dy_of_Z az_diff) (nthdy (t_chan_azis t) chan)) in
  let ah0 := block_az + adv in
  let laser := if d_is16 d then chan mod 16 else chan in
  let av := nthZ (s_vert s) laser in
  let ahf0 := ah0 + nthZ (s_horiz s) laser in
  let ah := if s_reversal s then 36000 - ah0 else ah0 in
  let ahf := if s_reversal s then 36000 - ahf0 else ahf0 in
  let dist := dy_mul_r 24 (dy_of_Z raw) (t_dist_res t) in
  let ring := nthZ (s_ring s) laser in
  if dist_in w dist && az_in sect ahf
  then mk_point (PPolar dist (trig_idx av) (trig_idx ah) (trig_idx ahf) (t_rx t) (t_rz t)) inten ring ts
  else mk_point PNone 0 ring ts.

Definition keep (c : dcfg) (p : point) : bool := p_valid p || negb (c_dense c).

(* the split kernel applied to one block *)
Definition split_step (c : dcfg) (s : dstate) (az : Z) : bool * split_state :=
  match s_split s with
  | SsAngle prev => let r := split_angle_step (c_split_angle c) prev az in (fst r, SsAngle (snd r))
  | SsNum blks =>
      let n := if c_split_mode c =? 2 then s_split_blks s else c_num_blks c in
      let r := split_num_step n blks in (fst r, SsNum (snd r))
  end.

Definition upd_mech_blk (s : dstate) (sp : split_state) (prev_point first_point : Z) : dstate :=
  mk_dstate (s_angles_ready s) (s_echo_dual s) (s_vert s) (s_horiz s) (s_ring s)
    (s_rps s) (s_blks_per_frame s) (s_split_blks s) (s_block_az_diff s) (s_blind_ns s)
    sp (s_seq s) (s_temp s) (s_temp_flag s) (s_prev_pkt_ts s) prev_point first_point
    (s_variant s) (s_first_pkt s) (s_reversal s) (s_devinfo s) (s_devstatus s).

(* process blocks [blk ..); stops at the first bad block id. Returns state, per-block outputs, and
   whether a bad block id stopped the loop *)
Fixpoint mech_blocks (d : desc) (c : dcfg) (t : tab) (w : dy * dy) (sect : az_section) (b : bytes) (pkt_ts : Z)
         (its : list (Z * Z)) (blk : Z) (s : dstate) : dstate * list blk_out * bool :=
  match its with
  | [] => (s, [], false)
  | (az_diff, ts_off) :: rest =>
      let blk_off := d_off_blocks d + blk * d_sizeof_block d in
      if negb (match_at b blk_off (d_block_id d)) then (s, [], true)
      else
        let block_ts := pkt_ts + ts_off in
        let block_az := be16 b (blk_off + d_off_blk_az d) in
        let '(sp, ss) := split_step c s block_az in
        let cloud_ts := if c_ts_first c then s_first_point_ts s else s_prev_point_ts s in
        let bb := skipn (Z.to_nat blk_off) b in   (* reads below are relative to the block *)
        let pts_all := map (mech_channel d c s t w sect bb 0 block_az az_diff block_ts)
                           (map Z.of_nat (seq 0 (Z.to_nat (d_chans_per_blk d)))) in
        let last_ts := block_ts + nthZ (t_chan_ns t) (d_chans_per_blk d - 1) in
        let s' := upd_mech_blk s ss (if 0 <? d_chans_per_blk d then last_ts else s_prev_point_ts s)
                               (if sp then block_ts else s_first_point_ts s) in
        let '(s'', outs, bad) := mech_blocks d c t w sect b pkt_ts rest (blk + 1) s' in
        (s'', mk_blk_out sp cloud_ts (filter (keep c) pts_all) :: outs, bad)
  end.

Definition set_pkt_common (s : dstate) (temp : option Z) (flag : bool) (variant : Z) (first_pkt : bool) : dstate :=
  mk_dstate (s_angles_ready s) (s_echo_dual s) (s_vert s) (s_horiz s) (s_ring s)
    (s_rps s) (s_blks_per_frame s) (s_split_blks s) (s_block_az_diff s) (s_blind_ns s)
    (s_split s) (s_seq s) temp flag (s_prev_pkt_ts s) (s_prev_point_ts s) (s_first_point_ts s)
    variant first_pkt (s_reversal s) (s_devinfo s) (s_devstatus s).

Definition set_prev_pkt_ts (s : dstate) (ts : Z) : dstate :=
  mk_dstate (s_angles_ready s) (s_echo_dual s) (s_vert s) (s_horiz s) (s_ring s)
    (s_rps s) (s_blks_per_frame s) (s_split_blks s) (s_block_az_diff s) (s_blind_ns s)
    (s_split s) (s_seq s) (s_temp s) (s_temp_flag s) ts (s_prev_point_ts s) (s_first_point_ts s)
    (s_variant s) (s_first_pkt s) (s_reversal s) (s_devinfo s) (s_devstatus s).

Definition temp_raw (d : desc) (b : bytes) (base : Z) : Z :=
  match d_temp_kind d with
  | TempLe => temp_le (u8 b (base + d_off_temp d)) (u8 b (base + d_off_temp d + 1))
  | TempBe => temp_be (u8 b (base + d_off_temp d)) (u8 b (base + d_off_temp d + 1))
  | TempByte80 => u8 b (base + d_off_temp d) - 80
  end.

(* header time in us, and the (possibly rewritten) packet bytes.
   host: getTimeHost() readings for this packet (first, second) in us *)
Definition uses_utc (d : desc) (variant : Z) : bool :=
  match d_ts_kind d with TsYmd => false | TsUtc => true | TsYmdOrUtcBpv4 => variant =? 1 end.

Definition pkt_time (d : desc) (c : dcfg) (variant : Z) (b : bytes) (base : Z) (host1 host2 : Z) : Z * bytes :=
  let off := base + d_off_ts d in
  if c_lidar_clock c then
    let sb := skipn (Z.to_nat base) b in    (* header reads relative to the (sub) packet *)
    ((if uses_utc d variant then parse_utc sb (d_off_ts d) else parse_ymd_z (c_tz c) (c_dst c) sb (d_off_ts d)) * 1000, b)
  else
    let ts_ns := (match d_family d with Mech => host1 | Mems => host2 end) * 1000 - d_packet_duration_ns d in
    (ts_ns, if c_pkt_cb c then splice b off (if uses_utc d variant then create_utc host1 else create_ymd_z (c_tz c) (c_dst c) host1) else b).

Record msop_result := mk_msop_result {
  mr_state : dstate; mr_blocks : list blk_out; mr_ret : bool; mr_bad_blkid : bool; mr_bytes : bytes;
  mr_end_split : option Z   (* M1: end-of-scan split after the packet, with its cloud ts *)
}.

Definition decode_msop_mech (d : desc) (c : dcfg) (s : dstate) (b : bytes) (host1 host2 : Z) : msop_result :=
  (* variant switches *)
  let '(variant, first_pkt) :=
    match d_variant d with
    | VarBpv4 =>
        if s_first_pkt s then
          ((if (u8 b (d_off_hdr_lidar_type d) =? 3) && (u8 b (d_off_hdr_lidar_model d) =? 4) then 1 else s_variant s), false)
        else (s_variant s, false)
    | VarRsp80 => let m := u8 b (d_off_hdr_lidar_model d) in (m, s_first_pkt s && (m =? s_variant s))
    | _ => (s_variant s, s_first_pkt s)
    end in
  let s1 := set_pkt_common s (Some (temp_raw d b 0)) true variant first_pkt in
  let t := cur_tab d s1 in
  let '(pkt_ts, b') := pkt_time d c variant b 0 host1 host2 in
  (* the iterator reads the azimuths of the packet as received (before any header rewrite; the
     rewrite touches only the header) *)
  let its := block_iter d s1 t b in
  let w := dist_window d c in
  let sect := az_section_init (c_start_angle c) (c_end_angle c) in
  let '(s2, outs, bad) := mech_blocks d c t w sect b pkt_ts its 0 s1 in
  mk_msop_result (set_prev_pkt_ts s2 pkt_ts) outs (existsb bo_split outs) bad b' None.

(* ---------------------------------------------------------------- MEMS MSOP *)
Definition mems_channel_points (d : desc) (c : dcfg) (w : dy * dy) (b : bytes) (base coff : Z) (ts chan : Z) (dual_hdr : bool)
  : list point :=
  let res := t_dist_res (d_tab_base d) in
  let one (doff ioff : Z) : point :=
    let raw := be16 b (coff + doff) in
    let dist := dy_mul_r 24 (dy_of_Z raw) res in
    if dist_in w dist then
      match d_proj d with
      | ProjPitchYaw => mk_point (PPitchYaw dist (trig_idx (be16 b (coff + d_off_chan_a d) - 32768)) (trig_idx (be16 b (coff + d_off_chan_b d) - 32768)))
                                 (u8 b (coff + ioff)) chan ts
      | ProjVecMx => mk_point (PVec dist (be16 b (coff + d_off_chan_a d)) (sbe16 b (coff + d_off_chan_b d)) (sbe16 b (coff + d_off_chan_c d)))
                              (u8 b (coff + ioff)) chan ts
      | _ => mk_point (PVec dist (sbe16 b (coff + d_off_chan_a d)) (sbe16 b (coff + d_off_chan_b d)) (sbe16 b (coff + d_off_chan_c d)))
                      (u8 b (coff + ioff)) chan ts
      end
    else mk_point PNone 0 chan ts in
  match d_proj d with
  | ProjVecMx => if dual_hdr then [one (d_off_chan_dist d) (d_off_chan_int d); one (d_off_chan_dist2 d) (d_off_chan_int2 d)]
                 else [one (d_off_chan_dist d) (d_off_chan_int d)]
  | _ => [one (d_off_chan_dist d) (d_off_chan_int d)]
  end.

Definition mems_block_points (d : desc) (c : dcfg) (w : dy * dy) (b : bytes) (base pkt_ts : Z) (dual_hdr : bool) (blk : Z) : list point * Z :=
  let boff := base + d_off_blocks d + blk * d_sizeof_block d in
  let bb := skipn (Z.to_nat boff) b in    (* reads below are relative to the block *)
  let toff := if d_sizeof_toff d =? 2 then be16 bb (d_off_blk_toff d) else u8 bb (d_off_blk_toff d) in
  let ts := pkt_ts + toff * 1000 in
  (flat_map (fun chan => mems_channel_points d c w bb 0 (d_off_blk_chan d + chan * d_sizeof_chan d) ts chan dual_hdr)
            (map Z.of_nat (seq 0 (Z.to_nat (d_chans_per_blk d)))), ts).

Definition upd_mems (s : dstate) (sq : seq_state) (temp : option Z) (flag : bool) (prev_pkt prev_point first_point : Z) : dstate :=
  mk_dstate (s_angles_ready s) (s_echo_dual s) (s_vert s) (s_horiz s) (s_ring s)
    (s_rps s) (s_blks_per_frame s) (s_split_blks s) (s_block_az_diff s) (s_blind_ns s)
    (s_split s) sq temp flag prev_pkt prev_point first_point
    (s_variant s) (s_first_pkt s) (s_reversal s) (s_devinfo s) (s_devstatus s).

(* one (sub-)packet at byte offset base; the whole packet is one "block" of the frame stream *)
Definition decode_msop_mems_sub (d : desc) (c : dcfg) (s : dstate) (b : bytes) (base : Z) (host1 host2 : Z)
  : dstate * blk_out * bytes * option Z :=
  let '(pkt_ts, b') := pkt_time d c 0 b base host1 host2 in
  let sb := skipn (Z.to_nat base) b in    (* the sub packet; reads below are relative to it *)
  let seqn := be16 sb (d_off_seq d) in
  let '(sp, sq) := seq_step (s_seq s) seqn in
  let cloud_ts := if c_ts_first c then s_first_point_ts s else s_prev_point_ts s in
  let first_point := if sp then pkt_ts else s_first_point_ts s in
  let w := dist_window d c in
  let dual_hdr := u8 sb (d_off_hdr_return_mode d) =? 0 in
  let per_blk := map (mems_block_points d c w sb 0 pkt_ts dual_hdr) (map Z.of_nat (seq 0 (Z.to_nat (d_blocks_per_pkt d)))) in
  let pts := filter (keep c) (flat_map fst per_blk) in
  let last_ts := last (map snd per_blk) (s_prev_point_ts s) in
  let s' := upd_mems s sq (Some (temp_raw d sb 0)) true pkt_ts last_ts first_point in
  let end_split := if d_m1_end_split d && (seq_max_seq sq =? seqn)
                   then Some (if c_ts_first c then first_point else last_ts) else None in
  (s', mk_blk_out sp cloud_ts pts, b', end_split).
