(* C11: the lifecycle of a driver object as seen by its caller: flags, worker threads, the packets
   accepted and processed.  One call = one step; the worker threads are represented by whether they
   exist (are joinable) - stop() and the destructor return only after joining them. *)
From Coq Require Import ZArith List Bool Arith.
Import ListNotations.

Inductive kind := KRaw | KPcap | KSock.
Definition kind_eqb (a b : kind) : bool := match a, b with KRaw, KRaw | KPcap, KPcap | KSock, KSock => true | _, _ => false end.

Inductive call :=
| LCreate (k : kind) (input_ok : bool) (file_pkts : nat)   (* new object; input_ok: the input layer's init() will succeed *)
| LInit | LStart | LStop
| LFeed          (* decodePacket with a packet of acceptable size *)
| LDrain         (* the caller waits until the pipeline is idle *)
| LEof           (* the caller waits until the capture file has been read to its end *)
| LDestroy.

Record lst := mk_lst {
  l_alive : bool; l_kind : kind; l_ok : bool; l_file : nat;
  l_init : bool; l_start : bool;
  l_handle : bool;      (* the decoding thread exists *)
  l_recv : bool;        (* the receiving thread exists *)
  l_queued : nat;       (* packets accepted, not yet decoded *)
  l_done : nat;         (* packets decoded so far (packet callbacks, cumulative over sessions) *)
  l_unread : bool       (* pcap: this session has not read the file yet *) }.

Inductive obs :=
| OBool (b : bool)
| OCount (n : nat)
| OUnit
| ONoDrv.

Definition lnone : lst := mk_lst false KRaw false 0 false false false false 0 0 false.

Definition lstep (s : lst) (c : call) : lst * obs :=
  match c with
  | LCreate k ok n => (mk_lst true k ok n false false false false 0 0 false, OUnit)
  | _ =>
    if negb (l_alive s) then (s, ONoDrv) else
    match c with
    | LCreate _ _ _ => (s, OUnit)
    | LInit =>
        if l_init s then (s, OBool true)
        else if l_ok s then (mk_lst true (l_kind s) (l_ok s) (l_file s) true false false false (l_queued s) (l_done s) false, OBool true)
        else (s, OBool false)
    | LStart =>
        if l_start s then (s, OBool true)
        else if negb (l_init s) then (s, OBool false)
        else (mk_lst true (l_kind s) (l_ok s) (l_file s) true true true (negb (kind_eqb (l_kind s) KRaw)) (l_queued s) (l_done s) (kind_eqb (l_kind s) KPcap), OBool true)
    | LStop =>
        if l_start s then (mk_lst true (l_kind s) (l_ok s) (l_file s) (l_init s) false false false (l_queued s) (l_done s) false, OUnit)
        else (s, OUnit)
    | LFeed =>
        if l_init s && kind_eqb (l_kind s) KRaw
        then (mk_lst true (l_kind s) (l_ok s) (l_file s) (l_init s) (l_start s) (l_handle s) (l_recv s) (S (l_queued s)) (l_done s) (l_unread s), OUnit)
        else (s, OUnit)
    | LEof =>
        if l_start s && l_unread s
        then (mk_lst true (l_kind s) (l_ok s) (l_file s) (l_init s) (l_start s) (l_handle s) (l_recv s) (l_queued s + l_file s) (l_done s) false, OUnit)
        else (s, OUnit)
    | LDrain =>
        if l_start s
        then (mk_lst true (l_kind s) (l_ok s) (l_file s) (l_init s) true (l_handle s) (l_recv s) 0 (l_done s + l_queued s) (l_unread s), OCount (l_done s + l_queued s))
        else (s, OCount (l_done s))
    | LDestroy => (mk_lst false (l_kind s) (l_ok s) (l_file s) false false false false 0 (l_done s) false, OUnit)
    end
  end.

Fixpoint lrun (s : lst) (cs : list call) : lst * list obs :=
  match cs with
  | [] => (s, [])
  | c :: r => let '(s1, o) := lstep s c in let '(s2, os) := lrun s1 r in (s2, o :: os)
  end.
