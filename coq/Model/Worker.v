(* C11 (no deadlock in stop()): a worker thread of the driver - the decoding thread (LidarDriverImpl::processPacket) or a
   receiving thread (Input*::recvPacket) - as its loop `while (guard) { body }`, one round at a time.  The round function is the
   control skeleton kt.py extracts from the current source (Gen/Kernels_gen.v): given the value the exit flag has during the
   round and the values of the round's other conditions it says whether the loop goes round again (RCont) or is left (RBrk, the
   thread function returns).  stop() sets the flag and joins the thread.

   Other threads (callers feeding packets, the other worker, callbacks) act between rounds; nothing they do is visible to this
   model except through the condition values of later rounds, which are arbitrary here: the theorems hold for every
   interleaving and every environment. *)
From Coq Require Import List Bool Arith.
From RS Require Import Gen.Kernels_gen.
Import ListNotations.

Section Worker.
  Variable round : bool -> list bool -> round_outcome.

  Record wstate := mk_wstate {
    w_exit : bool;            (* the exit request (to_exit_handle_ / to_exit_recv_) *)
    w_returned : bool;        (* the thread function has returned: join() succeeds *)
    w_rounds : nat;           (* rounds completed *)
    w_rounds_after : nat      (* rounds started after the exit request was made *) }.

  Inductive waction :=
  | WSetExit                  (* stop(): flag = true *)
  | WRound (cs : list bool)   (* the worker runs one round; cs: what the round's other conditions evaluate to *)
  | WOther.                   (* any step of any other thread *)

  Definition winit : wstate := mk_wstate false false 0 0.

  Definition wstep (s : wstate) (a : waction) : wstate :=
    match a with
    | WSetExit => mk_wstate true (w_returned s) (w_rounds s) (w_rounds_after s)
    | WOther => s
    | WRound cs =>
        if w_returned s then s
        else
          let after := if w_exit s then S (w_rounds_after s) else w_rounds_after s in
          match round (w_exit s) cs with
          | RBrk => mk_wstate (w_exit s) true (S (w_rounds s)) after
          | RCont => mk_wstate (w_exit s) false (S (w_rounds s)) after
          end
    end.

  Definition wrun (s : wstate) (acts : list waction) : wstate := fold_left wstep acts s.

  Definition is_round (a : waction) : bool := match a with WRound _ => true | _ => false end.
End Worker.
