(* Input layer model: payload extraction for the raw-packet API, pcap records and sockets, and
   jumbo (IP fragment) reassembly. *)
From Coq Require Import ZArith List Bool.
From RS Require Import Base.Bytes Model.Desc Gen.Params_gen.
Import ListNotations.
Local Open Scope Z_scope.

(* packet buffer the raw input asks for: ETH_LEN, or IP_LEN for the jumbo type *)
Definition raw_buf_len (d : desc) : Z := if 0 <? d_n_sub d then g_IP_LEN else g_ETH_LEN.

(* InputRaw::feedPacket: the payload is the datagram minus `user` leading and `tail` trailing bytes;
   datagrams that cannot contain the layers, leave nothing, or do not fit the packet buffer are dropped *)
Definition raw_feed (user tail buf_len : Z) (b : bytes) : option bytes :=
  let n := blen b in
  if (n <=? user + tail) || (n - user - tail >? buf_len) then None
  else Some (slice b user (n - user - tail)).

(* ================================================================ pcap records *)
(* a pcap record: original length on the wire and the captured bytes (caplen = their number) *)
Record pframe := mk_pframe { pf_len : Z; pf_data : bytes }.

(* what libpcap's filter "[vlan && ] udp dst port N" accepts, evaluated on the captured bytes (a load
   beyond the captured length rejects the frame).  Validated against pcap_offline_filter. *)
Definition is_vlan_type (t : Z) : bool := (t =? 33024) || (t =? 34984) || (t =? 37120).  (* 0x8100 0x88a8 0x9100 *)

Definition bpf_udp (vlan : bool) (port : option Z) (f : bytes) : bool :=
  let cap := blen f in
  let sh := if vlan then 4 else 0 in
  (if vlan then (14 <=? cap) && is_vlan_type (be16 f 12) else true) &&
  (14 + sh <=? cap) &&
  let et := be16 f (12 + sh) in
  if et =? 34525 then       (* IPv6: next header = UDP, no extension headers *)
    (21 + sh <=? cap) && (u8 f (20 + sh) =? 17) &&
    match port with None => true | Some p => (58 + sh <=? cap) && (be16 f (56 + sh) =? p) end
  else if et =? 2048 then   (* IPv4 *)
    (24 + sh <=? cap) && (u8 f (23 + sh) =? 17) &&
    match port with
    | None => true
    | Some p =>
        (22 + sh <=? cap) && (Z.land (be16 f (20 + sh)) 8191 =? 0) &&      (* not a later fragment *)
        (15 + sh <=? cap) &&
        let ihl := Z.land (u8 f (14 + sh)) 15 * 4 in
        (14 + sh + ihl + 4 <=? cap) && (be16 f (14 + sh + ihl + 2) =? p)
    end
  else false.

Record incfg := mk_incfg {
  i_msop_port : Z; i_difop_port : Z; i_vlan : bool; i_user : Z; i_tail : Z }.

Definition difop_filter_valid (c : incfg) : bool := negb (i_difop_port c =? 0) && negb (i_difop_port c =? i_msop_port c).

(* InputPcap::recvPacket for one record: the payload handed to the driver, or nothing *)
Definition pcap_extract (c : incfg) (f : pframe) : option bytes :=
  let off := g_ETH_HDR_LEN + (if i_vlan c then g_VLAN_HDR_LEN else 0) + i_user c in
  let hit := bpf_udp (i_vlan c) (Some (i_msop_port c)) (pf_data f) ||
             (difop_filter_valid c && bpf_udp (i_vlan c) (Some (i_difop_port c)) (pf_data f)) in
  if negb hit then None
  else if (blen (pf_data f) <? pf_len f) || (pf_len f <=? off + i_tail c) || (pf_len f - off - i_tail c >? g_ETH_LEN) then None
  else Some (slice (pf_data f) off (pf_len f - off - i_tail c)).

(* ================================================================ sockets *)
(* recvfrom() into the packet buffer truncates; nothing is delivered unless a payload remains *)
Definition sock_extract (user tail buf_len : Z) (d : bytes) : option bytes :=
  let n := Z.min (blen d) buf_len in
  if n <=? user + tail then None else Some (slice d user (n - user - tail)).

Definition sock_accepts (c : incfg) (port : Z) : bool :=
  (port =? i_msop_port c) || (difop_filter_valid c && (port =? i_difop_port c)).

(* ================================================================ jumbo: IP fragment reassembly *)
Inductive ipfrag :=
| FIgnore                                       (* not IPv4/UDP, or inconsistent lengths *)
| FFrag (id off : Z) (more : bool) (data : bytes).

(* parse an Ethernet frame (captured bytes) the way Jumbo::new_fragment does *)
Definition parse_frag (f : bytes) : ipfrag :=
  let cap := blen f in
  if cap <? 34 then FIgnore
  else if negb (be16 f 12 =? 2048) then FIgnore
  else if negb (u8 f 23 =? 17) then FIgnore
  else
    let ihl := Z.land (u8 f 14) 15 * 4 in
    let tot := be16 f 16 in
    if (ihl <? 20) || (tot <? ihl) || (cap <? 14 + tot) then FIgnore
    else
      let fo := be16 f 20 in
      FFrag (be16 f 18) (Z.land fo 8191 * 8) (negb (Z.land (fo / 8192) 1 =? 0)) (slice f (14 + ihl) (tot - ihl)).

(* assembly in progress: identification and the bytes gathered so far *)
Definition jstate := option (Z * bytes).

Definition udp_out (dgram : bytes) : option (Z * bytes) :=
  if blen dgram <? g_UDP_HDR_LEN then None else Some (be16 dgram 2, skipn (Z.to_nat g_UDP_HDR_LEN) dgram).

Definition jumbo_step (st : jstate) (fr : ipfrag) : jstate * option (Z * bytes) :=
  match fr with
  | FIgnore => (st, None)
  | FFrag id off more data =>
      if (off =? 0) && negb more then (st, udp_out data)            (* unfragmented: delivered at once, assembly untouched *)
      else
        match st with
        | Some (cur, acc) =>
            if id =? cur then
              if off =? blen acc then
                if blen acc + blen data >? 65535 then (None, None)   (* cannot be a UDP datagram: abandon *)
                else if more then (Some (cur, acc ++ data), None)
                else (None, udp_out (acc ++ data))
              else (st, None)                                         (* out of order / duplicate: ignored *)
            else if (off =? 0) then (Some (id, data), None)           (* a new datagram starts *)
            else (st, None)
        | None => if off =? 0 then (Some (id, data), None) else (None, None)
        end
  end.

(* InputPcapJumbo::recvPacket for one record: the VLAN tag is skipped, the reassembled datagram is
   stripped of the user and tail layers like on the other inputs *)
Definition jumbo_extract (c : incfg) (st : jstate) (f : pframe) : jstate * option bytes :=
  if negb (bpf_udp (i_vlan c) None (pf_data f)) then (st, None)
  else
    let sh := if i_vlan c then g_VLAN_HDR_LEN else 0 in
    let '(st', o) := jumbo_step st (parse_frag (skipn (Z.to_nat sh) (pf_data f))) in
    match o with
    | Some (port, payload) =>
        if ((port =? i_msop_port c) || (port =? i_difop_port c)) && (i_user c + i_tail c <? blen payload)
        then (st', Some (slice payload (i_user c) (blen payload - i_user c - i_tail c)))
        else (st', None)
    | None => (st', None)
    end.

(* the abstract view: a run of frames delivers these datagrams *)
Fixpoint jumbo_run (st : jstate) (frs : list ipfrag) : list (Z * bytes) :=
  match frs with
  | [] => []
  | fr :: r => let '(st', o) := jumbo_step st fr in (match o with Some x => [x] | None => [] end) ++ jumbo_run st' r
  end.
