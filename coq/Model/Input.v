(* Input layer model: payload extraction for the raw-packet API, pcap records and sockets, and
   jumbo (IP fragment) reassembly. *)
From Coq Require Import ZArith List Bool.
From RS Require Import Base.Bytes Model.Desc Gen.Params_gen.
Import ListNotations.
Local Open Scope Z_scope.

(* packet buffer the raw input asks for: ETH_LEN, or IP_LEN for the jumbo type *)
Definition raw_buf_len (d : desc) : Z := if 0 <? d_n_sub d then g_IP_LEN else g_ETH_LEN.

(* InputRaw::feedPacket: the payload is the datagram minus `user` leading and `tail` trailing bytes;
   datagrams that cannot contain the layers, leave nothing, or do not fit the packet buffer are dropped *)
Definition raw_feed (user tail buf_len : Z) (b : bytes) : option bytes :=
  let n := blen b in
  if (n <=? user + tail) || (n - user - tail >? buf_len) then None
  else Some (slice b user (n - user - tail)).
