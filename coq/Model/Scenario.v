(* Scenario interpreter: the executable top level that is extracted and run against the real
   driver on the same event lists (correspondence check). *)
From Coq Require Import ZArith List Bool.
From RS Require Import Base.Bytes Base.Dyadic Model.Desc Model.Kernels Model.Decoder Model.Driver Model.Input.
Import ListNotations.
Local Open Scope Z_scope.

Inductive event :=
| EInit (i : Z) (d : desc) (c : dcfg) (answers : list (option Z))
| EWall (t : Z)
| EHost (us : Z)
| EPkt (i : Z) (b : bytes)
| EStop (i : Z)                (* stop(): the open frame is emptied *)
| ETemp (i : Z)
| EDev (i : Z)
| EOpen (i : Z)
| ESetInput (i : Z) (mode : Z) (ic : incfg)       (* 1 pcap file, 2 sockets, 3 jumbo pcap *)
| EFrame (i : Z) (f : pframe)                      (* next record of the capture file *)
| EDgram (i : Z) (port : Z) (d : bytes)            (* datagram sent to a UDP port of the host *)
| EEof (i : Z)                                     (* end of the capture file (no repeat) *)
| EDestroy (i : Z).                                (* the instance is destroyed *)

Inductive sout :=
| SOut (i : Z) (o : out)
| STemp (i : Z) (t : option Z)
| SDev (i : Z) (info : option (list Z * list Z * list Z * list Z)) (status : option Z)
| SOpen (i : Z) (buf : Z) (pts : list point)
| SNoDrv (i : Z)
| SInErr (i : Z) (code : Z).                       (* reported by the input thread *)

Record world := mk_world {
  w_drvs : list (Z * (drv * bytes));   (* instance -> (driver, first bytes of its pooled packet buffer) *)
  w_th : throttles; w_now : Z; w_host : Z;
  w_in : list (Z * (Z * incfg * jstate)) }.          (* instance -> input mode, configuration, reassembly state *)

Definition world0 : world := mk_world [] [] 0 0 [].

Fixpoint lookup {A} (l : list (Z * A)) (k : Z) : option A :=
  match l with [] => None | (k', v) :: r => if k =? k' then Some v else lookup r k end.
Fixpoint update {A} (l : list (Z * A)) (k : Z) (v : A) : list (Z * A) :=
  match l with [] => [(k, v)] | (k', v') :: r => if k =? k' then (k, v) :: r else (k', v') :: update r k v end.

Fixpoint remove_key {A} (l : list (Z * A)) (k : Z) : list (Z * A) :=
  match l with [] => [] | (k', v) :: r => if k =? k' then remove_key r k else (k', v) :: remove_key r k end.

(* memcpy of the packet over the pooled buffer: first two bytes *)
Definition overlay2 (stale b : bytes) : bytes :=
  match b with
  | [] => stale
  | [x] => [x; u8 stale 1]
  | x :: y :: _ => [x; y]
  end.

(* hand an extracted payload to the driver's decode side *)
Definition deliver (bl : build) (crc_table : list Z) (w : world) (i : Z) (payload : bytes) : world * list sout :=
  match lookup (w_drvs w) i with
  | None => (w, [SNoDrv i])
  | Some (v, stale) =>
      let '(v', th, o) := process_packet bl crc_table v (w_th w) (w_now w) (w_host w) payload stale in
      (mk_world (update (w_drvs w) i (v', overlay2 stale payload)) th (w_now w) (w_host w) (w_in w), map (SOut i) o)
  end.

Definition step (bl : build) (crc_table : list Z) (w : world) (e : event) : world * list sout :=
  match e with
  | ESetInput i mode ic =>
      (mk_world (w_drvs w) (w_th w) (w_now w) (w_host w) (update (w_in w) i (mode, ic, None)), [])
  | EFrame i f =>
      match lookup (w_in w) i with
      | None => (w, [SNoDrv i])
      | Some (mode, ic, js) =>
          if mode =? 3 then
            let '(js', o) := jumbo_extract ic js f in
            let w1 := mk_world (w_drvs w) (w_th w) (w_now w) (w_host w) (update (w_in w) i (mode, ic, js')) in
            match o with Some p => deliver bl crc_table w1 i p | None => (w1, []) end
          else
            match pcap_extract ic f with Some p => deliver bl crc_table w i p | None => (w, []) end
      end
  | EDgram i port d =>
      match lookup (w_in w) i, lookup (w_drvs w) i with
      | Some (mode, ic, js), Some (v, _) =>
          if sock_accepts ic port then
            match sock_extract (i_user ic) (i_tail ic) (raw_buf_len (v_desc v)) d with
            | Some p => deliver bl crc_table w i p
            | None => (w, [])
            end
          else (w, [])
      | _, _ => (w, [SNoDrv i])
      end
  | EEof i => (w, [SInErr i 2])
  | EDestroy i => (mk_world (remove_key (w_drvs w) i) (w_th w) (w_now w) (w_host w) (remove_key (w_in w) i), [])
  | EInit i d c answers =>
      let '(v, th, o) := init_drv d c answers (1000 * (i + 1)) (w_th w) (w_now w) in
      (mk_world (update (w_drvs w) i (v, [0; 0])) th (w_now w) (w_host w) (w_in w), map (SOut i) o)
  | EWall t => (mk_world (w_drvs w) (w_th w) t (w_host w) (w_in w), [])
  | EHost us => (mk_world (w_drvs w) (w_th w) (w_now w) us (w_in w), [])
  | EPkt i b =>
      match lookup (w_drvs w) i with
      | None => (w, [SNoDrv i])
      | Some (v, stale) =>
          (* decodePacket -> InputRaw::feedPacket: strip the configured layers, or drop the packet *)
          match raw_feed (c_user (v_cfg v)) (c_tail (v_cfg v)) (raw_buf_len (v_desc v)) b with
          | None => (w, [])
          | Some payload =>
              let '(v', th, o) := process_packet bl crc_table v (w_th w) (w_now w) (w_host w) payload stale in
              (mk_world (update (w_drvs w) i (v', overlay2 stale payload)) th (w_now w) (w_host w) (w_in w), map (SOut i) o)
          end
      end
  | EStop i =>
      match lookup (w_drvs w) i with
      | None => (w, [SNoDrv i])
      | Some (v, stale) =>
          (mk_world (update (w_drvs w) i (set_open v (v_dec v) (v_open_buf v) [] (v_pkt_seq v) (v_cloud_seq v) (v_answers v) (v_fresh v), stale))
                    (w_th w) (w_now w) (w_host w) (w_in w), [])
      end
  | ETemp i =>
      match lookup (w_drvs w) i with
      | None => (w, [SNoDrv i])
      | Some (v, _) => (w, [STemp i (get_temperature v)])
      end
  | EDev i =>
      match lookup (w_drvs w) i with
      | None => (w, [SNoDrv i])
      | Some (v, _) => (w, [SDev i (s_devinfo (v_dec v)) (s_devstatus (v_dec v))])
      end
  | EOpen i =>
      match lookup (w_drvs w) i with
      | None => (w, [SNoDrv i])
      | Some (v, _) => (w, [SOpen i (v_open_buf v) (v_open v)])
      end
  end.

Fixpoint run (bl : build) (crc_table : list Z) (w : world) (es : list event) : list sout :=
  match es with
  | [] => []
  | e :: r => let '(w', o) := step bl crc_table w e in o ++ run bl crc_table w' r
  end.
