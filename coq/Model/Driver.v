(* Executable model of Decoder::process{Msop,Difop}Pkt + LidarDriverImpl (single-threaded view:
   one packet at a time, as the decode thread sees them). *)
From Coq Require Import ZArith List Bool.
From RS Require Import Base.Bytes Base.Dyadic Model.Desc Model.Kernels Model.Decoder.
Import ListNotations.
Local Open Scope Z_scope.

(* error codes (values regenerated and cross-checked in Gen/Params_gen.v) *)
Definition ERR_PCAPREPEAT := 1.   Definition ERR_PCAPEXIT := 2.
Definition ERR_MSOPTIMEOUT := 64. Definition ERR_NODIFOPRECV := 65.
Definition ERR_WRONGMSOPLEN := 66. Definition ERR_WRONGMSOPID := 67. Definition ERR_WRONGMSOPBLKID := 68.
Definition ERR_WRONGDIFOPLEN := 69. Definition ERR_WRONGDIFOPID := 70. Definition ERR_ZEROPOINTS := 71.
Definition ERR_PKTBUFOVERFLOW := 72. Definition ERR_CLOUDOVERFLOW := 73. Definition ERR_WRONGCRC32 := 74.
Definition ERR_STARTBEFOREINIT := 128. Definition ERR_PCAPWRONGPATH := 129. Definition ERR_POINTCLOUDNULL := 130.

Definition CLOUD_POINT_MAX := 1000000.
(* the overflow guard of processMsopPkt as a function of the open frame's size *)
Definition overflow_guard (n : Z) : bool := n >? CLOUD_POINT_MAX.

Record cloud := mk_cloud {
  cl_seq : Z; cl_buf : Z; cl_height : Z; cl_width : Z; cl_dense : bool; cl_ts : Z; cl_points : list point }.

Inductive out :=
| OGet (ans : option Z)
| OCloud (c : cloud)
| OPkt (seq : Z) (is_difop begin_ : bool) (ts : Z) (data : bytes)
| OErr (code : Z).

(* process-wide throttle cells, one per LIMIT_CALL site (keyed by the code it reports) *)
Definition throttles := list (Z * Z).
Fixpoint th_get (t : throttles) (k : Z) : option Z :=
  match t with [] => None | (k', v) :: r => if k =? k' then Some v else th_get r k end.
Fixpoint th_set (t : throttles) (k v : Z) : throttles :=
  match t with [] => [(k, v)] | (k', v') :: r => if k =? k' then (k, v) :: r else (k', v') :: th_set r k v end.

(* LIMIT_CALL(f, 1): static prev = 0 *)
Definition limit_call (t : throttles) (now code : Z) : throttles * list out :=
  let prev := match th_get t code with Some v => v | None => 0 end in
  if now - prev >? 1 then (th_set t code now, [OErr code]) else (th_set t code prev, []).
(* DELAY_LIMIT_CALL(f, 1): static prev = time(NULL) at first evaluation *)
Definition delay_limit_call (t : throttles) (now code : Z) : throttles * list out :=
  match th_get t code with
  | None => (th_set t code now, [])
  | Some prev => if now - prev >? 1 then (th_set t code now, [OErr code]) else (t, [])
  end.

Record drv := mk_drv {
  v_desc : desc; v_cfg : dcfg;
  v_dec : dstate;
  v_open_buf : Z; v_open : list point;     (* open frame, oldest first *)
  v_pkt_seq : Z; v_cloud_seq : Z;
  v_answers : list (option Z); v_fresh : Z   (* script of the get callback; next fresh buffer id *)
}.

(* build flags that change modelled behaviour *)
Record build := mk_build { b_crc : bool; b_difop_parse : bool }.

(* ---------------------------------------------------------------- getPointCloud *)
(* retry until the caller returns a buffer; fuel = number of scripted answers + 1 (an exhausted
   script answers with fresh buffers, so the loop always ends) *)
Fixpoint get_cloud (fuel : nat) (answers : list (option Z)) (fresh : Z) (th : throttles) (now : Z)
  : Z * list (option Z) * Z * throttles * list out :=
  match answers with
  | [] => (fresh, [], fresh + 1, th, [OGet (Some fresh)])
  | Some id :: rest => (id, rest, fresh, th, [OGet (Some id)])
  | None :: rest =>
      match fuel with
      | O => (fresh, rest, fresh + 1, th, [OGet None])   (* unreachable: fuel > length answers *)
      | S k =>
          let '(th1, e) := limit_call th now ERR_POINTCLOUDNULL in
          let '(id, a, f, th2, o) := get_cloud k rest fresh th1 now in
          (id, a, f, th2, OGet None :: e ++ o)
      end
  end.

Definition set_open (v : drv) (dec : dstate) (buf : Z) (open : list point) (pkt_seq cloud_seq : Z)
           (answers : list (option Z)) (fresh : Z) : drv :=
  mk_drv (v_desc v) (v_cfg v) dec buf open pkt_seq cloud_seq answers fresh.

(* splitFrame(height, ts) *)
Definition split_frame (v : drv) (th : throttles) (now : Z) (ts : Z) : drv * throttles * list out :=
  match v_open v with
  | [] => (v, th, [])
  | pts =>
      let n := Z.of_nat (length pts) in
      let dense := c_dense (v_cfg v) in
      let h := if dense then 1 else d_laser_num (v_desc v) in
      let w := if dense then n else n / h in
      let cl := mk_cloud (v_cloud_seq v) (v_open_buf v) h w dense ts pts in
      let '(id, a, f, th1, o) := get_cloud (S (length (v_answers v))) (v_answers v) (v_fresh v) th now in
      (set_open v (v_dec v) id [] (v_pkt_seq v) ((v_cloud_seq v + 1) mod 4294967296) a f, th1, OCloud cl :: o)
  end.

(* feed the per-block outputs of one packet into the open frame *)
Fixpoint feed_blocks (v : drv) (th : throttles) (now : Z) (bs : list blk_out) : drv * throttles * list out :=
  match bs with
  | [] => (v, th, [])
  | bo :: rest =>
      let '(v1, th1, o1) := if bo_split bo then split_frame v th now (bo_cloud_ts bo) else (v, th, []) in
      let v2 := set_open v1 (v_dec v1) (v_open_buf v1) (v_open v1 ++ bo_points bo) (v_pkt_seq v1) (v_cloud_seq v1) (v_answers v1) (v_fresh v1) in
      let '(v3, th3, o3) := feed_blocks v2 th1 now rest in
      (v3, th3, o1 ++ o3)
  end.

Definition with_dec (v : drv) (dec : dstate) : drv :=
  set_open v dec (v_open_buf v) (v_open v) (v_pkt_seq v) (v_cloud_seq v) (v_answers v) (v_fresh v).

(* ---------------------------------------------------------------- CRC32 *)
Definition crc_step (table : list Z) (crc byte : Z) : Z :=
  Z.lxor (nth (Z.to_nat (Z.lxor (crc mod 256) byte)) table 0) (crc / 256).
Definition crc_calc (table : list Z) (data : bytes) (start : Z) (first : bool) : Z :=
  let s0 := if first then 4294967295 else Z.lxor start 4294967295 in
  Z.lxor (fold_left (crc_step table) data s0) 4294967295.
Definition crc_ok (table : list Z) (b : bytes) : bool :=
  let n := blen b in
  let e1 := crc_calc table (firstn (Z.to_nat (n - 6)) b) 0 true in
  let e2 := crc_calc table (slice b (n - 2) 2) e1 false in
  e2 =? be32 b (n - 6).

(* ---------------------------------------------------------------- MSOP *)
Definition run_pkt_cb (v : drv) (data : bytes) (ts : Z) (is_difop begin_ : bool) : drv * list out :=
  if c_pkt_cb (v_cfg v) then
    (set_open v (v_dec v) (v_open_buf v) (v_open v) ((v_pkt_seq v + 1) mod 4294967296) (v_cloud_seq v) (v_answers v) (v_fresh v),
     [OPkt (v_pkt_seq v) is_difop begin_ ts data])
  else (v, []).

(* the sub packets of a MEMS packet (one for all types but the jumbo one); a jumbo sub packet with a
   wrong identifier is skipped *)
Fixpoint mems_subs (now host : Z) (k : nat) (i : Z) (v : drv) (th : throttles) (b : bytes) (ret : bool)
  : drv * throttles * list out * bool * bytes :=
  let d := v_desc v in let c := v_cfg v in
  match k with
  | O => (v, th, [], ret, b)
  | S k' =>
      let base := i * d_sizeof_sub d in
      if (0 <? d_n_sub d) && negb (match_at b base (d_msop_id d)) then mems_subs now host k' (i + 1) v th b ret
      else
        let '(s', bo, b', es) := decode_msop_mems_sub d c (v_dec v) b base host host in
        let '(v1, th1, o1) := feed_blocks (with_dec v s') th now [bo] in
        let '(v2, th2, o2) := match es with Some ts => split_frame v1 th1 now ts | None => (v1, th1, []) end in
        let '(v3, th3, o3, r3, b3) := mems_subs now host k' (i + 1) v2 th2 b' (ret || bo_split bo) in
        (v3, th3, o1 ++ o2 ++ o3, r3, b3)
  end.

Definition process_msop (bl : build) (crc_table : list Z) (v : drv) (th : throttles) (now host : Z) (b : bytes)
  : drv * throttles * list out * bool * bytes :=
  let d := v_desc v in let c := v_cfg v in
  (* overflow guard comes first *)
  let '(v0, th0, o0) :=
    if Z.of_nat (length (v_open v)) >? CLOUD_POINT_MAX then
      let '(t, e) := limit_call th now ERR_CLOUDOVERFLOW in
      (set_open v (v_dec v) (v_open_buf v) [] (v_pkt_seq v) (v_cloud_seq v) (v_answers v) (v_fresh v), t, e)
    else (v, th, []) in
  if c_wait_for_difop c && negb (s_angles_ready (v_dec v0)) then
    let '(t, e) := delay_limit_call th0 now ERR_NODIFOPRECV in (v0, t, o0 ++ e, false, b)
  else if negb (blen b =? d_msop_len d) then
    let '(t, e) := limit_call th0 now ERR_WRONGMSOPLEN in (v0, t, o0 ++ e, false, b)
  else if negb (match_at b 0 (d_msop_id d)) then
    let '(t, e) := limit_call th0 now ERR_WRONGMSOPID in (v0, t, o0 ++ e, false, b)
  else if b_crc bl && negb (crc_ok crc_table b) then
    let '(t, e) := limit_call th0 now ERR_WRONGCRC32 in (v0, t, o0 ++ e, false, b)
  else
    match d_family d with
    | Mech =>
        let r := decode_msop_mech d c (v_dec v0) b host host in
        (* a bad block id is reported (unthrottled) when the loop reaches it, i.e. after the
           clouds split by earlier blocks of this packet *)
        let '(v1, th1, o1) := feed_blocks (with_dec v0 (mr_state r)) th0 now (mr_blocks r) in
        let e := if mr_bad_blkid r then [OErr ERR_WRONGMSOPBLKID] else [] in
        (v1, th1, o0 ++ o1 ++ e, mr_ret r, mr_bytes r)
    | Mems =>
        let nsub := if d_n_sub d =? 0 then 1 else d_n_sub d in
        let '(v1, th1, o1, ret, b') := mems_subs now host (Z.to_nat nsub) 0 v0 th0 b false in
        (v1, th1, o0 ++ o1, ret, b')
    end.

Definition process_difop (bl : build) (v : drv) (th : throttles) (now : Z) (b : bytes) : drv * throttles * list out :=
  let d := v_desc v in
  if negb (blen b =? d_difop_len d) then
    let '(t, e) := limit_call th now ERR_WRONGDIFOPLEN in (v, t, e)
  else if negb (match_at b 0 (d_difop_id d)) then
    let '(t, e) := limit_call th now ERR_WRONGDIFOPID in (v, t, e)
  else (with_dec v (decode_difop d (b_difop_parse bl) (v_dec v) b), th, []).

(* the two dispatch bytes; a packet shorter than two bytes is neither MSOP nor DIFOP *)
Definition dispatch_bytes (b : bytes) : Z * Z := match b with x :: y :: _ => (x, y) | _ => (-1, -1) end.
Definition ev_is_msop_b (b stale : bytes) : bool :=
  (fst (dispatch_bytes b) =? 85) && (snd (dispatch_bytes b) =? 170).

(* internalProcessPacket: dispatch on the first two bytes of the packet (`stale`, the previous contents
   of the pooled buffer, is kept as a parameter of the interface but no longer influences anything) *)
Definition process_packet (bl : build) (crc_table : list Z) (v : drv) (th : throttles) (now host : Z) (b : bytes) (stale : bytes)
  : drv * throttles * list out :=
  let b0 := fst (dispatch_bytes b) in
  let b1 := snd (dispatch_bytes b) in
  if (b0 =? 85) && (b1 =? 170) then
    let '(v1, th1, o1, ret, b') := process_msop bl crc_table v th now host b in
    let '(v2, o2) := run_pkt_cb v1 b' (s_prev_pkt_ts (v_dec v1)) false ret in
    (v2, th1, o1 ++ o2)
  else if (b0 =? 165) && (b1 =? 255) then
    let '(v1, th1, o1) := process_difop bl v th now b in
    let '(v2, o2) := run_pkt_cb v1 b 0 true false in
    (v2, th1, o1 ++ o2)
  else (v, th, []).

(* init(): creates the decoder and fetches the first buffer *)
Definition init_drv (d : desc) (c : dcfg) (answers : list (option Z)) (fresh0 : Z) (th : throttles) (now : Z)
  : drv * throttles * list out :=
  let '(id, a, f, th1, o) := get_cloud (S (length answers)) answers fresh0 th now in
  (mk_drv d c (init_dstate d c) id [] 0 0 a f, th1, o).

(* getTemperature *)
Definition get_temperature (v : drv) : option Z :=
  if s_temp_flag (v_dec v) then s_temp (v_dec v) else None.
