(* Decoder descriptors: everything that distinguishes the 17 decoders as DATA.  The instances live
   in Gen/Params_gen.v, regenerated from /repo by tools/probe.cpp + tools/gen_params.py. *)
From Coq Require Import ZArith List.
From RS Require Import Base.Dyadic.
Import ListNotations.
Local Open Scope Z_scope.

Inductive family := Mech | Mems.
Inductive cali_kind := CaliPlain | CaliRs16 | CaliRs32 | CaliNone.
Inductive iter_kind := ItSingle | ItDual | ItAbDual | ItRs16Single | ItRs16Dual.
Inductive ts_kind := TsYmd | TsUtc | TsYmdOrUtcBpv4.
Inductive temp_kind := TempLe | TempBe | TempByte80.
Inductive proj_kind := ProjPolar | ProjPitchYaw | ProjVec | ProjVecMx.
Inductive variant_kind := VarNone | VarEcho16 | VarBpv4 | VarRsp80.

(* firing / lens table of one model variant *)
Record tab := mk_tab {
  t_dist_res : dy;             (* DISTANCE_RES as exact binary32 value *)
  t_rx : Z; t_ry : Z; t_rz : Z;      (* lens offsets as binary32 bit patterns (outputs only) *)
  t_block_ns : Z;              (* BLOCK_DURATION in ns *)
  t_block_dur : dy;            (* BLOCK_DURATION as the exact binary64 value *)
  t_chan_ns : list Z;          (* CHAN_TSS in ns *)
  t_chan_azis : list dy        (* CHAN_AZIS as exact binary32 values *)
}.

Record desc := mk_desc {
  d_family : family;
  d_lidar_type : Z;
  d_msop_len : Z; d_difop_len : Z;
  d_msop_id : list Z; d_difop_id : list Z; d_block_id : list Z;
  d_laser_num : Z; d_blocks_per_pkt : Z; d_chans_per_blk : Z;
  d_dist_min : dy; d_dist_max : dy;
  d_temp_kind : temp_kind; d_temp_res : dy; d_off_temp : Z;
  d_ts_kind : ts_kind; d_off_ts : Z;
  (* msop layout *)
  d_sizeof_msop : Z;
  d_off_blocks : Z; d_sizeof_block : Z; d_off_blk_az : Z; d_off_blk_chan : Z; d_sizeof_chan : Z;
  d_off_chan_dist : Z; d_off_chan_int : Z;
  d_off_chan_a : Z; d_off_chan_b : Z; d_off_chan_c : Z;   (* pitch,yaw,- | x,y,z *)
  d_off_chan_dist2 : Z; d_off_chan_int2 : Z;              (* MX second return *)
  d_off_blk_toff : Z; d_sizeof_toff : Z; d_off_seq : Z; d_off_hdr_return_mode : Z;
  d_off_hdr_lidar_type : Z; d_off_hdr_lidar_model : Z;
  d_n_sub : Z; d_sizeof_sub : Z;                          (* jumbo: sub packets *)
  d_proj : proj_kind; d_m1_end_split : bool; d_sets_temp_flag : bool;
  (* difop layout *)
  d_sizeof_difop : Z;
  d_off_difop_rpm : Z; d_off_difop_fov_start : Z; d_off_difop_fov_end : Z; d_off_difop_return_mode : Z;
  d_off_difop_vert : Z; d_off_difop_horiz : Z; d_off_difop_pitch_cali : Z; d_off_difop_reversal : Z;
  d_off_difop_sn : Z; d_off_difop_mac : Z; d_off_difop_top_ver : Z; d_off_difop_bottom_ver : Z; d_off_difop_vol12 : Z;
  d_sn_len : Z; d_has_devinfo : bool; d_has_devstatus : bool; d_sets_echo : bool;
  d_cali : cali_kind; d_echo_dual : list bool;
  d_iter_single : iter_kind; d_iter_dual : iter_kind; d_is16 : bool;
  d_variant : variant_kind;
  (* derived initial state of a fresh decoder *)
  d_init_blks_per_frame : Z; d_init_split_blks : Z; d_packet_duration_ns : Z; d_block_duration : dy;
  d_init_angles_ready : bool;
  d_blkid_err : Z;           (* error code reported on a bad block id; 0 = none *)
  (* tables *)
  d_tab_base : tab; d_tab_alt1 : tab; d_tab_alt2 : tab
}.
