(* Executable oracles over output histories.  They are (a) what the C06/C01/C14 theorems say every
   model history satisfies and (b) extracted, so the same functions can judge recorded histories. *)
From Coq Require Import ZArith List Bool.
From RS Require Import Base.Bytes Base.Dyadic Model.Desc Model.Decoder Model.Driver.
Import ListNotations.
Local Open Scope Z_scope.

Definition cloud_height (d : desc) (c : dcfg) : Z := if c_dense c then 1 else d_laser_num d.
Definition cloud_width (d : desc) (c : dcfg) (n : Z) : Z := if c_dense c then n else n / cloud_height d c.

Definition cloud_okb (d : desc) (c : dcfg) (cl : cloud) : bool :=
  negb (match cl_points cl with [] => true | _ => false end) &&
  Bool.eqb (cl_dense cl) (c_dense c) &&
  (cl_height cl =? cloud_height d c) &&
  (cl_width cl =? cloud_width d c (Z.of_nat (length (cl_points cl)))).

(* next cloud number; buffer currently held by the driver (None right after a hand-over) *)
Record hist := mk_hist { h_seq : Z; h_buf : option Z; h_pkt : Z }.

Fixpoint scan (d : desc) (c : dcfg) (h : hist) (o : list out) : option hist :=
  match o with
  | [] => Some h
  | OGet (Some id) :: r => scan d c (mk_hist (h_seq h) (Some id) (h_pkt h)) r
  | OGet None :: r => scan d c h r
  | OErr _ :: r => scan d c h r
  | OPkt s _ _ _ _ :: r => if s =? h_pkt h then scan d c (mk_hist (h_seq h) (h_buf h) ((h_pkt h + 1) mod 4294967296)) r else None
  | OCloud cl :: r =>
      match h_buf h with
      | Some id =>
          if cloud_okb d c cl && (cl_seq cl =? h_seq h) && (cl_buf cl =? id)
          then scan d c (mk_hist ((h_seq h + 1) mod 4294967296) None (h_pkt h)) r
          else None
      | None => None
      end
  end.
