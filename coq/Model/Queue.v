(* C10: the packet pipeline between the receiving side and the decoding thread as an interleaving
   model.  State changes happen at the synchronisation points of the code (each SyncQueue operation is
   one critical section); a schedule is a list of thread choices.

   producer (Input::pushPacket path, one per feeding thread), per packet:
     PIdle    -- packetGet: free_pkt_queue_.pop() or make_shared      --> PGot b
     PGot b   -- memcpy / recvfrom into the buffer                    --> PFilled b x
     PFilled  -- pkt_queue_.push(b)   (size and "was empty" sampled under the lock) --> PNotify
     PNotify  -- if (empty) cv_.notify_one()                          --> PCheck sz
     PCheck   -- if (sz > 1024) report ERRCODE_PKTBUFOVERFLOW         --> PClear | PIdle
     PClear   -- pkt_queue_.clear()                                   --> PIdle
   consumer (LidarDriverImpl::processPacket):
     CIdle    -- popWait: predicate checked under the lock: pop, or block --> CHave b | CWait
     CWait    -- blocked in cv_.wait_for; woken by notify or by the timeout --> CIdle
     CHave b  -- internalProcessPacket: decode, packet callback       --> CDone b
     CDone b  -- free_pkt_queue_.push(b)                              --> CIdle *)
From Coq Require Import ZArith List Bool Arith.
Import ListNotations.

Definition bid := nat.
Definition tag := Z.
Definition POOL_MAX : nat := 1024.

Inductive pstate :=
| PIdle
| PGot (b : bid)
| PFilled (b : bid) (x : tag)
| PNotify (was_empty : bool) (sz : nat)
| PCheck (sz : nat)
| PClear.

Inductive cstate := CIdle | CWait | CHave (b : bid) | CDone (b : bid).

Definition entry := (nat * tag)%type.     (* (arrival number, payload) *)

Record sys := mk_sys {
  q_free : list bid; q_stuffed : list bid; q_mem : bid -> tag; q_next : bid;
  q_prods : list pstate; q_cons : cstate;
  (* ghost history *)
  g_pushed : list entry;     (* every packet handed over, in arrival (push) order *)
  g_pending : list entry;    (* those in q_stuffed *)
  g_held : list entry;       (* popped, not yet decoded *)
  g_decoded : list entry;    (* (arrival number, bytes read from the buffer) in decode order *)
  g_dropped : list entry;    (* removed by an overflow clear *)
  g_reports : nat; g_clears : nat; g_maxsz : nat }.

Definition init (nprod : nat) : sys :=
  mk_sys [] [] (fun _ => 0%Z) 0 (repeat PIdle nprod) CIdle [] [] [] [] [] 0 0 0.

Fixpoint upd {A} (l : list A) (i : nat) (v : A) : list A :=
  match l, i with
  | [], _ => []
  | _ :: r, O => v :: r
  | a :: r, S k => a :: upd r k v
  end.

Definition set_mem (m : bid -> tag) (b : bid) (x : tag) : bid -> tag := fun b' => if Nat.eqb b' b then x else m b'.

Inductive action := AProd (i : nat) (x : tag) | ACons | ATimeout.

Definition with_prod (s : sys) (i : nat) (p : pstate) : sys :=
  mk_sys (q_free s) (q_stuffed s) (q_mem s) (q_next s) (upd (q_prods s) i p) (q_cons s)
         (g_pushed s) (g_pending s) (g_held s) (g_decoded s) (g_dropped s) (g_reports s) (g_clears s) (g_maxsz s).

Definition prod_step (s : sys) (i : nat) (x : tag) : sys :=
  match nth_error (q_prods s) i with
  | None => s
  | Some PIdle =>
      match q_free s with
      | b :: r => mk_sys r (q_stuffed s) (q_mem s) (q_next s) (upd (q_prods s) i (PGot b)) (q_cons s)
                         (g_pushed s) (g_pending s) (g_held s) (g_decoded s) (g_dropped s) (g_reports s) (g_clears s) (g_maxsz s)
      | [] => mk_sys [] (q_stuffed s) (q_mem s) (S (q_next s)) (upd (q_prods s) i (PGot (q_next s))) (q_cons s)
                     (g_pushed s) (g_pending s) (g_held s) (g_decoded s) (g_dropped s) (g_reports s) (g_clears s) (g_maxsz s)
      end
  | Some (PGot b) =>
      mk_sys (q_free s) (q_stuffed s) (set_mem (q_mem s) b x) (q_next s) (upd (q_prods s) i (PFilled b x)) (q_cons s)
             (g_pushed s) (g_pending s) (g_held s) (g_decoded s) (g_dropped s) (g_reports s) (g_clears s) (g_maxsz s)
  | Some (PFilled b y) =>
      let e := (length (g_pushed s), y) in
      let st := q_stuffed s ++ [b] in
      mk_sys (q_free s) st (q_mem s) (q_next s)
             (upd (q_prods s) i (PNotify (match q_stuffed s with [] => true | _ => false end) (length st))) (q_cons s)
             (g_pushed s ++ [e]) (g_pending s ++ [e]) (g_held s) (g_decoded s) (g_dropped s) (g_reports s) (g_clears s)
             (Nat.max (g_maxsz s) (length st))
  | Some (PNotify we sz) =>
      mk_sys (q_free s) (q_stuffed s) (q_mem s) (q_next s) (upd (q_prods s) i (PCheck sz))
             (match q_cons s with CWait => if we then CIdle else CWait | c => c end)
             (g_pushed s) (g_pending s) (g_held s) (g_decoded s) (g_dropped s) (g_reports s) (g_clears s) (g_maxsz s)
  | Some (PCheck sz) =>
      if POOL_MAX <? sz then
        mk_sys (q_free s) (q_stuffed s) (q_mem s) (q_next s) (upd (q_prods s) i PClear) (q_cons s)
               (g_pushed s) (g_pending s) (g_held s) (g_decoded s) (g_dropped s) (S (g_reports s)) (g_clears s) (g_maxsz s)
      else with_prod s i PIdle
  | Some PClear =>
      mk_sys (q_free s) [] (q_mem s) (q_next s) (upd (q_prods s) i PIdle) (q_cons s)
             (g_pushed s) [] (g_held s) (g_decoded s) (g_dropped s ++ g_pending s) (g_reports s) (S (g_clears s)) (g_maxsz s)
  end.

Definition cons_step (s : sys) : sys :=
  match q_cons s with
  | CIdle =>
      match q_stuffed s, g_pending s with
      | b :: r, e :: pr =>
          mk_sys (q_free s) r (q_mem s) (q_next s) (q_prods s) (CHave b)
                 (g_pushed s) pr [e] (g_decoded s) (g_dropped s) (g_reports s) (g_clears s) (g_maxsz s)
      | _, _ =>
          mk_sys (q_free s) (q_stuffed s) (q_mem s) (q_next s) (q_prods s) CWait
                 (g_pushed s) (g_pending s) (g_held s) (g_decoded s) (g_dropped s) (g_reports s) (g_clears s) (g_maxsz s)
      end
  | CWait => s
  | CHave b =>
      mk_sys (q_free s) (q_stuffed s) (q_mem s) (q_next s) (q_prods s) (CDone b)
             (g_pushed s) (g_pending s) [] (g_decoded s ++ map (fun e => (fst e, q_mem s b)) (g_held s)) (g_dropped s)
             (g_reports s) (g_clears s) (g_maxsz s)
  | CDone b =>
      mk_sys (q_free s ++ [b]) (q_stuffed s) (q_mem s) (q_next s) (q_prods s) CIdle
             (g_pushed s) (g_pending s) (g_held s) (g_decoded s) (g_dropped s) (g_reports s) (g_clears s) (g_maxsz s)
  end.

Definition timeout_step (s : sys) : sys :=
  match q_cons s with
  | CWait => mk_sys (q_free s) (q_stuffed s) (q_mem s) (q_next s) (q_prods s) CIdle
                    (g_pushed s) (g_pending s) (g_held s) (g_decoded s) (g_dropped s) (g_reports s) (g_clears s) (g_maxsz s)
  | _ => s
  end.

Definition step (s : sys) (a : action) : sys :=
  match a with
  | AProd i x => prod_step s i x
  | ACons => cons_step s
  | ATimeout => timeout_step s
  end.

(* every schedule: any list of thread choices (a choice that is not enabled leaves the state as it is) *)
Definition run (s : sys) (sched : list action) : sys := fold_left step sched s.
