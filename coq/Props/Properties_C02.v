(* C02 - Point coordinates are the polar-to-Cartesian image of the wire measurement. *)
From Coq Require Import Reals.
From RS Require Import Base.Tac Base.Bytes Base.Dyadic Model.Desc Model.Kernels Model.Decoder Gen.Params_gen.
From RS Require Import Proofs.SplitNum Proofs.Coords Proofs.FloatErr Proofs.Transform.
Local Open Scope Z_scope.

(* T1a: the azimuth advance of a channel lies within the block's step: for every mechanical model
   variant and firing fraction and every step the driver can form (complete sweep 0..4400) *)
Theorem C02_T1_advance d t frac n : In d mech_descs -> In t (tabs_of d) -> In frac (t_chan_azis t) ->
  0 <= n <= AZ_DIFF_MAX -> 0 <= adv_of n frac <= n.
Proof. exact (adv_within_step d t frac n). Qed.
Print Assumptions C02_T1_advance.
(* ... and every nominal step of every announceable rpm (rps 1..1092) is inside that range *)
Theorem C02_T1_steps : forallb step_ok mech_descs = true.
Proof. exact nominal_steps_in_range. Qed.
(* ... for every block period a decoder can hold (a Bpearl v4 replaces it at its first MSOP packet) *)
Theorem C02_T1_steps_now : forallb step_ok_bd mech_descs = true.
Proof. exact nominal_steps_in_range_bd. Qed.
Theorem C02_T1_table_in_force d s : In (cur_tab d s) (tabs_of d).
Proof. exact (cur_tab_in d s). Qed.

(* T1b: with calibration within +-90 deg vertical and +-20 deg horizontal, all three table indices
   of a mechanical point lie inside the trig tables: the clamp-to-0 never fires *)
Theorem C02_T1_unclamped (block_az adv vert horiz : Z) (reversal : bool) :
  0 <= block_az < 36000 -> 0 <= adv <= AZ_DIFF_MAX -> -9000 <= vert < 9000 -> -2000 <= horiz <= 2000 ->
  let ah0 := block_az + adv in let ahf0 := ah0 + horiz in
  let ah := if reversal then 36000 - ah0 else ah0 in
  let ahf := if reversal then 36000 - ahf0 else ahf0 in
  trig_idx vert = vert /\ trig_idx ah = ah /\ trig_idx ahf = ahf.
Proof. exact (mech_indices_unclamped block_az adv vert horiz reversal). Qed.
Print Assumptions C02_T1_unclamped.

(* R1 (recorded finding D18): for M1 the index is the angle only from -90 deg up *)
Theorem C02_R1_m1_clamp raw : 0 <= raw < 65536 -> (trig_idx (raw - 32768) = raw - 32768 <-> 23768 <= raw \/ raw = 32768).
Proof. exact (m1_idx raw). Qed.

(* T2: float-evaluation error budget: below 1 mm for every range up to 328 m (65535 x 0.005 m) *)
Local Open Scope R_scope.
Theorem C02_T2_xy_budget d rx kv kh kl a b c e1 e2 e3 e4 :
  0 <= d <= 328 -> -1/10 <= rx <= 1/10 ->
  -1 <= kv <= 1 -> -1 <= kh <= 1 -> -1 <= kl <= 1 ->
  Rabs a <= tb -> Rabs b <= tb -> Rabs c <= tb ->
  Rabs e1 <= u -> Rabs e2 <= u -> Rabs e3 <= u -> Rabs e4 <= u ->
  Rabs (((d * (kv + a) * (1 + e1) * (kh + b)) * (1 + e2) + rx * (kl + c) * (1 + e3)) * (1 + e4)
        - (d * kv * kh + rx * kl)) <= 1 / 1000.
Proof. exact (x_error_budget d rx kv kh kl a b c e1 e2 e3 e4). Qed.
Print Assumptions C02_T2_xy_budget.
Theorem C02_T2_z_budget d rz sv a e1 e2 :
  0 <= d <= 328 -> -1/10 <= rz <= 1/10 -> -1 <= sv <= 1 -> Rabs a <= tb -> Rabs e1 <= u -> Rabs e2 <= u ->
  Rabs (((d * (sv + a)) * (1 + e1) + rz) * (1 + e2) - (d * sv + rz)) <= 1 / 1000.
Proof. exact (z_error_budget d rz sv a e1 e2). Qed.
Theorem C02_T2_vec_budget d vx e1 e2 :
  0 <= d <= 328 -> -32768 <= vx <= 32768 -> Rabs e1 <= u -> Rabs e2 <= u ->
  Rabs (((vx * d) * (1 + e1) / 32768) * (1 + e2) - vx * d / 32768) <= 1 / 1000.
Proof. exact (vec_error_budget d vx e1 e2). Qed.

(* T4: the transform option. Decoder::Decoder builds Translation(x,y,z) * Rz(yaw) * Ry(pitch) * Rx(roll) and
   transformPoint applies it to every point after the projection: roll first, yaw last, then the shift *)
Theorem C02_T4_transform_matrix tx ty tz roll pitch yaw x y z :
  transform (tx, ty, tz) roll pitch yaw (x, y, z) =
  let cr := cos roll in let sr := sin roll in
  let cp := cos pitch in let sp := sin pitch in
  let cy := cos yaw in let sy := sin yaw in
  ( (cy * cp) * x + (cy * sp * sr - sy * cr) * y + (cy * sp * cr + sy * sr) * z + tx,
    (sy * cp) * x + (sy * sp * sr + cy * cr) * y + (sy * sp * cr - cy * sr) * z + ty,
    (- sp) * x + (cp * sr) * y + (cp * cr) * z + tz ).
Proof. exact (transform_matrix tx ty tz roll pitch yaw x y z). Qed.
Print Assumptions C02_T4_transform_matrix.
(* identity parameters change nothing (the case C20 relies on) *)
Theorem C02_T4_identity p : transform (0, 0, 0) 0 0 0 p = p.
Proof. exact (transform_identity p). Qed.
(* for all six parameters it is a rigid motion: distances between points are preserved *)
Theorem C02_T4_rigid t roll pitch yaw p q :
  sqnorm (sub (transform t roll pitch yaw p) (transform t roll pitch yaw q)) = sqnorm (sub p q).
Proof. exact (transform_rigid t roll pitch yaw p q). Qed.
Theorem C02_T4_origin t roll pitch yaw : transform t roll pitch yaw (0, 0, 0) = t.
Proof. exact (transform_origin t roll pitch yaw). Qed.
(* yaw turns the horizontal plane by that angle; the order roll -> pitch -> yaw is fixed (witness) *)
Theorem C02_T4_yaw_polar r b yaw z :
  transform (0, 0, 0) 0 0 yaw (r * cos b, r * sin b, z) = (r * cos (b + yaw), r * sin (b + yaw), z).
Proof. exact (transform_yaw_polar r b yaw z). Qed.
Example C02_T4_order_witness : transform (0, 0, 0) (PI / 2) 0 (PI / 2) (0, 1, 0) = (0, 0, 1).
Proof. exact transform_order_witness. Qed.
Local Close Scope R_scope.

Example C02_nonvacuous : adv_of 20 (mkdy 13421773 (-27)) = 2 /\ trig_idx (35999 + 20 + 2000) = 38019 /\ trig_idx (-9001) = 0.
Proof. vm_compute. repeat split; reflexivity. Qed.
