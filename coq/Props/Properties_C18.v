(* C18 - Status getters report the last accepted packet, and only once one was seen. *)
From RS Require Import Base.Tac Base.Bytes Base.Dyadic Model.Desc Model.Kernels Model.Decoder Model.Driver Model.Oracles.
From RS Require Import Gen.Kernels_gen Gen.Params_gen Proofs.Eq_Misc Proofs.Stream Proofs.Conservation Proofs.Status.
Local Open Scope Z_scope.

(* T0: the temperature decoders of today's basic_attr.hpp (regenerated) equal the model's on all 65,536 field values *)
Theorem C18_T0_temp_le b0 b1 : 0 <= b0 < 256 -> 0 <= b1 < 256 -> fn_parseTempInLe b0 b1 = temp_le b0 b1.
Proof. exact (gen_temp_le_eq b0 b1). Qed.
Theorem C18_T0_temp_be b0 b1 : 0 <= b0 < 256 -> 0 <= b1 < 256 -> fn_parseTempInBe b0 b1 = temp_be b0 b1.
Proof. exact (gen_temp_be_eq b0 b1). Qed.
Print Assumptions C18_T0_temp_le.

(* T2: formats: 13-bit little-endian / 12-bit big-endian sign-and-magnitude *)
Theorem C18_T2_le b0 b1 : 0 <= b0 < 256 -> 0 <= b1 < 256 ->
  temp_le b0 b1 = (if b1 <? 128 then 1 else -1) * ((b1 mod 128) * 32 + b0 / 8) /\ - 4095 <= temp_le b0 b1 <= 4095.
Proof. exact (temp_le_spec b0 b1). Qed.
Theorem C18_T2_be b0 b1 : 0 <= b0 < 256 -> 0 <= b1 < 256 ->
  temp_be b0 b1 = (if b0 <? 128 then 1 else -1) * ((b0 mod 128) * 16 + b1 / 16) /\ - 2047 <= temp_be b0 b1 <= 2047.
Proof. exact (temp_be_spec b0 b1). Qed.

(* T1: unavailable at start; after an accepted packet the reading is that packet's field *)
Theorem C18_T1_initial d c : get_temperature (mk_drv d c (init_dstate d c) 0 [] 0 0 [] 0) = None.
Proof. reflexivity. Qed.
Theorem C18_T1_mech d c s b h1 h2 :
  let s' := mr_state (decode_msop_mech d c s b h1 h2) in
  s_temp s' = Some (temp_raw d b 0) /\ s_temp_flag s' = true /\ s_devinfo s' = s_devinfo s /\ s_devstatus s' = s_devstatus s.
Proof. exact (mech_packet_temp d c s b h1 h2). Qed.
Theorem C18_T1_mems d c s b base h1 h2 :
  let s' := fst (fst (fst (decode_msop_mems_sub d c s b base h1 h2))) in
  s_temp s' = Some (temp_raw d (skipn (Z.to_nat base) b) 0) /\ s_temp_flag s' = true /\
  s_devinfo s' = s_devinfo s /\ s_devstatus s' = s_devstatus s.
Proof. exact (mems_packet_temp d c s b base h1 h2). Qed.
Print Assumptions C18_T1_mech.
(* every one of the 17 real decoders raises the availability flag on an accepted packet (regenerated fact) *)
Theorem C18_T1_all_types_set_flag : forallb d_sets_temp_flag all_descs = true.
Proof. vm_compute. reflexivity. Qed.

(* T3: device info/status: untouched without DIFOP parsing; the packet's fields with it *)
Theorem C18_T3_off d s b : s_devinfo (decode_difop d false s b) = s_devinfo s /\ s_devstatus (decode_difop d false s b) = s_devstatus s.
Proof. exact (difop_devinfo_off d s b). Qed.
Theorem C18_T3_on d s b : d_has_devinfo d = true -> d_has_devstatus d = true ->
  s_devinfo (decode_difop d true s b) =
    Some (slice b (d_off_difop_sn d) (d_sn_len d) ++ repeat 0 (Z.to_nat (6 - d_sn_len d)),
          slice b (d_off_difop_mac d) 6, slice b (d_off_difop_top_ver d) 5, slice b (d_off_difop_bottom_ver d) 5) /\
  s_devstatus (decode_difop d true s b) = Some (be16 b (d_off_difop_vol12 d)).
Proof. exact (difop_devinfo_on d s b). Qed.
Theorem C18_T3_temp_untouched d wp s b :
  s_temp (decode_difop d wp s b) = s_temp s /\ s_temp_flag (decode_difop d wp s b) = s_temp_flag s.
Proof. exact (difop_temp d wp s b). Qed.

(* T4: rejected MSOP packets change nothing (C01_T3 restated for the decoder state) *)
Theorem C18_T4_rejected_inert bl tbl v th now host b : accepts bl tbl v b = false ->
  v_dec (fst (fst (fst (fst (process_msop bl tbl v th now host b))))) = v_dec v.
Proof. intros H. pose proof (process_msop_rejected_inert bl tbl v th now host b H) as R. cbv zeta in R. tauto. Qed.

Example C18_nonvacuous : temp_le 0xF8 0x81 = -63 /\ temp_be 0x81 0xF0 = -31 /\ temp_le 0x08 0x01 = 33.
Proof. vm_compute. repeat split; reflexivity. Qed.
