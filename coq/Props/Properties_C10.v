(* C10 - Packets cross threads exactly once, in order, intact, under every schedule. *)
From RS Require Import Base.Tac Model.Queue Proofs.QueueInv Proofs.QueueProgress.
Local Open Scope nat_scope.

(* Throughout: n producers (receiving side / caller threads), one decoding thread, ANY schedule
   (list of thread choices of any length, with any payloads). *)

(* T1: exclusive ownership.  A buffer a producer holds (about to be filled, or filled and not yet
   pushed) is not in the free pool, not queued, not with the decoding thread and not held by any other
   producer: a pooled buffer is never refilled while it is queued or being decoded. *)
Theorem C10_T1_no_refill_while_in_use n sched i p b :
  let s := run (init n) sched in
  nth_error (q_prods s) i = Some p -> In b (powned p) ->
  ~ In b (q_free s) /\ ~ In b (q_stuffed s) /\ ~ In b (cowned (q_cons s)) /\
  (forall j p', j <> i -> nth_error (q_prods s) j = Some p' -> ~ In b (powned p')).
Proof. intros s. apply own_exclusive. apply (inv_reachable n sched). Qed.
Print Assumptions C10_T1_no_refill_while_in_use.

(* T2: what the decoder saw - pairs (arrival number, bytes read from the buffer at decode time) in
   decode order - has strictly increasing arrival numbers (arrival order, each packet at most once)
   and every pair is a pair that was handed over (the bytes are exactly those received). *)
Theorem C10_T2_in_order_once_intact n sched :
  let s := run (init n) sched in
  incr (g_decoded s) /\ NoDup (map fst (g_decoded s)) /\ incl (g_decoded s) (g_pushed s).
Proof.
  intros s. destruct (inv_reachable n sched) as (_ & _ & HH & _ & _). fold s in HH.
  destruct HH as [_ Hs Hi _ _ _]. unfold live in *.
  assert (Hd : incr (g_decoded s)) by (eapply incr_app_l; exact Hs).
  split; [exact Hd|]. split; [apply incr_NoDup; exact Hd|].
  intros e He. apply Hi. apply in_or_app. left. exact He.
Qed.
Print Assumptions C10_T2_in_order_once_intact.

(* T3: accounting.  Every packet handed over is decoded, with the decoder, still queued, or was
   dropped by an overflow clear - and never two of these. *)
Theorem C10_T3_accounting n sched e :
  let s := run (init n) sched in
  In e (g_pushed s) ->
  (In e (g_decoded s ++ g_held s ++ g_pending s) /\ ~ In e (g_dropped s)) \/
  (In e (g_dropped s) /\ ~ In e (g_decoded s ++ g_held s ++ g_pending s)).
Proof.
  intros s He. destruct (inv_reachable n sched) as (_ & _ & HH & _ & _). fold s in HH.
  destruct HH as [_ _ _ _ Hp Hd]. unfold live in *.
  destruct (Hp e He) as [Hl|Hdr]; [left; split; [exact Hl | apply Hd; exact Hl] | right; split; [exact Hdr | intros Hl; exact (Hd e Hl Hdr)]].
Qed.

(* T4: the overflow rule.  Packets are dropped only by a clear that follows a push which saw more
   than 1024 pending, and that is reported; if no push ever saw more than 1024 pending, nothing is dropped. *)
Theorem C10_T4_overflow n sched :
  let s := run (init n) sched in
  (g_dropped s <> [] -> 0 < g_reports s /\ POOL_MAX < g_maxsz s) /\
  (g_maxsz s <= POOL_MAX -> g_dropped s = []).
Proof.
  intros s. destruct (inv_reachable n sched) as (_ & _ & _ & HV & _). fold s in HV. destruct HV as [Hr Hd _ _].
  split.
  - intros H. split; [apply Hd; exact H | apply Hr; apply Hd; exact H].
  - intros H. destruct (g_dropped s) as [|e r] eqn:E; [reflexivity|]. exfalso.
    assert (0 < g_reports s) by (apply Hd; discriminate). specialize (Hr H0). lia.
Qed.
(* the clear drops the whole backlog *)
Theorem C10_T4b_clear_drops_all s i x : nth_error (q_prods s) i = Some PClear ->
  q_stuffed (prod_step s i x) = [] /\ g_pending (prod_step s i x) = [] /\ g_dropped (prod_step s i x) = g_dropped s ++ g_pending s.
Proof. intros E. unfold prod_step. rewrite E. cbn. repeat split. Qed.

(* T5: all packets are decoded when nothing overflowed and the pipeline has drained *)
Theorem C10_T5_all_decoded_when_drained n sched :
  let s := run (init n) sched in
  g_maxsz s <= POOL_MAX -> q_stuffed s = [] -> g_held s = [] ->
  forall e, In e (g_pushed s) -> In e (g_decoded s).
Proof.
  intros s Hm Hs Hh e He.
  destruct (C10_T4_overflow n sched) as [_ Hd]. fold s in Hd. specialize (Hd Hm).
  destruct (inv_reachable n sched) as (_ & HM & HH & _ & _). fold s in HM, HH.
  destruct HM as [Hmem _ _]. rewrite Hs in Hmem. destruct (g_pending s) eqn:Ep; [|discriminate Hmem].
  destruct HH as [_ _ _ _ Hp _]. unfold live in Hp. rewrite Hh, Ep, Hd in Hp. cbn [app] in Hp. rewrite app_nil_r in Hp.
  destruct (Hp e He) as [H|[]]. exact H.
Qed.

(* T6: no lost wake-up.  Whenever the decoding thread is blocked waiting although packets are queued,
   a producer that found the queue empty is about to call notify (the push that made the queue
   non-empty wakes the waiting consumer). *)
Theorem C10_T6_wakeup n sched :
  let s := run (init n) sched in
  q_cons s = CWait -> q_stuffed s = [] \/ exists i sz, nth_error (q_prods s) i = Some (PNotify true sz).
Proof. intros s. destruct (inv_reachable n sched) as (_ & _ & _ & _ & HW). exact HW. Qed.
Theorem C10_T6b_notify_wakes s i sz x : nth_error (q_prods s) i = Some (PNotify true sz) -> q_cons s = CWait ->
  q_cons (prod_step s i x) = CIdle.
Proof. intros E Ec. unfold prod_step. rewrite E. cbn. rewrite Ec. reflexivity. Qed.

(* ---- the statements are not vacuous *)
Definition one_packet (i : nat) (x : tag) : list action := [AProd i x; AProd i x; AProd i x; AProd i x; AProd i x].
Example C10_E1_two_packets_decoded :
  g_decoded (run (init 1) (one_packet 0 7%Z ++ one_packet 0 8%Z ++ [ACons; ACons; ACons; ACons; ACons; ACons])) = [(0, 7%Z); (1, 8%Z)].
Proof. vm_compute. reflexivity. Qed.
Example C10_E2_buffer_reused :
  let s := run (init 1) (one_packet 0 7%Z ++ [ACons; ACons; ACons] ++ [AProd 0 9%Z]) in
  nth_error (q_prods s) 0 = Some (PGot 0) /\ q_next s = 1.
Proof. vm_compute. split; reflexivity. Qed.
Fixpoint packets (k : nat) : list action := match k with O => [] | S j => packets j ++ one_packet 0 (Z.of_nat j) end.
Example C10_E3_overflow_at_1025 :
  let s1024 := run (init 1) (packets 1024) in let s1025 := run (init 1) (packets 1025 ++ [AProd 0 0%Z]) in
  (length (g_dropped s1024) = 0 /\ g_reports s1024 = 0 /\ length (q_stuffed s1024) = 1024) /\
  (length (g_dropped s1025) = 1025 /\ g_reports s1025 = 1 /\ q_stuffed s1025 = []).
Proof. vm_compute. repeat split; reflexivity. Qed.
Example C10_E4_two_producers_interleaved :
  g_decoded (run (init 2) [AProd 0 1%Z; AProd 1 2%Z; AProd 1 2%Z; AProd 0 1%Z; AProd 1 2%Z; AProd 0 1%Z; ACons; ACons; ACons; ACons; ACons; ACons]) = [(0, 2%Z); (1, 1%Z)].
Proof. vm_compute. reflexivity. Qed.

(* T7: progress.  From every reachable state, the decoding thread alone (its steps and the always-enabled
   time-out of its wait) empties the queue within mu s rounds, drops nothing, and ends having decoded every
   packet handed over so far that no earlier overflow clear dropped: queued packets can never be stuck. *)
Theorem C10_T7_drain_progress n sched :
  let s := run (init n) sched in
  let s' := run s (QueueProgress.pair_sched (QueueProgress.mu s)) in
  q_stuffed s' = [] /\ g_held s' = [] /\ g_dropped s' = g_dropped s /\
  (forall e, In e (g_pushed s) -> ~ In e (g_dropped s) -> In e (g_decoded s')).
Proof. exact (QueueProgress.drain_progress n sched). Qed.
Print Assumptions C10_T7_drain_progress.

(* T8: the producer's side on the current source. packetGet() and packetPut() of lidar_driver_impl.hpp are regenerated on every run as
   statement trees and interpreted over this model's state (Proofs/QueueCode.v): packetGet() takes the oldest buffer of the free pool or
   allocates a new one - the model's PIdle step -; packetPut(pkt, true) pushes, and exactly when the size the push saw is above 1024 it
   reports and then clears the whole backlog - the model's PFilled .. PIdle steps taken one after the other, same queues, same ghost
   history, same counts of reports and clears *)
From RS Require Import Gen.Kernels_gen Proofs.Handover Proofs.QueueCode.
Theorem C10_T8_packetGet_code_is_model s i : nth_error (q_prods s) i = Some PIdle ->
  exists m r, qrun LidarDriverImpl_packetGet_effects (mk_pm s i None 0) = Ret m r /\ finish_get m r = Some (prod_step s i 0%Z).
Proof. exact (packetGet_code_is_model s i). Qed.
Print Assumptions C10_T8_packetGet_code_is_model.
Theorem C10_T8_packetPut_code_is_model s i b y : nth_error (q_prods s) i = Some (PFilled b y) ->
  exists m, qrun LidarDriverImpl_packetPut_effects (mk_pm s i None 0) = Go m /\
            ((POOL_MAX <? length (q_stuffed s ++ [b])) = true  -> p_s m = advn 4 s i /\ nth_error (q_prods (p_s m)) i = Some PIdle) /\
            ((POOL_MAX <? length (q_stuffed s ++ [b])) = false -> p_s m = advn 2 s i /\ nth_error (q_prods (p_s m)) i = Some (PCheck (length (q_stuffed s ++ [b]))) /\
                                                                   advn 3 s i = with_prod (p_s m) i PIdle).
Proof. exact (packetPut_code_is_model s i b y). Qed.
Print Assumptions C10_T8_packetPut_code_is_model.
(* non-vacuity: one producer that has filled buffer 0 while the queue is empty: the push is seen with size 1, nothing is cleared *)
Example C10_T8_example :
  let s := step (step (init 1) (AProd 0 7%Z)) (AProd 0 7%Z) in
  nth_error (q_prods s) 0 = Some (PFilled 0 7%Z) /\
  match qrun LidarDriverImpl_packetPut_effects (mk_pm s 0 None 0) with Go m => q_stuffed (p_s m) = [0] /\ g_clears (p_s m) = 0 /\ p_sz m = 1 | _ => False end.
Proof. vm_compute. repeat split; reflexivity. Qed.

(* T9: the queue class itself on the current source. push(), pop(), popWait() and clear() of utility/sync_queue.hpp (default build) are
   regenerated as statement trees and interpreted over a queue with its mutex (Proofs/SyncQueueCode.v): every access to queue_ happens
   while the mutex is held and the mutex is never taken twice (else the tree does not interpret), it is released before push() notifies;
   and the operations are the atomic steps this model assumes: push appends and returns the size it saw, waking the consumer exactly
   when the queue was empty; pop takes the oldest item or returns null; popWait does so on whatever the queue holds when its wait
   returns; clear drops everything *)
From RS Require Import Proofs.SyncQueueCode.
Theorem C10_T9_push_code after_wait q x :
  exists m, sqrun after_wait SyncQueue_push_effects (idle q x) = Ret m ret_size /\
            k_q m = q ++ [x] /\ k_size m = length q + 1 /\ k_notified m = (match q with [] => true | _ => false end) /\ k_locked m = false.
Proof. exact (push_code after_wait q x). Qed.
Print Assumptions C10_T9_push_code.
Theorem C10_T9_pop_code after_wait q x :
  exists m, sqrun after_wait SyncQueue_pop_effects (idle q x) = Ret m ret_value /\
            match q with [] => k_value m = None /\ k_q m = [] | y :: r => k_value m = Some y /\ k_q m = r end /\ k_locked m = true.
Proof. exact (pop_code after_wait q x). Qed.
Theorem C10_T9_popWait_code after_wait q x :
  exists m, sqrun after_wait SyncQueue_popWait_effects (idle q x) = Ret m ret_value /\
            match after_wait with [] => k_value m = None /\ k_q m = [] | y :: r => k_value m = Some y /\ k_q m = r end /\ k_locked m = true.
Proof. exact (popWait_code after_wait q x). Qed.
Theorem C10_T9_clear_code after_wait q x : exists m, sqrun after_wait SyncQueue_clear_effects (idle q x) = Go m /\ k_q m = [] /\ k_locked m = true.
Proof. exact (clear_code after_wait q x). Qed.

