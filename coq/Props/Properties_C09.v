(* C09 - No cloud before calibration; atomic calibration load; ring = vertical rank. *)
From RS Require Import Base.Tac Base.Bytes Base.Dyadic Model.Desc Model.Kernels Model.Decoder Model.Driver Model.Oracles.
From RS Require Import Gen.Kernels_gen Gen.Params_gen Proofs.Eq_Misc Proofs.Stream Proofs.DriverInv Proofs.Conservation Proofs.Calib.
Local Open Scope Z_scope.

(* T0: the range check of today's chan_angles.hpp (regenerated) is the model's *)
Theorem C09_T0_angle_check v : ChanAngles_angleCheck v = angle_check v.
Proof. exact (gen_angle_check_eq v). Qed.

(* T1: while waiting for calibration an MSOP packet is rejected: no point, no cloud, no state change *)
Theorem C09_T1_gate bl tbl v th now host b :
  c_wait_for_difop (v_cfg v) = true -> s_angles_ready (v_dec v) = false ->
  let r := process_msop bl tbl v th now host b in
  let v' := fst (fst (fst (fst r))) in
  v_dec v' = v_dec v /\ clouds_of (snd (fst (fst r))) = [] /\
  v_open v' = (if overflowed v then [] else v_open v).
Proof.
  intros Hw Hr. assert (Ha : accepts bl tbl v b = false) by (unfold accepts; rewrite Hw, Hr; reflexivity).
  pose proof (process_msop_rejected_inert bl tbl v th now host b Ha) as H. cbv zeta in H |- *.
  destruct H as (H1 & _ & _ & H4 & H5 & _). auto.
Qed.
Print Assumptions C09_T1_gate.

(* T1b/T2/T3: the gate opens exactly on a DIFOP whose first N entries are all usable; a table that
   fails is ignored as a whole; the first accepted table stays in force *)
Theorem C09_T2_atomic_and_latch d s b :
  let s' := decode_difop_common d s b in
  if s_angles_ready s then s_angles_ready s' = true /\ cal_of s' = cal_of s
  else match table_entries d b 0 (Z.to_nat (d_laser_num d)) with
       | None => s_angles_ready s' = false /\ cal_of s' = cal_of s
       | Some es => s_angles_ready s' = true /\ cal_of s' = (map fst es, map snd es, gen_user_chan (map fst es))
       end.
Proof. exact (difop_common_cal d s b). Qed.
Print Assumptions C09_T2_atomic_and_latch.
Theorem C09_T2_entry_ok d b i v h : entry_angles d b i = Some (v, h) ->
  fst (cali_entry d b true i) <> 255 /\ -9000 <= v < 9000 /\ -9000 <= h < 9000.
Proof. exact (entry_angles_ok d b i v h). Qed.
Theorem C09_T2_whole_table d b n i es : table_entries d b i n = Some es -> length es = n.
Proof. exact (table_entries_length d b n i es). Qed.
Theorem C09_T2_decoder d wp s b : d_family d = Mech ->
  s_angles_ready (decode_difop d wp s b) = s_angles_ready (decode_difop_common d s b) /\
  cal_of (decode_difop d wp s b) = cal_of (decode_difop_common d s b).
Proof. exact (decode_difop_cal d wp s b). Qed.

(* T4: ring = number of channels with a strictly smaller vertical angle; in [0, N); orders distinct beams *)
Theorem C09_T4_rank vs i : (i < length vs)%nat ->
  let a := nth i vs 0 in
  nth i (gen_user_chan vs) 0 = Z.of_nat (length (filter (fun x => x <? a) vs)) /\
  0 <= nth i (gen_user_chan vs) 0 < Z.of_nat (length vs).
Proof. exact (ring_is_rank vs i). Qed.
Theorem C09_T4_order vs i j : (i < length vs)%nat -> (j < length vs)%nat ->
  nth i vs 0 < nth j vs 0 -> nth i (gen_user_chan vs) 0 < nth j (gen_user_chan vs) 0.
Proof. exact (ring_orders_beams vs i j). Qed.
Print Assumptions C09_T4_order.

(* T5: MEMS types never wait (regenerated fact for the 6 MEMS descriptors) *)
Definition mems_ready (d : desc) : bool := match d_family d with Mems => d_init_angles_ready d | Mech => negb (d_init_angles_ready d) end.
Theorem C09_T5_mems_never_wait : forallb mems_ready all_descs = true.
Proof. vm_compute. reflexivity. Qed.

(* T6: rpm, FOV (and return mode, C15_T2) of each DIFOP govern the later decoding *)
Theorem C09_T6_difop_governs d s b :
  let s' := decode_difop_common d s b in
  let rps0 := be16 b (d_off_difop_rpm d) / 60 in
  let rps := if rps0 =? 0 then 10 else rps0 in
  let fs := be16 b (d_off_difop_fov_start d) in let fe := be16 b (d_off_difop_fov_end d) in
  let range := (if fs <? fe then fe - fs else fe + 36000 - fs) mod 65536 in
  s_rps s' = rps /\ s_blks_per_frame s' = blks_per_frame_bd (cur_bd d s) rps /\
  s_block_az_diff s' = (dy_round_half_away (dy_mul_r 53 (dy_of_Z (36000 * rps)) (cur_bd d s))) mod 65536 /\
  s_blind_ns s' = (((36000 - range) mod 65536) * 1000000000) / (36000 * rps).
Proof. exact (difop_governs d s b). Qed.

Example C09_nonvacuous : gen_user_chan [300; -1500; 0; 300; 8999] = [2; 0; 1; 2; 4].
Proof. vm_compute. reflexivity. Qed.
