(* C15 - Fixed-size frame modes deliver exactly N blocks per cloud. *)
From RS Require Import Base.Tac Base.Bytes Base.Dyadic Model.Desc Model.Kernels Model.Decoder Gen.Kernels_gen Gen.Params_gen.
From RS Require Import Proofs.Eq_SplitNum Proofs.SplitNum.
Local Open Scope Z_scope.

(* T0: the counting kernel of today's /repo is the model's *)
Theorem C15_T0_code_is_model st x n :
  let r := SplitStrategyByNum_newBlock st x n in
  let m := split_num_step n (SplitStrategyByNum_blks_ st) in
  fst r = fst m /\ SplitStrategyByNum_blks_ (snd r) = snd m.
Proof. exact (gen_split_num_eq st x n). Qed.
Print Assumptions C15_T0_code_is_model.

(* T1: with a constant N in 1..65535, block j (0-based) opens a new cloud iff N divides j+1: the
   first cloud has N-1 blocks (none if N = 1), every later cloud exactly N consecutive blocks *)
Theorem C15_T1_custom n k j : 1 <= n <= 65535 -> (j < k)%nat ->
  nth j (run_num n 0 k) false = ((Z.of_nat j + 1) mod n =? 0).
Proof. exact (run_num_from_zero n k j). Qed.
Print Assumptions C15_T1_custom.
Theorem C15_T1_any_phase n : 1 <= n <= 65535 -> forall k blks j, 0 <= blks < n -> (j < k)%nat ->
  nth j (run_num n blks k) false = ((blks + Z.of_nat j + 1) mod n =? 0).
Proof. exact (run_num_spec n). Qed.

(* T2: N in fixed mode = floor(1/(rps*T)) exactly (no double-rounding slip) for every announceable
   rps, scaled by the return mode; 600 rpm single return for a fresh decoder *)
Theorem C15_T2_exact_floor d rps : In d mech_descs -> 1 <= rps < 1093 ->
  blks_per_frame_of d rps = exact_blks d rps.
Proof. exact (blks_per_frame_exact d rps). Qed.
(* ... and for the block period T the decoder holds NOW: a Bpearl of hardware v4 replaces it (55.56 us) at its first MSOP packet,
   and every later DIFOP computes N from that one; for every other type the period held is the constructor's *)
Theorem C15_T2_exact_floor_now d s rps : In d mech_descs -> 1 <= rps < 1093 ->
  blks_per_frame_bd (cur_bd d s) rps = exact_blks_bd (cur_bd d s) rps.
Proof. intros Hd Hr. exact (blks_per_frame_bd_exact d (cur_bd d s) rps Hd (cur_bd_in d s) Hr). Qed.
Theorem C15_T2_periods : forallb bd_tabs_ok mech_descs = true.
Proof. exact bd_tabs_all. Qed.
Theorem C15_T2_initial : forallb init_split_ok mech_descs = true.
Proof. exact init_split_all. Qed.
Theorem C15_T2_after_difop d wp s b : d_family d = Mech ->
  let s' := decode_difop d wp s b in
  let rps0 := be16 b (d_off_difop_rpm d) / 60 in
  let rps := if rps0 =? 0 then 10 else rps0 in
  s_echo_dual s' = echo_of d (u8 b (d_off_difop_return_mode d)) /\
  s_blks_per_frame s' = blks_per_frame_bd (cur_bd d s) rps /\
  s_split_blks s' = split_blks_of d (s_echo_dual s') (s_blks_per_frame s').
Proof. exact (difop_split_blks d wp s b). Qed.
Print Assumptions C15_T2_after_difop.

(* T3: the value in force is read at every block: a change applies from the next block on *)
Theorem C15_T3_live c s az blks :
  s_split s = SsNum blks -> c_split_mode c = 2 ->
  split_step c s az = (fst (split_num_step (s_split_blks s) blks), SsNum (snd (split_num_step (s_split_blks s) blks))).
Proof. intros H1 H2. unfold split_step. rewrite H1, H2. reflexivity. Qed.

Example C15_nonvacuous : run_num 3 0 8 = [false; false; true; false; false; true; false; false]
  /\ split_blks_of desc_RS16 false 1801 = 900 /\ split_blks_of desc_RS32 true 1801 = 3602.
Proof. vm_compute. repeat split; reflexivity. Qed.
