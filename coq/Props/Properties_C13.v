(* C13 - Malformed captures, runt/oversized datagrams, bogus fragments: memory stays safe (partial:
   the contract of the input models is proved; binary-level safety is sanitizer-backed). *)
From RS Require Import Base.Tac Base.Bytes Model.Desc Model.Input Gen.Params_gen Proofs.InputSafe Proofs.Layout.
Local Open Scope Z_scope.

(* T1: whatever a pcap record contains, a delivered payload is a non-empty slice of bytes that were
   all captured, and fits the packet buffer *)
Theorem C13_T1_pcap_safe c f p : 0 <= i_user c -> 0 <= i_tail c -> pcap_extract c f = Some p ->
  p = slice (pf_data f) (pcap_off c) (pf_len f - pcap_off c - i_tail c) /\
  0 < blen p <= g_ETH_LEN /\ pcap_off c + blen p + i_tail c = pf_len f /\ pf_len f <= blen (pf_data f).
Proof. exact (pcap_extract_safe c f p). Qed.
Print Assumptions C13_T1_pcap_safe.

(* T2: records cut by the snap length, frames too short for the layers, frames too long for the buffer: nothing *)
Theorem C13_T2_pcap_nothing c f :
  (blen (pf_data f) < pf_len f \/ pf_len f <= pcap_off c + i_tail c \/ pf_len f - pcap_off c - i_tail c > g_ETH_LEN) ->
  pcap_extract c f = None.
Proof. exact (pcap_extract_none c f). Qed.

Theorem C13_T1_sock_safe user tail buf_len d p : 0 <= user -> 0 <= tail -> sock_extract user tail buf_len d = Some p ->
  0 < blen p /\ user + blen p + tail = Z.min (blen d) buf_len /\ p = slice d user (blen p).
Proof. exact (sock_extract_safe user tail buf_len d p). Qed.
Theorem C13_T2_sock_nothing user tail buf_len d : Z.min (blen d) buf_len <= user + tail -> sock_extract user tail buf_len d = None.
Proof. exact (sock_extract_none user tail buf_len d). Qed.

Theorem C13_T1_raw_safe user tail buf_len b p : 0 <= user -> 0 <= tail -> raw_feed user tail buf_len b = Some p ->
  blen p = blen b - user - tail /\ 0 < blen p <= buf_len /\ user + blen p + tail = blen b.
Proof. exact (raw_feed_safe user tail buf_len b p). Qed.

(* jumbo: fragment data lies inside the captured frame; the fill level stays within the 64 KiB buffer *)
Theorem C13_T1_frag_inside f id off more data : parse_frag f = FFrag id off more data ->
  exists ihl tot, 20 <= ihl /\ ihl <= tot /\ 14 + tot <= blen f /\ data = slice f (14 + ihl) (tot - ihl) /\ blen data = tot - ihl.
Proof. exact (parse_frag_inside f id off more data). Qed.
Theorem C13_T1_fill_bounded st fr : jstate_ok st -> (match fr with FFrag _ _ _ data => blen data <= 65535 | FIgnore => True end) ->
  jstate_ok (fst (jumbo_step st fr)).
Proof. exact (jumbo_step_ok st fr). Qed.

Example C13_nonvacuous :
  let c := mk_incfg 6699 7788 false 4 2 in
  pcap_extract c (mk_pframe 100 (repeat 0 12 ++ [8;0;69] ++ repeat 0 8 ++ [17] ++ repeat 0 12 ++ [26;43] ++ repeat 0 62)) = Some (repeat 0 52) /\
  pcap_extract c (mk_pframe 100 (repeat 0 12 ++ [8;0;69] ++ repeat 0 8 ++ [17] ++ repeat 0 12 ++ [26;43] ++ repeat 0 30)) = None /\
  sock_extract 4 4 1546 (repeat 7 6) = None.
Proof. vm_compute. repeat split; reflexivity. Qed.
