(* C01 - Every wire sample becomes exactly one point, in order, in exactly one frame. *)
From RS Require Import Base.Tac Base.Bytes Base.Dyadic Model.Desc Model.Kernels Model.Decoder Model.Driver Model.Oracles.
From RS Require Import Gen.Params_gen Gen.Kernels_gen Proofs.Stream Proofs.DriverInv Proofs.Conservation Proofs.Slots Proofs.Handover.
Local Open Scope Z_scope.

(* T1: for every session (any descriptor, configuration, packet list, clock readings) in which the
   documented overflow discard does not fire: delivered clouds, concatenated in delivery order and
   followed by the open frame, are exactly the points of the accepted MSOP packets in arrival order. *)
Theorem C01_T1_conservation bl tbl : forall evs v th,
  no_overflow bl tbl v th evs ->
  let r := drv_run bl tbl v th evs in
  pts_of (snd r) ++ v_open (fst (fst r)) = v_open v ++ accepted_pts bl tbl v th evs.
Proof. exact (session_conservation bl tbl). Qed.
Print Assumptions C01_T1_conservation.

(* T2/T5: one packet, unconditionally: the acceptance gate decides whether the packet's points are
   appended; the only loss is the overflow discard, which empties the open frame first. *)
Theorem C01_T2_packet bl tbl v th now host b :
  let r := process_msop bl tbl v th now host b in
  let v' := fst (fst (fst (fst r))) in
  pts_of (snd (fst (fst r))) ++ v_open v' =
    (if overflowed v then [] else v_open v) ++ (if accepts bl tbl v b then msop_pts v host b else []).
Proof. exact (process_msop_conservation bl tbl v th now host b). Qed.
Print Assumptions C01_T2_packet.

(* T3: a rejected packet changes no framing state (decoder state, cloud numbering, buffer) and
   delivers nothing. *)
Theorem C01_T3_rejected_inert bl tbl v th now host b :
  accepts bl tbl v b = false ->
  let r := process_msop bl tbl v th now host b in
  let v' := fst (fst (fst (fst r))) in
  v_dec v' = v_dec v /\ v_cloud_seq v' = v_cloud_seq v /\ v_open_buf v' = v_open_buf v /\
  v_open v' = (if overflowed v then [] else v_open v) /\
  clouds_of (snd (fst (fst r))) = [] /\ snd (fst r) = false /\ snd r = b.
Proof. exact (process_msop_rejected_inert bl tbl v th now host b). Qed.
Print Assumptions C01_T3_rejected_inert.

(* T4: the blocks decoded from one mechanical packet are exactly the blocks before the first bad
   block identifier; with NaN points kept each contributes one point per channel ... *)
Theorem C01_T4_badblock_prefix d c t w sect b pkt_ts : forall its blk s,
  let r := mech_blocks d c t w sect b pkt_ts its blk s in
  length (snd (fst r)) = good_blocks d b blk (length its) /\
  (snd r = true <-> (good_blocks d b blk (length its) < length its)%nat) /\
  (c_dense c = false -> Forall (fun bo => length (bo_points bo) = Z.to_nat (d_chans_per_blk d)) (snd (fst r))).
Proof. exact (mech_blocks_shape d c t w sect b pkt_ts). Qed.
Print Assumptions C01_T4_badblock_prefix.

(* ... carrying the slot's ring and time, and its wire intensity (0 when the slot is invalidated) *)
Theorem C01_T4b_slot_fields d c s t w sect b blk_off block_az az_diff block_ts chan :
  let p := mech_channel d c s t w sect b blk_off block_az az_diff block_ts chan in
  p_ring p = nthZ (s_ring s) (laser_of d chan) /\
  p_ts p = block_ts + nthZ (t_chan_ns t) chan /\
  p_int p = (if p_valid p then u8 b (blk_off + d_off_blk_chan d + chan * d_sizeof_chan d + d_off_chan_int d) else 0).
Proof. exact (mech_channel_fields d c s t w sect b blk_off block_az az_diff block_ts chan). Qed.
Print Assumptions C01_T4b_slot_fields.

(* regenerated parameter obligation: for all 17 descriptors the point count of a full packet is a
   multiple of the laser count (so NaN-kept clouds are rectangular) *)
Definition slots_per_pkt_ok (d : desc) : bool :=
  ((d_chans_per_blk d * (match d_proj d with ProjVecMx => 2 | _ => 1 end)) mod d_laser_num d =? 0) &&
  (0 <? d_laser_num d) && (0 <? d_blocks_per_pkt d) && (0 <? d_chans_per_blk d).
Theorem C01_P1_slots_rectangular : forallb slots_per_pkt_ok all_descs = true.
Proof. vm_compute. reflexivity. Qed.


(* T5: the documented discard, on its own. It happens exactly when an MSOP-dispatched packet arrives while the open frame holds
   MORE than 1,000,000 points: the open frame is dropped as a whole and what is delivered or open afterwards is what this packet
   contributed; ERRCODE_CLOUDOVERFLOW is reported when more than a second has passed since its last report; otherwise (T5b)
   nothing of the open frame is lost *)
Theorem C01_T5_overflow_discards bl tbl v th now host b stale : (ev_is_msop b stale && overflowed v)%bool = true ->
  let r := process_packet bl tbl v th now host b stale in
  Z.of_nat (length (v_open v)) > 1000000 /\
  pts_of (snd r) ++ v_open (fst (fst r)) = (if accepts bl tbl v b then msop_pts v host b else []).
Proof.
  intros H. pose proof (process_packet_conservation bl tbl v th now host b stale) as C. cbv zeta in C. rewrite H in C.
  apply andb_prop in H. destruct H as [Hm Ho]. rewrite Hm in C. cbn [andb app] in C.
  split; [apply overflow_guard_iff; rewrite <- overflowed_guard; exact Ho | exact C].
Qed.
Theorem C01_T5_overflow_reported bl tbl v th now host b : overflowed v = true ->
  now - (match th_get th ERR_CLOUDOVERFLOW with Some p => p | None => 0 end) > 1 ->
  In (OErr ERR_CLOUDOVERFLOW) (snd (fst (fst (process_msop bl tbl v th now host b)))).
Proof. exact (process_msop_overflow_report bl tbl v th now host b). Qed.
Theorem C01_T5b_otherwise_nothing_lost bl tbl v th now host b stale : (ev_is_msop b stale && overflowed v)%bool = false ->
  let r := process_packet bl tbl v th now host b stale in
  pts_of (snd r) ++ v_open (fst (fst r)) = v_open v ++ (if (ev_is_msop b stale && accepts bl tbl v b)%bool then msop_pts v host b else []).
Proof.
  intros H. pose proof (process_packet_conservation bl tbl v th now host b stale) as C. cbv zeta in C. rewrite H in C. exact C.
Qed.
Theorem C01_T5_threshold n : overflow_guard n = true <-> n > 1000000.
Proof. exact (overflow_guard_iff n). Qed.
Print Assumptions C01_T5_overflow_discards.

(* T6: the frame hand-over as the current source does it (splitFrame() regenerated as a statement tree and interpreted, see C06_T7):
   a non-empty open frame goes to the put callback whole - every point it holds, in order, under the frame's number and buffer -
   and only then is the caller asked for the next buffer; the decoder goes on with an empty one *)
Theorem C01_T6_code_hands_over_whole_frame v th now ts p ps : v_open v = p :: ps ->
  exists s c rest, run sst (s_atom now ts) s_cond 8 LidarDriverImpl_splitFrame_effects (mk_sst v th [] None None) = Go s /\
                   s_out s = OCloud c :: rest /\ cl_points c = p :: ps /\ cl_seq c = v_cloud_seq v /\ cl_buf c = v_open_buf v /\
                   v_open (s_v s) = [] /\ v_cloud_seq (s_v s) = (v_cloud_seq v + 1) mod 4294967296.
Proof. exact (splitFrame_code_whole_frame v th now ts p ps). Qed.
Print Assumptions C01_T6_code_hands_over_whole_frame.

(* non-vacuity: a concrete RS32 session satisfies no_overflow and produces clouds *)
Example C01_nonvacuous :
  let d := desc_RS32 in
  let c := mk_dcfg false false 1 100 1 dy_zero dy_zero 0 36000 true false false 0 0 0 false [] in
  let mk az := [85;170;5;10;90;165;80;160] ++ repeat 0 34 ++
               flat_map (fun k => [255;238; ((az + 20 * k) mod 36000) / 256; ((az + 20 * k) mod 36000) mod 256] ++ repeat 7 96) (map Z.of_nat (seq 0 12)) ++ repeat 0 6 in
  let '(v0, th, _) := init_drv d c [] 1000 [] 10 in
  let evs := [(12, 0, mk 35900, []); (14, 0, mk 140, [])] in
  no_overflow (mk_build false false) [] v0 th evs /\
  length (clouds_of (snd (drv_run (mk_build false false) [] v0 th evs))) = 1%nat.
Proof. vm_compute. repeat split; reflexivity. Qed.
