(* C20 - Optional build features change only what they document. *)
From RS Require Import Base.Tac Base.Bytes Model.Desc Model.Decoder Model.Driver Gen.Params_gen Proofs.Crc Proofs.CrcBits Proofs.BuildFlags.
Local Open Scope Z_scope.

(* T1: ENABLE_DIFOP_PARSE.  For every packet history (wall clock, host clock, bytes), a driver built
   with the option and one built without it produce the same outputs - clouds, packet records, error
   reports - and the same throttle state; their decoder states differ at most in the device-info /
   device-status fields, which nothing but getDeviceInfo/getDeviceStatus reads. *)
Theorem C20_T1_difop_parse_inert crc tbl ps v di ds th : exists di' ds',
  feed_all (mk_build crc true) tbl (vdev v di ds) th ps = on_drv3 di' ds' (feed_all (mk_build crc false) tbl v th ps).
Proof. exact (difop_parse_inert crc tbl ps v di ds th). Qed.
Print Assumptions C20_T1_difop_parse_inert.
Theorem C20_T1b_observers v di ds :
  get_temperature (vdev v di ds) = get_temperature v /\ v_open (vdev v di ds) = v_open v /\
  v_open_buf (vdev v di ds) = v_open_buf v /\ v_cloud_seq (vdev v di ds) = v_cloud_seq v /\ v_pkt_seq (vdev v di ds) = v_pkt_seq v.
Proof. exact (observers_dev v di ds). Qed.

(* T2: the 256-entry table regenerated from basic_attr.hpp is the reflected IEEE 802.3 table
   (polynomial 0xEDB88320): entry i is eight bitwise rounds of i *)
Theorem C20_T2_table : g_crc_table = map iter8 (zrange 0 256).
Proof. exact table_is_bitwise. Qed.

(* T3: for every byte string the table-driven computation (calcCrc32 with first = true) is the
   bit-by-bit IEEE CRC-32 (init 0xFFFFFFFF, reflected, final xor 0xFFFFFFFF) *)
Theorem C20_T3_crc_is_ieee data : Forall (fun b => 0 <= b < 256) data ->
  crc_calc g_crc_table data 0 true = crc_bitwise data.
Proof. exact (crc_calc_is_bitwise data). Qed.
Print Assumptions C20_T3_crc_is_ieee.
Example C20_T3_check_value : crc_bitwise [49;50;51;52;53;54;55;56;57] = 3421780262.   (* "123456789" -> 0xCBF43926 *)
Proof. vm_compute. reflexivity. Qed.

(* T4: chaining (first = false with the previous value) equals one pass over the concatenation *)
Theorem C20_T4_chaining tbl a b : crc_calc tbl b (crc_calc tbl a 0 true) false = crc_calc tbl (a ++ b) 0 true.
Proof. exact (crc_chaining tbl a b). Qed.

(* T5: the acceptance rule of isCrc32Correct for every packet of at least 6 bytes: the stored
   big-endian value at length-6 against the IEEE CRC-32 of all bytes before it followed by the final
   2-byte rolling counter *)
Theorem C20_T5_rule b : Forall (fun x => 0 <= x < 256) b -> 6 <= blen b ->
  crc_ok g_crc_table b = (crc_bitwise (firstn (Z.to_nat (blen b - 6)) b ++ slice b (blen b - 2) 2) =? be32 b (blen b - 6)).
Proof. exact (crc_rule b). Qed.
Print Assumptions C20_T5_rule.

(* T6: with ENABLE_CRC32_CHECK exactly the packets failing T5's rule are rejected, with WRONGCRC32 and
   nothing else; a packet that passes is processed as in the default build.  (The rule is evaluated
   after the wait-for-DIFOP, length and identifier checks, which are the same in both builds.) *)
Theorem C20_T6_accepting tbl v th now host b p : crc_ok tbl b = true ->
  process_msop (mk_build true p) tbl v th now host b = process_msop (mk_build false p) tbl v th now host b.
Proof. exact (crc_flag_only_rejects tbl v th now host b p). Qed.
Theorem C20_T6_rejecting tbl v th now host b p :
  Z.of_nat (length (v_open v)) <= CLOUD_POINT_MAX ->
  (c_wait_for_difop (v_cfg v) && negb (s_angles_ready (v_dec v))) = false ->
  blen b = d_msop_len (v_desc v) -> match_at b 0 (d_msop_id (v_desc v)) = true -> crc_ok tbl b = false ->
  process_msop (mk_build true p) tbl v th now host b =
  (v, fst (limit_call th now ERR_WRONGCRC32), snd (limit_call th now ERR_WRONGCRC32), false, b).
Proof. exact (crc_rejects tbl v th now host b p). Qed.

(* T7: single-bit corruptions.  (a) Flipping any one bit of any one byte of the data the CRC covers
   (everything before the stored value, and the rolling counter) changes the computed CRC-32 - the bit
   step is an injective GF(2)-linear map on 32-bit values, so differing running values stay different;
   (b) flipping any one bit of the stored big-endian value changes the value read.  With T5: a packet
   that passes the check fails it after any single-bit corruption at or after its identifier. *)
Theorem C20_T7a_covered_bit pre b post p :
  Forall (fun x => 0 <= x < 256) pre -> 0 <= b < 256 -> Forall (fun x => 0 <= x < 256) post -> 0 <= p < 8 ->
  crc_bitwise (pre ++ b :: post) <> crc_bitwise (pre ++ Z.lxor b (2 ^ p) :: post).
Proof. exact (CrcBits.crc_single_bit pre b post p). Qed.
Print Assumptions C20_T7a_covered_bit.
Theorem C20_T7b_stored_bit a0 a1 a2 a3 rest k p :
  0 <= a0 < 256 -> 0 <= a1 < 256 -> 0 <= a2 < 256 -> 0 <= a3 < 256 -> 0 <= p < 8 -> (k < 4)%nat ->
  let flip (i : nat) (x : Z) := if Nat.eqb i k then Z.lxor x (2 ^ p) else x in
  be32 (flip 0%nat a0 :: flip 1%nat a1 :: flip 2%nat a2 :: flip 3%nat a3 :: rest) 0 <> be32 (a0 :: a1 :: a2 :: a3 :: rest) 0.
Proof. exact (CrcBits.stored_single_bit a0 a1 a2 a3 rest k p). Qed.
