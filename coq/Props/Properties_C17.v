(* C17 - Driver instances in one process do not influence each other's output. *)
From RS Require Import Base.Tac Base.Bytes Model.Desc Model.Decoder Model.Driver Model.Input Model.Scenario Proofs.Instances.
Local Open Scope Z_scope.

(* T1: for every history of events over any number of instances (creation, packets fed by any of the
   three inputs, stop, getter calls, clock changes) and every instance i: the clouds, buffer
   requests, packet records and getter results of i are exactly those of the history with every
   event of every other instance removed.  Error reports are excluded: their throttle is process-wide. *)
Theorem C17_T1_instance_independent bl tbl i es w w' : view i w = view i w' ->
  mine i (run bl tbl w es) = mine i (run bl tbl w' (filter (concerns i) es)).
Proof. exact (instance_independent bl tbl i es w w'). Qed.
Print Assumptions C17_T1_instance_independent.

Corollary C17_T1_from_start bl tbl i es :
  mine i (run bl tbl world0 es) = mine i (run bl tbl world0 (filter (concerns i) es)).
Proof. apply C17_T1_instance_independent. reflexivity. Qed.

(* T2: an event of instance j leaves everything instance i can see untouched and emits nothing for i *)
Theorem C17_T2_other_inert bl tbl w e i j : ev_inst e = Some j -> j <> i ->
  view i (fst (step bl tbl w e)) = view i w /\ mine i (snd (step bl tbl w e)) = [].
Proof. exact (step_other bl tbl w e i j). Qed.

(* T3: the one piece of shared state, the error throttle, influences neither the driver state nor
   any output other than error reports *)
Theorem C17_T3_throttle_only_errors bl tbl v th th' now host b stale :
  fst (fst (process_packet bl tbl v th now host b stale)) = fst (fst (process_packet bl tbl v th' now host b stale)) /\
  quiet (snd (process_packet bl tbl v th now host b stale)) = quiet (snd (process_packet bl tbl v th' now host b stale)).
Proof. exact (process_packet_th bl tbl v th th' now host b stale). Qed.

(* the filter of T1 keeps the instance's own events and the clocks, nothing else *)
Example C17_concerns : concerns 1 (EPkt 1 []) = true /\ concerns 1 (EPkt 2 []) = false /\ concerns 1 (EWall 5) = true /\ concerns 1 (EStop 0) = false.
Proof. repeat split; reflexivity. Qed.

(* T3b: in the current source the bodies behind the process-wide report timers do nothing but report (extracted sites: one code
   each, no other call): no discard, clear or other state change of an instance can depend on what another instance reported *)
From RS Require Import Gen.Kernels_gen Proofs.Throttle.
Theorem C17_T3b_limited_bodies_only_report : forallb site_ok throttle_sites = true.
Proof. exact (proj1 throttle_sites_shape). Qed.
