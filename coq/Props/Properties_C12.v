(* C12 - pcap file, UDP socket and raw-packet API extract the same payloads. *)
From RS Require Import Base.Tac Base.Bytes Model.Desc Model.Input Gen.Params_gen Proofs.InputSafe.
Local Open Scope Z_scope.

(* T1a: a complete record that the port filter accepts is stripped exactly as decodePacket strips the
   frame's UDP payload (the bytes after the 42(+4)-byte Ethernet/IPv4/UDP headers) *)
Theorem C12_T1_pcap_is_raw c f : 0 <= i_user c -> 0 <= i_tail c ->
  blen (pf_data f) = pf_len f ->
  g_ETH_HDR_LEN + (if i_vlan c then g_VLAN_HDR_LEN else 0) <= pf_len f ->
  (bpf_udp (i_vlan c) (Some (i_msop_port c)) (pf_data f) || (difop_filter_valid c && bpf_udp (i_vlan c) (Some (i_difop_port c)) (pf_data f))) = true ->
  pcap_extract c f = raw_feed (i_user c) (i_tail c) g_ETH_LEN (udp_payload c f).
Proof. exact (pcap_is_raw c f). Qed.
Print Assumptions C12_T1_pcap_is_raw.

(* T1b: a datagram that fits the packet buffer is stripped by the socket input exactly as by decodePacket *)
Theorem C12_T1_sock_is_raw user tail buf_len d : blen d <= buf_len -> 0 <= user -> 0 <= tail ->
  sock_extract user tail buf_len d = raw_feed user tail buf_len d.
Proof. exact (sock_is_raw user tail buf_len d). Qed.

(* T2: port rules: frames to other ports or protocols contribute nothing; DIFOP port 0 or equal to
   the MSOP port means a single filter / socket *)
Theorem C12_T2_foreign c f :
  bpf_udp (i_vlan c) (Some (i_msop_port c)) (pf_data f) = false ->
  (difop_filter_valid c && bpf_udp (i_vlan c) (Some (i_difop_port c)) (pf_data f)) = false ->
  pcap_extract c f = None.
Proof. exact (pcap_foreign c f). Qed.
Theorem C12_T2_difop_disabled c : i_difop_port c = 0 \/ i_difop_port c = i_msop_port c -> difop_filter_valid c = false.
Proof. exact (difop_disabled c). Qed.

Example C12_nonvacuous :
  let c := mk_incfg 6699 7788 false 0 0 in
  let f := repeat 0 12 ++ [8;0;69] ++ repeat 0 8 ++ [17] ++ repeat 0 12 ++ [26;43] ++ repeat 0 4 ++ [85;170;1;2;3] in
  bpf_udp false (Some 6699) f = true /\ bpf_udp false (Some 7788) f = false /\
  pcap_extract c (mk_pframe 47 f) = Some [85;170;1;2;3] /\ raw_feed 0 0 1546 [85;170;1;2;3] = Some [85;170;1;2;3].
Proof. vm_compute. repeat split; reflexivity. Qed.

(* ---- T3: end of the capture file (the reader's loop as regenerated from input_pcap.hpp / input_pcap_jumbo.hpp by kt.py:
   per round, whether the loop goes on and which event codes it hands to the exception callback) ---- *)
From Coq Require Import String.
From RS Require Import Gen.Kernels_gen Model.Worker Proofs.WorkerExit.
(* without pcap_repeat: ERRCODE_PCAPEXIT is reported and the loop is left ... *)
Theorem C12_T3_eof_exit cs : nth 0 cs false = false -> nth 10 cs false = true -> nth 11 cs false = false ->
  InputPcap_recvPacket_round false cs = RBrk /\ InputPcap_recvPacket_reports false cs = ["ERRCODE_PCAPEXIT"%string].
Proof. exact (pcap_eof_exit cs). Qed.
(* ... for good: a reader that has left its loop runs no further round (reads nothing, reports nothing more) *)
Theorem C12_T3_stops_reading s acts : w_returned s = true -> w_rounds (wrun InputPcap_recvPacket_round s acts) = w_rounds s.
Proof. exact (no_round_after_return _ s acts). Qed.
(* with pcap_repeat: ERRCODE_PCAPREPEAT is reported and the loop goes on (the file is opened again on that path) *)
Theorem C12_T3_eof_repeat cs : nth 0 cs false = false -> nth 10 cs false = true -> nth 11 cs false = true ->
  InputPcap_recvPacket_round false cs = RCont /\ InputPcap_recvPacket_reports false cs = ["ERRCODE_PCAPREPEAT"%string].
Proof. exact (pcap_eof_repeat cs). Qed.
(* a record that could be read raises no event and does not end the loop *)
Theorem C12_T3_record_quiet cs : nth 0 cs false = false -> nth 10 cs false = false ->
  InputPcap_recvPacket_round false cs = RCont /\ InputPcap_recvPacket_reports false cs = [].
Proof. exact (pcap_record_quiet cs). Qed.
(* which conditions those positions are in the current source *)
Theorem C12_T3_conditions :
  nth 0 InputPcap_recvPacket_conds ""%string = "pcap_ == NULL"%string /\
  nth 10 InputPcap_recvPacket_conds ""%string = "ret < 0"%string /\
  nth 11 InputPcap_recvPacket_conds ""%string = "input_param_.pcap_repeat"%string /\
  nth 2 InputPcap_recvPacket_conds ""%string = "ret < 0"%string /\
  nth 3 InputPcap_recvPacket_conds ""%string = "input_param_.pcap_repeat"%string.
Proof. exact pcap_round_conds. Qed.
(* the jumbo reader ends its file the same way *)
Theorem C12_T3_jumbo_eof cs : nth 0 cs false = false -> nth 10 cs false = true ->
  (nth 11 cs false = false -> InputPcapJumbo_recvPacket_round false cs = RBrk /\ InputPcapJumbo_recvPacket_reports false cs = ["ERRCODE_PCAPEXIT"%string]) /\
  (nth 11 cs false = true -> InputPcapJumbo_recvPacket_round false cs = RCont /\ InputPcapJumbo_recvPacket_reports false cs = ["ERRCODE_PCAPREPEAT"%string]).
Proof. exact (pcap_jumbo_eof cs). Qed.
Print Assumptions C12_T3_jumbo_eof.
