(* C12 - pcap file, UDP socket and raw-packet API extract the same payloads. *)
From RS Require Import Base.Tac Base.Bytes Model.Desc Model.Input Gen.Params_gen Proofs.InputSafe.
Local Open Scope Z_scope.

(* T1a: a complete record that the port filter accepts is stripped exactly as decodePacket strips the
   frame's UDP payload (the bytes after the 42(+4)-byte Ethernet/IPv4/UDP headers) *)
Theorem C12_T1_pcap_is_raw c f : 0 <= i_user c -> 0 <= i_tail c ->
  blen (pf_data f) = pf_len f ->
  g_ETH_HDR_LEN + (if i_vlan c then g_VLAN_HDR_LEN else 0) <= pf_len f ->
  (bpf_udp (i_vlan c) (Some (i_msop_port c)) (pf_data f) || (difop_filter_valid c && bpf_udp (i_vlan c) (Some (i_difop_port c)) (pf_data f))) = true ->
  pcap_extract c f = raw_feed (i_user c) (i_tail c) g_ETH_LEN (udp_payload c f).
Proof. exact (pcap_is_raw c f). Qed.
Print Assumptions C12_T1_pcap_is_raw.

(* T1b: a datagram that fits the packet buffer is stripped by the socket input exactly as by decodePacket *)
Theorem C12_T1_sock_is_raw user tail buf_len d : blen d <= buf_len -> 0 <= user -> 0 <= tail ->
  sock_extract user tail buf_len d = raw_feed user tail buf_len d.
Proof. exact (sock_is_raw user tail buf_len d). Qed.

(* T2: port rules: frames to other ports or protocols contribute nothing; DIFOP port 0 or equal to
   the MSOP port means a single filter / socket *)
Theorem C12_T2_foreign c f :
  bpf_udp (i_vlan c) (Some (i_msop_port c)) (pf_data f) = false ->
  (difop_filter_valid c && bpf_udp (i_vlan c) (Some (i_difop_port c)) (pf_data f)) = false ->
  pcap_extract c f = None.
Proof. exact (pcap_foreign c f). Qed.
Theorem C12_T2_difop_disabled c : i_difop_port c = 0 \/ i_difop_port c = i_msop_port c -> difop_filter_valid c = false.
Proof. exact (difop_disabled c). Qed.

Example C12_nonvacuous :
  let c := mk_incfg 6699 7788 false 0 0 in
  let f := repeat 0 12 ++ [8;0;69] ++ repeat 0 8 ++ [17] ++ repeat 0 12 ++ [26;43] ++ repeat 0 4 ++ [85;170;1;2;3] in
  bpf_udp false (Some 6699) f = true /\ bpf_udp false (Some 7788) f = false /\
  pcap_extract c (mk_pframe 47 f) = Some [85;170;1;2;3] /\ raw_feed 0 0 1546 [85;170;1;2;3] = Some [85;170;1;2;3].
Proof. vm_compute. repeat split; reflexivity. Qed.
