(* C06 - Delivered clouds: non-empty, well-shaped, gap-free seq, no stale points. *)
From RS Require Import Base.Tac Base.Bytes Base.Dyadic Model.Desc Model.Kernels Model.Decoder Model.Driver Model.Oracles.
From RS Require Import Gen.Params_gen Gen.Kernels_gen Proofs.Stream Proofs.DriverInv Proofs.Conservation Proofs.Handover.
Local Open Scope Z_scope.


(* T1: for every descriptor, configuration, caller behaviour of the get callback (any script of
   buffers and nulls), and packet list: the whole output history of a session passes `scan`, i.e.
   every cloud is non-empty, has height*width matching its points (height = laser count / 1,
   is_dense as configured), carries the buffer of the most recent non-null get answer, is handed
   back once (a new get precedes the next cloud), and clouds and packet records are numbered
   0,1,2,... *)
Theorem C06_T1_history bl tbl d c answers fresh th0 now0 evs :
  let '(v0, th1, o0) := init_drv d c answers fresh th0 now0 in
  let '(v1, th2, o1) := drv_run bl tbl v0 th1 evs in
  exists h, scan d c (mk_hist 0 None 0) (o0 ++ o1) = Some h /\ h_seq h = v_cloud_seq v1.
Proof. exact (session_history_ok bl tbl d c answers fresh th0 now0 evs). Qed.
Print Assumptions C06_T1_history.

(* T2: every delivered cloud is non-empty and well shaped (Prop form, per packet) *)
Theorem C06_T2_shape : forall bs v th now,
  Forall (cloud_ok (v_desc v) (v_cfg v)) (clouds_of (snd (feed_blocks v th now bs))).
Proof. exact feed_blocks_clouds_ok. Qed.
Print Assumptions C06_T2_shape.

(* T3: a null answer is only ever answered by asking again (and offering ERRCODE_POINTCLOUDNULL to
   the throttle); the buffer finally used is the first non-null answer *)
Theorem C06_T3_null_retry d c : forall fuel answers fresh th now h,
  (length answers < fuel)%nat ->
  let r := get_cloud fuel answers fresh th now in
  scan d c h (snd r) = Some (mk_hist (h_seq h) (Some (fst (fst (fst (fst r))))) (h_pkt h)).
Proof. exact (scan_get_cloud d c). Qed.
Print Assumptions C06_T3_null_retry.

(* T4: no stale points: everything delivered comes from decoding (conservation, C01_T1), so points
   left in a recycled buffer cannot appear: stated as: outputs + open = open + decoded points *)
Theorem C06_T4_no_stale : forall bs v th now,
  let r := feed_blocks v th now bs in
  pts_of (snd r) ++ v_open (fst (fst r)) = v_open v ++ flat_map bo_points bs.
Proof. intros bs v th now. exact (proj1 (feed_blocks_spec bs v th now)). Qed.
Print Assumptions C06_T4_no_stale.

(* T7: the hand-over code itself. splitFrame(), setPointCloudHeader() and getPointCloud() of lidar_driver_impl.hpp are regenerated on
   every run as statement trees (Gen/Kernels_gen.v, leaves = source text); Proofs/Handover.v gives every leaf a meaning on the model's
   driver state through a fixed dictionary and interprets `if` / `while` / `return`. The interpreted current source IS the model's
   split_frame / header / get_cloud, for every state, every script of the get callback and every clock value: a frame is delivered
   iff it is non-empty, with its header (seq consumed only then, height / width / is_dense as configured) and all its points, BEFORE the
   caller is asked for the next buffer; null answers are retried and reported through the throttle; the buffer handed to the decoder is emptied *)
Theorem C06_T7_splitFrame_code_is_model v th now ts :
  exists s, run sst (s_atom now ts) s_cond 8 LidarDriverImpl_splitFrame_effects (mk_sst v th [] None None) = Go s /\
            (s_v s, s_th s, s_out s) = split_frame v th now ts.
Proof. exact (splitFrame_code_is_model v th now ts). Qed.
Print Assumptions C06_T7_splitFrame_code_is_model.
Theorem C06_T7_header_code_is_model dense lasers n seq ts h0 :
  0 <= n < 4294967296 -> 0 < lasers -> hd_next_seq h0 = seq -> hd_npts h0 = n ->
  exists h, run hst (h_atom dense lasers ts) h_cond 12 LidarDriverImpl_setPointCloudHeader_effects h0 = Go h /\
            (hd_seq h, hd_ts h, hd_dense h, hd_height h, hd_width h) = model_header dense lasers n seq ts /\
            hd_next_seq h = (seq + 1) mod 4294967296 /\ hd_frame_id h = true.
Proof. exact (setPointCloudHeader_code_is_model dense lasers n seq ts h0). Qed.
Theorem C06_T7_getPointCloud_code_is_model now ans fresh th o0 :
  let '(id, a, f, th1, o) := get_cloud (S (length ans)) ans fresh th now in
  run_get now LidarDriverImpl_getPointCloud_effects (6 + length ans) (mk_gst ans fresh th o0 None false) =
  Ret (mk_gst a f th1 (o0 ++ o) (Some id) true) ret_cloud.
Proof. exact (getPointCloud_code_is_model now ans fresh th o0). Qed.
Print Assumptions C06_T7_getPointCloud_code_is_model.
(* non-vacuity of T7: an open frame of two points, a caller that answers null once: the cloud goes out first, then get / report / get *)
Example C06_T7_example :
  let v := mk_drv desc_RS32 (mk_dcfg false true 1 0 1 dy_zero dy_zero 0 36000 true false false 0 0 0 false []) (init_dstate desc_RS32 (mk_dcfg false true 1 0 1 dy_zero dy_zero 0 36000 true false false 0 0 0 false []))
                  7 [mk_point PNone 1 2 3; mk_point PNone 4 5 6] 0 41 [None; Some 9] 1000 in
  match run sst (s_atom 100 555) s_cond 8 LidarDriverImpl_splitFrame_effects (mk_sst v [] [] None None) with
  | Go s => map (fun o => match o with OCloud c => (cl_seq c, cl_buf c, Z.of_nat (length (cl_points c))) | OGet (Some b) => (-1, b, 0) | OGet None => (-2, 0, 0) | OErr c => (-3, c, 0) | _ => (-4, 0, 0) end) (s_out s)
            = [(41, 7, 2); (-2, 0, 0); (-3, 130, 0); (-1, 9, 0)] /\ v_cloud_seq (s_v s) = 42 /\ v_open_buf (s_v s) = 9
  | _ => False
  end.
Proof. vm_compute. repeat split; reflexivity. Qed.

(* non-vacuity: a session with a null answer, a recycled id and two clouds *)
Example C06_nonvacuous :
  let d := desc_RS32 in
  let c := mk_dcfg false false 3 0 12 dy_zero dy_zero 0 36000 true false true 0 0 0 false [] in
  let mk az := [85;170;5;10;90;165;80;160] ++ repeat 0 34 ++
               flat_map (fun k => [255;238; (az + 20 * k) / 256; (az + 20 * k) mod 256] ++ repeat 7 96) (map Z.of_nat (seq 0 12)) ++ repeat 0 6 in
  let '(v0, th, o0) := init_drv d c [Some 1; None; Some 2; Some 1] 1000 [] 10 in
  let '(v1, _, o1) := drv_run (mk_build false false) [] v0 th [(12, 0, mk 100, []); (14, 0, mk 340, []); (16, 0, mk 580, [])] in
  length (clouds_of o1) = 3%nat /\ gets_of (o0 ++ o1) = [Some 1; None; Some 2; Some 1; Some 1000].
Proof. vm_compute. split; reflexivity. Qed.
