(* C04 - MEMS frames follow packet numbers; tolerated loss/reorder never splits a scan. *)
From RS Require Import Base.Tac Gen.Kernels_gen Model.Kernels Model.Spec Proofs.Eq_SplitSeq Proofs.SplitSeq.
Local Open Scope Z_scope.

(* T0: SplitStrategyBySeq of today's /repo (regenerated) is the model kernel, under its own
   representation invariant (safe range = function of the position), which it preserves *)
Theorem C04_T0_code_is_model g s : seq_wf g -> 0 <= s < 65536 ->
  let r := SplitStrategyBySeq_newPacket g s in
  fst r = fst (seq_step (seq_abs g) s) /\ seq_abs (snd r) = snd (seq_step (seq_abs g) s) /\ seq_wf (snd r).
Proof. exact (gen_seq_eq g s). Qed.
Theorem C04_T0_ctor : seq_wf SplitStrategyBySeq_ctor /\ seq_abs SplitStrategyBySeq_ctor = seq_init.
Proof. exact gen_seq_ctor. Qed.
Print Assumptions C04_T0_code_is_model.

Theorem C04_T1_split_iff st s : 0 <= s ->
  (fst (seq_step st s) = true <-> s + 10 < sq_prev st) /\ fst (seq_step st s) = rewindb (sq_prev st) s.
Proof. exact (seq_split_iff st s). Qed.
Print Assumptions C04_T1_split_iff.

Theorem C04_T2_position st s : 0 <= s -> sq_prev st <= 65525 -> sq_prev st - 10 <= s <= sq_prev st + 10 ->
  fst (seq_step st s) = false /\ sq_prev (snd (seq_step st s)) = Z.max (sq_prev st) s /\
  sq_looped (snd (seq_step st s)) = sq_looped st.
Proof. exact (seq_tolerated st s). Qed.

Theorem C04_T3_m1_end st s : 0 <= s ->
  let st' := snd (seq_step st s) in
  (seq_max_seq st' =? s) = (if sq_looped st' then sq_max st' =? s else s =? 0).
Proof. exact (m1_end_split st s). Qed.
Theorem C04_T3_max st s : sq_max (snd (seq_step st s)) = Z.max (sq_max st) s.
Proof. exact (seq_max_tracks st s). Qed.

(* T4: any number of scans of any lengths: with every number within 10 of the position tracked so
   far and each scan's first number more than 10 below the position reached by the previous scan,
   the split flags are: one at the first packet of every scan, none elsewhere *)
Theorem C04_T4_whole_scans : forall scans st, scans_ok (sq_prev st) scans ->
  fst (run_seq st (flat_map (fun s => fst s :: snd s) scans)) =
  flat_map (fun s => scan_flags false (length (snd s))) scans.
Proof. exact whole_scans. Qed.
Print Assumptions C04_T4_whole_scans.
Theorem C04_T4_first_scan f rest : 0 <= f <= 65525 -> tolerated f rest ->
  fst (run_seq seq_init (f :: rest)) = scan_flags true (length rest) /\
  sq_prev (snd (run_seq seq_init (f :: rest))) = track f rest.
Proof. exact (first_scan f rest). Qed.

(* R1 (recorded finding, M1 only): when the scan grows after the first rewind, every packet above
   the old maximum is "the highest number seen": scans [1..3];[1..3];[1..5] close a cloud after 4 and after 5 *)
Example C04_R1_m1_growth :
  let st := snd (run_seq seq_init [1;2;3;1;2;3;1;2;3]) in
  map (fun s => seq_max_seq (snd (seq_step (mk_seq (s - 1) 3 true) s)) =? s) [4; 5] = [true; true].
Proof. vm_compute. reflexivity. Qed.

Example C04_nonvacuous :
  scans_ok 30 [(1, [2;3;13;12;14;15]); (2, [1;3;4])] /\
  fst (run_seq (mk_seq 30 30 true) [1;2;3;13;12;14;15; 2;1;3;4]) = [true;false;false;false;false;false;false; true;false;false;false].
Proof. split; [cbn; lia | vm_compute; reflexivity]. Qed.
