(* C08 - Arbitrary bytes never cause memory-unsafe or undefined behaviour in decoding (partial: the
   byte-level contract is proved on the model; absence of UB in the binary is sanitizer-backed). *)
From RS Require Import Base.Tac Base.Bytes Base.Dyadic Model.Desc Model.Kernels Model.Decoder Model.Driver Model.Input Gen.Params_gen.
From RS Require Import Gen.Kernels_gen Proofs.SplitNum Proofs.Coords Proofs.Conservation Proofs.Layout Proofs.Eq_Trigon Proofs.Eq_Copy Proofs.Footprint.
Local Open Scope Z_scope.

(* T1: read footprint. What a decoder computes from an accepted packet depends on the bytes of that packet only: for each of the
   17 regenerated descriptors, every configuration and state, a packet followed in memory by ARBITRARY other bytes decodes exactly as
   the packet alone - same state, same points in the same blocks, same frame boundaries, same bad-block verdict. (The model's
   readers are total; this is the form "never reads outside the packet" takes for it. More generally any two byte strings that
   agree on the accepted length decode alike: Proofs/Footprint.v.) *)
Theorem C08_T1_mech_reads_inside_packet d c s b junk h1 h2 : In d all_descs -> d_family d = Mech -> blen b = d_msop_len d ->
  let r := decode_msop_mech d c s b h1 h2 in
  let r' := decode_msop_mech d c s (b ++ junk) h1 h2 in
  mr_state r = mr_state r' /\ mr_blocks r = mr_blocks r' /\ mr_ret r = mr_ret r' /\ mr_bad_blkid r = mr_bad_blkid r' /\ mr_end_split r = mr_end_split r'.
Proof. exact (mech_packet_alone d c s b junk h1 h2). Qed.
Print Assumptions C08_T1_mech_reads_inside_packet.
(* ... and for the MEMS types, per (sub-)packet at offset base (jumbo: 63 sub packets of sub_size bytes) *)
Theorem C08_T1_mems_reads_inside_packet d c s b junk base h1 h2 : In d all_descs -> d_family d = Mems -> 0 <= base -> base + sub_size d <= blen b ->
  let r := decode_msop_mems_sub d c s b base h1 h2 in
  let r' := decode_msop_mems_sub d c s (b ++ junk) base h1 h2 in
  fst (fst (fst r)) = fst (fst (fst r')) /\ snd (fst (fst r)) = snd (fst (fst r')) /\ snd r = snd r'.
Proof. exact (mems_sub_alone d c s b junk base h1 h2). Qed.
(* ... and the DIFOP decoders (rpm / FOV / return mode, the calibration table loader with its three adapters, device identity
   and status): an accepted DIFOP packet followed by arbitrary bytes decodes as the packet alone *)
Theorem C08_T1_difop_reads_inside_packet d with_parse s b junk : In d all_descs -> blen b = d_difop_len d ->
  decode_difop d with_parse s (b ++ junk) = decode_difop d with_parse s b.
Proof. exact (difop_packet_alone d with_parse s b junk). Qed.
(* the layout facts the footprint rests on hold for every regenerated descriptor *)
Theorem C08_T1_descriptors_ok : forallb (fun d => msop_layout_ok d && nonneg_ok d && iters_ok d) all_descs = true.
Proof. exact all_descs_footprint_ok. Qed.

(* T2: for all 17 regenerated descriptors: sizeof(packet struct) = accepted length; header, block,
   channel and sub-packet fields lie inside it; DIFOP fields inside the DIFOP length; channel/laser
   tables and the block-iterator arrays cover every index formed *)
Theorem C08_T2_layouts : forallb (fun d => msop_layout_ok d && difop_layout_ok d && tables_ok d) all_descs = true.
Proof. exact layouts_all. Qed.
Print Assumptions C08_T2_layouts.

(* T2b: a packet is decoded only at exactly that length *)
Theorem C08_T2_accepted_length bl tbl v b : accepts bl tbl v b = true -> blen b = d_msop_len (v_desc v).
Proof. exact (accepted_length bl tbl v b). Qed.

(* T3: trig indices are clamped into the table for every integer; the table bounds are the code's *)
Theorem C08_T3_trig_clamped a : -9000 <= trig_idx a < 45000.
Proof. exact (trig_idx_in_table a). Qed.
Theorem C08_T3_table_bounds : g_TRIGON_MIN = TRIGON_MIN /\ g_TRIGON_MAX = TRIGON_MAX.
Proof. exact trigon_consts. Qed.

(* T3c: Trigon::sin / Trigon::cos as regenerated from trigon.hpp (the index each uses) equal the model's clamp for every
   angle, and that index lies inside the table Trigon::Trigon allocates (extent recorded by the probe on this run) *)
Theorem C08_T3_trig_code_is_model a : Trigon_sin a = trig_idx a /\ Trigon_cos a = trig_idx a.
Proof. exact (conj (gen_trig_sin_eq a) (gen_trig_cos_eq a)). Qed.
Theorem C08_T3_trig_code_in_table a :
  g_TRIG_SIN_LO <= Trigon_sin a < g_TRIG_SIN_LO + g_TRIG_SIN_LEN /\ g_TRIG_COS_LO <= Trigon_cos a < g_TRIG_COS_LO + g_TRIG_COS_LEN.
Proof. exact (conj (gen_trig_sin_in_table a) (gen_trig_cos_in_table a)). Qed.
Print Assumptions C08_T3_trig_code_in_table.

(* T4: raw path: a datagram is either dropped or stripped to a non-empty payload that fits the packet
   buffer and lies inside the datagram *)
Theorem C08_T4_raw_safe user tail buf_len b p : 0 <= user -> 0 <= tail -> raw_feed user tail buf_len b = Some p ->
  blen p = blen b - user - tail /\ 0 < blen p <= buf_len /\ user + blen p + tail = blen b.
Proof. exact (raw_feed_safe user tail buf_len b p). Qed.
Theorem C08_T4_raw_drops user tail buf_len b : (blen b <= user + tail \/ blen b - user - tail > buf_len) -> raw_feed user tail buf_len b = None.
Proof. exact (raw_feed_drops user tail buf_len b). Qed.
(* T4c: InputRaw::feedPacket as regenerated from input_raw.hpp (the sizes it checks and the memcpy / setData arguments, size_t
   wrap explicit) is the model's raw_feed, and what it copies lies inside the caller's buffer and inside the packet buffer for
   every size and every layer setting *)
Theorem C08_T4_raw_code_is_model b off tail buf :
  0 <= off <= 65535 -> 0 <= tail <= 65535 -> 0 <= buf < 2 ^ 63 -> blen b < 2 ^ 63 ->
  InputRaw_feedPacket_copy (blen b) off tail buf =
  match raw_feed off tail buf b with None => None | Some p => Some [off; blen p; 0; blen p] end.
Proof. exact (gen_feed_packet_eq b off tail buf). Qed.
Theorem C08_T4_raw_code_safe size off tail buf so cl d0 dl :
  0 <= off <= 65535 -> 0 <= tail <= 65535 -> 0 <= buf < 2 ^ 63 -> 0 <= size < 2 ^ 63 ->
  InputRaw_feedPacket_copy size off tail buf = Some [so; cl; d0; dl] ->
  0 < cl /\ so + cl <= size /\ d0 + cl <= buf /\ dl = cl /\ d0 = 0 /\ so = off.
Proof. exact (gen_feed_packet_safe size off tail buf so cl d0 dl). Qed.
Print Assumptions C08_T4_raw_code_safe.
Theorem C08_T4_buffers : g_ETH_LEN = 1546 /\ g_IP_LEN = 65536 /\ forallb (fun d => d_msop_len d <=? raw_buf_len d) all_descs = true.
Proof. vm_compute. repeat split; reflexivity. Qed.

Example C08_nonvacuous : raw_feed 4 2 1546 (repeat 7 10) = Some [7;7;7;7] /\ raw_feed 4 2 1546 (repeat 7 6) = None /\ raw_feed 0 0 1546 (repeat 7 1547) = None.
Proof. vm_compute. repeat split; reflexivity. Qed.
