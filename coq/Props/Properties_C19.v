(* C19 - Reported errors are truthful: none on clean input, documented code on bad input. *)
From RS Require Import Base.Tac Base.Bytes Base.Dyadic Model.Desc Model.Kernels Model.Decoder Model.Driver Model.Oracles.
From RS Require Import Gen.Params_gen Proofs.Stream Proofs.DriverInv Proofs.Conservation Proofs.Errors Proofs.SplitNum.
Local Open Scope Z_scope.

(* T1: an accepted, complete packet with the open frame below the limit and a caller that never answers null: silence *)
Theorem C19_T1_clean_silent bl tbl v th now host b :
  d_family (v_desc v) = Mech -> accepts bl tbl v b = true -> overflowed v = false ->
  mr_bad_blkid (decode_msop_mech (v_desc v) (v_cfg v) (v_dec v) b host host) = false ->
  Forall (fun a => a <> None) (v_answers v) ->
  errs_of (snd (fst (fst (process_msop bl tbl v th now host b)))) = [].
Proof. exact (clean_mech_packet_silent bl tbl v th now host b). Qed.
Print Assumptions C19_T1_clean_silent.

(* T2: every reported code implies its documented cause at that packet *)
Theorem C19_T2_msop_cause bl tbl v th now host b :
  Forall (msop_cause bl tbl v host b) (errs_of (snd (fst (fst (process_msop bl tbl v th now host b))))).
Proof. exact (process_msop_causes bl tbl v th now host b). Qed.
Print Assumptions C19_T2_msop_cause.
Theorem C19_T2_difop_cause bl v th now b :
  Forall (fun c => (c = ERR_WRONGDIFOPLEN /\ blen b <> d_difop_len (v_desc v)) \/
                   (c = ERR_WRONGDIFOPID /\ blen b = d_difop_len (v_desc v) /\ match_at b 0 (d_difop_id (v_desc v)) = false))
         (errs_of (snd (process_difop bl v th now b))).
Proof. exact (process_difop_causes bl v th now b). Qed.

(* T3: throttling: the first occurrence in a process is reported; then at most one report per second
   per site; missing calibration is reported once it has persisted for more than a second *)
Theorem C19_T3_first t now code : th_get t code = None -> now > 1 -> snd (limit_call t now code) = [OErr code].
Proof. exact (limit_call_first t now code). Qed.
Theorem C19_T3_throttled t now code prev : th_get t code = Some prev -> now - prev <= 1 -> snd (limit_call t now code) = [].
Proof. exact (limit_call_throttled t now code prev). Qed.
Theorem C19_T3_again t now code prev : th_get t code = Some prev -> now - prev > 1 -> snd (limit_call t now code) = [OErr code].
Proof. exact (limit_call_reports t now code prev). Qed.
Theorem C19_T3_nodifop_delay t now prev :
  (th_get t ERR_NODIFOPRECV = None -> snd (delay_limit_call t now ERR_NODIFOPRECV) = []) /\
  (th_get t ERR_NODIFOPRECV = Some prev -> now - prev > 1 -> snd (delay_limit_call t now ERR_NODIFOPRECV) = [OErr ERR_NODIFOPRECV]).
Proof. split; [exact (delay_first t now _) | exact (delay_reports t now _ prev)]. Qed.

(* T4 (partial: 9 of the 11 mechanical decoders report; RS128/RS80 are silent, a recorded finding):
   no mechanical decoder reports a bad block id under another code *)
Definition blkid_code_ok (d : desc) : bool := (d_blkid_err d =? ERR_WRONGMSOPBLKID) || (d_blkid_err d =? 0).
Theorem C19_T4_blkid_partial : forallb blkid_code_ok mech_descs = true.
Proof. vm_compute. reflexivity. Qed.

(* T5: severity classes of all codes as Error::Error computes them (regenerated): info < 0x40 <= warning < 0x80 <= error *)
Definition severity_ok (cs : Z * Z) : bool :=
  let '(code, cls) := cs in cls =? (if code <? 64 then 0 else if code <? 128 then 1 else 2).
Theorem C19_T5_severity : forallb severity_ok g_err_codes = true /\ length g_err_codes = 17%nat.
Proof. vm_compute. split; reflexivity. Qed.

Example C19_nonvacuous :
  snd (limit_call [] 1700000000 ERR_WRONGMSOPLEN) = [OErr ERR_WRONGMSOPLEN] /\
  snd (limit_call [(ERR_WRONGMSOPLEN, 1700000000)] 1700000001 ERR_WRONGMSOPLEN) = [] /\
  snd (limit_call [(ERR_WRONGMSOPLEN, 1700000000)] 1700000002 ERR_WRONGMSOPLEN) = [OErr ERR_WRONGMSOPLEN].
Proof. vm_compute. repeat split; reflexivity. Qed.

(* T3b: the rate-limited report sites of the CURRENT source (extracted by kt.py from processMsopPkt, processDifopPkt, getPointCloud,
   packetPut) have the shape the throttle model assumes: each site mentions exactly one code and its limited body only reports;
   no code has two sites (one cell per code: a report of one code never delays another code's first report); every code the model
   throttles has its site *)
From RS Require Import Gen.Kernels_gen Proofs.Throttle.
Theorem C19_T3b_sites :
  forallb site_ok throttle_sites = true /\ nodupb site_codes = true /\
  forallb (fun c => existsb (String.eqb c) site_codes) modelled_codes = true.
Proof. exact throttle_sites_shape. Qed.
Theorem C19_T3b_one_cell_per_code : NoDup site_codes.
Proof. exact one_cell_per_code. Qed.

(* T2b: the chain of checks of the CURRENT source (extracted by kt.py from Decoder::processMsopPkt / processDifopPkt): the overflow
   guard first (it alone does not reject), missing calibration, the length check BEFORE the identifier check; and the conditions
   are the ones the model's gate was written from (identifier compared over its own length, ...) *)
From Coq Require Import String.
From RS Require Import Proofs.Gates.
Theorem C19_T2b_msop_gate_order : gate_skeleton Decoder_processMsopPkt_gates =
  [(["ERRCODE_CLOUDOVERFLOW"%string], false); (["ERRCODE_NODIFOPRECV"%string], true); (["ERRCODE_WRONGMSOPLEN"%string], true); (["ERRCODE_WRONGMSOPID"%string], true)].
Proof. exact msop_gate_order. Qed.
Theorem C19_T2b_difop_gate_order : gate_skeleton Decoder_processDifopPkt_gates =
  [(["ERRCODE_WRONGDIFOPLEN"%string], true); (["ERRCODE_WRONGDIFOPID"%string], true)].
Proof. exact difop_gate_order. Qed.
Theorem C19_T2b_gate_conditions :
  map (fun r => fst (fst r)) Decoder_processMsopPkt_gates =
  ["this->point_cloud_ && (this->point_cloud_->points.size() > CLOUD_POINT_MAX)"%string; "param_.wait_for_difop && !angles_ready_"%string;
   "size != this->const_param_.MSOP_LEN"%string; "memcmp(pkt, this->const_param_.MSOP_ID, this->const_param_.MSOP_ID_LEN) != 0"%string] /\
  map (fun r => fst (fst r)) Decoder_processDifopPkt_gates =
  ["size != this->const_param_.DIFOP_LEN"%string; "memcmp(pkt, this->const_param_.DIFOP_ID, const_param_.DIFOP_ID_LEN) != 0"%string].
Proof. exact (conj msop_gate_conditions difop_gate_conditions). Qed.
