(* C16 - Jumbo reassembly delivers exactly the original datagram or nothing. *)
From RS Require Import Base.Tac Base.Bytes Model.Desc Model.Input Gen.Params_gen Proofs.InputSafe Proofs.JumboIff.
Local Open Scope Z_scope.

(* T1: an unfragmented datagram is delivered at once; whatever is being assembled is not disturbed *)
Theorem C16_T1_unfragmented st id data : jumbo_step st (FFrag id 0 false data) = (st, udp_out data).
Proof. exact (jumbo_unfragmented st id data). Qed.

(* T2/T3: fragments of one identification, consecutive, in offset order from 0, the last one without
   the more-fragments flag: exactly one delivery, of the concatenated payloads minus the 8-byte UDP
   header, attributed to the destination port in that header; for any number and sizes of fragments *)
Theorem C16_T2_train id c1 rest st :
  rest <> [] -> c1 <> [] -> blen (concat (c1 :: rest)) <= 65535 ->
  (st = None \/ exists cur acc, st = Some (cur, acc) /\ cur <> id) ->
  jumbo_run st (train id 0 (c1 :: rest)) =
  match udp_out (concat (c1 :: rest)) with Some x => [x] | None => [] end.
Proof. exact (jumbo_train id c1 rest st). Qed.
Print Assumptions C16_T2_train.
Theorem C16_T3_bytes_port dgram : g_UDP_HDR_LEN <= blen dgram ->
  udp_out dgram = Some (be16 dgram 2, skipn (Z.to_nat g_UDP_HDR_LEN) dgram).
Proof. intros H. unfold udp_out. destruct (blen dgram <? g_UDP_HDR_LEN) eqn:E; [lia|reflexivity]. Qed.

(* T4: out-of-order / duplicated fragments of the datagram in progress, non-first fragments of another
   identification, non-IPv4, non-UDP and inconsistent frames deliver nothing and leave the assembly as it was *)
Theorem C16_T4_ignored_inert st fr :
  (fr = FIgnore \/
   exists id off more data cur acc, fr = FFrag id off more data /\ st = Some (cur, acc) /\ ((off =? 0) && negb more = false) /\
      ((id = cur /\ off <> blen acc) \/ (id <> cur /\ off <> 0))) ->
  jumbo_step st fr = (st, None).
Proof. exact (jumbo_ignored_inert st fr). Qed.

(* the fill level stays inside the 64 KiB buffer *)
Theorem C16_T5_bounded st fr : jstate_ok st -> (match fr with FFrag _ _ _ data => blen data <= 65535 | FIgnore => True end) ->
  jstate_ok (fst (jumbo_step st fr)).
Proof. exact (jumbo_step_ok st fr). Qed.

(* R1 (regression fact): identification 0 is an ordinary identification: two unfragmented datagrams
   with id 0 after a reassembled one are both delivered *)
Example C16_R1_id0 :
  jumbo_run None (train 0 0 [[0;1;26;43;0;16;0;0]; [1;2;3;4;5;6;7;8]] ++ [FFrag 0 0 false [0;1;26;43;0;9;0;0;9]; FFrag 0 0 false [0;1;26;43;0;9;0;0;7]]) =
  [(6699, [1;2;3;4;5;6;7;8]); (6699, [9]); (6699, [7])].
Proof. vm_compute. reflexivity. Qed.

(* T6: the delivery condition as one equivalence, for EVERY frame sequence P read so far (from the idle state) and every next
   frame f: f delivers x  iff  f is an unfragmented datagram whose UDP payload is x, or f is the last fragment (no more-fragments
   flag), exactly at the fill level, of an identification whose earlier fragments form a chain in P - a first fragment at offset 0
   (read in a state where it starts an assembly), then each next fragment exactly at the fill level, with only frames the
   reassembler ignores in between - and x is the UDP payload of the concatenation *)
Theorem C16_T6_delivery_iff P f x :
  snd (jumbo_step (jafter None P) f) = Some x <->
  (exists id d, f = FFrag id 0 false d /\ udp_out d = Some x) \/
  (exists id acc d A C, P = A ++ C /\ startable (jafter None A) id /\ chain id acc C /\
     f = FFrag id (blen acc) false d /\ blen acc <> 0 /\ blen acc + blen d <= 65535 /\ udp_out (acc ++ d) = Some x).
Proof. exact (delivery_iff P f x). Qed.
Print Assumptions C16_T6_delivery_iff.
(* the invariant behind it: whatever was read, an assembly in progress is such a chain *)
Theorem C16_T6_assembly_is_chain P :
  match jafter None P with
  | None => True
  | Some (id, acc) => exists A C, P = A ++ C /\ chain id acc C /\ startable (jafter None A) id
  end.
Proof. exact (jinv_run P). Qed.
(* non-vacuity: a two-fragment train of id 7 with an unfragmented datagram, a foreign non-first fragment and a duplicate in
   between is a chain, and its last fragment delivers the datagram *)
Example C16_T6_example :
  let P := [FFrag 7 0 true [0;1;26;43;0;20;0;0]; FFrag 9 0 false [0;1;26;43;0;9;0;0;5]; FFrag 3 16 true [1;1]; FFrag 7 0 true [9;9]] in
  chain 7 [0;1;26;43;0;20;0;0] P /\
  snd (jumbo_step (jafter None P) (FFrag 7 8 false [1;2;3;4])) = Some (6699, [1;2;3;4]).
Proof.
  split; [|vm_compute; reflexivity].
  change [FFrag 7 0 true [0;1;26;43;0;20;0;0]; FFrag 9 0 false [0;1;26;43;0;9;0;0;5]; FFrag 3 16 true [1;1]; FFrag 7 0 true [9;9]]
    with ((([FFrag 7 0 true [0;1;26;43;0;20;0;0]] ++ [FFrag 9 0 false [0;1;26;43;0;9;0;0;5]]) ++ [FFrag 3 16 true [1;1]]) ++ [FFrag 7 0 true [9;9]]).
  apply ch_skip; [apply ch_skip; [apply ch_skip; [apply ch_first|] |] |]; cbn [inert_for].
  - left. split; reflexivity.
  - right; right. split; lia.
  - right; left. repeat split; try reflexivity. vm_compute. discriminate. intros [_ H]. discriminate.
Qed.
