(* C14 - Recorded packets replay to the same clouds. *)
From RS Require Import Base.Tac Base.Bytes Base.Dyadic Model.Desc Model.Kernels Model.Decoder Model.Driver Model.Oracles.
From RS Require Import Proofs.Stream Proofs.DriverInv Proofs.TimeCodec Proofs.Record Proofs.Timestamps.
Local Open Scope Z_scope.

(* T1: records are numbered consecutively across MSOP and DIFOP packets, in processing order
   (the `scan` oracle of C06 checks the numbering of every OPkt of every session) *)
Theorem C14_T1_numbering bl tbl d c answers fresh th0 now0 evs :
  let '(v0, th1, o0) := init_drv d c answers fresh th0 now0 in
  let '(v1, th2, o1) := drv_run bl tbl v0 th1 evs in
  exists h, scan d c (mk_hist 0 None 0) (o0 ++ o1) = Some h /\ h_seq h = v_cloud_seq v1.
Proof. exact (session_history_ok bl tbl d c answers fresh th0 now0 evs). Qed.

(* T1b: the record of an MSOP packet: not DIFOP, is_frame_begin = "the split rule fired in this
   packet", time = the packet time, bytes = the packet with its header time rewritten *)
Theorem C14_T1_msop_record bl tbl v th now host b stale :
  ev_is_msop_b b stale = true -> c_pkt_cb (v_cfg v) = true ->
  let r := process_msop bl tbl v th now host b in
  exists o1, snd (process_packet bl tbl v th now host b stale) =
    o1 ++ [OPkt (v_pkt_seq (fst (fst (fst (fst r))))) false (snd (fst r)) (s_prev_pkt_ts (v_dec (fst (fst (fst (fst r)))))) (snd r)].
Proof. exact (pkt_record_msop bl tbl v th now host b stale). Qed.
Print Assumptions C14_T1_msop_record.

(* T3 (time half): replaying the recorded bytes with the LiDAR clock gives the original packet time
   plus exactly one packet duration, in both header formats; for the calendar format in every process time zone, with or
   without daylight saving (c_dst: the zone's daylight periods), for every receive time except those inside the hour that is
   repeated when daylight saving ends (their calendar time names two instants) *)
Theorem C14_T3_replay_time d c variant b h :
  c_lidar_clock c = false -> c_pkt_cb c = true ->
  0 <= d_off_ts d <= blen b -> 0 <= h < 18446744073709551616 ->
  (uses_utc d variant = false -> -86400 <= c_tz c <= 86400 /\ DAY_2000 <= (h / 1000000 + c_tz c) / 86400 /\
                                 (h / 1000000 + c_tz c + DST_SAVE) / 86400 < DAY_2256 /\ unambiguous (c_dst c) h) ->
  let rec := pkt_time d c variant b 0 h h in
  d_family d = Mech ->
  fst (pkt_time d (replay_cfg c) variant (snd rec) 0 0 0) = fst rec + d_packet_duration_ns d.
Proof. exact (replay_time_offset d c variant b h). Qed.
Print Assumptions C14_T3_replay_time.
(* the defect repaired in /repo by the fix commit (parseTimeYMD passed tm_isdst = 0 to mktime): read always as standard time, a
   header written while daylight saving is in force decodes one hour late - the replayed timestamps were 3600 s off *)
Theorem C14_R2_isdst0_refuted : exists tz dst t,
  parse_ymd_z tz dst (create_ymd_z tz dst t) 0 = t /\ parse_ymd tz (create_ymd_z tz dst t) 0 = t + 3600000000.
Proof. exact ymd_isdst0_refuted. Qed.
(* non-vacuity: a summer instant in a zone one hour east with European daylight saving 2024 *)
Example C14_T3_dst_example :
  let dst := [(1711846800, 1729990800)] in
  unambiguous dst 1721043045123456 /\ in_dst dst (1721043045123456 / 1000000) = true /\
  parse_ymd_z 3600 dst (create_ymd_z 3600 dst 1721043045123456) 0 = 1721043045123456.
Proof. cbv zeta. repeat split; try (vm_compute; reflexivity). unfold unambiguous. vm_compute. discriminate. Qed.

(* with the LiDAR clock on the recording side the bytes are handed on unchanged *)
Theorem C14_T3_lidar_clock_unchanged d c variant b base h1 h2 : c_lidar_clock c = true ->
  snd (pkt_time d c variant b base h1 h2) = b.
Proof. intros H. unfold pkt_time. rewrite H. reflexivity. Qed.

Example C14_nonvacuous :
  parse_utc (splice (repeat 0 42) 20 (create_utc 1700000000123456)) 20 = 1700000000123456.
Proof. vm_compute. reflexivity. Qed.

(* T4: the dispatch on the current source. LidarDriverImpl::internalProcessPacket is regenerated on every run as a statement tree and
   interpreted over the model's driver state (Proofs/DispatchCode.v): for every packet content, driver state, build and clock value it
   is the model's process_packet - a packet is dispatched on its own first two bytes (one shorter than that is neither MSOP nor DIFOP),
   the packet callback gets an MSOP packet with the decoder's packet time and the split flag of THIS packet, a DIFOP packet with
   time 0 and no flag, in processing order; and the buffer goes back to the free pool exactly once *)
From RS Require Import Gen.Kernels_gen Proofs.Handover Proofs.DispatchCode.
Theorem C14_T4_dispatch_code_is_model bl tbl now host v th b stale :
  exists m, drun bl tbl now host LidarDriverImpl_internalProcessPacket_effects (mk_dm v th [] b false false) = Go m /\
            (x_v m, x_th m, x_out m) = process_packet bl tbl v th now host b stale /\ x_recycled m = true.
Proof. exact (internalProcessPacket_code_is_model bl tbl now host v th b stale). Qed.
Print Assumptions C14_T4_dispatch_code_is_model.

(* T5: the packet record on the current source. runPacketCallBack() regenerated as a statement tree and interpreted is the model's
   run_pkt_cb: a record is made only when a packet callback is registered; it carries the time and flags it was called with, the next
   packet number - consumed only then, MSOP and DIFOP packets alike, wrapping at 2^32 - and a copy of exactly the packet's bytes; the
   callback sees no field that was not set *)
Theorem C14_T5_record_code_is_model data ts is_difop begin_ v :
  exists m, rrun data ts is_difop begin_ LidarDriverImpl_runPacketCallBack_effects (mk_rm v [] None None None None false None None) = Go m /\
            (r_v m, r_out m) = run_pkt_cb v data ts is_difop begin_.
Proof. exact (runPacketCallBack_code_is_model data ts is_difop begin_ v). Qed.
Print Assumptions C14_T5_record_code_is_model.

