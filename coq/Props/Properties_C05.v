(* C05 - Point and cloud timestamps are an exact function of the packet clock. *)
From RS Require Import Base.Tac Base.Bytes Base.Dyadic Model.Desc Model.Kernels Model.Decoder Model.Driver Model.Oracles.
From RS Require Import Gen.Kernels_gen Proofs.Eq_Time.
From RS Require Import Gen.Params_gen Proofs.Stream Proofs.Slots Proofs.TimeCodec Proofs.Timestamps Proofs.DriverInv.
Local Open Scope Z_scope.

(* T0: the UTC codec of the current source (parseTimeUTCWithUs / createTimeUTCWithUs regenerated from basic_attr.hpp by kt.py, loops
   unrolled, uint64 wrap explicit) is the model's, for every field content and every uint64 microsecond count *)
Theorem C05_T0_parse_utc_is_model b0 b1 b2 b3 b4 b5 c0 c1 c2 c3 :
  0 <= b0 < 256 -> 0 <= b1 < 256 -> 0 <= b2 < 256 -> 0 <= b3 < 256 -> 0 <= b4 < 256 -> 0 <= b5 < 256 ->
  0 <= c0 < 256 -> 0 <= c1 < 256 -> 0 <= c2 < 256 -> 0 <= c3 < 256 ->
  fn_parseTimeUTCWithUs b0 b1 b2 b3 b4 b5 c0 c1 c2 c3 = parse_utc [b0; b1; b2; b3; b4; b5; c0; c1; c2; c3] 0.
Proof. exact (gen_parse_utc_eq b0 b1 b2 b3 b4 b5 c0 c1 c2 c3). Qed.
Theorem C05_T0_create_utc_is_model us : 0 <= us < 2 ^ 64 -> fn_createTimeUTCWithUs us = create_utc us.
Proof. exact (gen_create_utc_eq us). Qed.
Print Assumptions C05_T0_create_utc_is_model.

(* T1: the 6+4-byte UTC header format *)
Theorem C05_T1_utc_roundtrip t rest : 0 <= t < 18446744073709551616 -> parse_utc (create_utc t ++ rest) 0 = t.
Proof. exact (utc_roundtrip t rest). Qed.
Print Assumptions C05_T1_utc_roundtrip.
Theorem C05_T1_utc_value b off : be48 b off * 1000000 + be32 b (off + 6) < 18446744073709551616 ->
  0 <= be48 b off -> 0 <= be32 b (off + 6) -> parse_utc b off = be48 b off * 1000000 + be32 b (off + 6).
Proof. exact (parse_utc_value b off). Qed.

(* T2: the calendar header format, every local date 2000-01-01 .. 2255-12-31, every fixed zone offset *)
Theorem C05_T2_calendar z : DAY_2000 <= z < DAY_2256 ->
  let '(y, m, d) := civil_from_days z in
  days_from_civil y m d = z /\ 2000 <= y < 2256 /\ 1 <= m <= 12 /\ 1 <= d <= 31.
Proof. exact (civil_inverse z). Qed.
Theorem C05_T2_ymd_roundtrip tz t rest : 0 <= t < 18446744073709551616 ->
  DAY_2000 <= (t / 1000000 + tz) / 86400 < DAY_2256 -> parse_ymd tz (create_ymd tz t ++ rest) 0 = t.
Proof. exact (ymd_roundtrip tz t rest). Qed.
Print Assumptions C05_T2_ymd_roundtrip.

(* T4: every point of a mechanical block (valid or placeholder): block time + channel firing offset *)
Theorem C05_T4_point_ts d c s t w sect b blk_off block_az az_diff block_ts chan :
  p_ts (mech_channel d c s t w sect b blk_off block_az az_diff block_ts chan) = block_ts + nthZ (t_chan_ns t) chan.
Proof. exact (proj1 (proj2 (mech_channel_fields d c s t w sect b blk_off block_az az_diff block_ts chan))). Qed.

(* T5: cloud stamp = time of the last slot decoded into it (NaN points kept, ts_first_point off):
   one accepted mechanical packet delivers only clouds stamped with their last point's time and
   hands the invariant on to the next packet *)
Theorem C05_T5_cloud_ts_last d c s b host1 host2 v th now :
  d_family d = Mech -> c_dense c = false -> c_ts_first c = false -> 0 < d_chans_per_blk d ->
  open_inv v (s_prev_point_ts s) ->
  let r := decode_msop_mech d c s b host1 host2 in
  let f := feed_blocks (with_dec v (mr_state r)) th now (mr_blocks r) in
  Forall stamped_last (clouds_of (snd f)) /\ open_inv (fst (fst f)) (s_prev_point_ts (mr_state r)).
Proof. exact (mech_packet_stamped d c s b host1 host2 v th now). Qed.
Print Assumptions C05_T5_cloud_ts_last.

(* T7: with use_lidar_clock no output depends on the host clock *)
Theorem C05_T7_host_independent bl tbl v th now host host' b stale : c_lidar_clock (v_cfg v) = true ->
  process_packet bl tbl v th now host b stale = process_packet bl tbl v th now host' b stale.
Proof. exact (process_packet_host_indep bl tbl v th now host host' b stale). Qed.
Print Assumptions C05_T7_host_independent.

(* R1 (recorded finding D15): with ts_first_point the first cloud of a session is stamped 0 *)
Example C05_R1_first_cloud_zero :
  let d := desc_RS32 in
  let c := mk_dcfg false false 3 0 12 dy_zero dy_zero 0 36000 true true false 0 0 0 false in
  let mk az := [85;170;5;10;90;165;80;160] ++ repeat 0 12 ++ [23;11;14;22;13;20;0;0;0;0] ++ repeat 0 12 ++
               flat_map (fun k => [255;238; (az + 20 * k) / 256; (az + 20 * k) mod 256] ++ repeat 7 96) (map Z.of_nat (seq 0 12)) ++ repeat 0 6 in
  let '(v0, th, _) := init_drv d c [] 1000 [] 10 in
  map cl_ts (clouds_of (snd (drv_run (mk_build false false) [] v0 th [(12, 0, mk 100, []); (14, 0, mk 340, [])]))) = [0; 1700000000000610720].
Proof. vm_compute. reflexivity. Qed.

Example C05_nonvacuous : parse_utc (create_utc 1700000000123456) 0 = 1700000000123456 /\
  parse_ymd 28800 (create_ymd 28800 1700000000123456) 0 = 1700000000123456.
Proof. vm_compute. split; reflexivity. Qed.
