(* C05 - Point and cloud timestamps are an exact function of the packet clock. *)
From RS Require Import Base.Tac Base.Bytes Base.Dyadic Model.Desc Model.Kernels Model.Decoder Model.Driver Model.Oracles.
From RS Require Import Gen.Kernels_gen Proofs.Eq_Time Proofs.Timestamps2.
From RS Require Import Gen.Params_gen Proofs.Stream Proofs.Slots Proofs.TimeCodec Proofs.Timestamps Proofs.DriverInv.
Local Open Scope Z_scope.

(* T0: the UTC codec of the current source (parseTimeUTCWithUs / createTimeUTCWithUs regenerated from basic_attr.hpp by kt.py, loops
   unrolled, uint64 wrap explicit) is the model's, for every field content and every uint64 microsecond count *)
Theorem C05_T0_parse_utc_is_model b0 b1 b2 b3 b4 b5 c0 c1 c2 c3 :
  0 <= b0 < 256 -> 0 <= b1 < 256 -> 0 <= b2 < 256 -> 0 <= b3 < 256 -> 0 <= b4 < 256 -> 0 <= b5 < 256 ->
  0 <= c0 < 256 -> 0 <= c1 < 256 -> 0 <= c2 < 256 -> 0 <= c3 < 256 ->
  fn_parseTimeUTCWithUs b0 b1 b2 b3 b4 b5 c0 c1 c2 c3 = parse_utc [b0; b1; b2; b3; b4; b5; c0; c1; c2; c3] 0.
Proof. exact (gen_parse_utc_eq b0 b1 b2 b3 b4 b5 c0 c1 c2 c3). Qed.
Theorem C05_T0_create_utc_is_model us : 0 <= us < 2 ^ 64 -> fn_createTimeUTCWithUs us = create_utc us.
Proof. exact (gen_create_utc_eq us). Qed.
Print Assumptions C05_T0_create_utc_is_model.

(* T1: the 6+4-byte UTC header format *)
Theorem C05_T1_utc_roundtrip t rest : 0 <= t < 18446744073709551616 -> parse_utc (create_utc t ++ rest) 0 = t.
Proof. exact (utc_roundtrip t rest). Qed.
Print Assumptions C05_T1_utc_roundtrip.
Theorem C05_T1_utc_value b off : be48 b off * 1000000 + be32 b (off + 6) < 18446744073709551616 ->
  0 <= be48 b off -> 0 <= be32 b (off + 6) -> parse_utc b off = be48 b off * 1000000 + be32 b (off + 6).
Proof. exact (parse_utc_value b off). Qed.

(* T2: the calendar header format, every local date 2000-01-01 .. 2255-12-31, every fixed zone offset *)
Theorem C05_T2_calendar z : DAY_2000 <= z < DAY_2256 ->
  let '(y, m, d) := civil_from_days z in
  days_from_civil y m d = z /\ 2000 <= y < 2256 /\ 1 <= m <= 12 /\ 1 <= d <= 31.
Proof. exact (civil_inverse z). Qed.
Theorem C05_T2_ymd_roundtrip tz t rest : 0 <= t < 18446744073709551616 ->
  DAY_2000 <= (t / 1000000 + tz) / 86400 < DAY_2256 -> parse_ymd tz (create_ymd tz t ++ rest) 0 = t.
Proof. exact (ymd_roundtrip tz t rest). Qed.
Print Assumptions C05_T2_ymd_roundtrip.
(* ... in a process time zone with daylight saving (dst: its daylight periods in UTC seconds; local time is then tz + 3600): the
   calendar time is interpreted in the process time zone - as daylight time when it is one -, so what createTimeYMD wrote decodes
   to the instant, except inside the hour repeated when daylight saving ends *)
Theorem C05_T2_ymd_roundtrip_dst tz dst t rest : 0 <= t < 18446744073709551616 -> -86400 <= tz <= 86400 ->
  DAY_2000 <= (t / 1000000 + tz) / 86400 -> (t / 1000000 + tz + DST_SAVE) / 86400 < DAY_2256 -> unambiguous dst t ->
  parse_ymd_z tz dst (create_ymd_z tz dst t ++ rest) 0 = t.
Proof. exact (ymd_roundtrip_z tz dst t rest). Qed.
Print Assumptions C05_T2_ymd_roundtrip_dst.
Theorem C05_T2_no_dst tz b off : parse_ymd_z tz [] b off = parse_ymd tz b off.
Proof. exact (parse_ymd_z_nodst tz b off). Qed.

(* T4: every point of a mechanical block (valid or placeholder): block time + channel firing offset *)
Theorem C05_T4_point_ts d c s t w sect b blk_off block_az az_diff block_ts chan :
  p_ts (mech_channel d c s t w sect b blk_off block_az az_diff block_ts chan) = block_ts + nthZ (t_chan_ns t) chan.
Proof. exact (proj1 (proj2 (mech_channel_fields d c s t w sect b blk_off block_az az_diff block_ts chan))). Qed.

(* T5: cloud stamp = time of the last slot decoded into it (NaN points kept, ts_first_point off):
   one accepted mechanical packet delivers only clouds stamped with their last point's time and
   hands the invariant on to the next packet *)
Theorem C05_T5_cloud_ts_last d c s b host1 host2 v th now :
  d_family d = Mech -> c_dense c = false -> c_ts_first c = false -> 0 < d_chans_per_blk d ->
  open_inv v (s_prev_point_ts s) ->
  let r := decode_msop_mech d c s b host1 host2 in
  let f := feed_blocks (with_dec v (mr_state r)) th now (mr_blocks r) in
  Forall stamped_last (clouds_of (snd f)) /\ open_inv (fst (fst f)) (s_prev_point_ts (mr_state r)).
Proof. exact (mech_packet_stamped d c s b host1 host2 v th now). Qed.
Print Assumptions C05_T5_cloud_ts_last.

(* T5b: last-slot stamping in EVERY mode (dense or NaN-kept): whenever a block of a mechanical packet opens a new cloud, the stamp
   it hands over for the cloud it closes is the time of the last slot of the block before it (for the first block: of the last
   block of the previous packet) - whether or not that slot yielded a point; and the value carried to the next packet is the
   time of the last slot of the last block processed *)
Theorem C05_T5b_stamp_last_slot d c t w sect b pkt_ts its blk s : c_ts_first c = false -> 0 < d_chans_per_blk d ->
  let r := mech_blocks d c t w sect b pkt_ts its blk s in
  stamps_last d t pkt_ts (s_prev_point_ts s) its (snd (fst r)) /\
  s_prev_point_ts (fst (fst r)) = last_end d t pkt_ts (s_prev_point_ts s) its (snd (fst r)).
Proof. intros H1 H2. exact (mech_blocks_stamps_last d c t w sect b pkt_ts H1 H2 its blk s). Qed.
(* T6: first-point stamping (ts_first_point): the stamp handed over is the time of the block at which the frame in progress was
   opened, i.e. of the block of the most recent split (the carried-in value for a frame opened in an earlier packet; for a frame
   opened by no split at all - the first of a session - that value is the initial 0: recorded finding R1) *)
Theorem C05_T6_stamp_first_block d c t w sect b pkt_ts its blk s : c_ts_first c = true ->
  let r := mech_blocks d c t w sect b pkt_ts its blk s in
  stamps_first pkt_ts (s_first_point_ts s) its (snd (fst r)) /\
  s_first_point_ts (fst (fst r)) = first_end pkt_ts (s_first_point_ts s) its (snd (fst r)).
Proof. intros H1. exact (mech_blocks_stamps_first d c t w sect b pkt_ts H1 its blk s). Qed.
(* ... and a cloud delivered while a packet's blocks are fed carries exactly the stamp of the block whose split delivered it *)
Theorem C05_T5b_cloud_carries_stamp bs v th now :
  Forall (fun cl => exists bo, In bo bs /\ bo_split bo = true /\ cl_ts cl = bo_cloud_ts bo) (clouds_of (snd (feed_blocks v th now bs))).
Proof. exact (feed_blocks_cloud_ts bs v th now). Qed.
Print Assumptions C05_T5b_cloud_carries_stamp.
(* T5c / T6b, MEMS: a (sub-)packet hands over the time of the last block of the previous packet, or with ts_first_point the
   header time of the packet that opened the frame; the packet that splits becomes that packet *)
Theorem C05_T5c_mems_stamp d c s b base h1 h2 :
  let r := decode_msop_mems_sub d c s b base h1 h2 in
  let pkt_ts := fst (pkt_time d c 0 b base h1 h2) in
  let bo := snd (fst (fst r)) in
  let s' := fst (fst (fst r)) in
  bo_cloud_ts bo = (if c_ts_first c then s_first_point_ts s else s_prev_point_ts s) /\
  s_first_point_ts s' = (if bo_split bo then pkt_ts else s_first_point_ts s) /\
  s_prev_pkt_ts s' = pkt_ts.
Proof. exact (mems_sub_stamp d c s b base h1 h2). Qed.
(* T4b, MEMS points: header time plus the block's microsecond offset, for every point of the block (valid or placeholder) *)
Theorem C05_T4b_mems_point_ts d c w b base coff ts chan dual p : In p (mems_channel_points d c w b base coff ts chan dual) -> p_ts p = ts.
Proof. exact (mems_point_ts d c w b base coff ts chan dual p). Qed.
Theorem C05_T4b_mems_block_ts d c w b base pkt_ts dual blk :
  snd (mems_block_points d c w b base pkt_ts dual blk) =
  pkt_ts + (let bb := skipn (Z.to_nat (base + d_off_blocks d + blk * d_sizeof_block d)) b in
            if d_sizeof_toff d =? 2 then be16 bb (d_off_blk_toff d) else u8 bb (d_off_blk_toff d)) * 1000.
Proof. exact (mems_block_ts d c w b base pkt_ts dual blk). Qed.

(* T7: with use_lidar_clock no output depends on the host clock *)
Theorem C05_T7_host_independent bl tbl v th now host host' b stale : c_lidar_clock (v_cfg v) = true ->
  process_packet bl tbl v th now host b stale = process_packet bl tbl v th now host' b stale.
Proof. exact (process_packet_host_indep bl tbl v th now host host' b stale). Qed.
Print Assumptions C05_T7_host_independent.

(* R1 (recorded finding D15): with ts_first_point the first cloud of a session is stamped 0 *)
Example C05_R1_first_cloud_zero :
  let d := desc_RS32 in
  let c := mk_dcfg false false 3 0 12 dy_zero dy_zero 0 36000 true true false 0 0 0 false [] in
  let mk az := [85;170;5;10;90;165;80;160] ++ repeat 0 12 ++ [23;11;14;22;13;20;0;0;0;0] ++ repeat 0 12 ++
               flat_map (fun k => [255;238; (az + 20 * k) / 256; (az + 20 * k) mod 256] ++ repeat 7 96) (map Z.of_nat (seq 0 12)) ++ repeat 0 6 in
  let '(v0, th, _) := init_drv d c [] 1000 [] 10 in
  map cl_ts (clouds_of (snd (drv_run (mk_build false false) [] v0 th [(12, 0, mk 100, []); (14, 0, mk 340, [])]))) = [0; 1700000000000610720].
Proof. vm_compute. reflexivity. Qed.

Example C05_nonvacuous : parse_utc (create_utc 1700000000123456) 0 = 1700000000123456 /\
  parse_ymd 28800 (create_ymd 28800 1700000000123456) 0 = 1700000000123456.
Proof. vm_compute. split; reflexivity. Qed.
