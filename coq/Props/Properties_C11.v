(* C11 - Lifecycle calls are safe in any order and stop() is a barrier. *)
From RS Require Import Base.Tac Model.Lifecycle Proofs.LifecycleInv.
Local Open Scope nat_scope.

(* T1: for EVERY call history (create / init / start / stop / feed / wait / destroy in any order and
   number): the worker threads exist exactly while the driver is started, started implies initialised,
   and a destroyed object has neither *)
Theorem C11_T1_invariant cs : LInv (fst (lrun lnone cs)).
Proof. apply linv_run. exact linv_none. Qed.
Print Assumptions C11_T1_invariant.

(* T2: stop() is a barrier after any history - when it returns no worker thread exists, so no callback
   can run until the next start(); destruction likewise *)
Theorem C11_T2_stop_is_barrier cs :
  let s := fst (lrun lnone (cs ++ [LStop])) in l_handle s = false /\ l_recv s = false /\ l_start s = false.
Proof.
  intros s. subst s. rewrite lrun_app. cbn [lrun].
  pose proof (stop_barrier (fst (lrun lnone cs)) (C11_T1_invariant cs)) as H. cbv zeta in H.
  destruct (lstep (fst (lrun lnone cs)) LStop) as [s1 o]. exact H.
Qed.
Theorem C11_T2b_destroy_is_barrier s :
  let s' := fst (lstep s LDestroy) in (l_handle s' = false /\ l_recv s' = false /\ l_start s' = false) \/ l_alive s = false.
Proof. exact (destroy_barrier s). Qed.

(* T3: init and start are idempotent; start before init returns false and changes nothing; a failed init changes nothing *)
Theorem C11_T3_init_idempotent s : l_alive s = true -> snd (lstep s LInit) = OBool true ->
  lstep (fst (lstep s LInit)) LInit = (fst (lstep s LInit), OBool true).
Proof. exact (init_idempotent s). Qed.
Theorem C11_T3_start_idempotent s : l_alive s = true -> snd (lstep s LStart) = OBool true ->
  lstep (fst (lstep s LStart)) LStart = (fst (lstep s LStart), OBool true).
Proof. exact (start_idempotent s). Qed.
Theorem C11_T3_start_before_init s : l_alive s = true -> l_init s = false -> l_start s = false -> lstep s LStart = (s, OBool false).
Proof. exact (start_before_init s). Qed.
Theorem C11_T3_failed_init_inert s : snd (lstep s LInit) = OBool false -> fst (lstep s LInit) = s.
Proof. exact (failed_init_inert s). Qed.

(* T4: a stopped driver can be started again and goes on where it was: the cumulative count never
   goes back, and packets accepted while stopped are decoded by the next session *)
Theorem C11_T4_count_monotone s c : (forall k ok n, c <> LCreate k ok n) -> l_done s <= l_done (fst (lstep s c)).
Proof. exact (done_monotone s c). Qed.
Theorem C11_T4_restart_continues s : l_alive s = true -> l_init s = true -> l_start s = false ->
  snd (lstep (fst (lstep s LStart)) LDrain) = OCount (l_done s + l_queued s).
Proof. exact (queued_survive_restart s). Qed.

Example C11_E1_history :
  snd (lrun lnone [LCreate KRaw true 0; LStart; LFeed; LInit; LInit; LFeed; LStart; LStart; LDrain; LStop; LFeed; LFeed; LStart; LDrain; LDestroy; LStart]) =
  [OUnit; OBool false; OUnit; OBool true; OBool true; OUnit; OBool true; OBool true; OCount 1; OUnit; OUnit; OUnit; OBool true; OCount 3; OUnit; ONoDrv].
Proof. vm_compute. reflexivity. Qed.

(* ---- T5: stop() does not wait for ever (the deadlock-freedom half that a call-level model cannot carry) ----
   The worker loops are regenerated from the current source by kt.py as round functions (Gen/Kernels_gen.v); the theorems are
   for every interleaving with other threads and every environment (queue contents, sockets, capture file), over the model
   Model/Worker.v whose only assumptions are that the calls a round makes return (listed in *_calls; popWait and select carry
   time-outs) and that the thread is scheduled. *)
From Coq Require Import String.
From RS Require Import Gen.Kernels_gen Model.Worker Proofs.WorkerExit.

(* once the exit request is made, one round of the decoding thread is enough for join() to return - whatever the other threads
   do in between, in particular however many packets keep arriving *)
Theorem C11_T5_decode_thread_exits s acts :
  w_exit s = true -> existsb is_round acts = true -> w_returned (wrun LidarDriverImpl_processPacket_round s acts) = true.
Proof. exact (one_round_suffices _ processPacket_exits s acts). Qed.
Print Assumptions C11_T5_decode_thread_exits.
(* ... and over a whole history at most one round is ever started after the request *)
Theorem C11_T5_at_most_one_round_after_stop acts : w_rounds_after (wrun LidarDriverImpl_processPacket_round winit acts) <= 1.
Proof. exact (at_most_one_round_after_request _ processPacket_exits acts). Qed.
(* the same for the receiving threads of the socket, pcap and jumbo pcap inputs *)
Theorem C11_T5_recv_threads_exit s acts : w_exit s = true -> existsb is_round acts = true ->
  w_returned (wrun InputSock_recvPacket_round s acts) = true /\ w_returned (wrun InputPcap_recvPacket_round s acts) = true /\
  w_returned (wrun InputPcapJumbo_recvPacket_round s acts) = true.
Proof.
  intros H1 H2. exact (conj (one_round_suffices _ sock_recv_exits s acts H1 H2)
                      (conj (one_round_suffices _ pcap_recv_exits s acts H1 H2) (one_round_suffices _ pcap_jumbo_recv_exits s acts H1 H2))).
Qed.
(* a thread that has returned does nothing any more: no round, hence no callback, after join() *)
Theorem C11_T5_nothing_after_join s acts : w_returned s = true -> w_rounds (wrun LidarDriverImpl_processPacket_round s acts) = w_rounds s.
Proof. exact (no_round_after_return _ s acts). Qed.
(* the decoding thread ends for no other reason (empty queue, time-out): a started driver keeps decoding until stop() *)
Theorem C11_T5_only_on_request cs : LidarDriverImpl_processPacket_round false cs = RCont.
Proof. exact (processPacket_only_on_request cs). Qed.
(* what the round of the decoding thread tests and calls *)
Theorem C11_T5_round_shape :
  LidarDriverImpl_processPacket_conds = ["pkt.get() == NULL"%string] /\
  LidarDriverImpl_processPacket_calls = ["popWait"%string; "get"%string; "internalProcessPacket"%string].
Proof. exact processPacket_shape. Qed.
(* non-vacuity: packets keep arriving (the queue is never empty: condition false), the request is made, one more round *)
Example C11_E2_stop_while_feeding :
  let acts := [WRound [false]; WOther; WRound [false]; WOther; WSetExit; WOther; WOther; WRound [false]; WOther; WRound [false]] in
  let s := wrun LidarDriverImpl_processPacket_round winit acts in
  w_returned s = true /\ w_rounds s = 3 /\ w_rounds_after s = 1.
Proof. vm_compute. repeat split; reflexivity. Qed.

(* T8: numbering across restarts, on the current source (splitFrame() regenerated and interpreted, Proofs/Handover.v): a frame boundary
   that falls on an empty open frame - stop() empties the open frame, so the first boundary after a restart can - delivers nothing, asks
   the caller for nothing and uses up no sequence number: the next delivered cloud carries the number that follows the last delivered one *)
From RS Require Import Model.Driver Proofs.Handover.
Theorem C11_T8_empty_frame_keeps_numbering v th now ts : v_open v = [] ->
  exists s, run sst (s_atom now ts) s_cond 8 LidarDriverImpl_splitFrame_effects (mk_sst v th [] None None) = Go s /\
            s_v s = v /\ s_th s = th /\ s_out s = [].
Proof. exact (splitFrame_code_empty_frame v th now ts). Qed.
Print Assumptions C11_T8_empty_frame_keeps_numbering.

(* T9: the lifecycle calls themselves. start(), stop(), decodePacket() and the destructor of lidar_driver_impl.hpp are regenerated on every
   run as statement trees and interpreted over the model's state (Proofs/LifecycleCode.v: what each statement does to flags, threads and
   the queue; a std::thread assigned while joinable terminates; join() on the decoding thread returns only after the exit request;
   the open frame is cleared only once that thread is gone). For every state the model can reach (LInv) the interpreted current
   source takes exactly the model's step and returns the model's value: start() and stop() are idempotent, start() before init() is
   refused without effect, stop() joins - after asking - and returns, decodePacket() queues on an initialised RAW_PACKET driver only,
   the destructor stops first *)
From RS Require Import Proofs.LifecycleCode.
Theorem C11_T9_start_code_is_model s ex : LInv s -> l_alive s = true ->
  exists m r, lrun_code LidarDriverImpl_start_effects (mk_lm s ex) = Ret m r /\
              m_l m = fst (lstep s LStart) /\ obs_of_ret r = snd (lstep s LStart) /\
              (l_start s = false -> l_init s = true -> m_exit m = false).
Proof. exact (start_code_is_model s ex). Qed.
Print Assumptions C11_T9_start_code_is_model.
Theorem C11_T9_stop_code_is_model s ex : LInv s -> l_alive s = true ->
  exists m, (lrun_code LidarDriverImpl_stop_effects (mk_lm s ex) = Go m \/ exists r, lrun_code LidarDriverImpl_stop_effects (mk_lm s ex) = Ret m r) /\
            m_l m = fst (lstep s LStop).
Proof. exact (stop_code_is_model s ex). Qed.
Print Assumptions C11_T9_stop_code_is_model.
Theorem C11_T9_decodePacket_code_is_model s ex : l_alive s = true ->
  exists m, lrun_code LidarDriverImpl_decodePacket_effects (mk_lm s ex) = Go m /\ m_l m = fst (lstep s LFeed) /\ m_exit m = ex.
Proof. exact (decodePacket_code_is_model s ex). Qed.
Theorem C11_T9_destructor_code_is_model s ex : LInv s -> l_alive s = true ->
  LidarDriverImpl_dtor_effects = [EStmt "stop()"%string] /\
  exists m, (lrun_code LidarDriverImpl_stop_effects (mk_lm s ex) = Go m \/ exists r, lrun_code LidarDriverImpl_stop_effects (mk_lm s ex) = Ret m r) /\
            members_destroyed (m_l m) = Some (fst (lstep s LDestroy)).
Proof. exact (dtor_code_is_model s ex). Qed.
(* non-vacuity: a started socket driver is a reachable state; stop() on it leaves no thread behind *)
Example C11_T9_example :
  let s := fst (lrun lnone [LCreate KSock true 0; LInit; LStart]) in
  LInv s /\ l_alive s = true /\ l_handle s = true /\ l_recv s = true /\
  match lrun_code LidarDriverImpl_stop_effects (mk_lm s false) with Go m => l_handle (m_l m) = false /\ l_recv (m_l m) = false /\ m_exit m = true | _ => False end.
Proof. split; [apply linv_run, linv_none|]. vm_compute. repeat split; reflexivity. Qed.

