(* C11 - Lifecycle calls are safe in any order and stop() is a barrier. *)
From RS Require Import Base.Tac Model.Lifecycle Proofs.LifecycleInv.
Local Open Scope nat_scope.

(* T1: for EVERY call history (create / init / start / stop / feed / wait / destroy in any order and
   number): the worker threads exist exactly while the driver is started, started implies initialised,
   and a destroyed object has neither *)
Theorem C11_T1_invariant cs : LInv (fst (lrun lnone cs)).
Proof. apply linv_run. exact linv_none. Qed.
Print Assumptions C11_T1_invariant.

(* T2: stop() is a barrier after any history - when it returns no worker thread exists, so no callback
   can run until the next start(); destruction likewise *)
Theorem C11_T2_stop_is_barrier cs :
  let s := fst (lrun lnone (cs ++ [LStop])) in l_handle s = false /\ l_recv s = false /\ l_start s = false.
Proof.
  intros s. subst s. rewrite lrun_app. cbn [lrun].
  pose proof (stop_barrier (fst (lrun lnone cs)) (C11_T1_invariant cs)) as H. cbv zeta in H.
  destruct (lstep (fst (lrun lnone cs)) LStop) as [s1 o]. exact H.
Qed.
Theorem C11_T2b_destroy_is_barrier s :
  let s' := fst (lstep s LDestroy) in (l_handle s' = false /\ l_recv s' = false /\ l_start s' = false) \/ l_alive s = false.
Proof. exact (destroy_barrier s). Qed.

(* T3: init and start are idempotent; start before init returns false and changes nothing; a failed init changes nothing *)
Theorem C11_T3_init_idempotent s : l_alive s = true -> snd (lstep s LInit) = OBool true ->
  lstep (fst (lstep s LInit)) LInit = (fst (lstep s LInit), OBool true).
Proof. exact (init_idempotent s). Qed.
Theorem C11_T3_start_idempotent s : l_alive s = true -> snd (lstep s LStart) = OBool true ->
  lstep (fst (lstep s LStart)) LStart = (fst (lstep s LStart), OBool true).
Proof. exact (start_idempotent s). Qed.
Theorem C11_T3_start_before_init s : l_alive s = true -> l_init s = false -> l_start s = false -> lstep s LStart = (s, OBool false).
Proof. exact (start_before_init s). Qed.
Theorem C11_T3_failed_init_inert s : snd (lstep s LInit) = OBool false -> fst (lstep s LInit) = s.
Proof. exact (failed_init_inert s). Qed.

(* T4: a stopped driver can be started again and goes on where it was: the cumulative count never
   goes back, and packets accepted while stopped are decoded by the next session *)
Theorem C11_T4_count_monotone s c : (forall k ok n, c <> LCreate k ok n) -> l_done s <= l_done (fst (lstep s c)).
Proof. exact (done_monotone s c). Qed.
Theorem C11_T4_restart_continues s : l_alive s = true -> l_init s = true -> l_start s = false ->
  snd (lstep (fst (lstep s LStart)) LDrain) = OCount (l_done s + l_queued s).
Proof. exact (queued_survive_restart s). Qed.

Example C11_E1_history :
  snd (lrun lnone [LCreate KRaw true 0; LStart; LFeed; LInit; LInit; LFeed; LStart; LStart; LDrain; LStop; LFeed; LFeed; LStart; LDrain; LDestroy; LStart]) =
  [OUnit; OBool false; OUnit; OBool true; OBool true; OUnit; OBool true; OBool true; OCount 1; OUnit; OUnit; OUnit; OBool true; OCount 3; OUnit; ONoDrv].
Proof. vm_compute. reflexivity. Qed.
