(* C07 - Range and field-of-view filtering; NaN placeholders versus dense output. *)
From RS Require Import Base.Tac Base.Bytes Base.Dyadic Model.Desc Model.Kernels Model.Spec Model.Decoder Model.Driver Model.Oracles.
From RS Require Import Gen.Kernels_gen Gen.Params_gen Proofs.Eq_AzSection Proofs.Window Proofs.Slots Proofs.Stream Proofs.DriverInv Proofs.Dense.
Local Open Scope Z_scope.

(* T0: the window kernels of today's /repo (section.hpp, regenerated) are the model's *)
Theorem C07_T0_code_is_model_ctor s e : az_abs (AzimuthSection_ctor s e) = az_section_init s e.
Proof. exact (gen_az_ctor_eq s e). Qed.
Theorem C07_T0_code_is_model_in g a :
  fst (AzimuthSection_in_ g a) = az_in (az_abs g) a /\ snd (AzimuthSection_in_ g a) = g.
Proof. exact (gen_az_in_eq g a). Qed.
Print Assumptions C07_T0_code_is_model_in.

(* T1: range: a slot's range passes iff min <= rnd24(raw*res) <= max, with (min,max) the user's pair
   (negatives clamped to 0) when either is non-zero, else the model's *)
Theorem C07_T1_range_window d c :
  let umin := if dy_ltb (c_min_dist c) dy_zero then dy_zero else c_min_dist c in
  let umax := if dy_ltb (c_max_dist c) dy_zero then dy_zero else c_max_dist c in
  dist_window d c = if negb (dy_is_zero umin) || negb (dy_is_zero umax) then (umin, umax) else (d_dist_min d, d_dist_max d).
Proof. exact (dist_window_user d c). Qed.
Theorem C07_T1_range_closed w x : dist_in w x = true <-> dy_leb (fst w) x = true /\ dy_leb x (snd w) = true.
Proof. exact (dist_in_iff w x). Qed.

(* T2: window: for ALL integers start, end, a (un-normalised azimuths included) *)
Theorem C07_T2_window start end_ a : az_in (az_section_init start end_) a = in_windowb start end_ a.
Proof. exact (az_in_spec start end_ a). Qed.
Theorem C07_T2_window_set start end_ a :
  in_windowb start end_ a = true <->
  let s := start mod 36000 in let e := end_ mod 36000 in let x := a mod 36000 in
  (end_ - start) mod 36000 = 0 \/
  ((end_ - start) mod 36000 <> 0 /\ ((s > e /\ (s <= x \/ x < e)) \/ (s <= e /\ s <= x < e))).
Proof. exact (in_window_iff start end_ a). Qed.
Print Assumptions C07_T2_window_set.

(* T3: a mechanical slot is valid iff range and window tests pass at its calibrated azimuth; an
   invalid slot is a placeholder with intensity 0 and the slot's ring and timestamp *)
Theorem C07_T3_slot d c s t w sect b blk_off block_az az_diff block_ts chan :
  let raw := be16 b (blk_off + d_off_blk_chan d + chan * d_sizeof_chan d + d_off_chan_dist d) in
  let adv := dy_trunc (dy_mul_r 24 (dy_of_Z az_diff) (nthdy (t_chan_azis t) chan)) in
  let ahf0 := block_az + adv + nthZ (s_horiz s) (laser_of d chan) in
  let ahf := if s_reversal s then 36000 - ahf0 else ahf0 in
  p_valid (mech_channel d c s t w sect b blk_off block_az az_diff block_ts chan) =
  dist_in w (dy_mul_r 24 (dy_of_Z raw) (t_dist_res t)) && az_in sect ahf.
Proof. exact (mech_channel_valid d c s t w sect b blk_off block_az az_diff block_ts chan). Qed.

(* T4: for the same packets and clocks, whatever buffers the caller hands out, the dense run's
   clouds are the NaN-kept run's clouds with placeholders deleted and empty frames omitted *)
Theorem C07_T4_dense_is_filter bl tbl : forall evs vn vd thn thd,
  R vn vd -> nan_run_bounded bl tbl vn thn evs ->
  dpts (snd (drv_run bl tbl vd thd evs)) = squeeze (dpts (snd (drv_run bl tbl vn thn evs))).
Proof. exact (dense_is_filter bl tbl). Qed.
Print Assumptions C07_T4_dense_is_filter.
Theorem C07_T4_init d c an ad fn fd thn thd nown nowd : c_dense c = false ->
  R (fst (fst (init_drv d c an fn thn nown))) (fst (fst (init_drv d (densify c) ad fd thd nowd))).
Proof. exact (R_init d c an ad fn fd thn thd nown nowd). Qed.

(* non-vacuity: window [350deg, 10deg) at azimuths on both sides of 0, un-normalised *)
Example C07_nonvacuous :
  map (az_in (az_section_init 35000 1000)) [34999; 35000; 35999; 36000; 36999; 37000; -1; -1000; -1001; 0; 999; 1000]
  = [false; true; true; true; true; false; true; true; false; true; true; false].
Proof. vm_compute. reflexivity. Qed.
