(* Exact binary floating-point values as dyadic rationals m * 2^e, with IEEE round-to-nearest-even to
   p bits (p = 24 for float, 53 for double).  Exponent range is not modelled: every value the driver
   forms from 16/24-bit wire integers and its constants is far from overflow and underflow. *)
From Coq Require Import ZArith Bool.
Local Open Scope Z_scope.

Record dy := mkdy { dm : Z; de : Z }.
Definition dy_of_Z (z : Z) : dy := mkdy z 0.
Definition dy_zero : dy := mkdy 0 0.

Definition dy_cmp (a b : dy) : comparison :=
  let e := Z.min (de a) (de b) in (dm a * 2 ^ (de a - e)) ?= (dm b * 2 ^ (de b - e)).
Definition dy_leb (a b : dy) : bool := match dy_cmp a b with Gt => false | _ => true end.
Definition dy_ltb (a b : dy) : bool := match dy_cmp a b with Lt => true | _ => false end.
Definition dy_eqb (a b : dy) : bool := match dy_cmp a b with Eq => true | _ => false end.
Definition dy_is_zero (a : dy) : bool := dm a =? 0.

Definition bitlen (z : Z) : Z := if z =? 0 then 0 else Z.log2 (Z.abs z) + 1.

(* round a dyadic to p significant bits, ties to even; `sticky` says the true value lies strictly
   above |m| * 2^e (by less than one unit of m) *)
Definition dy_round_sticky (p : Z) (a : dy) (sticky : bool) : dy :=
  let m := dm a in let am := Z.abs m in
  let l := bitlen am in
  if (l <=? p) then a   (* only used with sticky = false in this case, or with l > p guaranteed *)
  else
    let k := l - p in
    (* q = am / 2^k, r = am mod 2^k, half = 2^(k-1), written with shifts (same values, cheaper to evaluate) *)
    let q := Z.shiftr am k in let r := am - Z.shiftl q k in let half := Z.shiftl 1 (k - 1) in
    let up := (r >? half) || ((r =? half) && (sticky || Z.odd q)) in
    mkdy (Z.sgn m * (if up then q + 1 else q)) (de a + k).
Definition dy_round (p : Z) (a : dy) : dy := dy_round_sticky p a false.

Definition dy_mul (a b : dy) : dy := mkdy (dm a * dm b) (de a + de b).
Definition dy_mul_r (p : Z) (a b : dy) : dy := dy_round p (dy_mul a b).

(* a / b rounded to p bits (b <> 0) *)
Definition dy_div_r (p : Z) (a b : dy) : dy :=
  let sg := Z.sgn (dm a) * Z.sgn (dm b) in
  let ma := Z.abs (dm a) in let mb := Z.abs (dm b) in
  if ma =? 0 then dy_zero else
  let s := Z.max 0 (p + 2 + bitlen mb - bitlen ma) in
  let n := ma * 2 ^ s in
  let q := n / mb in let r := n mod mb in
  dy_round_sticky p (mkdy (sg * q) (de a - de b - s)) (negb (r =? 0)).

(* conversions to integers *)
Definition dy_trunc (a : dy) : Z :=            (* C cast: toward zero *)
  if de a >=? 0 then Z.shiftl (dm a) (de a) else Z.sgn (dm a) * Z.shiftr (Z.abs (dm a)) (- de a).
Definition dy_round_half_away (a : dy) : Z :=  (* std::round *)
  if de a >=? 0 then dm a * 2 ^ (de a)
  else let d := 2 ^ (- de a) in
       let am := Z.abs (dm a) in
       Z.sgn (dm a) * ((2 * am + d) / (2 * d)).
Definition dy_floor (a : dy) : Z :=
  if de a >=? 0 then dm a * 2 ^ (de a) else dm a / 2 ^ (- de a).
