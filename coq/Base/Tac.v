(* Shared tactics / arithmetic setup. *)
From Coq Require Export ZArith Lia List Bool.
Require Export ZifyBool.
Export ListNotations.
Ltac Zify.zify_post_hook ::= Z.to_euclidean_division_equations.

(* split the innermost `if` conditions one at a time *)
Ltac split_ifs :=
  repeat (match goal with
          | |- context [if ?b then _ else _] =>
              lazymatch b with
              | context [if _ then _ else _] => fail
              | _ => destruct b eqn:?
              end
          end).

(* finite ranges as lists, for sweeps that are lifted by forallb_forall *)
Fixpoint zrange_aux (lo : Z) (n : nat) : list Z :=
  match n with O => [] | S k => lo :: zrange_aux (lo + 1) k end.
Definition zrange (lo hi : Z) : list Z := zrange_aux lo (Z.to_nat (hi - lo)).

Lemma zrange_aux_In lo n x : (lo <= x < lo + Z.of_nat n)%Z -> In x (zrange_aux lo n).
Proof.
  revert lo; induction n as [|n IH]; intros lo H; [lia|].
  cbn [zrange_aux]. destruct (Z.eq_dec lo x) as [->|Hne]; [now left|right].
  apply IH. lia.
Qed.
Lemma zrange_In lo hi x : (lo <= x < hi)%Z -> In x (zrange lo hi).
Proof. intros H. unfold zrange. apply zrange_aux_In. lia. Qed.

Lemma filter_length_le {A} (f : A -> bool) (l : list A) : (length (filter f l) <= length l)%nat.
Proof. induction l as [|x l IH]; cbn; [lia|]. destruct (f x); cbn; lia. Qed.
