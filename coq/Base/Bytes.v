(* Byte strings as lists of Z with total (default 0) readers.  Bounds are the subject of the layout
   obligations (C08), not of these readers. *)
From Coq Require Import ZArith List.
Import ListNotations.
Local Open Scope Z_scope.

Definition bytes := list Z.
Definition blen (b : bytes) : Z := Z.of_nat (length b).
Definition u8 (b : bytes) (i : Z) : Z := nth (Z.to_nat i) b 0.
Definition be16 (b : bytes) (i : Z) : Z := u8 b i * 256 + u8 b (i + 1).
Definition be24 (b : bytes) (i : Z) : Z := be16 b i * 256 + u8 b (i + 2).
Definition be32 (b : bytes) (i : Z) : Z := be16 b i * 65536 + be16 b (i + 2).
Definition be48 (b : bytes) (i : Z) : Z := be16 b i * 4294967296 + be32 b (i + 2).
Definition sbe16 (b : bytes) (i : Z) : Z := let v := be16 b i in if v >=? 32768 then v - 65536 else v.
Definition slice (b : bytes) (off len : Z) : bytes := firstn (Z.to_nat len) (skipn (Z.to_nat off) b).

Fixpoint prefix_eqb (p b : bytes) : bool :=
  match p, b with
  | [], _ => true
  | x :: p', y :: b' => (x =? y) && prefix_eqb p' b'
  | _ :: _, [] => false
  end.
(* memcmp(b + off, id, len(id)) == 0 *)
Definition match_at (b : bytes) (off : Z) (id : bytes) : bool := prefix_eqb id (skipn (Z.to_nat off) b).

(* replace len(v) bytes at offset off *)
Definition splice (b : bytes) (off : Z) (v : bytes) : bytes :=
  firstn (Z.to_nat off) b ++ v ++ skipn (Z.to_nat off + length v) b.

Fixpoint be_bytes (n : nat) (v : Z) : bytes :=
  match n with O => [] | S k => be_bytes k (v / 256) ++ [v mod 256] end.
