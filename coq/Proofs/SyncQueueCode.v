(* C10: the four operations of SyncQueue (utility/sync_queue.hpp, the default build without ENABLE_WAIT_IF_QUEUE_EMPTY), regenerated from
   the source as statement trees (Gen/Kernels_gen.v) and interpreted over a queue of items with its mutex: every access to queue_ happens
   while the mutex is held (an access outside is not interpretable: the obligation fails), the mutex is never taken twice, it is released
   before push() notifies and returns; and the operations are the ones the queue model (Model/Queue.v) idealises as atomic steps:
   push appends and returns the size it saw, notifying exactly when the queue was empty; pop / popWait take the oldest item or return
   null; clear drops everything. *)
From Coq Require Import String.
From RS Require Import Base.Tac Gen.Kernels_gen Proofs.Handover.
Local Open Scope nat_scope.

Record sq := mk_sq {
  k_q : list nat;            (* queue_ (items named by numbers) *)
  k_locked : bool;           (* mtx_ held by this thread *)
  k_value : option nat;      (* the local `value` (None: a null pointer) *)
  k_empty : bool; k_size : nat;   (* locals of push *)
  k_notified : bool;
  k_arg : nat                (* the argument of push *)
}.

Inductive stag := SDeclEmpty | SDeclSize | SLock | SEmptyRead | SPushQ | SSizeRead | SHook | SScopeEnd | SNotify
                | SDeclValue | SFront | SPopQ | SWait | SDeclTmp | SSwap.
Inductive sctag := SScope | SWasEmpty | SNonEmpty.
Definition stag_of (t : string) : option stag :=
  if String.prefix "RS_VERIF_EVENT(" t then Some SHook
  else if (t =? "bool empty = false")%string then Some SDeclEmpty
  else if (t =? "size_t size = 0")%string then Some SDeclSize
  else if (t =? "std::lock_guard<std::mutex> lg(mtx_)")%string then Some SLock
  else if (t =? "std::unique_lock<std::mutex> ul(mtx_)")%string then Some SLock
  else if (t =? "empty = queue_.empty()")%string then Some SEmptyRead
  else if (t =? "queue_.push(value)")%string then Some SPushQ
  else if (t =? "size = queue_.size()")%string then Some SSizeRead
  else if (t =? "}")%string then Some SScopeEnd
  else if (t =? "cv_.notify_one()")%string then Some SNotify
  else if (t =? "T value")%string then Some SDeclValue
  else if (t =? "value = queue_.front()")%string then Some SFront
  else if (t =? "queue_.pop()")%string then Some SPopQ
  else if (t =? "cv_.wait_for(ul, std::chrono::microseconds(usec), [this] { return (!queue_.empty()); })")%string then Some SWait
  else if (t =? "std::queue<T> empty")%string then Some SDeclTmp
  else if (t =? "swap(empty, queue_)")%string then Some SSwap
  else None.
Definition sctag_of (t : string) : option sctag :=
  if (t =? "{")%string then Some SScope
  else if (t =? "empty")%string then Some SWasEmpty
  else if (t =? "!queue_.empty()")%string then Some SNonEmpty
  else None.

Section SQ.
  (* what the queue holds when wait_for() returns (the mutex is released while waiting: other threads may have pushed, popped, cleared) *)
  Variable after_wait : list nat.

  Definition upd_q (m : sq) (q : list nat) : sq := mk_sq q (k_locked m) (k_value m) (k_empty m) (k_size m) (k_notified m) (k_arg m).
  Definition s_act (g : stag) (m : sq) : option sq :=
    match g with
    | SHook | SDeclTmp => Some m
    | SDeclEmpty => Some (mk_sq (k_q m) (k_locked m) (k_value m) false (k_size m) (k_notified m) (k_arg m))
    | SDeclSize => Some (mk_sq (k_q m) (k_locked m) (k_value m) (k_empty m) 0 (k_notified m) (k_arg m))
    | SDeclValue => Some (mk_sq (k_q m) (k_locked m) None (k_empty m) (k_size m) (k_notified m) (k_arg m))
    | SLock => if k_locked m then None (* the mutex is not recursive *) else Some (mk_sq (k_q m) true (k_value m) (k_empty m) (k_size m) (k_notified m) (k_arg m))
    | SScopeEnd => if k_locked m then Some (mk_sq (k_q m) false (k_value m) (k_empty m) (k_size m) (k_notified m) (k_arg m)) else None
    | SNotify => Some (mk_sq (k_q m) (k_locked m) (k_value m) (k_empty m) (k_size m) true (k_arg m))
    | SEmptyRead => if k_locked m then Some (mk_sq (k_q m) true (k_value m) (match k_q m with [] => true | _ => false end) (k_size m) (k_notified m) (k_arg m)) else None
    | SPushQ => if k_locked m then Some (upd_q m (k_q m ++ [k_arg m])) else None
    | SSizeRead => if k_locked m then Some (mk_sq (k_q m) true (k_value m) (k_empty m) (length (k_q m)) (k_notified m) (k_arg m)) else None
    | SFront => if k_locked m then match k_q m with x :: _ => Some (mk_sq (k_q m) true (Some x) (k_empty m) (k_size m) (k_notified m) (k_arg m)) | [] => None end else None
    | SPopQ => if k_locked m then match k_q m with _ :: r => Some (upd_q m r) | [] => None end else None
    | SWait => if k_locked m then Some (upd_q m after_wait) else None
    | SSwap => if k_locked m then Some (upd_q m []) else None
    end.
  Definition s_test (g : sctag) (m : sq) : option bool :=
    match g with
    | SScope => Some true
    | SWasEmpty => Some (k_empty m)
    | SNonEmpty => if k_locked m then Some (match k_q m with [] => false | _ => true end) else None
    end.
  Definition sq_atom (t : string) (m : sq) : option sq := match stag_of t with Some g => s_act g m | None => None end.
  Definition sq_cond (t : string) (m : sq) : option bool := match sctag_of t with Some g => s_test g m | None => None end.
  Definition sqrun (effs : list eff) (m : sq) := run sq sq_atom sq_cond 14 effs m.

  Ltac stags :=
    match goal with
    | |- context [sq_atom ?t ?m] => let g := eval vm_compute in (stag_of t) in change (sq_atom t m) with (match g with Some g' => s_act g' m | None => None end); cbv beta iota
    | |- context [sq_cond ?t ?m] => let g := eval vm_compute in (sctag_of t) in change (sq_cond t m) with (match g with Some g' => s_test g' m | None => None end); cbv beta iota
    end.
  Ltac sstep := repeat first [ rewrite run_eq; cbv beta iota | stags | progress cbn [s_act s_test upd_q k_q k_locked k_value k_empty k_size k_notified k_arg] ].

  Definition ret_size : string := "size".
  Definition ret_value : string := "value".
  Definition idle (q : list nat) (x : nat) : sq := mk_sq q false None false 0 false x.

  (* push(x): x goes to the back, the size returned is the size seen under the mutex, the consumer is woken exactly when the queue was
     empty, and the mutex is free again before that *)
  Theorem push_code q x :
    exists m, sqrun SyncQueue_push_effects (idle q x) = Ret m "size" /\
              k_q m = q ++ [x] /\ k_size m = length q + 1 /\ k_notified m = (match q with [] => true | _ => false end) /\ k_locked m = false.
  Proof.
    unfold SyncQueue_push_effects, sqrun, idle. sstep.
    destruct q as [|y r]; sstep; eexists; (split; [reflexivity|]); cbn [k_q k_size k_notified k_locked]; rewrite ?app_length; cbn [length]; repeat split; try reflexivity; lia.
  Qed.

  (* pop(): the oldest item, or null from an empty queue; the guard lives to the end of the function *)
  Theorem pop_code q x :
    exists m, sqrun SyncQueue_pop_effects (idle q x) = Ret m "value" /\
              match q with [] => k_value m = None /\ k_q m = [] | y :: r => k_value m = Some y /\ k_q m = r end /\ k_locked m = true.
  Proof.
    unfold SyncQueue_pop_effects, sqrun, idle. sstep.
    destruct q as [|y r]; sstep; eexists; (split; [reflexivity|]); cbn [k_q k_value k_locked]; repeat split; reflexivity.
  Qed.

  (* popWait(): whatever happened while it waited, it takes the oldest item the queue holds when the wait returns, or returns null *)
  Theorem popWait_code q x :
    exists m, sqrun SyncQueue_popWait_effects (idle q x) = Ret m "value" /\
              match after_wait with [] => k_value m = None /\ k_q m = [] | y :: r => k_value m = Some y /\ k_q m = r end /\ k_locked m = true.
  Proof.
    unfold SyncQueue_popWait_effects, sqrun, idle. sstep.
    destruct after_wait as [|y r]; sstep; eexists; (split; [reflexivity|]); cbn [k_q k_value k_locked]; repeat split; reflexivity.
  Qed.

  (* clear(): nothing is left *)
  Theorem clear_code q x : exists m, sqrun SyncQueue_clear_effects (idle q x) = Go m /\ k_q m = [] /\ k_locked m = true.
  Proof. unfold SyncQueue_clear_effects, sqrun, idle. sstep. eexists. repeat split; reflexivity. Qed.
End SQ.
