(* C11: start(), stop(), decodePacket() and the destructor of LidarDriverImpl, regenerated from the source as statement trees
   (Gen/Kernels_gen.v) and interpreted over the lifecycle model's state: the interpreted current source takes the same step as
   Model/Lifecycle.v's lstep, for every state that satisfies the model's invariant (threads exist iff started, ...).
   The dictionary below says what each leaf does to the model state; two of its entries carry the thread facts the deadlock half of
   C11 is about: assigning a new std::thread to a joinable one terminates the process, and join() on the decoding thread returns
   only if the exit request was made before (C11_T5: the loop leaves for no other reason) - so a stop() that joins before it sets the
   flag, or a start() that does not clear it, does not interpret. *)
From Coq Require Import String.
From RS Require Import Base.Tac Model.Lifecycle Proofs.LifecycleInv Gen.Kernels_gen Proofs.Handover.
Local Open Scope nat_scope.

Record lm := mk_lm { m_l : lst; m_exit : bool (* to_exit_handle_ *) }.

Definition upd (s : lst) (ini st h r : bool) (q : nat) (u : bool) : lst :=
  mk_lst (l_alive s) (l_kind s) (l_ok s) (l_file s) ini st h r q (l_done s) u.

Definition l_atom (t : string) (m : lm) : option lm :=
  let s := m_l m in
  if (t =? "to_exit_handle_ = false")%string then Some (mk_lm s false)
  else if (t =? "to_exit_handle_ = true")%string then Some (mk_lm s true)
  else if (t =? "handle_thread_ = std::thread(std::bind(&LidarDriverImpl<T_PointCloud>::processPacket, this))")%string then
    (if l_handle s then None          (* move-assignment to a joinable std::thread: std::terminate *)
     else Some (mk_lm (upd s (l_init s) (l_start s) true (l_recv s) (l_queued s) (l_unread s)) (m_exit m)))
  else if (t =? "input_ptr_->start()")%string then
    (* Input::start(): the receiving thread of a socket / capture-file input; a capture file is read anew *)
    Some (mk_lm (upd s (l_init s) (l_start s) (l_handle s) (negb (kind_eqb (l_kind s) KRaw)) (l_queued s) (kind_eqb (l_kind s) KPcap)) (m_exit m))
  else if (t =? "input_ptr_->stop()")%string then
    Some (mk_lm (upd s (l_init s) (l_start s) (l_handle s) false (l_queued s) false) (m_exit m))
  else if (t =? "handle_thread_.join()")%string then
    (if negb (l_handle s) then None   (* join() on a thread that is not joinable throws *)
     else if negb (m_exit m) then None (* the decoding loop leaves only on the exit request: this join() would not return *)
     else Some (mk_lm (upd s (l_init s) (l_start s) false (l_recv s) (l_queued s) (l_unread s)) (m_exit m)))
  else if (t =? "decoder_ptr_->point_cloud_->points.clear()")%string then
    (if l_handle s then None          (* the decoding thread may still be appending to the open frame: a data race *)
     else Some m)                     (* the open frame itself is not part of this model (see C11_T8) *)
  else if (t =? "start_flag_ = true")%string then Some (mk_lm (upd s (l_init s) true (l_handle s) (l_recv s) (l_queued s) (l_unread s)) (m_exit m))
  else if (t =? "start_flag_ = false")%string then Some (mk_lm (upd s (l_init s) false (l_handle s) (l_recv s) (l_queued s) (l_unread s)) (m_exit m))
  else if (t =? "cb_feed_pkt_(pkt.buf_.data(), pkt.buf_.size())")%string then
    Some (mk_lm (upd s (l_init s) (l_start s) (l_handle s) (l_recv s) (S (l_queued s)) (l_unread s)) (m_exit m))
  else None.

Definition l_cond (t : string) (m : lm) : option bool :=
  let s := m_l m in
  if (t =? "start_flag_")%string then Some (l_start s)
  else if (t =? "!start_flag_")%string then Some (negb (l_start s))
  else if (t =? "!init_flag_")%string then Some (negb (l_init s))
  else if (t =? "decoder_ptr_->point_cloud_")%string then Some true
  else if (t =? "cb_feed_pkt_")%string then Some (l_init s && kind_eqb (l_kind s) KRaw)   (* installed by init(), for a RAW_PACKET input only *)
  else None.

Definition lrun_code (effs : list eff) (m : lm) := run lm l_atom l_cond 12 effs m.

(* what the caller observes of a returned value *)
Definition obs_of_ret (t : string) : obs :=
  if (t =? "true")%string then OBool true else if (t =? "false")%string then OBool false else OUnit.

Ltac lsimp := cbn [lrun_code run l_cond l_atom String.eqb Ascii.eqb Bool.eqb m_l m_exit upd
                   l_alive l_kind l_ok l_file l_init l_start l_handle l_recv l_queued l_done l_unread negb andb].

(* start(): same step, same return value, and the exit request is cleared when a session starts *)
Theorem start_code_is_model s ex : LInv s -> l_alive s = true ->
  exists m r, lrun_code LidarDriverImpl_start_effects (mk_lm s ex) = Ret m r /\
              m_l m = fst (lstep s LStart) /\ obs_of_ret r = snd (lstep s LStart) /\
              (l_start s = false -> l_init s = true -> m_exit m = false).
Proof.
  destruct s as [al k ok fl ini st h r q d u]. unfold LInv. cbn [l_handle l_start l_recv l_kind l_init l_alive l_unread].
  intros (H1 & H2 & H3 & H4 & H5) Ha. subst al h r. unfold LidarDriverImpl_start_effects.
  destruct st; [|destruct ini]; vm_compute.
  - eexists _, _. repeat split; try reflexivity. intros; discriminate.
  - eexists _, _. repeat split; try reflexivity.
  - eexists _, _. repeat split; try reflexivity. intros; discriminate.
Qed.

(* stop(): same step; it returns (the join it performs is preceded by the exit request) *)
Theorem stop_code_is_model s ex : LInv s -> l_alive s = true ->
  exists m, (lrun_code LidarDriverImpl_stop_effects (mk_lm s ex) = Go m \/ exists r, lrun_code LidarDriverImpl_stop_effects (mk_lm s ex) = Ret m r) /\
            m_l m = fst (lstep s LStop).
Proof.
  destruct s as [al k ok fl ini st h r q d u]. unfold LInv. cbn [l_handle l_start l_recv l_kind l_init l_alive l_unread].
  intros (H1 & H2 & H3 & H4 & H5) Ha. subst al h r. unfold LidarDriverImpl_stop_effects.
  destruct st; vm_compute.
  - eexists. split; [left; reflexivity|]. reflexivity.
  - eexists. split; [right; eexists; reflexivity|]. reflexivity.
Qed.

(* decodePacket(): a packet is accepted exactly by an initialised RAW_PACKET driver - started or not - and is otherwise ignored *)
Theorem decodePacket_code_is_model s ex : l_alive s = true ->
  exists m, lrun_code LidarDriverImpl_decodePacket_effects (mk_lm s ex) = Go m /\ m_l m = fst (lstep s LFeed) /\ m_exit m = ex.
Proof.
  destruct s as [al k ok fl ini st h r q d u]. cbn [l_alive]. intros ->. unfold LidarDriverImpl_decodePacket_effects.
  destruct ini, k; vm_compute; eexists; repeat split; reflexivity.
Qed.

(* the destructor: its body is stop(); then the members go (the input, the queues, the thread object - which must not be joinable
   any more, or std::terminate is called) *)
Definition members_destroyed (s : lst) : option lst :=
  if l_handle s then None else Some (mk_lst false (l_kind s) (l_ok s) (l_file s) false false false false 0 (l_done s) false).

Theorem dtor_code_is_model s ex : LInv s -> l_alive s = true ->
  LidarDriverImpl_dtor_effects = [EStmt "stop()"%string] /\
  exists m, (lrun_code LidarDriverImpl_stop_effects (mk_lm s ex) = Go m \/ exists r, lrun_code LidarDriverImpl_stop_effects (mk_lm s ex) = Ret m r) /\
            members_destroyed (m_l m) = Some (fst (lstep s LDestroy)).
Proof.
  intros Hi Ha. split; [reflexivity|].
  destruct (stop_code_is_model s ex Hi Ha) as (m & Hr & Hm). exists m. split; [exact Hr|]. rewrite Hm.
  destruct s as [al k ok fl ini st h r q d u]. unfold LInv in Hi. cbn [l_handle l_start l_recv l_kind l_init l_alive l_unread] in *.
  destruct Hi as (H1 & H2 & H3 & H4 & H5). subst al h r.
  destruct st; cbn; reflexivity.
Qed.
