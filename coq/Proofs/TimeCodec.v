(* C05: header time codecs. *)
From RS Require Import Base.Tac Base.Bytes Base.Dyadic Model.Desc Model.Decoder.
Local Open Scope Z_scope.

(* base-256 digits: x = (x/256)*256 + x mod 256 with named quotient/remainder, to keep lia's problem small *)
Ltac digit x q r :=
  let Hq := fresh "Hdm" in let Hr := fresh "Hrb" in
  pose proof (Z.div_mod x 256 ltac:(lia)) as Hq; pose proof (Z.mod_pos_bound x 256 ltac:(lia)) as Hr;
  set (q := x / 256) in *; set (r := x mod 256) in *; clearbody q r.

Lemma digits6 s : 0 <= s < 281474976710656 ->
  (s / 256 / 256 / 256 / 256 / 256 mod 256 * 256 + s / 256 / 256 / 256 / 256 mod 256) * 4294967296 +
  ((s / 256 / 256 / 256 mod 256 * 256 + s / 256 / 256 mod 256) * 65536 + (s / 256 mod 256 * 256 + s mod 256)) = s.
Proof.
  intros Hs. digit s q1 r0. digit q1 q2 r1. digit q2 q3 r2. digit q3 q4 r3. digit q4 q5 r4.
  assert (q5 mod 256 = q5) by (apply Z.mod_small; lia). lia.
Qed.
Lemma digits4 u : 0 <= u < 4294967296 ->
  (u / 256 / 256 / 256 mod 256 * 256 + u / 256 / 256 mod 256) * 65536 + (u / 256 mod 256 * 256 + u mod 256) = u.
Proof.
  intros Hu. digit u q1 r0. digit q1 q2 r1. digit q2 q3 r2.
  assert (q3 mod 256 = q3) by (apply Z.mod_small; lia). lia.
Qed.
Lemma digits2 u : 0 <= u < 65536 -> u / 256 mod 256 * 256 + u mod 256 = u.
Proof. intros Hu. digit u q1 r0. assert (q1 mod 256 = q1) by (apply Z.mod_small; lia). lia. Qed.

(* ---- readers on explicit byte lists *)
Lemma parse_utc_bytes a0 a1 a2 a3 a4 a5 b0 b1 b2 b3 rest :
  parse_utc (a0 :: a1 :: a2 :: a3 :: a4 :: a5 :: b0 :: b1 :: b2 :: b3 :: rest) 0 =
  (((a0 * 256 + a1) * 4294967296 + ((a2 * 256 + a3) * 65536 + (a4 * 256 + a5))) * 1000000 +
   ((b0 * 256 + b1) * 65536 + (b2 * 256 + b3))) mod 18446744073709551616.
Proof. reflexivity. Qed.

Lemma create_utc_bytes t :
  create_utc t =
  let s := (t / 1000000) mod 281474976710656 in let u := t mod 1000000 in
  [ (s / 256 / 256 / 256 / 256 / 256) mod 256; (s / 256 / 256 / 256 / 256) mod 256; (s / 256 / 256 / 256) mod 256;
    (s / 256 / 256) mod 256; (s / 256) mod 256; s mod 256;
    (u / 256 / 256 / 256) mod 256; (u / 256 / 256) mod 256; (u / 256) mod 256; u mod 256 ].
Proof. reflexivity. Qed.

(* T1: the 6+4 byte UTC format round-trips every uint64 microsecond count (its seconds fit 48 bits) *)
Theorem utc_roundtrip t rest : 0 <= t < 18446744073709551616 ->
  parse_utc (create_utc t ++ rest) 0 = t.
Proof.
  intros Ht. rewrite create_utc_bytes. cbv zeta. cbn [app]. rewrite parse_utc_bytes.
  set (s := (t / 1000000) mod 281474976710656). set (u := t mod 1000000).
  assert (Hs : 0 <= s < 281474976710656) by (subst s; apply Z.mod_pos_bound; lia).
  assert (Hu : 0 <= u < 1000000) by (subst u; apply Z.mod_pos_bound; lia).
  rewrite (digits6 s Hs), (digits4 u ltac:(lia)). subst s u.
  rewrite (Z.mod_small (t / 1000000)) by lia.
  rewrite Z.mod_small by lia. lia.
Qed.

(* the decoded value is seconds * 10^6 + sub-second field whenever that fits 64 bits *)
Theorem parse_utc_value b off : be48 b off * 1000000 + be32 b (off + 6) < 18446744073709551616 ->
  0 <= be48 b off -> 0 <= be32 b (off + 6) ->
  parse_utc b off = be48 b off * 1000000 + be32 b (off + 6).
Proof. intros H H1 H2. unfold parse_utc. apply Z.mod_small. lia. Qed.

(* ---- calendar *)
Definition DAY_2000 : Z := 10957.     (* 2000-01-01 *)
Definition DAY_2256 : Z := 104459.    (* 2256-01-01 *)

Definition civil_ok (z : Z) : bool :=
  let '(y, m, d) := civil_from_days z in
  (days_from_civil y m d =? z) && (2000 <=? y) && (y <? 2256) && (1 <=? m) && (m <=? 12) && (1 <=? d) && (d <=? 31).

Lemma civil_sweep : forallb civil_ok (zrange DAY_2000 DAY_2256) = true.
Proof. vm_compute. reflexivity. Qed.

(* every day from 2000-01-01 to 2255-12-31: civil_from_days is a right inverse of days_from_civil
   and yields a valid date of that range (complete sweep of the 93,502 days, lifted) *)
Lemma civil_inverse z : DAY_2000 <= z < DAY_2256 ->
  let '(y, m, d) := civil_from_days z in
  days_from_civil y m d = z /\ 2000 <= y < 2256 /\ 1 <= m <= 12 /\ 1 <= d <= 31.
Proof.
  intros Hz. pose proof civil_sweep as H. rewrite forallb_forall in H. specialize (H z (zrange_In _ _ z Hz)).
  unfold civil_ok in H. destruct (civil_from_days z) as [[y m] d]. lia.
Qed.

Lemma days_linear y m d : days_from_civil y m d = days_from_civil y m 1 + (d - 1).
Proof. unfold days_from_civil. lia. Qed.

Lemma parse_ymd_bytes tz b0 b1 b2 b3 b4 b5 b6 b7 b8 b9 rest :
  parse_ymd tz (b0 :: b1 :: b2 :: b3 :: b4 :: b5 :: b6 :: b7 :: b8 :: b9 :: rest) 0 =
  (((days_from_civil (b0 + 2000 + (b1 - 1) / 12) ((b1 - 1) mod 12 + 1) 1 + (b2 - 1)) * 86400 + b3 * 3600 + b4 * 60 + b5 - tz) * 1000000
   + (b6 * 256 + b7) * 1000 + (b8 * 256 + b9)) mod 18446744073709551616.
Proof. reflexivity. Qed.

(* T2: calendar round trip: for every instant whose local date lies in 2000..2255 and every fixed
   zone offset, decoding the written header gives the instant back, to the microsecond *)
(* ... stated for a reader whose zone offset is k seconds ahead of the writer's: it reads the instant k seconds earlier *)
Theorem ymd_roundtrip_gen tz k t rest :
  0 <= t < 18446744073709551616 -> 0 <= t - k * 1000000 < 18446744073709551616 ->
  DAY_2000 <= (t / 1000000 + tz) / 86400 < DAY_2256 ->
  parse_ymd (tz + k) (create_ymd tz t ++ rest) 0 = t - k * 1000000.
Proof.
  intros Ht Htk Hd.
  unfold create_ymd. cbv zeta.
  set (us := t mod 1000). set (tot_ms := (t - us) / 1000). set (ms := tot_ms mod 1000).
  set (sec := tot_ms / 1000 + tz).
  assert (Hsec : tot_ms / 1000 = t / 1000000) by (subst tot_ms us; lia).
  assert (Hdays : DAY_2000 <= sec / 86400 < DAY_2256) by (subst sec; rewrite Hsec; exact Hd).
  pose proof (civil_inverse (sec / 86400) Hdays) as Hc.
  destruct (civil_from_days (sec / 86400)) as [[y m] d]. destruct Hc as (Hinv & Hy & Hm & Hdd).
  cbn [app be_bytes]. rewrite parse_ymd_bytes.
  assert (E1 : (y - 2000) mod 256 + 2000 + (m - 1) / 12 = y) by lia.
  assert (E2 : (m - 1) mod 12 + 1 = m) by lia.
  rewrite E1, E2, <- days_linear, Hinv.
  assert (Hus : 0 <= us < 1000) by (subst us; apply Z.mod_pos_bound; lia).
  assert (Hms : 0 <= ms < 1000) by (subst ms; apply Z.mod_pos_bound; lia).
  rewrite (digits2 ms ltac:(lia)), (digits2 us ltac:(lia)).
  set (rem := sec mod 86400).
  assert (E5 : sec / 86400 * 86400 + rem / 3600 * 3600 + rem mod 3600 / 60 * 60 + rem mod 60 = sec) by (subst rem; lia).
  rewrite E5. subst sec. replace (tot_ms / 1000 + tz - (tz + k)) with (tot_ms / 1000 - k) by lia.
  assert (E6 : (tot_ms / 1000 - k) * 1000000 + ms * 1000 + us = t - k * 1000000) by (subst ms tot_ms us; lia).
  rewrite E6. apply Z.mod_small. exact Htk.
Qed.
Theorem ymd_roundtrip tz t rest :
  0 <= t < 18446744073709551616 ->
  DAY_2000 <= (t / 1000000 + tz) / 86400 < DAY_2256 ->
  parse_ymd tz (create_ymd tz t ++ rest) 0 = t.
Proof.
  intros Ht Hd. pose proof (ymd_roundtrip_gen tz 0 t rest Ht ltac:(lia) Hd) as H.
  replace (tz + 0) with tz in H by lia. rewrite H. lia.
Qed.

(* ---- zones with daylight saving: the written header decodes to the instant, unless the instant lies in the hour that is
   repeated when daylight saving ends (its calendar time names two instants; mktime() picks the earlier one) *)
Lemma parse_ymd_z_nodst tz b off : parse_ymd_z tz [] b off = parse_ymd tz b off.
Proof. reflexivity. Qed.
Lemma create_ymd_z_nodst tz t : create_ymd_z tz [] t = create_ymd tz t.
Proof. reflexivity. Qed.

Definition unambiguous (dst : list (Z * Z)) (t : Z) : Prop :=
  in_dst dst (t / 1000000) = false -> in_dst dst (t / 1000000 - DST_SAVE) = false.

Theorem ymd_roundtrip_z tz dst t rest :
  0 <= t < 18446744073709551616 -> -86400 <= tz <= 86400 ->
  DAY_2000 <= (t / 1000000 + tz) / 86400 -> (t / 1000000 + tz + DST_SAVE) / 86400 < DAY_2256 ->
  unambiguous dst t ->
  parse_ymd_z tz dst (create_ymd_z tz dst t ++ rest) 0 = t.
Proof.
  intros Ht Htz Hlo Hhi Hu. unfold parse_ymd_z, create_ymd_z, unambiguous, DST_SAVE in *.
  assert (Hmid : (t / 1000000 + tz) / 86400 <= (t / 1000000 + tz + 3600) / 86400) by (apply Z.div_le_mono; lia).
  destruct (in_dst dst (t / 1000000)) eqn:E.
  - (* written as daylight time, read as daylight time *)
    rewrite (ymd_roundtrip (tz + 3600) t rest Ht) by lia. rewrite E. reflexivity.
  - (* written as standard time: read as daylight time it would be the instant one hour earlier, which is not daylight time *)
    assert (H2000 : 946684800 <= t / 1000000 + tz) by (unfold DAY_2000 in Hlo; lia).
    rewrite (ymd_roundtrip_gen tz 3600 t rest Ht) by (unfold DAY_2000, DAY_2256 in *; lia).
    replace ((t - 3600 * 1000000) / 1000000) with (t / 1000000 - 3600) by lia.
    rewrite (Hu eq_refl). apply ymd_roundtrip; [exact Ht | lia].
Qed.

(* the defect repaired by the fix commit: read with tm_isdst = 0 (always as standard time) a header written during daylight
   time decodes one hour late *)
Theorem ymd_isdst0_refuted : exists tz dst t,
  parse_ymd_z tz dst (create_ymd_z tz dst t) 0 = t /\ parse_ymd tz (create_ymd_z tz dst t) 0 = t + 3600000000.
Proof. exists 3600, [(1711846800, 1729990800)], 1721043045123456. split; vm_compute; reflexivity. Qed.

