(* C11: properties of the lifecycle model for every call history. *)
From RS Require Import Base.Tac Model.Lifecycle.
Local Open Scope nat_scope.

(* worker threads exist exactly while the driver is started; started implies initialised; a dead object has nothing *)
Definition LInv (s : lst) : Prop :=
  l_handle s = l_start s /\ l_recv s = (l_start s && negb (kind_eqb (l_kind s) KRaw)) /\
  (l_start s = true -> l_init s = true) /\ (l_alive s = false -> l_start s = false /\ l_init s = false) /\
  (l_unread s = true -> l_start s = true).

Lemma linv_none : LInv lnone.
Proof. unfold LInv, lnone; cbn. repeat split; try reflexivity; discriminate. Qed.

Lemma linv_step s c : LInv s -> LInv (fst (lstep s c)).
Proof.
  destruct s as [al k ok fl ini st h r q d u]. unfold LInv. cbn [l_handle l_start l_recv l_kind l_init l_alive l_unread].
  intros (H1 & H2 & H3 & H4 & H5). subst h r.
  destruct c as [k' ok' n'| | | | | | |]; destruct al, ini, st, ok, u, k;
    try (specialize (H3 eq_refl); discriminate); try (destruct (H4 eq_refl); discriminate); try (specialize (H5 eq_refl); discriminate);
    cbn; repeat split; intros; try reflexivity; try discriminate; try assumption; try (destruct k'; reflexivity).
Qed.

Theorem linv_run cs : forall s, LInv s -> LInv (fst (lrun s cs)).
Proof.
  induction cs as [|c r IH]; intros s H; [exact H|]. cbn [lrun].
  pose proof (linv_step s c H) as H1. destruct (lstep s c) as [s1 o]. cbn [fst] in H1.
  specialize (IH s1 H1). destruct (lrun s1 r) as [s2 os]. exact IH.
Qed.

(* init and start are idempotent *)
Lemma init_idempotent s : l_alive s = true -> snd (lstep s LInit) = OBool true ->
  lstep (fst (lstep s LInit)) LInit = (fst (lstep s LInit), OBool true).
Proof.
  intros Ha. unfold lstep. rewrite Ha. cbn [negb]. destruct (l_init s) eqn:Ei; cbn.
  - rewrite Ha, Ei. reflexivity.
  - destruct (l_ok s); cbn; [reflexivity | discriminate].
Qed.
Lemma start_idempotent s : l_alive s = true -> snd (lstep s LStart) = OBool true ->
  lstep (fst (lstep s LStart)) LStart = (fst (lstep s LStart), OBool true).
Proof.
  intros Ha. unfold lstep. rewrite Ha. cbn [negb]. destruct (l_start s) eqn:Es; cbn.
  - rewrite Ha, Es. reflexivity.
  - destruct (l_init s); cbn; [reflexivity | discriminate].
Qed.
(* start before init: false, nothing changes *)
Lemma start_before_init s : l_alive s = true -> l_init s = false -> l_start s = false -> lstep s LStart = (s, OBool false).
Proof. intros Ha Hi Hs. unfold lstep. rewrite Ha, Hi, Hs. reflexivity. Qed.
(* a failed init leaves the object as it was *)
Lemma failed_init_inert s : snd (lstep s LInit) = OBool false -> fst (lstep s LInit) = s.
Proof.
  unfold lstep. destruct (l_alive s); cbn [negb]; [|discriminate]. destruct (l_init s); [discriminate|]. destruct (l_ok s); [discriminate|]. reflexivity.
Qed.
(* stop and destruction are barriers: no worker thread is left *)
Lemma stop_barrier s : LInv s -> let s' := fst (lstep s LStop) in l_handle s' = false /\ l_recv s' = false /\ l_start s' = false.
Proof.
  intros (H1 & H2 & _ & H4 & _). unfold lstep. destruct (l_alive s) eqn:Ea; cbn [negb fst].
  - destruct (l_start s) eqn:Es; cbn; [repeat split|]. rewrite H1, H2, Es. repeat split.
  - destruct (H4 eq_refl) as [Hs _]. rewrite H1, H2, Hs. repeat split.
Qed.
Lemma destroy_barrier s : let s' := fst (lstep s LDestroy) in l_handle s' = false /\ l_recv s' = false /\ l_start s' = false \/ l_alive s = false.
Proof. unfold lstep. destruct (l_alive s); cbn; [left; repeat split | right; reflexivity]. Qed.

(* the packet count (and with it the packet / cloud numbering, which lives in the same object) never
   goes back while the object lives: stop / start do not reset it *)
Lemma done_monotone s c : (forall k ok n, c <> LCreate k ok n) -> l_done s <= l_done (fst (lstep s c)).
Proof.
  intros Hc. destruct s as [al k ok fl ini st h r q d u].
  destruct c as [k' ok' n'| | | | | | |]; try (exfalso; eapply Hc; reflexivity);
    destruct al, ini, st, ok, u, k; cbn; lia.
Qed.
(* packets accepted while stopped are not lost: they are decoded in the next session *)
Lemma queued_survive_restart s : l_alive s = true -> l_init s = true -> l_start s = false ->
  let s1 := fst (lstep s LStart) in let r := lstep s1 LDrain in
  snd r = OCount (l_done s + l_queued s).
Proof. intros Ha Hi Hs. unfold lstep. rewrite Ha, Hi, Hs. cbn. reflexivity. Qed.

Lemma lrun_app a : forall s b, fst (lrun s (a ++ b)) = fst (lrun (fst (lrun s a)) b).
Proof.
  induction a as [|c r IH]; intros s b; [reflexivity|]. cbn [app lrun].
  destruct (lstep s c) as [s1 o]. specialize (IH s1 b).
  destruct (lrun s1 (r ++ b)) as [s2 os]. destruct (lrun s1 r) as [s3 os3]. cbn [fst] in *. exact IH.
Qed.
