(* Frame-level facts about the driver model that do not depend on which rule splits frames nor on
   how a slot is judged valid: conservation of points, non-empty clouds, shape, sequence numbers,
   buffer identity.  Everything here is about Model/Driver.v's own definitions (the ones that are
   extracted and run against the real code). *)
From RS Require Import Base.Tac Base.Bytes Base.Dyadic Model.Desc Model.Kernels Model.Decoder Model.Driver Model.Oracles.
Local Open Scope Z_scope.

Definition clouds_of (o : list out) : list cloud :=
  flat_map (fun x => match x with OCloud c => [c] | _ => [] end) o.
Definition pts_of (o : list out) : list point := flat_map cl_points (clouds_of o).
Definition gets_of (o : list out) : list (option Z) :=
  flat_map (fun x => match x with OGet a => [a] | _ => [] end) o.
Definition errs_of (o : list out) : list Z :=
  flat_map (fun x => match x with OErr c => [c] | _ => [] end) o.

Lemma clouds_of_app a b : clouds_of (a ++ b) = clouds_of a ++ clouds_of b.
Proof. unfold clouds_of. apply flat_map_app. Qed.
Lemma pts_of_app a b : pts_of (a ++ b) = pts_of a ++ pts_of b.
Proof. unfold pts_of. rewrite clouds_of_app. apply flat_map_app. Qed.
Lemma gets_of_app a b : gets_of (a ++ b) = gets_of a ++ gets_of b.
Proof. unfold gets_of. apply flat_map_app. Qed.

(* ---- LIMIT_CALL sites only ever emit errors *)
Lemma limit_call_clouds t now c : clouds_of (snd (limit_call t now c)) = [].
Proof. unfold limit_call. destruct (th_get t c); destruct (_ >? 1); reflexivity. Qed.
Lemma delay_limit_call_clouds t now c : clouds_of (snd (delay_limit_call t now c)) = [].
Proof. unfold delay_limit_call. destruct (th_get t c); [destruct (_ >? 1)|]; reflexivity. Qed.
Lemma limit_call_gets t now c : gets_of (snd (limit_call t now c)) = [].
Proof. unfold limit_call. destruct (th_get t c); destruct (_ >? 1); reflexivity. Qed.

(* ---- getPointCloud *)
Lemma get_cloud_clouds fuel : forall answers fresh th now,
  clouds_of (snd (get_cloud fuel answers fresh th now)) = [].
Proof.
  induction fuel as [|k IH]; intros answers fresh th now.
  - destruct answers as [|[id|] r]; reflexivity.
  - destruct answers as [|[id|] r]; try reflexivity.
    cbn [get_cloud].
    destruct (limit_call th now ERR_POINTCLOUDNULL) as [th1 e] eqn:E1.
    specialize (IH r fresh th1 now).
    destruct (get_cloud k r fresh th1 now) as [[[[id a] f] th2] o] eqn:E2.
    cbn [snd] in *. cbn [clouds_of flat_map]. fold (clouds_of (e ++ o)).
    rewrite clouds_of_app, IH.
    pose proof (limit_call_clouds th now ERR_POINTCLOUDNULL) as H. rewrite E1 in H. cbn [snd] in H.
    rewrite H. reflexivity.
Qed.

(* the buffer id handed out is the last non-null answer recorded in the outputs *)
Definition last_some (l : list (option Z)) : option Z :=
  fold_left (fun acc x => match x with Some _ => x | None => acc end) l None.

Lemma get_cloud_id fuel : forall answers fresh th now,
  (length answers < fuel)%nat ->
  let r := get_cloud fuel answers fresh th now in
  exists pre, gets_of (snd r) = pre ++ [Some (fst (fst (fst (fst r))))] /\ Forall (fun x => x = None) pre.
Proof.
  induction fuel as [|k IH]; intros answers fresh th now Hlen; [inversion Hlen|].
  destruct answers as [|[id|] r].
  - exists []. split; [reflexivity|constructor].
  - exists []. split; [reflexivity|constructor].
  - cbn [get_cloud].
    destruct (limit_call th now ERR_POINTCLOUDNULL) as [th1 e] eqn:E1.
    assert (Hl : (length r < k)%nat) by (cbn [length] in Hlen; lia).
    specialize (IH r fresh th1 now Hl).
    destruct (get_cloud k r fresh th1 now) as [[[[id a] f] th2] o] eqn:E2.
    cbn [fst snd] in *. destruct IH as [pre [Hg Hp]].
    exists (None :: pre). split; [|constructor; auto].
    cbn [gets_of flat_map]. fold (gets_of (e ++ o)). rewrite gets_of_app, Hg.
    pose proof (limit_call_gets th now ERR_POINTCLOUDNULL) as H. rewrite E1 in H. cbn [snd] in H. rewrite H.
    reflexivity.
Qed.




(* ---- splitFrame *)
Lemma split_frame_spec v th now ts :
  let r := split_frame v th now ts in
  let v' := fst (fst r) in
  pts_of (snd r) ++ v_open v' = v_open v /\
  v_desc v' = v_desc v /\ v_cfg v' = v_cfg v /\ v_dec v' = v_dec v /\ v_pkt_seq v' = v_pkt_seq v /\
  (v_open v = [] -> r = (v, th, [])) /\
  (v_open v <> [] ->
     v_open v' = [] /\
     exists o', snd r = OCloud (mk_cloud (v_cloud_seq v) (v_open_buf v)
                                 (cloud_height (v_desc v) (v_cfg v))
                                 (cloud_width (v_desc v) (v_cfg v) (Z.of_nat (length (v_open v))))
                                 (c_dense (v_cfg v)) ts (v_open v)) :: o'
               /\ clouds_of o' = []
               /\ v_cloud_seq v' = (v_cloud_seq v + 1) mod 4294967296).
Proof.
  unfold split_frame. destruct (v_open v) as [|p ps] eqn:Eo.
  - cbn [fst snd pts_of clouds_of flat_map app]. rewrite Eo.
    split; [reflexivity|]. split; [reflexivity|]. split; [reflexivity|]. split; [reflexivity|]. split; [reflexivity|].
    split; [intros _; reflexivity | intros Hne; congruence].
  - pose proof (get_cloud_clouds (S (length (v_answers v))) (v_answers v) (v_fresh v) th now) as Hc.
    destruct (get_cloud (S (length (v_answers v))) (v_answers v) (v_fresh v) th now) as [[[[id a] f] th1] o] eqn:E.
    cbn [fst snd] in *.
    unfold pts_of. cbn [clouds_of flat_map]. fold (clouds_of o). rewrite Hc.
    cbn [app flat_map cl_points v_open set_open v_desc v_cfg v_dec v_pkt_seq v_cloud_seq].
    split; [rewrite !app_nil_r; reflexivity|]. split; [reflexivity|]. split; [reflexivity|]. split; [reflexivity|]. split; [reflexivity|].
    split; [intros Hnil; congruence|].
    intros _. split; [reflexivity|]. exists o. split; [reflexivity|]. split; [assumption|reflexivity].
Qed.

(* ---- feeding the blocks of a packet *)
Lemma feed_blocks_spec : forall bs v th now,
  let r := feed_blocks v th now bs in
  let v' := fst (fst r) in
  pts_of (snd r) ++ v_open v' = v_open v ++ flat_map bo_points bs /\
  v_desc v' = v_desc v /\ v_cfg v' = v_cfg v /\ v_dec v' = v_dec v /\ v_pkt_seq v' = v_pkt_seq v.
Proof.
  induction bs as [|bo rest IH]; intros v th now.
  - cbn. rewrite app_nil_r. repeat split; reflexivity.
  - cbn [feed_blocks].
    set (r1 := if bo_split bo then split_frame v th now (bo_cloud_ts bo) else (v, th, [])).
    assert (H1 : pts_of (snd r1) ++ v_open (fst (fst r1)) = v_open v /\
                 v_desc (fst (fst r1)) = v_desc v /\ v_cfg (fst (fst r1)) = v_cfg v /\
                 v_dec (fst (fst r1)) = v_dec v /\ v_pkt_seq (fst (fst r1)) = v_pkt_seq v).
    { subst r1. destruct (bo_split bo).
      - pose proof (split_frame_spec v th now (bo_cloud_ts bo)) as H. cbv zeta in H. tauto.
      - cbn. repeat split; reflexivity. }
    destruct r1 as [[v1 th1] o1]. cbn [fst snd] in H1.
    destruct H1 as (Hp & Hd & Hc & Hs & Hq).
    set (v2 := set_open v1 (v_dec v1) (v_open_buf v1) (v_open v1 ++ bo_points bo) (v_pkt_seq v1) (v_cloud_seq v1) (v_answers v1) (v_fresh v1)).
    specialize (IH v2 th1 now). cbv zeta in IH.
    destruct (feed_blocks v2 th1 now rest) as [[v3 th3] o3]. cbn [fst snd] in *.
    destruct IH as (Ip & Id & Ic & Is & Iq).
    rewrite pts_of_app. cbn [flat_map]. rewrite <- app_assoc, Ip.
    subst v2. cbn [v_open set_open v_desc v_cfg v_dec v_pkt_seq] in *.
    rewrite <- Hp. rewrite <- !app_assoc.
    repeat split; congruence.
Qed.

(* every cloud a packet's blocks deliver is non-empty and well-shaped; sequence numbers count up *)
Definition cloud_ok (d : desc) (c : dcfg) (cl : cloud) : Prop :=
  cl_points cl <> [] /\ cl_dense cl = c_dense c /\
  cl_height cl = cloud_height d c /\
  cl_width cl = cloud_width d c (Z.of_nat (length (cl_points cl))).

Lemma split_frame_clouds_ok v th now ts :
  Forall (cloud_ok (v_desc v) (v_cfg v)) (clouds_of (snd (split_frame v th now ts))).
Proof.
  pose proof (split_frame_spec v th now ts) as H. cbv zeta in H.
  destruct H as (_ & _ & _ & _ & _ & He & Hn).
  destruct (v_open v) as [|p ps] eqn:Eo.
  - rewrite (He eq_refl). constructor.
  - destruct Hn as (_ & o' & Ho & Hc & _); [congruence|].
    rewrite Ho. cbn [clouds_of flat_map]. fold (clouds_of o'). rewrite Hc. cbn [app].
    constructor; [|constructor].
    unfold cloud_ok. cbn [cl_points cl_dense cl_height cl_width].
    repeat split; try reflexivity. discriminate.
Qed.

Lemma feed_blocks_clouds_ok : forall bs v th now,
  Forall (cloud_ok (v_desc v) (v_cfg v)) (clouds_of (snd (feed_blocks v th now bs))).
Proof.
  induction bs as [|bo rest IH]; intros v th now; [constructor|].
  cbn [feed_blocks].
  set (r1 := if bo_split bo then split_frame v th now (bo_cloud_ts bo) else (v, th, [])).
  assert (H1 : Forall (cloud_ok (v_desc v) (v_cfg v)) (clouds_of (snd r1)) /\
               v_desc (fst (fst r1)) = v_desc v /\ v_cfg (fst (fst r1)) = v_cfg v).
  { subst r1. destruct (bo_split bo).
    - split; [apply split_frame_clouds_ok|].
      pose proof (split_frame_spec v th now (bo_cloud_ts bo)) as H. cbv zeta in H. tauto.
    - cbn. repeat split; constructor. }
  destruct r1 as [[v1 th1] o1]. cbn [fst snd] in H1. destruct H1 as (Hf & Hd & Hc).
  set (v2 := set_open v1 (v_dec v1) (v_open_buf v1) (v_open v1 ++ bo_points bo) (v_pkt_seq v1) (v_cloud_seq v1) (v_answers v1) (v_fresh v1)).
  specialize (IH v2 th1 now).
  destruct (feed_blocks v2 th1 now rest) as [[v3 th3] o3]. cbn [fst snd] in *.
  rewrite clouds_of_app. apply Forall_app. split; [assumption|].
  subst v2. cbn [v_desc v_cfg set_open] in IH. rewrite Hd, Hc in IH. exact IH.
Qed.
