(* C08, read footprint of the decoders (on the model): what a decoder computes from an accepted packet depends only on the
   bytes of that packet - two byte strings that agree on the accepted length give the same state, the same points, the same
   frame boundaries.  In particular a packet followed in memory by arbitrary other bytes decodes as the packet alone: no byte
   outside the packet is ever looked at.  (The readers of the model are total, so this is the form "never reads outside the
   packet" takes for it; the offsets come from the regenerated descriptors.) *)
From RS Require Import Base.Tac Base.Bytes Base.Dyadic Model.Desc Model.Kernels Model.Decoder Gen.Params_gen.
From RS Require Import Proofs.Layout.
Local Open Scope Z_scope.

(* b and b' have the same first n bytes *)
Definition agree (n : Z) (b b' : bytes) : Prop := firstn (Z.to_nat n) b = firstn (Z.to_nat n) b'.

Lemma agree_refl n b : agree n b b.
Proof. reflexivity. Qed.
Lemma agree_sym n b b' : agree n b b' -> agree n b' b.
Proof. unfold agree. intros H. symmetry. exact H. Qed.

Lemma agree_app b junk : agree (blen b) b (b ++ junk).
Proof.
  unfold agree, blen. rewrite Nat2Z.id. rewrite firstn_all. rewrite firstn_app, Nat.sub_diag, firstn_all. cbn. rewrite app_nil_r. reflexivity.
Qed.

Lemma nth_firstn_lt {A} (d : A) : forall m k (l : list A), (k < m)%nat -> nth k (firstn m l) d = nth k l d.
Proof.
  induction m as [|m IH]; intros k l H; [lia|]. destruct l as [|x l]; [reflexivity|]. destruct k as [|k]; [reflexivity|].
  cbn [firstn nth]. apply IH. lia.
Qed.

Lemma agree_weaken n m b b' : agree n b b' -> m <= n -> agree m b b'.
Proof.
  unfold agree. intros H Hm.
  assert (E : forall l : bytes, firstn (Z.to_nat m) l = firstn (Z.to_nat m) (firstn (Z.to_nat n) l)).
  { intros l. rewrite firstn_firstn. f_equal. lia. }
  rewrite (E b), (E b'), H. reflexivity.
Qed.

Lemma agree_u8 n b b' i : agree n b b' -> 0 <= i < n -> u8 b i = u8 b' i.
Proof.
  unfold agree, u8. intros H Hi.
  rewrite <- (nth_firstn_lt 0 (Z.to_nat n) (Z.to_nat i) b) by lia.
  rewrite <- (nth_firstn_lt 0 (Z.to_nat n) (Z.to_nat i) b') by lia. rewrite H. reflexivity.
Qed.
Lemma agree_be16 n b b' i : agree n b b' -> 0 <= i -> i + 2 <= n -> be16 b i = be16 b' i.
Proof. intros H H0 H1. unfold be16. rewrite (agree_u8 n b b' i H), (agree_u8 n b b' (i + 1) H) by lia. reflexivity. Qed.
Lemma agree_sbe16 n b b' i : agree n b b' -> 0 <= i -> i + 2 <= n -> sbe16 b i = sbe16 b' i.
Proof. intros H H0 H1. unfold sbe16. rewrite (agree_be16 n b b' i H H0 H1). reflexivity. Qed.
Lemma agree_be32 n b b' i : agree n b b' -> 0 <= i -> i + 4 <= n -> be32 b i = be32 b' i.
Proof. intros H H0 H1. unfold be32. rewrite (agree_be16 n b b' i H), (agree_be16 n b b' (i + 2) H) by lia. reflexivity. Qed.
Lemma agree_be48 n b b' i : agree n b b' -> 0 <= i -> i + 6 <= n -> be48 b i = be48 b' i.
Proof. intros H H0 H1. unfold be48. rewrite (agree_be16 n b b' i H), (agree_be32 n b b' (i + 2) H) by lia. reflexivity. Qed.

Lemma agree_skipn n b b' k : agree n b b' -> 0 <= k <= n -> agree (n - k) (skipn (Z.to_nat k) b) (skipn (Z.to_nat k) b').
Proof.
  unfold agree. intros H Hk.
  replace (Z.to_nat (n - k)) with (Z.to_nat n - Z.to_nat k)%nat by lia.
  rewrite <- !skipn_firstn_comm, H. reflexivity.
Qed.

Lemma prefix_firstn id : forall (l : bytes) m, (length id <= m)%nat -> prefix_eqb id l = prefix_eqb id (firstn m l).
Proof.
  induction id as [|x id IH]; intros l m H; [reflexivity|].
  destruct l as [|y l]; [destruct m; reflexivity|]. destruct m as [|m]; [cbn in H; lia|].
  cbn [firstn prefix_eqb]. rewrite (IH l m) by (cbn in H; lia). reflexivity.
Qed.

Lemma agree_match_at n b b' off id : agree n b b' -> 0 <= off -> off + blen id <= n -> match_at b off id = match_at b' off id.
Proof.
  intros H H0 H1. unfold match_at.
  pose proof (agree_skipn n b b' off H) as Hs. unfold agree in Hs.
  rewrite (prefix_firstn id (skipn (Z.to_nat off) b) (Z.to_nat (n - off))) by (unfold blen in H1; lia).
  rewrite (prefix_firstn id (skipn (Z.to_nat off) b') (Z.to_nat (n - off))) by (unfold blen in H1; lia).
  rewrite Hs by (unfold blen in H1; lia). reflexivity.
Qed.

Lemma agree_slice n b b' off len : agree n b b' -> 0 <= off -> 0 <= len -> off + len <= n -> slice b off len = slice b' off len.
Proof.
  intros H H0 H1 H2. unfold slice.
  pose proof (agree_skipn n b b' off H) as Hs.
  pose proof (agree_weaken (n - off) len _ _ (Hs ltac:(lia)) ltac:(lia)) as Hw. exact Hw.
Qed.

(* ---- header readers *)
Lemma agree_parse_utc n b b' off : agree n b b' -> 0 <= off -> off + 10 <= n -> parse_utc b off = parse_utc b' off.
Proof.
  intros H H0 H1. unfold parse_utc. rewrite (agree_be48 n b b' off H), (agree_be32 n b b' (off + 6) H) by lia. reflexivity.
Qed.
Lemma agree_parse_ymd n tz b b' off : agree n b b' -> 0 <= off -> off + 10 <= n -> parse_ymd tz b off = parse_ymd tz b' off.
Proof.
  intros H H0 H1. unfold parse_ymd.
  rewrite (agree_u8 n b b' off H), (agree_u8 n b b' (off + 1) H), (agree_u8 n b b' (off + 2) H), (agree_u8 n b b' (off + 3) H),
          (agree_u8 n b b' (off + 4) H), (agree_u8 n b b' (off + 5) H), (agree_be16 n b b' (off + 6) H), (agree_be16 n b b' (off + 8) H) by lia.
  reflexivity.
Qed.

Lemma agree_parse_ymd_z n tz dst b b' off : agree n b b' -> 0 <= off -> off + 10 <= n -> parse_ymd_z tz dst b off = parse_ymd_z tz dst b' off.
Proof.
  intros H H0 H1. unfold parse_ymd_z. rewrite (agree_parse_ymd n (tz + DST_SAVE) b b' off H H0 H1), (agree_parse_ymd n tz b b' off H H0 H1). reflexivity.
Qed.

(* ---- layout facts used below, as booleans checked for all 17 regenerated descriptors *)
Definition nonneg_ok (d : desc) : bool :=
  (0 <=? d_off_ts d) && (0 <=? d_off_temp d) && (0 <=? d_off_seq d) && (0 <=? d_off_hdr_return_mode d) && (0 <=? d_off_hdr_lidar_type d) &&
  (0 <=? d_off_hdr_lidar_model d) && (0 <=? d_off_blocks d) && (0 <=? d_sizeof_block d) && (0 <=? d_off_blk_chan d) && (0 <=? d_sizeof_chan d) &&
  (0 <=? d_off_blk_az d) && (0 <=? d_off_blk_toff d) && (0 <=? d_off_chan_dist d) && (0 <=? d_off_chan_int d) && (0 <=? d_off_chan_a d) &&
  (0 <=? d_off_chan_b d) && (0 <=? d_off_chan_c d) && (0 <=? d_off_chan_dist2 d) && (0 <=? d_off_chan_int2 d) && (0 <=? d_chans_per_blk d) &&
  (0 <=? d_blocks_per_pkt d) && (0 <=? d_n_sub d) && (0 <=? d_sizeof_sub d).
Definition iters_ok (d : desc) : bool :=
  match d_family d with
  | Mems => (1 <=? d_sizeof_toff d) && (d_sizeof_toff d <=? 2)
  | Mech =>
      (match d_iter_single d with ItSingle | ItRs16Single => true | _ => false end) &&
      (match d_iter_dual d with ItDual => d_blocks_per_pkt d mod 2 =? 0 | ItAbDual => d_blocks_per_pkt d =? 3 | _ => true end) &&
      (2 <=? d_blocks_per_pkt d) && (d_n_sub d =? 0)
  end.
Lemma all_descs_footprint_ok : forallb (fun d => msop_layout_ok d && nonneg_ok d && iters_ok d) all_descs = true.
Proof. vm_compute. reflexivity. Qed.

Lemma mul_bound i n sz : 0 <= i < n -> 0 <= sz -> 0 <= i * sz /\ i * sz + sz <= n * sz.
Proof. intros. nia. Qed.

Section Mech.
  Variable d : desc.
  Hypothesis Hlay : msop_layout_ok d = true.
  Hypothesis Hnn : nonneg_ok d = true.
  Hypothesis Hit : iters_ok d = true.
  Hypothesis Hfam : d_family d = Mech.
  Variables b b' : bytes.
  Hypothesis Hag : agree (d_msop_len d) b b'.

  (* the facts lia needs, once *)
  Lemma lay_facts :
    d_off_ts d + 10 <= d_off_blocks d /\ d_off_temp d + 2 <= d_off_blocks d + 1 /\
    (match d_temp_kind d with TempByte80 => d_off_temp d + 1 | _ => d_off_temp d + 2 end <= d_off_blocks d) /\
    d_off_hdr_lidar_type d + 1 <= d_off_blocks d /\ d_off_hdr_lidar_model d + 1 <= d_off_blocks d /\
    d_off_chan_dist d + 2 <= d_sizeof_chan d /\ d_off_chan_int d + 1 <= d_sizeof_chan d /\
    d_off_blk_chan d + d_chans_per_blk d * d_sizeof_chan d <= d_sizeof_block d /\
    blen (d_block_id d) <= d_off_blk_chan d /\ d_off_blk_az d + 2 <= d_off_blk_chan d /\
    d_off_blocks d + d_blocks_per_pkt d * d_sizeof_block d <= d_msop_len d /\
    0 <= d_off_ts d /\ 0 <= d_off_temp d /\ 0 <= d_off_hdr_lidar_type d /\ 0 <= d_off_hdr_lidar_model d /\ 0 <= d_off_blocks d /\
    0 <= d_sizeof_block d /\ 0 <= d_off_blk_chan d /\ 0 <= d_sizeof_chan d /\ 0 <= d_off_blk_az d /\ 0 <= d_off_chan_dist d /\
    0 <= d_off_chan_int d /\ 0 <= d_chans_per_blk d /\ 2 <= d_blocks_per_pkt d.
  Proof.
    pose proof Hlay as Hl. pose proof Hnn as Hn. pose proof Hit as Hi.
    unfold msop_layout_ok in Hl. unfold nonneg_ok in Hn. unfold iters_ok in Hi. rewrite Hfam in Hl, Hi. unfold blen.
    assert (En : (0 <? d_n_sub d) = false) by lia. rewrite En in Hl.
    destruct (d_temp_kind d); lia.
  Qed.

  Lemma blk_az_agree blk : 0 <= blk < d_blocks_per_pkt d -> blk_az d b 0 blk = blk_az d b' 0 blk.
  Proof.
    intros Hb. pose proof lay_facts as F. pose proof (mul_bound blk (d_blocks_per_pkt d) (d_sizeof_block d) Hb ltac:(lia)) as M.
    unfold blk_az. apply (agree_be16 (d_msop_len d)); [exact Hag | lia | lia].
  Qed.

  Lemma iter_steps_agree stride nom dur blind : 0 < stride ->
    forall n blk tss, 0 <= blk -> blk + stride * Z.of_nat n < d_blocks_per_pkt d ->
    iter_steps d b stride nom dur blind blk n tss = iter_steps d b' stride nom dur blind blk n tss.
  Proof.
    intros Hs. induction n as [|n IH]; intros blk tss H0 H1; [reflexivity|].
    cbn [iter_steps]. rewrite (blk_az_agree blk), (blk_az_agree (blk + stride)) by lia.
    rewrite (IH (blk + stride)) by lia. reflexivity.
  Qed.

  Lemma block_iter_agree s t : block_iter d s t b = block_iter d s t b'.
  Proof.
    pose proof lay_facts as F. pose proof Hit as Hi. unfold iters_ok in Hi. rewrite Hfam in Hi.
    unfold block_iter. cbv zeta.
    assert (AB : (if blk_az d b 0 0 =? blk_az d b 0 1 then true else false) = (if blk_az d b' 0 0 =? blk_az d b' 0 1 then true else false) ->
                 2 < d_blocks_per_pkt d -> blk_az d b 0 0 = blk_az d b' 0 0 /\ blk_az d b 0 1 = blk_az d b' 0 1 /\ blk_az d b 0 2 = blk_az d b' 0 2).
    { intros _ H3. repeat split; apply blk_az_agree; lia. }
    destruct (s_echo_dual s).
    - destruct (d_iter_dual d) eqn:E;
        try (apply iter_steps_agree; [lia | lia | lia]).
      assert (H3 : 2 < d_blocks_per_pkt d) by lia.
      rewrite (blk_az_agree 0), (blk_az_agree 1), (blk_az_agree 2) by lia. reflexivity.
    - destruct (d_iter_single d) eqn:E; try (exfalso; lia); apply iter_steps_agree; lia.
  Qed.

  Lemma mech_channel_agree c s t w sect bb bb' m block_az az_diff block_ts chan :
    agree m bb bb' -> d_sizeof_block d <= m -> 0 <= chan < d_chans_per_blk d ->
    mech_channel d c s t w sect bb 0 block_az az_diff block_ts chan = mech_channel d c s t w sect bb' 0 block_az az_diff block_ts chan.
  Proof.
    intros Ha Hm Hc. pose proof lay_facts as F.
    pose proof (mul_bound chan (d_chans_per_blk d) (d_sizeof_chan d) Hc ltac:(lia)) as M.
    unfold mech_channel. cbv zeta.
    rewrite (agree_be16 m bb bb' (0 + d_off_blk_chan d + chan * d_sizeof_chan d + d_off_chan_dist d) Ha) by lia.
    rewrite (agree_u8 m bb bb' (0 + d_off_blk_chan d + chan * d_sizeof_chan d + d_off_chan_int d) Ha) by lia.
    reflexivity.
  Qed.

  Lemma mech_blocks_agree c t w sect pkt_ts : forall its blk s,
    0 <= blk -> blk + Z.of_nat (length its) <= d_blocks_per_pkt d ->
    mech_blocks d c t w sect b pkt_ts its blk s = mech_blocks d c t w sect b' pkt_ts its blk s.
  Proof.
    pose proof lay_facts as F.
    induction its as [|[az_diff ts_off] rest IH]; intros blk s H0 H1; [reflexivity|].
    cbn [mech_blocks length] in *.
    assert (Hb : 0 <= blk < d_blocks_per_pkt d) by lia.
    pose proof (mul_bound blk (d_blocks_per_pkt d) (d_sizeof_block d) Hb ltac:(lia)) as M.
    set (blk_off := d_off_blocks d + blk * d_sizeof_block d) in *.
    rewrite (agree_match_at (d_msop_len d) b b' blk_off (d_block_id d) Hag) by lia.
    destruct (negb (match_at b' blk_off (d_block_id d))); [reflexivity|].
    rewrite (agree_be16 (d_msop_len d) b b' (blk_off + d_off_blk_az d) Hag) by lia.
    destruct (split_step c s (be16 b' (blk_off + d_off_blk_az d))) as [sp ss].
    assert (Ha : agree (d_msop_len d - blk_off) (skipn (Z.to_nat blk_off) b) (skipn (Z.to_nat blk_off) b')) by (apply agree_skipn; [exact Hag | lia]).
    assert (Hmap : map (mech_channel d c s t w sect (skipn (Z.to_nat blk_off) b) 0 (be16 b' (blk_off + d_off_blk_az d)) az_diff (pkt_ts + ts_off))
                       (map Z.of_nat (seq 0 (Z.to_nat (d_chans_per_blk d)))) =
                   map (mech_channel d c s t w sect (skipn (Z.to_nat blk_off) b') 0 (be16 b' (blk_off + d_off_blk_az d)) az_diff (pkt_ts + ts_off))
                       (map Z.of_nat (seq 0 (Z.to_nat (d_chans_per_blk d))))).
    { apply map_ext_in. intros chan Hin. apply in_map_iff in Hin. destruct Hin as (k & <- & Hk). apply in_seq in Hk.
      apply (mech_channel_agree c s t w sect _ _ (d_msop_len d - blk_off)); [exact Ha | lia | lia]. }
    rewrite Hmap. rewrite (IH (blk + 1)) by lia. reflexivity.
  Qed.
End Mech.

(* ---- a whole accepted mechanical packet *)
Theorem mech_footprint d c s b b' h1 h2 :
  msop_layout_ok d = true -> nonneg_ok d = true -> iters_ok d = true -> d_family d = Mech -> tables_ok d = true ->
  agree (d_msop_len d) b b' ->
  let r := decode_msop_mech d c s b h1 h2 in
  let r' := decode_msop_mech d c s b' h1 h2 in
  mr_state r = mr_state r' /\ mr_blocks r = mr_blocks r' /\ mr_ret r = mr_ret r' /\ mr_bad_blkid r = mr_bad_blkid r' /\
  mr_end_split r = mr_end_split r' /\
  (c_lidar_clock c = true \/ c_pkt_cb c = false -> mr_bytes r = b /\ mr_bytes r' = b').
Proof.
  intros Hlay Hnn Hit Hfam Htab Hag.
  pose proof (lay_facts d Hlay Hnn Hit Hfam) as F.
  unfold decode_msop_mech. cbv zeta.
  (* header bytes *)
  rewrite (agree_u8 (d_msop_len d) b b' (d_off_hdr_lidar_type d) Hag) by lia.
  rewrite (agree_u8 (d_msop_len d) b b' (d_off_hdr_lidar_model d) Hag) by lia.
  set (vf := match d_variant d with VarBpv4 => _ | VarRsp80 => _ | _ => _ end). destruct vf as [variant first_pkt].
  assert (Ht : temp_raw d b 0 = temp_raw d b' 0).
  { unfold temp_raw. destruct (d_temp_kind d);
      rewrite ?(agree_u8 (d_msop_len d) b b' (0 + d_off_temp d) Hag), ?(agree_u8 (d_msop_len d) b b' (0 + d_off_temp d + 1) Hag) by lia; reflexivity. }
  rewrite Ht.
  assert (Hp : fst (pkt_time d c variant b 0 h1 h2) = fst (pkt_time d c variant b' 0 h1 h2) /\
               (c_lidar_clock c = true \/ c_pkt_cb c = false -> snd (pkt_time d c variant b 0 h1 h2) = b /\ snd (pkt_time d c variant b' 0 h1 h2) = b')).
  { unfold pkt_time. cbv zeta. destruct (c_lidar_clock c) eqn:El.
    - cbn [fst snd Z.to_nat skipn].
      split; [|intros _; split; reflexivity].
      destruct (uses_utc d variant);
        [rewrite (agree_parse_utc (d_msop_len d) b b' (d_off_ts d) Hag) by lia | rewrite (agree_parse_ymd_z (d_msop_len d) (c_tz c) (c_dst c) b b' (d_off_ts d) Hag) by lia]; reflexivity.
    - cbn [fst snd]. split; [reflexivity|]. intros [Hc|Hc]; [discriminate|]. rewrite Hc. split; reflexivity. }
  destruct (pkt_time d c variant b 0 h1 h2) as [pkt_ts bo]. destruct (pkt_time d c variant b' 0 h1 h2) as [pkt_ts' bo'].
  cbn [fst snd] in Hp. destruct Hp as [<- Hbytes].
  set (s1 := set_pkt_common s _ _ _ _).
  rewrite (block_iter_agree d Hlay Hnn Hit Hfam b b' Hag s1 (cur_tab d s1)).
  assert (Hlen : Z.of_nat (length (block_iter d s1 (cur_tab d s1) b')) <= d_blocks_per_pkt d).
  { clear - Hit Hfam F. unfold iters_ok in Hit. rewrite Hfam in Hit. unfold block_iter. cbv zeta.
    assert (L : forall stride nom dur blind n blk tss, length (iter_steps d b' stride nom dur blind blk n tss) = (Z.to_nat stride * S n)%nat).
    { intros stride nom dur blind. induction n as [|n IH]; intros blk tss; cbn [iter_steps]; [rewrite repeat_length; lia|].
      rewrite app_length, repeat_length, IH. lia. }
    destruct (s_echo_dual s1).
    - destruct (d_iter_dual d) eqn:E; rewrite ?L; try lia.
      destruct (blk_az d b' 0 0 =? blk_az d b' 0 1); cbn [length]; lia.
    - destruct (d_iter_single d) eqn:E; rewrite ?L; try lia. }
  rewrite (mech_blocks_agree d Hlay Hnn Hit Hfam b b' Hag c (cur_tab d s1) (dist_window d c) (az_section_init (c_start_angle c) (c_end_angle c)) pkt_ts
             (block_iter d s1 (cur_tab d s1) b') 0 s1) by lia.
  destruct (mech_blocks d c (cur_tab d s1) _ _ b' pkt_ts _ 0 s1) as [[s2 outs] bad].
  cbn [mr_state mr_blocks mr_ret mr_bad_blkid mr_end_split mr_bytes].
  repeat split; try reflexivity; apply Hbytes; assumption.
Qed.

(* ---- MEMS: one (sub-)packet at offset base; sub = its size *)
Section Mems.
  Variable d : desc.
  Hypothesis Hlay : msop_layout_ok d = true.
  Hypothesis Hnn : nonneg_ok d = true.
  Hypothesis Hit : iters_ok d = true.
  Hypothesis Hfam : d_family d = Mems.
  Definition sub_size := if 0 <? d_n_sub d then d_sizeof_sub d else d_msop_len d.

  Lemma mems_facts :
    d_off_ts d + 10 <= d_off_blocks d /\ d_off_seq d + 2 <= d_off_blocks d /\ d_off_hdr_return_mode d + 1 <= d_off_blocks d /\
    (match d_temp_kind d with TempByte80 => d_off_temp d + 1 | _ => d_off_temp d + 2 end <= d_off_blocks d) /\
    d_off_chan_dist d + 2 <= d_sizeof_chan d /\ d_off_chan_int d + 1 <= d_sizeof_chan d /\ d_off_chan_a d + 2 <= d_sizeof_chan d /\
    d_off_chan_b d + 2 <= d_sizeof_chan d /\ d_off_chan_c d + 2 <= d_sizeof_chan d /\ d_off_chan_dist2 d + 2 <= d_sizeof_chan d /\
    d_off_chan_int2 d + 1 <= d_sizeof_chan d /\
    d_off_blk_chan d + d_chans_per_blk d * d_sizeof_chan d <= d_sizeof_block d /\
    d_off_blk_toff d + d_sizeof_toff d <= d_off_blk_chan d /\ 1 <= d_sizeof_toff d <= 2 /\
    d_off_blocks d + d_blocks_per_pkt d * d_sizeof_block d <= sub_size /\
    0 <= d_off_ts d /\ 0 <= d_off_temp d /\ 0 <= d_off_seq d /\ 0 <= d_off_hdr_return_mode d /\ 0 <= d_off_blocks d /\
    0 <= d_sizeof_block d /\ 0 <= d_off_blk_chan d /\ 0 <= d_sizeof_chan d /\ 0 <= d_off_blk_toff d /\ 0 <= d_off_chan_dist d /\
    0 <= d_off_chan_int d /\ 0 <= d_off_chan_a d /\ 0 <= d_off_chan_b d /\ 0 <= d_off_chan_c d /\ 0 <= d_off_chan_dist2 d /\
    0 <= d_off_chan_int2 d /\ 0 <= d_chans_per_blk d /\ 0 <= d_blocks_per_pkt d.
  Proof.
    pose proof Hlay as Hl. pose proof Hnn as Hn. pose proof Hit as Hi.
    unfold msop_layout_ok in Hl. unfold nonneg_ok in Hn. unfold iters_ok in Hi. rewrite Hfam in Hl, Hi. unfold sub_size.
    destruct (0 <? d_n_sub d) eqn:En; destruct (d_temp_kind d); repeat split; lia.
  Qed.

  Lemma mems_channel_agree c w bb bb' m coff ts chan dual :
    agree m bb bb' -> 0 <= coff -> coff + d_sizeof_chan d <= m ->
    mems_channel_points d c w bb 0 coff ts chan dual = mems_channel_points d c w bb' 0 coff ts chan dual.
  Proof.
    intros Ha H0 H1. pose proof mems_facts as F. unfold mems_channel_points. cbv zeta.
    rewrite (agree_be16 m bb bb' (coff + d_off_chan_dist d) Ha), (agree_be16 m bb bb' (coff + d_off_chan_dist2 d) Ha),
            (agree_be16 m bb bb' (coff + d_off_chan_a d) Ha), (agree_be16 m bb bb' (coff + d_off_chan_b d) Ha),
            (agree_sbe16 m bb bb' (coff + d_off_chan_a d) Ha), (agree_sbe16 m bb bb' (coff + d_off_chan_b d) Ha), (agree_sbe16 m bb bb' (coff + d_off_chan_c d) Ha),
            (agree_u8 m bb bb' (coff + d_off_chan_int d) Ha), (agree_u8 m bb bb' (coff + d_off_chan_int2 d) Ha) by lia.
    reflexivity.
  Qed.

  Lemma mems_block_agree c w sb sb' pkt_ts dual blk :
    agree sub_size sb sb' -> 0 <= blk < d_blocks_per_pkt d ->
    mems_block_points d c w sb 0 pkt_ts dual blk = mems_block_points d c w sb' 0 pkt_ts dual blk.
  Proof.
    intros Ha Hb. pose proof mems_facts as F.
    pose proof (mul_bound blk (d_blocks_per_pkt d) (d_sizeof_block d) Hb ltac:(lia)) as M.
    unfold mems_block_points. cbv zeta.
    set (boff := 0 + d_off_blocks d + blk * d_sizeof_block d).
    assert (Hs : agree (sub_size - boff) (skipn (Z.to_nat boff) sb) (skipn (Z.to_nat boff) sb')) by (apply agree_skipn; [exact Ha | subst boff; lia]).
    assert (Ht : (if d_sizeof_toff d =? 2 then be16 (skipn (Z.to_nat boff) sb) (d_off_blk_toff d) else u8 (skipn (Z.to_nat boff) sb) (d_off_blk_toff d)) =
                 (if d_sizeof_toff d =? 2 then be16 (skipn (Z.to_nat boff) sb') (d_off_blk_toff d) else u8 (skipn (Z.to_nat boff) sb') (d_off_blk_toff d))).
    { destruct (d_sizeof_toff d =? 2) eqn:E2.
      - apply (agree_be16 _ _ _ _ Hs); subst boff; lia.
      - apply (agree_u8 _ _ _ _ Hs); subst boff; lia. }
    rewrite Ht. f_equal.
    assert (Hfm : forall ts l, (forall chan, In chan l -> 0 <= chan < d_chans_per_blk d) ->
              flat_map (fun chan => mems_channel_points d c w (skipn (Z.to_nat boff) sb) 0 (d_off_blk_chan d + chan * d_sizeof_chan d) ts chan dual) l =
              flat_map (fun chan => mems_channel_points d c w (skipn (Z.to_nat boff) sb') 0 (d_off_blk_chan d + chan * d_sizeof_chan d) ts chan dual) l).
    { intros ts. induction l as [|x l IH]; intros Hl; [reflexivity|]. cbn [flat_map].
      pose proof (Hl x (or_introl eq_refl)) as Hx.
      pose proof (mul_bound x (d_chans_per_blk d) (d_sizeof_chan d) Hx ltac:(lia)) as Mx.
      rewrite (mems_channel_agree c w _ _ (sub_size - boff) (d_off_blk_chan d + x * d_sizeof_chan d) ts x dual Hs) by (subst boff; lia).
      rewrite IH by (intros ch Hc; apply Hl; right; exact Hc). reflexivity. }
    apply Hfm. intros chan Hin. apply in_map_iff in Hin. destruct Hin as (k & <- & Hk). apply in_seq in Hk. lia.
  Qed.

  Theorem mems_sub_footprint c s b b' base h1 h2 :
    0 <= base -> agree (base + sub_size) b b' ->
    let r := decode_msop_mems_sub d c s b base h1 h2 in
    let r' := decode_msop_mems_sub d c s b' base h1 h2 in
    fst (fst (fst r)) = fst (fst (fst r')) /\ snd (fst (fst r)) = snd (fst (fst r')) /\ snd r = snd r' /\
    (c_lidar_clock c = true \/ c_pkt_cb c = false -> snd (fst r) = b /\ snd (fst r') = b').
  Proof.
    intros Hb Hag. pose proof mems_facts as F.
    assert (Hs : agree sub_size (skipn (Z.to_nat base) b) (skipn (Z.to_nat base) b')).
    { replace sub_size with (base + sub_size - base) by lia. apply agree_skipn; [exact Hag | lia]. }
    unfold decode_msop_mems_sub. cbv zeta.
    assert (Hp : fst (pkt_time d c 0 b base h1 h2) = fst (pkt_time d c 0 b' base h1 h2) /\
                 (c_lidar_clock c = true \/ c_pkt_cb c = false -> snd (pkt_time d c 0 b base h1 h2) = b /\ snd (pkt_time d c 0 b' base h1 h2) = b')).
    { unfold pkt_time. cbv zeta. destruct (c_lidar_clock c) eqn:El.
      - cbn [fst snd]. split; [|intros _; split; reflexivity].
        destruct (uses_utc d 0);
          [rewrite (agree_parse_utc sub_size _ _ (d_off_ts d) Hs) by lia | rewrite (agree_parse_ymd_z sub_size (c_tz c) (c_dst c) _ _ (d_off_ts d) Hs) by lia]; reflexivity.
      - cbn [fst snd]. split; [reflexivity|]. intros [Hc|Hc]; [discriminate|]. rewrite Hc. split; reflexivity. }
    destruct (pkt_time d c 0 b base h1 h2) as [pkt_ts bo]. destruct (pkt_time d c 0 b' base h1 h2) as [pkt_ts' bo'].
    cbn [fst snd] in Hp. destruct Hp as [<- Hbytes].
    set (sb := skipn (Z.to_nat base) b) in *. set (sb' := skipn (Z.to_nat base) b') in *.
    rewrite (agree_be16 sub_size sb sb' (d_off_seq d) Hs) by lia.
    rewrite (agree_u8 sub_size sb sb' (d_off_hdr_return_mode d) Hs) by lia.
    assert (Ht : temp_raw d sb 0 = temp_raw d sb' 0).
    { unfold temp_raw. destruct (d_temp_kind d);
        rewrite ?(agree_u8 sub_size sb sb' (0 + d_off_temp d) Hs), ?(agree_u8 sub_size sb sb' (0 + d_off_temp d + 1) Hs) by lia; reflexivity. }
    rewrite Ht.
    assert (Hm : map (mems_block_points d c (dist_window d c) sb 0 pkt_ts (u8 sb' (d_off_hdr_return_mode d) =? 0)) (map Z.of_nat (seq 0 (Z.to_nat (d_blocks_per_pkt d)))) =
                 map (mems_block_points d c (dist_window d c) sb' 0 pkt_ts (u8 sb' (d_off_hdr_return_mode d) =? 0)) (map Z.of_nat (seq 0 (Z.to_nat (d_blocks_per_pkt d))))).
    { apply map_ext_in. intros blk Hin. apply in_map_iff in Hin. destruct Hin as (k & <- & Hk). apply in_seq in Hk.
      apply mems_block_agree; [exact Hs | lia]. }
    rewrite Hm.
    destruct (seq_step (s_seq s) (be16 sb' (d_off_seq d))) as [sp sq].
    cbn [fst snd]. repeat split; try reflexivity; apply Hbytes; assumption.
  Qed.
End Mems.

(* ---- for the 17 regenerated descriptors: a packet followed by arbitrary other bytes decodes as the packet alone *)
Lemma desc_ok d : In d all_descs -> msop_layout_ok d = true /\ nonneg_ok d = true /\ iters_ok d = true /\ tables_ok d = true.
Proof.
  intros Hin. pose proof all_descs_footprint_ok as H1. pose proof layouts_all as H2.
  rewrite forallb_forall in H1, H2. specialize (H1 d Hin). specialize (H2 d Hin).
  apply andb_prop in H1. destruct H1 as [H1 Hi]. apply andb_prop in H1. destruct H1 as [Hl Hn].
  apply andb_prop in H2. destruct H2 as [_ Ht]. repeat split; assumption.
Qed.

Theorem mech_packet_alone d c s b junk h1 h2 : In d all_descs -> d_family d = Mech -> blen b = d_msop_len d ->
  let r := decode_msop_mech d c s b h1 h2 in
  let r' := decode_msop_mech d c s (b ++ junk) h1 h2 in
  mr_state r = mr_state r' /\ mr_blocks r = mr_blocks r' /\ mr_ret r = mr_ret r' /\ mr_bad_blkid r = mr_bad_blkid r' /\ mr_end_split r = mr_end_split r'.
Proof.
  intros Hin Hfam Hlen. destruct (desc_ok d Hin) as (Hl & Hn & Hi & Ht).
  assert (Ha : agree (d_msop_len d) b (b ++ junk)) by (rewrite <- Hlen; apply agree_app).
  pose proof (mech_footprint d c s b (b ++ junk) h1 h2 Hl Hn Hi Hfam Ht Ha) as H. cbv zeta in H.
  destruct H as (A1 & A2 & A3 & A4 & A5 & _). cbv zeta. repeat split; assumption.
Qed.

Theorem mems_sub_alone d c s b junk base h1 h2 : In d all_descs -> d_family d = Mems -> 0 <= base -> base + sub_size d <= blen b ->
  let r := decode_msop_mems_sub d c s b base h1 h2 in
  let r' := decode_msop_mems_sub d c s (b ++ junk) base h1 h2 in
  fst (fst (fst r)) = fst (fst (fst r')) /\ snd (fst (fst r)) = snd (fst (fst r')) /\ snd r = snd r'.
Proof.
  intros Hin Hfam Hb Hlen. destruct (desc_ok d Hin) as (Hl & Hn & Hi & Ht).
  assert (Ha : agree (base + sub_size d) b (b ++ junk)) by (apply (agree_weaken (blen b)); [apply agree_app | lia]).
  pose proof (mems_sub_footprint d Hl Hn Hi Hfam c s b (b ++ junk) base h1 h2 Hb Ha) as H. cbv zeta in H.
  destruct H as (A1 & A2 & A3 & _). cbv zeta. repeat split; assumption.
Qed.

(* ---- DIFOP: the decoder looks at the accepted DIFOP length only *)
Section Difop.
  Variable d : desc.
  Hypothesis Hlay : difop_layout_ok d = true.
  Hypothesis Hnn : 0 <= d_off_difop_rpm d /\ 0 <= d_off_difop_fov_start d /\ 0 <= d_off_difop_fov_end d /\ 0 <= d_off_difop_return_mode d /\
                   0 <= d_off_difop_reversal d /\ 0 <= d_off_difop_sn d /\ 0 <= d_off_difop_mac d /\ 0 <= d_off_difop_top_ver d /\
                   0 <= d_off_difop_bottom_ver d /\ 0 <= d_off_difop_vol12 d /\ 0 <= d_off_difop_vert d /\ 0 <= d_off_difop_horiz d /\
                   0 <= d_off_difop_pitch_cali d /\ 0 <= d_laser_num d /\ 0 <= d_sn_len d <= 6.
  Variables b b' : bytes.
  Hypothesis Hag : agree (d_difop_len d) b b'.

  Lemma cali_entry_agree vert i : d_family d = Mech -> 0 <= i < d_laser_num d -> cali_entry d b vert i = cali_entry d b' vert i.
  Proof.
    intros Hf Hi. pose proof Hlay as Hl. unfold difop_layout_ok in Hl. rewrite Hf in Hl.
    unfold cali_entry, be24. destruct (d_cali d) eqn:Ec; destruct vert;
      rewrite ?(agree_be16 (d_difop_len d) b b' _ Hag), ?(agree_u8 (d_difop_len d) b b' _ Hag) by lia; reflexivity.
  Qed.

  Lemma load_angles_agree : d_family d = Mech -> forall n i vs hs, 0 <= i -> i + Z.of_nat n <= d_laser_num d ->
    load_angles d b i n vs hs = load_angles d b' i n vs hs.
  Proof.
    intros Hf. induction n as [|n IH]; intros i vs hs H0 H1; [reflexivity|].
    cbn [load_angles]. rewrite (cali_entry_agree true i Hf), (cali_entry_agree false i Hf) by lia.
    destruct (cali_entry d b' true i) as [vsign vval]. destruct (vsign =? 255); [reflexivity|].
    destruct (negb (angle_check _)); [reflexivity|].
    destruct (cali_entry d b' false i) as [hsign hval]. destruct (negb (angle_check _)); [reflexivity|].
    apply IH; lia.
  Qed.

  Theorem difop_footprint with_parse s : decode_difop d with_parse s b = decode_difop d with_parse s b'.
  Proof.
    pose proof Hlay as Hl. unfold difop_layout_ok in Hl.
    unfold decode_difop. destruct (d_family d) eqn:Hf.
    - (* mechanical *)
      assert (Hc : decode_difop_common d s b = decode_difop_common d s b').
      { unfold decode_difop_common. cbv zeta.
        rewrite (agree_be16 (d_difop_len d) b b' (d_off_difop_rpm d) Hag), (agree_be16 (d_difop_len d) b b' (d_off_difop_fov_start d) Hag),
                (agree_be16 (d_difop_len d) b b' (d_off_difop_fov_end d) Hag) by lia.
        destruct (s_angles_ready s); [reflexivity|].
        rewrite (load_angles_agree Hf (Z.to_nat (d_laser_num d)) 0 [] []) by lia. reflexivity. }
      rewrite Hc.
      rewrite (agree_u8 (d_difop_len d) b b' (d_off_difop_return_mode d) Hag), (agree_u8 (d_difop_len d) b b' (d_off_difop_reversal d) Hag) by lia.
      unfold difop_devinfo. destruct (with_parse && d_has_devinfo d); [|reflexivity].
      rewrite (agree_slice (d_difop_len d) b b' (d_off_difop_sn d) (d_sn_len d) Hag), (agree_slice (d_difop_len d) b b' (d_off_difop_mac d) 6 Hag),
              (agree_slice (d_difop_len d) b b' (d_off_difop_top_ver d) 5 Hag), (agree_slice (d_difop_len d) b b' (d_off_difop_bottom_ver d) 5 Hag),
              (agree_be16 (d_difop_len d) b b' (d_off_difop_vol12 d) Hag) by lia.
      reflexivity.
    - (* MEMS *)
      rewrite (agree_u8 (d_difop_len d) b b' (d_off_difop_return_mode d) Hag) by lia.
      unfold difop_devinfo. destruct (with_parse && d_has_devinfo d); [|reflexivity].
      rewrite (agree_slice (d_difop_len d) b b' (d_off_difop_sn d) (d_sn_len d) Hag), (agree_slice (d_difop_len d) b b' (d_off_difop_mac d) 6 Hag),
              (agree_slice (d_difop_len d) b b' (d_off_difop_top_ver d) 5 Hag), (agree_slice (d_difop_len d) b b' (d_off_difop_bottom_ver d) 5 Hag),
              (agree_be16 (d_difop_len d) b b' (d_off_difop_vol12 d) Hag) by lia.
      reflexivity.
  Qed.
End Difop.

Definition difop_nonneg_ok (d : desc) : bool :=
  (0 <=? d_off_difop_rpm d) && (0 <=? d_off_difop_fov_start d) && (0 <=? d_off_difop_fov_end d) && (0 <=? d_off_difop_return_mode d) &&
  (0 <=? d_off_difop_reversal d) && (0 <=? d_off_difop_sn d) && (0 <=? d_off_difop_mac d) && (0 <=? d_off_difop_top_ver d) &&
  (0 <=? d_off_difop_bottom_ver d) && (0 <=? d_off_difop_vol12 d) && (0 <=? d_off_difop_vert d) && (0 <=? d_off_difop_horiz d) &&
  (0 <=? d_off_difop_pitch_cali d) && (0 <=? d_laser_num d) && (0 <=? d_sn_len d) && (d_sn_len d <=? 6).
Lemma all_descs_difop_ok : forallb difop_nonneg_ok all_descs = true.
Proof. vm_compute. reflexivity. Qed.

Theorem difop_packet_alone d with_parse s b junk : In d all_descs -> blen b = d_difop_len d ->
  decode_difop d with_parse s (b ++ junk) = decode_difop d with_parse s b.
Proof.
  intros Hin Hlen. pose proof all_descs_difop_ok as H1. pose proof layouts_all as H2.
  rewrite forallb_forall in H1, H2. specialize (H1 d Hin). specialize (H2 d Hin).
  apply andb_prop in H2. destruct H2 as [H2 _]. apply andb_prop in H2. destruct H2 as [_ Hl].
  unfold difop_nonneg_ok in H1. symmetry.
  apply (difop_footprint d Hl); [lia | rewrite <- Hlen; apply agree_app].
Qed.
