(* The chain of checks at the top of Decoder::processMsopPkt / processDifopPkt, extracted from the current source by kt.py, is the
   chain the model's process_msop / process_difop implement: same codes in the same order, the overflow guard first and the only
   one that does not reject; and the conditions are the ones the model's gate was written from. *)
From Coq Require Import List String Bool.
From RS Require Import Gen.Kernels_gen.
Import ListNotations.
Local Open Scope string_scope.

Definition gate_skeleton (g : list (string * list string * bool)) : list (list string * bool) := map (fun r => (snd (fst r), snd r)) g.

(* order of the checks and which of them reject: overflow guard (continues), missing calibration, length BEFORE identifier *)
Lemma msop_gate_order : gate_skeleton Decoder_processMsopPkt_gates =
  [(["ERRCODE_CLOUDOVERFLOW"], false); (["ERRCODE_NODIFOPRECV"], true); (["ERRCODE_WRONGMSOPLEN"], true); (["ERRCODE_WRONGMSOPID"], true)].
Proof. reflexivity. Qed.
Lemma difop_gate_order : gate_skeleton Decoder_processDifopPkt_gates =
  [(["ERRCODE_WRONGDIFOPLEN"], true); (["ERRCODE_WRONGDIFOPID"], true)].
Proof. reflexivity. Qed.

(* the conditions themselves, as written in the source the model was taken from (a pin: an edit of these lines shows here first) *)
Lemma msop_gate_conditions : map (fun r => fst (fst r)) Decoder_processMsopPkt_gates =
  ["this->point_cloud_ && (this->point_cloud_->points.size() > CLOUD_POINT_MAX)";
   "param_.wait_for_difop && !angles_ready_";
   "size != this->const_param_.MSOP_LEN";
   "memcmp(pkt, this->const_param_.MSOP_ID, this->const_param_.MSOP_ID_LEN) != 0"].
Proof. reflexivity. Qed.
Lemma difop_gate_conditions : map (fun r => fst (fst r)) Decoder_processDifopPkt_gates =
  ["size != this->const_param_.DIFOP_LEN";
   "memcmp(pkt, this->const_param_.DIFOP_ID, const_param_.DIFOP_ID_LEN) != 0"].
Proof. reflexivity. Qed.
