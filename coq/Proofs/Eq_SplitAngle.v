(* Regenerated kernel = canonical kernel: SplitStrategyByAngle. *)
From RS Require Import Base.Tac Gen.Kernels_gen Model.Kernels.
Local Open Scope Z_scope.

Lemma gen_split_angle_ctor s :
  SplitStrategyByAngle_ctor s = mk_SplitStrategyByAngle s s.
Proof. reflexivity. Qed.

Lemma gen_split_angle_eq st a :
  let r := SplitStrategyByAngle_newBlock st a in
  let m := split_angle_step (SplitStrategyByAngle_split_angle_ st) (SplitStrategyByAngle_prev_angle_ st) a in
  fst r = fst m /\
  SplitStrategyByAngle_prev_angle_ (snd r) = snd m /\
  SplitStrategyByAngle_split_angle_ (snd r) = SplitStrategyByAngle_split_angle_ st.
Proof.
  destruct st as [s p]. unfold SplitStrategyByAngle_newBlock, split_angle_step.
  cbn [SplitStrategyByAngle_split_angle_ SplitStrategyByAngle_prev_angle_].
  split_ifs; cbn [fst snd SplitStrategyByAngle_split_angle_ SplitStrategyByAngle_prev_angle_];
    repeat split; try reflexivity; lia.
Qed.
