(* C07: range and azimuth-window decisions. *)
From RS Require Import Base.Tac Base.Bytes Base.Dyadic Model.Desc Model.Kernels Model.Spec Model.Decoder.
Local Open Scope Z_scope.

Lemma az_in_spec start end_ a : az_in (az_section_init start end_) a = in_windowb start end_ a.
Proof.
  unfold az_in, az_in_raw, az_section_init, in_windowb, az_round.
  cbn [az_full az_cross az_start az_end].
  destruct ((end_ - start) mod 36000 =? 0); [reflexivity|].
  destruct (start mod 36000 >? end_ mod 36000); f_equal; lia.
Qed.

(* the window as a set: full circle / wrapping interval / plain interval, on the azimuth mod 360deg *)
Lemma in_window_iff start end_ a :
  in_windowb start end_ a = true <->
  let s := start mod 36000 in let e := end_ mod 36000 in let x := a mod 36000 in
  (end_ - start) mod 36000 = 0 \/
  ((end_ - start) mod 36000 <> 0 /\ ((s > e /\ (s <= x \/ x < e)) \/ (s <= e /\ s <= x < e))).
Proof.
  unfold in_windowb. cbv zeta.
  destruct ((end_ - start) mod 36000 =? 0) eqn:E1; [split; [intros _; left; lia|reflexivity]|].
  destruct (start mod 36000 >? end_ mod 36000) eqn:E2; lia.
Qed.

Lemma az_in_periodic w a k : az_in w (a + 36000 * k) = az_in w a.
Proof. unfold az_in, az_round. f_equal. rewrite Z.mul_comm, Z_mod_plus_full. reflexivity. Qed.

(* range window *)
Lemma dist_window_user d c :
  let umin := if dy_ltb (c_min_dist c) dy_zero then dy_zero else c_min_dist c in
  let umax := if dy_ltb (c_max_dist c) dy_zero then dy_zero else c_max_dist c in
  dist_window d c = if negb (dy_is_zero umin) || negb (dy_is_zero umax) then (umin, umax) else (d_dist_min d, d_dist_max d).
Proof. reflexivity. Qed.

Lemma dist_in_iff w x : dist_in w x = true <-> dy_leb (fst w) x = true /\ dy_leb x (snd w) = true.
Proof. unfold dist_in. rewrite andb_true_iff. reflexivity. Qed.

(* dy_leb is the order of the denoted rationals: m1*2^e1 <= m2*2^e2 *)
Lemma dy_leb_spec a b :
  dy_leb a b = true <->
  dm a * 2 ^ (de a - Z.min (de a) (de b)) <= dm b * 2 ^ (de b - Z.min (de a) (de b)).
Proof.
  unfold dy_leb, dy_cmp. cbv zeta.
  destruct (Z.compare_spec (dm a * 2 ^ (de a - Z.min (de a) (de b))) (dm b * 2 ^ (de b - Z.min (de a) (de b)))); split; intros; try lia; try reflexivity; discriminate.
Qed.
