(* C05, cloud stamps in every mode (dense or NaN-kept, last-slot or first-point stamping, mechanical and MEMS):
   statements about the values the decoders hand over with each split, in terms of block times. *)
From RS Require Import Base.Tac Base.Bytes Base.Dyadic Model.Desc Model.Kernels Model.Decoder Model.Driver.
Local Open Scope Z_scope.

(* time of a block and of its last slot, from the iterator entry (azimuth step, time offset) of that block *)
Definition blk_time (pkt_ts : Z) (it : Z * Z) : Z := pkt_ts + snd it.
Definition blk_end (d : desc) (t : tab) (pkt_ts : Z) (it : Z * Z) : Z := blk_time pkt_ts it + nthZ (t_chan_ns t) (d_chans_per_blk d - 1).

(* last-slot stamping: the block that opens a new cloud hands over, as the stamp of the cloud it closes, the time of the last
   slot of the block before it (the value carried in from the previous packet for the first block) *)
Fixpoint stamps_last (d : desc) (t : tab) (pkt_ts prev : Z) (its : list (Z * Z)) (outs : list blk_out) : Prop :=
  match its, outs with
  | it :: its', bo :: outs' => bo_cloud_ts bo = prev /\ stamps_last d t pkt_ts (blk_end d t pkt_ts it) its' outs'
  | _, [] => True
  | [], _ :: _ => False
  end.
Fixpoint last_end (d : desc) (t : tab) (pkt_ts prev : Z) (its : list (Z * Z)) (outs : list blk_out) : Z :=
  match its, outs with
  | it :: its', _ :: outs' => last_end d t pkt_ts (blk_end d t pkt_ts it) its' outs'
  | _, _ => prev
  end.

Lemma mech_blocks_stamps_last d c t w sect b pkt_ts : c_ts_first c = false -> 0 < d_chans_per_blk d ->
  forall its blk s,
  let r := mech_blocks d c t w sect b pkt_ts its blk s in
  stamps_last d t pkt_ts (s_prev_point_ts s) its (snd (fst r)) /\
  s_prev_point_ts (fst (fst r)) = last_end d t pkt_ts (s_prev_point_ts s) its (snd (fst r)).
Proof.
  intros Hf Hc. induction its as [|[az_diff ts_off] rest IH]; intros blk s.
  - cbn. auto.
  - cbn [mech_blocks].
    destruct (negb (match_at b (d_off_blocks d + blk * d_sizeof_block d) (d_block_id d))); [cbn; auto|].
    destruct (split_step c s _) as [sp ss]. rewrite Hf.
    set (s' := upd_mech_blk _ _ _ _).
    specialize (IH (blk + 1) s'). cbv zeta in IH.
    destruct (mech_blocks d c t w sect b pkt_ts rest (blk + 1) s') as [[s'' outs] bad].
    cbn [fst snd stamps_last last_end bo_cloud_ts] in *.
    assert (Hs' : s_prev_point_ts s' = blk_end d t pkt_ts (az_diff, ts_off)).
    { subst s'. cbn [s_prev_point_ts upd_mech_blk]. destruct (0 <? d_chans_per_blk d) eqn:E; [reflexivity|lia]. }
    rewrite Hs' in IH. destruct IH as [I1 I2]. split; [split; [reflexivity | exact I1] | exact I2].
Qed.

(* first-point stamping: every block hands over the time of the block at which the frame in progress was opened - the block of
   the most recent split (the value carried in for a frame opened in an earlier packet, or by no split at all) *)
Fixpoint stamps_first (pkt_ts first : Z) (its : list (Z * Z)) (outs : list blk_out) : Prop :=
  match its, outs with
  | it :: its', bo :: outs' => bo_cloud_ts bo = first /\ stamps_first pkt_ts (if bo_split bo then blk_time pkt_ts it else first) its' outs'
  | _, [] => True
  | [], _ :: _ => False
  end.
Fixpoint first_end (pkt_ts first : Z) (its : list (Z * Z)) (outs : list blk_out) : Z :=
  match its, outs with
  | it :: its', bo :: outs' => first_end pkt_ts (if bo_split bo then blk_time pkt_ts it else first) its' outs'
  | _, _ => first
  end.

Lemma mech_blocks_stamps_first d c t w sect b pkt_ts : c_ts_first c = true ->
  forall its blk s,
  let r := mech_blocks d c t w sect b pkt_ts its blk s in
  stamps_first pkt_ts (s_first_point_ts s) its (snd (fst r)) /\
  s_first_point_ts (fst (fst r)) = first_end pkt_ts (s_first_point_ts s) its (snd (fst r)).
Proof.
  intros Hf. induction its as [|[az_diff ts_off] rest IH]; intros blk s.
  - cbn. auto.
  - cbn [mech_blocks].
    destruct (negb (match_at b (d_off_blocks d + blk * d_sizeof_block d) (d_block_id d))); [cbn; auto|].
    destruct (split_step c s _) as [sp ss]. rewrite Hf.
    set (s' := upd_mech_blk _ _ _ _).
    specialize (IH (blk + 1) s'). cbv zeta in IH.
    destruct (mech_blocks d c t w sect b pkt_ts rest (blk + 1) s') as [[s'' outs] bad].
    cbn [fst snd stamps_first first_end bo_cloud_ts bo_split] in *.
    assert (Hs' : s_first_point_ts s' = if sp then blk_time pkt_ts (az_diff, ts_off) else s_first_point_ts s) by reflexivity.
    rewrite Hs' in IH. destruct IH as [I1 I2]. split; [split; [reflexivity | exact I1] | exact I2].
Qed.

(* the time of every point of a mechanical block is the block time plus its channel's firing offset, valid or not, kept or not:
   restated here for the dense case as a statement about the kept points *)
Lemma mech_kept_point_ts d c s t w sect bb block_az az_diff block_ts chan :
  p_ts (mech_channel d c s t w sect bb 0 block_az az_diff block_ts chan) = block_ts + nthZ (t_chan_ns t) chan.
Proof. unfold mech_channel. cbv zeta. destruct (dist_in _ _ && az_in _ _); reflexivity. Qed.

(* ---- MEMS: one (sub-)packet is one block of the frame stream *)
Lemma mems_sub_stamp d c s b base h1 h2 :
  let r := decode_msop_mems_sub d c s b base h1 h2 in
  let pkt_ts := fst (pkt_time d c 0 b base h1 h2) in
  let bo := snd (fst (fst r)) in
  let s' := fst (fst (fst r)) in
  bo_cloud_ts bo = (if c_ts_first c then s_first_point_ts s else s_prev_point_ts s) /\
  s_first_point_ts s' = (if bo_split bo then pkt_ts else s_first_point_ts s) /\
  s_prev_pkt_ts s' = pkt_ts.
Proof.
  unfold decode_msop_mems_sub. cbv zeta. destruct (pkt_time d c 0 b base h1 h2) as [pkt_ts b'].
  destruct (seq_step (s_seq s) _) as [sp sq]. cbn [fst snd bo_cloud_ts bo_split s_first_point_ts s_prev_pkt_ts upd_mems].
  repeat split; reflexivity.
Qed.

(* the time of the points of MEMS block blk: header time plus the block's microsecond offset *)
Lemma mems_block_ts d c w b base pkt_ts dual blk :
  snd (mems_block_points d c w b base pkt_ts dual blk) =
  pkt_ts + (let bb := skipn (Z.to_nat (base + d_off_blocks d + blk * d_sizeof_block d)) b in
            if d_sizeof_toff d =? 2 then be16 bb (d_off_blk_toff d) else u8 bb (d_off_blk_toff d)) * 1000.
Proof. unfold mems_block_points. cbv zeta. reflexivity. Qed.

Lemma mems_point_ts d c w b base coff ts chan dual p : In p (mems_channel_points d c w b base coff ts chan dual) -> p_ts p = ts.
Proof.
  unfold mems_channel_points. cbv zeta.
  assert (H1 : forall doff ioff, p_ts (if dist_in w (dy_mul_r 24 (dy_of_Z (be16 b (coff + doff))) (t_dist_res (d_tab_base d)))
              then match d_proj d with
                   | ProjPitchYaw => mk_point (PPitchYaw (dy_mul_r 24 (dy_of_Z (be16 b (coff + doff))) (t_dist_res (d_tab_base d))) (trig_idx (be16 b (coff + d_off_chan_a d) - 32768)) (trig_idx (be16 b (coff + d_off_chan_b d) - 32768))) (u8 b (coff + ioff)) chan ts
                   | ProjVecMx => mk_point (PVec (dy_mul_r 24 (dy_of_Z (be16 b (coff + doff))) (t_dist_res (d_tab_base d))) (be16 b (coff + d_off_chan_a d)) (sbe16 b (coff + d_off_chan_b d)) (sbe16 b (coff + d_off_chan_c d))) (u8 b (coff + ioff)) chan ts
                   | _ => mk_point (PVec (dy_mul_r 24 (dy_of_Z (be16 b (coff + doff))) (t_dist_res (d_tab_base d))) (sbe16 b (coff + d_off_chan_a d)) (sbe16 b (coff + d_off_chan_b d)) (sbe16 b (coff + d_off_chan_c d))) (u8 b (coff + ioff)) chan ts
                   end
              else mk_point PNone 0 chan ts) = ts).
  { intros doff ioff. destruct (dist_in _ _); [destruct (d_proj d)|]; reflexivity. }
  destruct (d_proj d) eqn:Ep; try destruct dual; cbn [In]; intros H;
    repeat (destruct H as [<- | H]; [apply H1|]); try contradiction.
Qed.

(* ---- from blocks to clouds: a cloud delivered while a packet's blocks are fed carries the stamp handed over by the block whose
   split delivered it *)
From RS Require Import Proofs.Stream.
Lemma split_frame_ts v th now ts : Forall (fun cl => cl_ts cl = ts) (clouds_of (snd (split_frame v th now ts))).
Proof.
  pose proof (split_frame_spec v th now ts) as H. cbv zeta in H.
  destruct H as (_ & _ & _ & _ & _ & He & Hn).
  destruct (v_open v) as [|p ps] eqn:Eo.
  - rewrite (He eq_refl). constructor.
  - destruct Hn as (_ & o' & Ho & Hc & _); [congruence|].
    rewrite Ho. cbn [clouds_of flat_map]. fold (clouds_of o'). rewrite Hc. cbn [app].
    constructor; [reflexivity|constructor].
Qed.

Lemma feed_blocks_cloud_ts : forall bs v th now,
  Forall (fun cl => exists bo, In bo bs /\ bo_split bo = true /\ cl_ts cl = bo_cloud_ts bo) (clouds_of (snd (feed_blocks v th now bs))).
Proof.
  induction bs as [|bo rest IH]; intros v th now; [constructor|].
  cbn [feed_blocks].
  set (r1 := if bo_split bo then split_frame v th now (bo_cloud_ts bo) else (v, th, [])).
  assert (H1 : Forall (fun cl => bo_split bo = true /\ cl_ts cl = bo_cloud_ts bo) (clouds_of (snd r1))).
  { subst r1. destruct (bo_split bo) eqn:E; [|constructor].
    eapply Forall_impl; [|apply split_frame_ts]. cbn. intros cl H. split; [reflexivity|exact H]. }
  destruct r1 as [[v1 th1] o1]. cbn [fst snd] in H1.
  set (v2 := set_open v1 (v_dec v1) (v_open_buf v1) (v_open v1 ++ bo_points bo) (v_pkt_seq v1) (v_cloud_seq v1) (v_answers v1) (v_fresh v1)).
  specialize (IH v2 th1 now).
  destruct (feed_blocks v2 th1 now rest) as [[v3 th3] o3]. cbn [fst snd] in *.
  rewrite clouds_of_app. apply Forall_app. split.
  - eapply Forall_impl; [|exact H1]. cbn. intros cl [Hs Ht]. exists bo. split; [left; reflexivity|]. split; assumption.
  - eapply Forall_impl; [|exact IH]. cbn. intros cl (b' & Hin & Hs & Ht). exists b'. split; [right; exact Hin|]. split; assumption.
Qed.
