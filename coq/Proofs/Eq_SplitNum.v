From RS Require Import Base.Tac Gen.Kernels_gen Model.Kernels.
Local Open Scope Z_scope.

Lemma gen_split_num_ctor : SplitStrategyByNum_blks_ SplitStrategyByNum_ctor = 0.
Proof. reflexivity. Qed.

Lemma gen_split_num_eq st x n :
  let r := SplitStrategyByNum_newBlock st x n in
  let m := split_num_step n (SplitStrategyByNum_blks_ st) in
  fst r = fst m /\ SplitStrategyByNum_blks_ (snd r) = snd m.
Proof.
  destruct st as [p b]. unfold SplitStrategyByNum_newBlock, split_num_step, wrapu.
  cbn [SplitStrategyByNum_blks_].
  change (2 ^ 16) with 65536. change (0 mod 65536) with 0.
  split_ifs; cbn [fst snd SplitStrategyByNum_blks_]; split; reflexivity || lia.
Qed.
