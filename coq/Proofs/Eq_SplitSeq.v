(* Regenerated kernel = canonical kernel: SplitStrategyBySeq. *)
From RS Require Import Base.Tac Gen.Kernels_gen Model.Kernels.
Local Open Scope Z_scope.

Definition seq_abs (g : SplitStrategyBySeq_state) : seq_state :=
  mk_seq (SplitStrategyBySeq_prev_seq_ g) (SplitStrategyBySeq_max_seq_ g) (SplitStrategyBySeq_looped_ g).

(* representation invariant of the C++ object: the safe range is the function of prev_seq_ that
   setSafeRange() computes; all members are uint16 *)
Definition seq_wf (g : SplitStrategyBySeq_state) : Prop :=
  0 <= SplitStrategyBySeq_prev_seq_ g < 65536 /\ 0 <= SplitStrategyBySeq_max_seq_ g < 65536 /\
  SplitStrategyBySeq_safe_seq_min_ g = safe_min (SplitStrategyBySeq_prev_seq_ g) /\
  SplitStrategyBySeq_safe_seq_max_ g = safe_max (SplitStrategyBySeq_prev_seq_ g).

Lemma wrapu16_small x : 0 <= x < 65536 -> wrapu 16 x = x.
Proof. intros H. unfold wrapu. change (2 ^ 16) with 65536. apply Z.mod_small. exact H. Qed.

Lemma gen_safe_min p : 0 <= p < 65536 -> wrapu 16 (if p >? 10 then p - 10 else 0) = safe_min p.
Proof. intros H. unfold safe_min, SEQ_RANGE. rewrite wrapu16_small; [reflexivity|]. destruct (p >? 10) eqn:E; lia. Qed.
Lemma gen_safe_max p : wrapu 16 (p + 10) = safe_max p.
Proof. reflexivity. Qed.

Lemma gen_seq_ctor : seq_wf SplitStrategyBySeq_ctor /\ seq_abs SplitStrategyBySeq_ctor = seq_init.
Proof. unfold seq_wf. vm_compute. repeat split; congruence. Qed.

Lemma gen_seq_eq g s : seq_wf g -> 0 <= s < 65536 ->
  let r := SplitStrategyBySeq_newPacket g s in
  fst r = fst (seq_step (seq_abs g) s) /\ seq_abs (snd r) = snd (seq_step (seq_abs g) s) /\ seq_wf (snd r).
Proof.
  destruct g as [p smin smax mx lp]. unfold seq_wf, seq_abs. cbn [SplitStrategyBySeq_prev_seq_ SplitStrategyBySeq_max_seq_
    SplitStrategyBySeq_looped_ SplitStrategyBySeq_safe_seq_min_ SplitStrategyBySeq_safe_seq_max_].
  intros (Hp & Hm & -> & ->) Hs.
  unfold SplitStrategyBySeq_newPacket, seq_step.
  cbn [SplitStrategyBySeq_prev_seq_ SplitStrategyBySeq_max_seq_ SplitStrategyBySeq_looped_ SplitStrategyBySeq_safe_seq_min_
       SplitStrategyBySeq_safe_seq_max_ sq_prev sq_max sq_looped].
  rewrite !gen_safe_max, !gen_safe_min by lia.
  destruct (s >? mx) eqn:E1; destruct (s <? safe_min p) eqn:E2; cbn [fst snd];
    [ | destruct (s <? p) eqn:E3; [|destruct (s <=? safe_max p) eqn:E4; [|destruct (p =? 0) eqn:E5]] |
      | destruct (s <? p) eqn:E3; [|destruct (s <=? safe_max p) eqn:E4; [|destruct (p =? 0) eqn:E5]] ];
    cbn [fst snd SplitStrategyBySeq_prev_seq_ SplitStrategyBySeq_max_seq_ SplitStrategyBySeq_looped_
         SplitStrategyBySeq_safe_seq_min_ SplitStrategyBySeq_safe_seq_max_];
    rewrite ?gen_safe_min by lia; (split; [reflexivity|]); (split; [reflexivity|]); repeat split; try lia; try reflexivity.
Qed.

Lemma gen_max_seq g : fst (SplitStrategyBySeq_maxSeq g) = wrapu 16 (seq_max_seq (seq_abs g)).
Proof. reflexivity. Qed.
