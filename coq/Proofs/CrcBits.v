(* C20: the IEEE CRC-32 detects every single-bit corruption.  The bit step is an injective GF(2)-linear
   map on 32-bit values, so two running values that differ stay different. *)
From RS Require Import Base.Tac Base.Bytes Model.Desc Model.Driver Gen.Params_gen Proofs.Crc.
Local Open Scope Z_scope.

Definition W : Z := 4294967296.   (* 2^32 *)

Lemma lxor_bound n a b : 0 <= n -> 0 <= a < 2 ^ n -> 0 <= b < 2 ^ n -> 0 <= Z.lxor a b < 2 ^ n.
Proof.
  intros Hn Ha Hb. split; [apply Z.lxor_nonneg; lia|].
  destruct (Z.eq_dec (Z.lxor a b) 0) as [->|Hne]; [lia|].
  assert (Hp : 0 < Z.lxor a b) by (pose proof (proj2 (Z.lxor_nonneg a b) ltac:(lia)); lia).
  apply (proj2 (Z.log2_lt_pow2 (Z.lxor a b) n Hp)).
  apply Z.le_lt_trans with (Z.max (Z.log2 a) (Z.log2 b)); [apply Z.log2_lxor; lia|].
  assert (L : forall x, 0 <= x < 2 ^ n -> Z.log2 x < n \/ x = 0).
  { intros x Hx. destruct (Z.eq_dec x 0) as [->|Hx0]; [right; reflexivity|left]. apply Z.log2_lt_pow2; lia. }
  assert (0 < n) by (destruct (Z.eq_dec n 0) as [->|]; [cbn in Ha, Hb; assert (a = 0) by lia; assert (b = 0) by lia; subst; cbn in Hne; contradiction | lia]).
  apply Z.max_lub_lt.
  - destruct (L a Ha) as [H1| ->]; [exact H1 | cbn; lia].
  - destruct (L b Hb) as [H1| ->]; [exact H1 | cbn; lia].
Qed.

Lemma lxor_bound32 a b : 0 <= a < W -> 0 <= b < W -> 0 <= Z.lxor a b < W.
Proof. change W with (2 ^ 32). apply lxor_bound. lia. Qed.

Lemma bit_step_bound x : 0 <= x < W -> 0 <= bit_step x < W.
Proof.
  intros Hx. unfold bit_step. apply lxor_bound32.
  - rewrite Z.shiftr_div_pow2 by lia. change (2 ^ 1) with 2. unfold W in *. split; [apply Z.div_pos; lia | apply Z.div_lt_upper_bound; lia].
  - destruct (Z.odd x); unfold POLY, W; lia.
Qed.

(* the bit step has a trivial kernel on 32-bit values: bit 31 of the result tells the bit shifted out *)
Lemma bit_step_kernel d : 0 <= d < W -> bit_step d = 0 -> d = 0.
Proof.
  intros Hd H. unfold bit_step in H. apply Z.lxor_eq in H. rewrite Z.shiftr_div_pow2 in H by lia. change (2 ^ 1) with 2 in H.
  destruct (Z.odd d) eqn:Eo.
  - unfold POLY, W in *. assert (d / 2 < 2147483648) by (apply Z.div_lt_upper_bound; lia). lia.
  - assert (d < 2) by (pose proof (Z.div_mod d 2 ltac:(lia)); pose proof (Z.mod_pos_bound d 2 ltac:(lia)); lia).
    destruct (Z.eq_dec d 0) as [->|Hn]; [reflexivity|]. assert (d = 1) by lia. subst. discriminate Eo.
Qed.

Lemma iter8_bound x : 0 <= x < W -> 0 <= iter8 x < W.
Proof. intros H. unfold iter8. repeat apply bit_step_bound. exact H. Qed.

Lemma iter8_kernel d : 0 <= d < W -> iter8 d = 0 -> d = 0.
Proof.
  intros Hd H. unfold iter8 in H.
  repeat (match type of H with bit_step ?t = 0 => apply bit_step_kernel in H; [|repeat apply bit_step_bound; exact Hd] end).
  exact H.
Qed.

Lemma iter8_inj x y : 0 <= x < W -> 0 <= y < W -> iter8 x = iter8 y -> x = y.
Proof.
  intros Hx Hy H. apply Z.lxor_eq. apply iter8_kernel; [apply lxor_bound32; assumption|].
  rewrite iter8_lxor, H. apply Z.lxor_nilpotent.
Qed.

Lemma byte_lt_W b : 0 <= b < 256 -> 0 <= b < W.
Proof. unfold W. lia. Qed.

Lemma step_bound c b : 0 <= c < W -> 0 <= b < 256 -> 0 <= crc_bitwise_step c b < W.
Proof. intros Hc Hb. unfold crc_bitwise_step. apply iter8_bound. apply lxor_bound32; [exact Hc | apply byte_lt_W; exact Hb]. Qed.

Lemma lxor_cancel_r a b c : Z.lxor a c = Z.lxor b c -> a = b.
Proof.
  intros H. apply (f_equal (fun t => Z.lxor t c)) in H.
  rewrite !Z.lxor_assoc, Z.lxor_nilpotent, !Z.lxor_0_r in H. exact H.
Qed.

(* one byte keeps different running values different *)
Lemma step_inj c1 c2 b : 0 <= c1 < W -> 0 <= c2 < W -> 0 <= b < 256 -> crc_bitwise_step c1 b = crc_bitwise_step c2 b -> c1 = c2.
Proof.
  intros H1 H2 Hb H. unfold crc_bitwise_step in H.
  apply iter8_inj in H; [|apply lxor_bound32; [assumption | apply byte_lt_W; exact Hb] ..].
  eapply lxor_cancel_r; exact H.
Qed.

Lemma run_bound data : forall s, 0 <= s < W -> Forall (fun b => 0 <= b < 256) data -> 0 <= fold_left crc_bitwise_step data s < W.
Proof.
  induction data as [|b r IH]; intros s Hs HF; [exact Hs|]. inversion HF as [|? ? Hb HF']; subst. cbn [fold_left].
  apply IH; [apply step_bound; assumption | exact HF'].
Qed.

Lemma run_inj data : forall s1 s2, 0 <= s1 < W -> 0 <= s2 < W -> Forall (fun b => 0 <= b < 256) data ->
  fold_left crc_bitwise_step data s1 = fold_left crc_bitwise_step data s2 -> s1 = s2.
Proof.
  induction data as [|b r IH]; intros s1 s2 H1 H2 HF H; [exact H|]. inversion HF as [|? ? Hb HF']; subst. cbn [fold_left] in H.
  apply IH in H; [|apply step_bound; assumption | apply step_bound; assumption | exact HF'].
  eapply step_inj; eassumption.
Qed.

Lemma flip_bound b p : 0 <= b < 256 -> 0 <= p < 8 -> 0 <= Z.lxor b (2 ^ p) < 256 /\ Z.lxor b (2 ^ p) <> b.
Proof.
  intros Hb Hp. split.
  - change 256 with (2 ^ 8). apply lxor_bound; [lia | exact Hb |].
    split; [apply Z.pow_nonneg; lia | apply Z.pow_lt_mono_r; lia].
  - intros H. assert (E : Z.lxor (Z.lxor b (2 ^ p)) b = 0) by (rewrite H; apply Z.lxor_nilpotent).
    rewrite (Z.lxor_comm b), Z.lxor_assoc, Z.lxor_nilpotent, Z.lxor_0_r in E.
    assert (0 < 2 ^ p) by (apply Z.pow_pos_nonneg; lia). lia.
Qed.

(* T7a: flipping any one bit of any one byte of a message changes its CRC-32 *)
Theorem crc_single_bit pre b post p :
  Forall (fun x => 0 <= x < 256) pre -> 0 <= b < 256 -> Forall (fun x => 0 <= x < 256) post -> 0 <= p < 8 ->
  crc_bitwise (pre ++ b :: post) <> crc_bitwise (pre ++ Z.lxor b (2 ^ p) :: post).
Proof.
  intros Hpre Hb Hpost Hp H. unfold crc_bitwise in H.
  apply lxor_cancel_r in H. rewrite !fold_left_app in H. cbn [fold_left] in H.
  set (s := fold_left crc_bitwise_step pre 4294967295) in *.
  assert (Hs : 0 <= s < W) by (subst s; apply run_bound; [unfold W; lia | exact Hpre]).
  destruct (flip_bound b p Hb Hp) as [Hb' Hne].
  apply run_inj in H; [|apply step_bound; assumption | apply step_bound; assumption | exact Hpost].
  unfold crc_bitwise_step in H.
  apply iter8_inj in H; [|apply lxor_bound32; [exact Hs | apply byte_lt_W; assumption] ..].
  apply (f_equal (fun t => Z.lxor s t)) in H. rewrite <- !Z.lxor_assoc, Z.lxor_nilpotent, !Z.lxor_0_l in H.
  apply Hne. symmetry. exact H.
Qed.

Lemma be32_bytes x0 x1 x2 x3 rest : be32 (x0 :: x1 :: x2 :: x3 :: rest) 0 = (x0 * 256 + x1) * 65536 + (x2 * 256 + x3).
Proof. reflexivity. Qed.

(* T7b: flipping one bit of the stored big-endian value changes the value read *)
Theorem stored_single_bit a0 a1 a2 a3 rest k p :
  0 <= a0 < 256 -> 0 <= a1 < 256 -> 0 <= a2 < 256 -> 0 <= a3 < 256 -> 0 <= p < 8 -> (k < 4)%nat ->
  let flip (i : nat) (x : Z) := if Nat.eqb i k then Z.lxor x (2 ^ p) else x in
  be32 (flip 0%nat a0 :: flip 1%nat a1 :: flip 2%nat a2 :: flip 3%nat a3 :: rest) 0 <> be32 (a0 :: a1 :: a2 :: a3 :: rest) 0.
Proof.
  intros H0 H1 H2 H3 Hp Hk flip.
  destruct (flip_bound a0 p H0 Hp) as [B0 N0]. destruct (flip_bound a1 p H1 Hp) as [B1 N1].
  destruct (flip_bound a2 p H2 Hp) as [B2 N2]. destruct (flip_bound a3 p H3 Hp) as [B3 N3].
  destruct k as [|[|[|[|k]]]]; try lia; subst flip; cbn [Nat.eqb]; rewrite !be32_bytes;
    set (f0 := Z.lxor a0 (2 ^ p)) in *; set (f1 := Z.lxor a1 (2 ^ p)) in *; set (f2 := Z.lxor a2 (2 ^ p)) in *; set (f3 := Z.lxor a3 (2 ^ p)) in *;
    clearbody f0 f1 f2 f3; lia.
Qed.
