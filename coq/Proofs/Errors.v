(* C19: reported errors are truthful. *)
From RS Require Import Base.Tac Base.Bytes Base.Dyadic Model.Desc Model.Kernels Model.Decoder Model.Driver Model.Oracles.
From RS Require Import Proofs.Stream Proofs.DriverInv Proofs.Conservation.
Local Open Scope Z_scope.

Lemma errs_of_app a b : errs_of (a ++ b) = errs_of a ++ errs_of b.
Proof. unfold errs_of. apply flat_map_app. Qed.

(* ---- throttles *)
Lemma limit_call_errs_spec t now code :
  errs_of (snd (limit_call t now code)) = [] \/ errs_of (snd (limit_call t now code)) = [code].
Proof. unfold limit_call. destruct (th_get t code); destruct (_ >? 1); cbn; auto. Qed.
Lemma delay_limit_call_errs_spec t now code :
  errs_of (snd (delay_limit_call t now code)) = [] \/ errs_of (snd (delay_limit_call t now code)) = [code].
Proof. unfold delay_limit_call. destruct (th_get t code); [destruct (_ >? 1)|]; cbn; auto. Qed.

(* first occurrence in a process (no earlier evaluation of that site): reported, at any real wall clock *)
Lemma limit_call_first t now code : th_get t code = None -> now > 1 -> snd (limit_call t now code) = [OErr code].
Proof. intros H Hn. unfold limit_call. rewrite H. destruct (now - 0 >? 1) eqn:E; [reflexivity|lia]. Qed.
(* at most one report per second per site *)
Lemma limit_call_throttled t now code prev : th_get t code = Some prev -> now - prev <= 1 -> snd (limit_call t now code) = [].
Proof. intros H Hn. unfold limit_call. rewrite H. destruct (now - prev >? 1) eqn:E; [lia|reflexivity]. Qed.
Lemma limit_call_reports t now code prev : th_get t code = Some prev -> now - prev > 1 -> snd (limit_call t now code) = [OErr code].
Proof. intros H Hn. unfold limit_call. rewrite H. destruct (now - prev >? 1) eqn:E; [reflexivity|lia]. Qed.
(* missing calibration: silent at its first evaluation, reported once it has persisted more than a second *)
Lemma delay_first t now code : th_get t code = None -> snd (delay_limit_call t now code) = [].
Proof. intros H. unfold delay_limit_call. rewrite H. reflexivity. Qed.
Lemma delay_reports t now code prev : th_get t code = Some prev -> now - prev > 1 -> snd (delay_limit_call t now code) = [OErr code].
Proof. intros H Hn. unfold delay_limit_call. rewrite H. destruct (now - prev >? 1) eqn:E; [reflexivity|lia]. Qed.

(* ---- getPointCloud reports only POINTCLOUDNULL, and only when the caller answered null *)
Lemma get_cloud_errs : forall fuel answers fresh th now,
  Forall (fun c => c = ERR_POINTCLOUDNULL) (errs_of (snd (get_cloud fuel answers fresh th now))) /\
  (Forall (fun a => a <> None) answers -> errs_of (snd (get_cloud fuel answers fresh th now)) = []).
Proof.
  induction fuel as [|k IH]; intros answers fresh th now.
  - destruct answers as [|[id|] r]; cbn; (split; [constructor | intros _; reflexivity]).
  - destruct answers as [|[id|] r]; try (cbn; split; [constructor | intros _; reflexivity]).
    cbn [get_cloud].
    pose proof (limit_call_errs_spec th now ERR_POINTCLOUDNULL) as Hl.
    destruct (limit_call th now ERR_POINTCLOUDNULL) as [th1 e]. cbn [snd] in Hl.
    specialize (IH r fresh th1 now).
    destruct (get_cloud k r fresh th1 now) as [[[[id a] f] th2] o]. cbn [snd] in *.
    destruct IH as [I1 _]. split.
    + cbn [errs_of flat_map app]. fold (errs_of (e ++ o)). rewrite errs_of_app. apply Forall_app. split; [|exact I1].
      destruct Hl as [-> | ->]; [constructor | constructor; [reflexivity|constructor]].
    + intros H. inversion H; subst. congruence.
Qed.

Definition only_null_errs (o : list out) : Prop := Forall (fun c => c = ERR_POINTCLOUDNULL) (errs_of o).

Lemma split_frame_errs v th now ts : only_null_errs (snd (split_frame v th now ts)).
Proof.
  unfold split_frame, only_null_errs. destruct (v_open v); [constructor|].
  pose proof (get_cloud_errs (S (length (v_answers v))) (v_answers v) (v_fresh v) th now) as [H _].
  destruct (get_cloud _ _ _ _ _) as [[[[id a] f] th1] o]. cbn [snd] in *. exact H.
Qed.

Lemma feed_blocks_errs : forall bs v th now, only_null_errs (snd (feed_blocks v th now bs)).
Proof.
  induction bs as [|bo rest IH]; intros v th now; [constructor|].
  cbn [feed_blocks].
  set (r1 := if bo_split bo then split_frame v th now (bo_cloud_ts bo) else (v, th, [])).
  assert (H1 : only_null_errs (snd r1)) by (subst r1; destruct (bo_split bo); [apply split_frame_errs | constructor]).
  destruct r1 as [[v1 th1] o1]. cbn [snd] in H1.
  set (v2 := set_open v1 _ _ _ _ _ _ _). specialize (IH v2 th1 now).
  destruct (feed_blocks v2 th1 now rest) as [[v3 th3] o3]. cbn [snd] in *.
  unfold only_null_errs in *. rewrite errs_of_app. apply Forall_app. split; assumption.
Qed.

Lemma mems_subs_errs now host : forall k i v th b ret, only_null_errs (snd (fst (fst (mems_subs now host k i v th b ret)))).
Proof.
  induction k as [|k IH]; intros i v th b ret; [constructor|].
  cbn [mems_subs]. cbv zeta.
  destruct ((0 <? d_n_sub (v_desc v)) && negb (match_at b (i * d_sizeof_sub (v_desc v)) (d_msop_id (v_desc v)))); [apply IH|].
  destruct (decode_msop_mems_sub (v_desc v) (v_cfg v) (v_dec v) b (i * d_sizeof_sub (v_desc v)) host host) as [[[s' bo] b'] es].
  pose proof (feed_blocks_errs [bo] (with_dec v s') th now) as H1.
  destruct (feed_blocks (with_dec v s') th now [bo]) as [[v1 th1] o1]. cbn [snd] in H1.
  set (r2 := match es with Some ts => split_frame v1 th1 now ts | None => (v1, th1, []) end).
  assert (H2 : only_null_errs (snd r2)) by (subst r2; destruct es; [apply split_frame_errs | constructor]).
  destruct r2 as [[v2 th2] o2]. cbn [snd] in H2.
  specialize (IH (i + 1) v2 th2 b' (ret || bo_split bo)).
  destruct (mems_subs now host k (i + 1) v2 th2 b' (ret || bo_split bo)) as [[[[v3 th3] o3] r3] b3]. cbn [fst snd] in *.
  unfold only_null_errs in *. rewrite !errs_of_app. repeat (apply Forall_app; split); assumption.
Qed.

(* ---- T2: every code an MSOP packet can raise, with the condition under which it is raised.
   Length is tested before the identifier; missing calibration only while waiting; overflow only
   above the threshold; a bad block id under its own code; POINTCLOUDNULL only from the caller's nulls *)
Definition msop_cause (bl : build) (tbl : list Z) (v : drv) (host : Z) (b : bytes) (c : Z) : Prop :=
  let d := v_desc v in let cf := v_cfg v in
  let waiting := c_wait_for_difop cf && negb (s_angles_ready (v_dec v)) in
  (c = ERR_CLOUDOVERFLOW /\ overflowed v = true) \/
  (c = ERR_NODIFOPRECV /\ waiting = true) \/
  (c = ERR_WRONGMSOPLEN /\ waiting = false /\ blen b <> d_msop_len d) \/
  (c = ERR_WRONGMSOPID /\ waiting = false /\ blen b = d_msop_len d /\ match_at b 0 (d_msop_id d) = false) \/
  (c = ERR_WRONGCRC32 /\ b_crc bl = true /\ accepts bl tbl v b = false /\ blen b = d_msop_len d /\ match_at b 0 (d_msop_id d) = true) \/
  (c = ERR_WRONGMSOPBLKID /\ accepts bl tbl v b = true /\ d_family d = Mech /\ mr_bad_blkid (decode_msop_mech d cf (v_dec v) b host host) = true) \/
  (c = ERR_POINTCLOUDNULL /\ accepts bl tbl v b = true).

Theorem process_msop_causes bl tbl v th now host b :
  Forall (msop_cause bl tbl v host b) (errs_of (snd (fst (fst (process_msop bl tbl v th now host b))))).
Proof.
  unfold process_msop. cbv zeta.
  set (g := if Z.of_nat (length (v_open v)) >? CLOUD_POINT_MAX then _ else (v, th, [])).
  assert (Hg : Forall (msop_cause bl tbl v host b) (errs_of (snd g)) /\ v_dec (fst (fst g)) = v_dec v /\
               v_desc (fst (fst g)) = v_desc v /\ v_cfg (fst (fst g)) = v_cfg v).
  { subst g. destruct (Z.of_nat (length (v_open v)) >? CLOUD_POINT_MAX) eqn:E.
    - pose proof (limit_call_errs_spec th now ERR_CLOUDOVERFLOW) as Hl.
      destruct (limit_call th now ERR_CLOUDOVERFLOW) as [t e]. cbn [fst snd] in *.
      split; [|auto]. destruct Hl as [-> | ->]; [constructor | constructor; [|constructor]]. unfold msop_cause. left. split; [reflexivity|exact E].
    - cbn. split; [constructor|auto]. }
  destruct g as [[v0 th0] o0]. cbn [fst snd] in Hg. destruct Hg as (G0 & G1 & G2 & G3).
  rewrite G1.
  destruct (c_wait_for_difop (v_cfg v) && negb (s_angles_ready (v_dec v))) eqn:Ew.
  { pose proof (delay_limit_call_errs_spec th0 now ERR_NODIFOPRECV) as Hl.
    destruct (delay_limit_call th0 now ERR_NODIFOPRECV) as [t e]. cbn [fst snd] in *.
    rewrite errs_of_app. apply Forall_app. split; [exact G0|].
    destruct Hl as [-> | ->]; [constructor | constructor; [|constructor]]. unfold msop_cause. right. left. auto. }
  destruct (blen b =? d_msop_len (v_desc v)) eqn:El; cbn [negb].
  2:{ pose proof (limit_call_errs_spec th0 now ERR_WRONGMSOPLEN) as Hl.
      destruct (limit_call th0 now ERR_WRONGMSOPLEN) as [t e]. cbn [fst snd] in *.
      rewrite errs_of_app. apply Forall_app. split; [exact G0|].
      destruct Hl as [-> | ->]; [constructor | constructor; [|constructor]]. unfold msop_cause. right. right. left. repeat split; auto. lia. }
  destruct (match_at b 0 (d_msop_id (v_desc v))) eqn:Ei; cbn [negb].
  2:{ pose proof (limit_call_errs_spec th0 now ERR_WRONGMSOPID) as Hl.
      destruct (limit_call th0 now ERR_WRONGMSOPID) as [t e]. cbn [fst snd] in *.
      rewrite errs_of_app. apply Forall_app. split; [exact G0|].
      destruct Hl as [-> | ->]; [constructor | constructor; [|constructor]]. unfold msop_cause. right. right. right. left. repeat split; auto. lia. }
  destruct (b_crc bl && negb (crc_ok tbl b)) eqn:Ec.
  { pose proof (limit_call_errs_spec th0 now ERR_WRONGCRC32) as Hl.
    destruct (limit_call th0 now ERR_WRONGCRC32) as [t e]. cbn [fst snd] in *.
    rewrite errs_of_app. apply Forall_app. split; [exact G0|].
    destruct Hl as [-> | ->]; [constructor | constructor; [|constructor]]. unfold msop_cause. do 4 right. left.
    apply andb_true_iff in Ec. destruct Ec as [Ec1 Ec2].
    repeat split; auto; [|lia]. unfold accepts. rewrite Ew, El, Ei, Ec1, Ec2. reflexivity. }
  assert (Hacc : accepts bl tbl v b = true) by (unfold accepts; rewrite Ew, El, Ei, Ec; reflexivity).
  assert (Hnull : forall o, only_null_errs o -> Forall (msop_cause bl tbl v host b) (errs_of o)).
  { intros o Ho. unfold only_null_errs in Ho. eapply Forall_impl; [|exact Ho]. intros c ->. unfold msop_cause. do 6 right. auto. }
  destruct (d_family (v_desc v)) eqn:Ef.
  - set (r := decode_msop_mech (v_desc v) (v_cfg v) (v_dec v) b host host).
    pose proof (feed_blocks_errs (mr_blocks r) (with_dec v0 (mr_state r)) th0 now) as H1.
    destruct (feed_blocks (with_dec v0 (mr_state r)) th0 now (mr_blocks r)) as [[v1 th1] o1]. cbn [fst snd] in *.
    rewrite !errs_of_app. apply Forall_app. split; [exact G0|]. apply Forall_app. split; [apply Hnull; exact H1|].
    destruct (mr_bad_blkid r) eqn:Eb; [|constructor]. constructor; [|constructor]. unfold msop_cause. do 5 right. left. auto.
  - pose proof (mems_subs_errs now host (Z.to_nat (if d_n_sub (v_desc v) =? 0 then 1 else d_n_sub (v_desc v))) 0 v0 th0 b false) as H1.
    destruct (mems_subs now host _ 0 v0 th0 b false) as [[[[v1 th1] o1] ret] b']. cbn [fst snd] in *.
    rewrite errs_of_app. apply Forall_app. split; [exact G0 | apply Hnull; exact H1].
Qed.

(* DIFOP: length before identifier *)
Theorem process_difop_causes bl v th now b :
  Forall (fun c => (c = ERR_WRONGDIFOPLEN /\ blen b <> d_difop_len (v_desc v)) \/
                   (c = ERR_WRONGDIFOPID /\ blen b = d_difop_len (v_desc v) /\ match_at b 0 (d_difop_id (v_desc v)) = false))
         (errs_of (snd (process_difop bl v th now b))).
Proof.
  unfold process_difop. cbv zeta.
  destruct (blen b =? d_difop_len (v_desc v)) eqn:El; cbn [negb].
  2:{ pose proof (limit_call_errs_spec th now ERR_WRONGDIFOPLEN) as Hl.
      destruct (limit_call th now ERR_WRONGDIFOPLEN) as [t e]. cbn [snd] in *.
      destruct Hl as [-> | ->]; [constructor | constructor; [|constructor]]. left. split; [reflexivity|lia]. }
  destruct (match_at b 0 (d_difop_id (v_desc v))) eqn:Ei; cbn [negb]; [constructor|].
  pose proof (limit_call_errs_spec th now ERR_WRONGDIFOPID) as Hl.
  destruct (limit_call th now ERR_WRONGDIFOPID) as [t e]. cbn [snd] in *.
  destruct Hl as [-> | ->]; [constructor | constructor; [|constructor]]. right. repeat split; auto. lia.
Qed.

(* ---- T1: a clean accepted packet with a caller that never answers null raises nothing *)
Lemma get_cloud_answers : forall fuel answers fresh th now, Forall (fun a => a <> None) answers ->
  Forall (fun a => a <> None) (snd (fst (fst (fst (get_cloud fuel answers fresh th now))))).
Proof.
  intros fuel answers fresh th now H. destruct fuel; destruct answers as [|[id|] r]; cbn; try constructor;
    inversion H; subst; try assumption; congruence.
Qed.

Lemma split_frame_clean v th now ts : Forall (fun a => a <> None) (v_answers v) ->
  errs_of (snd (split_frame v th now ts)) = [] /\ Forall (fun a => a <> None) (v_answers (fst (fst (split_frame v th now ts)))).
Proof.
  intros Ha. unfold split_frame. destruct (v_open v); [cbn; auto|].
  pose proof (get_cloud_errs (S (length (v_answers v))) (v_answers v) (v_fresh v) th now) as [_ H].
  pose proof (get_cloud_answers (S (length (v_answers v))) (v_answers v) (v_fresh v) th now Ha) as H2.
  destruct (get_cloud _ _ _ _ _) as [[[[id a] f] th1] o]. cbn [fst snd v_answers set_open] in *. split; [exact (H Ha) | exact H2].
Qed.

Lemma feed_blocks_clean : forall bs v th now, Forall (fun a => a <> None) (v_answers v) ->
  errs_of (snd (feed_blocks v th now bs)) = [] /\ Forall (fun a => a <> None) (v_answers (fst (fst (feed_blocks v th now bs)))).
Proof.
  induction bs as [|bo rest IH]; intros v th now Ha; [cbn; auto|].
  cbn [feed_blocks].
  set (r1 := if bo_split bo then split_frame v th now (bo_cloud_ts bo) else (v, th, [])).
  assert (H1 : errs_of (snd r1) = [] /\ Forall (fun a => a <> None) (v_answers (fst (fst r1)))).
  { subst r1. destruct (bo_split bo); [apply split_frame_clean; exact Ha | cbn; auto]. }
  destruct r1 as [[v1 th1] o1]. cbn [fst snd] in H1. destruct H1 as [E1 A1].
  set (v2 := set_open v1 _ _ _ _ _ _ _).
  specialize (IH v2 th1 now A1). destruct (feed_blocks v2 th1 now rest) as [[v3 th3] o3]. cbn [fst snd] in *.
  destruct IH as [E3 A3]. rewrite errs_of_app, E1, E3. auto.
Qed.

Theorem clean_mech_packet_silent bl tbl v th now host b :
  d_family (v_desc v) = Mech -> accepts bl tbl v b = true -> overflowed v = false ->
  mr_bad_blkid (decode_msop_mech (v_desc v) (v_cfg v) (v_dec v) b host host) = false ->
  Forall (fun a => a <> None) (v_answers v) ->
  errs_of (snd (fst (fst (process_msop bl tbl v th now host b)))) = [].
Proof.
  intros Hf Ha Ho Hb Hans. unfold accepts in Ha. unfold overflowed in Ho.
  unfold process_msop. cbv zeta. rewrite Ho.
  apply andb_true_iff in Ha. destruct Ha as [Ha Hc]. apply andb_true_iff in Ha. destruct Ha as [Ha Hi].
  apply andb_true_iff in Ha. destruct Ha as [Hw Hl].
  apply negb_true_iff in Hw. rewrite Hw, Hl, Hi. cbn [negb]. apply negb_true_iff in Hc. rewrite Hc, Hf, Hb.
  pose proof (feed_blocks_clean (mr_blocks (decode_msop_mech (v_desc v) (v_cfg v) (v_dec v) b host host))
                (with_dec v (mr_state (decode_msop_mech (v_desc v) (v_cfg v) (v_dec v) b host host))) th now Hans) as [E _].
  destruct (feed_blocks _ th now _) as [[v1 th1] o1]. cbn [fst snd app] in *. rewrite errs_of_app, E. reflexivity.
Qed.
