(* C08/C13: byte-level contract: what is read for an accepted length, and which table indices are formed. *)
From RS Require Import Base.Tac Base.Bytes Base.Dyadic Model.Desc Model.Kernels Model.Decoder Model.Driver Model.Input Gen.Params_gen.
From RS Require Import Proofs.SplitNum Proofs.Coords Proofs.Conservation.
Local Open Scope Z_scope.

(* every byte offset the MSOP decoder of d reads lies inside the accepted packet length *)
Definition msop_layout_ok (d : desc) : bool :=
  let hdr_end := Z.max (d_off_ts d + 10) (Z.max (d_off_temp d + (match d_temp_kind d with TempByte80 => 1 | _ => 2 end))
                       (Z.max (d_off_seq d + 2) (Z.max (d_off_hdr_return_mode d + 1) (Z.max (d_off_hdr_lidar_type d + 1) (d_off_hdr_lidar_model d + 1))))) in
  let chan_end := Z.max (d_off_chan_dist d + 2) (Z.max (d_off_chan_int d + 1) (Z.max (d_off_chan_a d + 2) (Z.max (d_off_chan_b d + 2)
                       (Z.max (d_off_chan_c d + 2) (Z.max (d_off_chan_dist2 d + 2) (d_off_chan_int2 d + 1)))))) in
  let sub := if 0 <? d_n_sub d then d_sizeof_sub d else d_msop_len d in
  (d_sizeof_msop d =? d_msop_len d) &&
  (hdr_end <=? d_off_blocks d) &&
  (chan_end <=? d_sizeof_chan d) &&
  (d_off_blk_chan d + d_chans_per_blk d * d_sizeof_chan d <=? d_sizeof_block d) &&
  (Z.of_nat (length (d_block_id d)) <=? d_off_blk_chan d) &&
  (match d_family d with Mech => d_off_blk_az d + 2 <=? d_off_blk_chan d | Mems => d_off_blk_toff d + d_sizeof_toff d <=? d_off_blk_chan d end) &&
  (d_off_blocks d + d_blocks_per_pkt d * d_sizeof_block d <=? sub) &&
  (if 0 <? d_n_sub d then d_n_sub d * d_sizeof_sub d <=? d_msop_len d else true) &&
  (Z.of_nat (length (d_msop_id d)) <=? d_off_blocks d) && (2 <=? Z.of_nat (length (d_msop_id d))).

Definition difop_layout_ok (d : desc) : bool :=
  (d_sizeof_difop d <=? d_difop_len d) && (Z.of_nat (length (d_difop_id d)) <=? d_difop_len d) &&
  match d_family d with
  | Mech =>
      (d_off_difop_rpm d + 2 <=? d_sizeof_difop d) && (d_off_difop_fov_end d + 2 <=? d_sizeof_difop d) && (d_off_difop_fov_start d + 2 <=? d_sizeof_difop d) &&
      (d_off_difop_return_mode d + 1 <=? d_sizeof_difop d) && (d_off_difop_reversal d + 1 <=? d_sizeof_difop d) &&
      (d_off_difop_sn d + 6 <=? d_sizeof_difop d) && (d_off_difop_mac d + 6 <=? d_sizeof_difop d) &&
      (d_off_difop_top_ver d + 5 <=? d_sizeof_difop d) && (d_off_difop_bottom_ver d + 5 <=? d_sizeof_difop d) && (d_off_difop_vol12 d + 2 <=? d_sizeof_difop d) &&
      match d_cali d with
      | CaliRs16 => (d_off_difop_pitch_cali d + 3 * d_laser_num d <=? d_sizeof_difop d)
      | _ => (d_off_difop_vert d + 3 * d_laser_num d <=? d_sizeof_difop d) && (d_off_difop_horiz d + 3 * d_laser_num d <=? d_sizeof_difop d)
      end
  | Mems => (d_off_difop_return_mode d + 1 <=? d_sizeof_difop d) && (d_off_difop_sn d + 6 <=? d_sizeof_difop d) &&
            (d_off_difop_vol12 d + 2 <=? d_sizeof_difop d) && (d_off_difop_bottom_ver d + 5 <=? d_sizeof_difop d) &&
            (d_off_difop_mac d + 6 <=? d_sizeof_difop d) && (d_off_difop_top_ver d + 5 <=? d_sizeof_difop d)
  end.

(* table indices: channel tables cover every channel index; the laser index is below the calibration
   table size; the block iterators' fixed arrays (12 entries) are large enough *)
Definition tables_ok (d : desc) : bool :=
  match d_family d with
  | Mems => true
  | Mech =>
      forallb (fun t => (d_chans_per_blk d <=? Z.of_nat (length (t_chan_ns t))) && (d_chans_per_blk d <=? Z.of_nat (length (t_chan_azis t)))) (tabs_of d) &&
      (if d_is16 d then 16 <=? d_laser_num d else d_chans_per_blk d <=? d_laser_num d) &&
      (d_blocks_per_pkt d <=? g_MAX_BLOCKS_PER_PKT) &&
      (match d_iter_dual d with ItDual => d_blocks_per_pkt d mod 2 =? 0 | ItAbDual => d_blocks_per_pkt d =? 3 | _ => true end) &&
      (2 <=? d_blocks_per_pkt d)
  end.

Lemma layouts_all : forallb (fun d => msop_layout_ok d && difop_layout_ok d && tables_ok d) all_descs = true.
Proof. vm_compute. reflexivity. Qed.

(* the trig-table index is always inside the table, whatever the angle *)
Lemma trig_idx_in_table a : -9000 <= trig_idx a < 45000.
Proof. unfold trig_idx, TRIGON_MIN, TRIGON_MAX. destruct (a <? -9000) eqn:E1; destruct (a >=? 45000) eqn:E2; cbn; lia. Qed.
Lemma trigon_consts : g_TRIGON_MIN = TRIGON_MIN /\ g_TRIGON_MAX = TRIGON_MAX.
Proof. split; reflexivity. Qed.

(* raw path: what reaches the decoder fits the packet buffer; nothing is read outside the datagram *)
Lemma raw_feed_safe user tail buf_len b p : 0 <= user -> 0 <= tail -> raw_feed user tail buf_len b = Some p ->
  blen p = blen b - user - tail /\ 0 < blen p <= buf_len /\ user + blen p + tail = blen b.
Proof.
  intros Hu Ht. unfold raw_feed. cbv zeta.
  destruct ((blen b <=? user + tail) || (blen b - user - tail >? buf_len)) eqn:E; [discriminate|].
  intros H. injection H as <-. unfold slice, blen in *.
  rewrite firstn_length, skipn_length. lia.
Qed.
Lemma raw_feed_drops user tail buf_len b : (blen b <= user + tail \/ blen b - user - tail > buf_len) -> raw_feed user tail buf_len b = None.
Proof.
  intros H. unfold raw_feed. cbv zeta.
  destruct ((blen b <=? user + tail) || (blen b - user - tail >? buf_len)) eqn:E; [reflexivity|lia].
Qed.

(* the accepted packet has exactly the length the layout covers *)
Lemma accepted_length bl tbl v b : Proofs.Conservation.accepts bl tbl v b = true -> blen b = d_msop_len (v_desc v).
Proof. unfold Proofs.Conservation.accepts. intros H. lia. Qed.
