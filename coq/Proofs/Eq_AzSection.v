From RS Require Import Base.Tac Gen.Kernels_gen Model.Kernels.
Local Open Scope Z_scope.

Lemma gen_round_eq v : AzimuthSection__round v = az_round v.
Proof. unfold AzimuthSection__round, az_round. lia. Qed.

Definition az_abs (g : AzimuthSection_state) : az_section :=
  mk_az (AzimuthSection_full_round_ g) (AzimuthSection_start_ g) (AzimuthSection_end_ g) (AzimuthSection_cross_zero_ g).

Lemma gen_az_ctor_eq s e : az_abs (AzimuthSection_ctor s e) = az_section_init s e.
Proof.
  unfold AzimuthSection_ctor, az_section_init, az_abs. cbn.
  rewrite !gen_round_eq. reflexivity.
Qed.

(* `in` as the code has it today, against the model's window test on the normalised azimuth *)
Lemma gen_az_in_eq g a :
  fst (AzimuthSection_in_ g a) = az_in (az_abs g) a /\ snd (AzimuthSection_in_ g a) = g.
Proof.
  destruct g as [f s e c]. unfold AzimuthSection_in_, az_in, az_in_raw, az_abs.
  cbn [AzimuthSection_full_round_ AzimuthSection_start_ AzimuthSection_end_ AzimuthSection_cross_zero_
       az_full az_start az_end az_cross].
  rewrite ?gen_round_eq.
  destruct f, c; cbn [fst snd]; split; reflexivity.
Qed.
