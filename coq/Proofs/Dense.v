(* C07_T4: for the same input, the dense output equals the NaN-kept output with placeholders deleted
   and empty frames omitted.  Simulation between the two runs of the driver model. *)
From RS Require Import Base.Tac Base.Bytes Base.Dyadic Model.Desc Model.Kernels Model.Decoder Model.Driver Model.Oracles.
From RS Require Import Proofs.Stream Proofs.DriverInv Proofs.Slots.
Local Open Scope Z_scope.

Definition densify (c : dcfg) : dcfg :=
  mk_dcfg (c_wait_for_difop c) true (c_split_mode c) (c_split_angle c) (c_num_blks c) (c_min_dist c) (c_max_dist c)
          (c_start_angle c) (c_end_angle c) (c_lidar_clock c) (c_ts_first c) (c_pkt_cb c) (c_tz c) (c_user c) (c_tail c) (c_from_file c) (c_dst c).

Definition nonnil (l : list point) : bool := match l with [] => false | _ => true end.
Definition dpts (o : list out) : list (list point) := map cl_points (clouds_of o).
Definition squeeze (ll : list (list point)) : list (list point) := filter nonnil (map (filter p_valid) ll).

Lemma dpts_app a b : dpts (a ++ b) = dpts a ++ dpts b.
Proof. unfold dpts. rewrite clouds_of_app, map_app. reflexivity. Qed.
Lemma squeeze_app a b : squeeze (a ++ b) = squeeze a ++ squeeze b.
Proof. unfold squeeze. rewrite map_app, filter_app. reflexivity. Qed.

(* simulation relation: NaN-kept driver vn, dense driver vd *)
Definition R (vn vd : drv) : Prop :=
  v_desc vd = v_desc vn /\ v_cfg vd = densify (v_cfg vn) /\ c_dense (v_cfg vn) = false /\
  v_dec vd = v_dec vn /\ v_open vd = filter p_valid (v_open vn) /\ v_pkt_seq vd = v_pkt_seq vn.

Definition Rout (on od : list out) : Prop := dpts od = squeeze (dpts on).

Lemma Rout_nil : Rout [] []. Proof. reflexivity. Qed.
Lemma Rout_app a1 a2 b1 b2 : Rout a1 b1 -> Rout a2 b2 -> Rout (a1 ++ a2) (b1 ++ b2).
Proof. unfold Rout. intros H1 H2. rewrite !dpts_app, squeeze_app, H1, H2. reflexivity. Qed.
Lemma Rout_noclouds a b : clouds_of a = [] -> clouds_of b = [] -> Rout a b.
Proof. unfold Rout, dpts. intros -> ->. reflexivity. Qed.

Lemma R_with_dec vn vd s : R vn vd -> R (with_dec vn s) (with_dec vd s).
Proof. unfold R, with_dec. cbn. intuition. Qed.

Lemma R_clear vn vd : R vn vd ->
  R (set_open vn (v_dec vn) (v_open_buf vn) [] (v_pkt_seq vn) (v_cloud_seq vn) (v_answers vn) (v_fresh vn))
    (set_open vd (v_dec vd) (v_open_buf vd) [] (v_pkt_seq vd) (v_cloud_seq vd) (v_answers vd) (v_fresh vd)).
Proof. unfold R. cbn. intuition. Qed.

(* ---- splitFrame *)
Lemma sim_split_frame vn vd thn thd nown nowd tsn tsd : R vn vd ->
  let rn := split_frame vn thn nown tsn in let rd := split_frame vd thd nowd tsd in
  R (fst (fst rn)) (fst (fst rd)) /\ Rout (snd rn) (snd rd).
Proof.
  intros (Hd & Hc & Hn & Hs & Ho & Hq). cbv zeta.
  pose proof (split_frame_spec vn thn nown tsn) as Sn. pose proof (split_frame_spec vd thd nowd tsd) as Sd.
  cbv zeta in Sn, Sd.
  destruct Sn as (_ & Dn & Cn & Sn1 & Qn & En & Nn). destruct Sd as (_ & Dd & Cd & Sd1 & Qd & Ed & Nd).
  destruct (v_open vn) as [|p ps] eqn:Eon.
  - (* nothing open on either side *)
    cbn [filter] in Ho. rewrite (En eq_refl), (Ed Ho). cbn [fst snd].
    split; [|apply Rout_nil]. unfold R. rewrite Eon. cbn [filter]. intuition.
  - destruct Nn as (On' & on' & Hon & Hcn & _); [discriminate|].
    destruct (v_open vd) as [|q qs] eqn:Eod.
    + (* every open point was a placeholder: the dense side delivers nothing *)
      rewrite (Ed eq_refl). cbn [fst snd]. split.
      * unfold R. rewrite On'. cbn [filter]. rewrite Dn, Cn, Sn1, Qn. intuition.
      * unfold Rout, dpts, squeeze. rewrite Hon. cbn [clouds_of flat_map]. fold (clouds_of on'). rewrite Hcn.
        cbn [app map cl_points]. rewrite <- Ho. reflexivity.
    + destruct Nd as (Od' & od' & Hod & Hcd & _); [discriminate|]. split.
      * unfold R. rewrite On', Od'. cbn [filter]. rewrite Dn, Cn, Sn1, Qn, Dd, Cd, Sd1, Qd. intuition.
      * unfold Rout, dpts, squeeze. rewrite Hon, Hod. cbn [clouds_of flat_map]. fold (clouds_of on') (clouds_of od').
        rewrite Hcn, Hcd. cbn [app map cl_points]. rewrite <- Ho. reflexivity.
Qed.

(* ---- block lists of the two runs *)
Definition Rblk (bn bd : blk_out) : Prop :=
  bo_split bd = bo_split bn /\ bo_points bd = filter p_valid (bo_points bn).

Lemma sim_feed_blocks : forall bsn bsd vn vd thn thd nown nowd,
  R vn vd -> Forall2 Rblk bsn bsd ->
  let rn := feed_blocks vn thn nown bsn in let rd := feed_blocks vd thd nowd bsd in
  R (fst (fst rn)) (fst (fst rd)) /\ Rout (snd rn) (snd rd).
Proof.
  induction bsn as [|bn bsn IH]; intros bsd vn vd thn thd nown nowd HR HF; inversion HF as [|? bd ? bsd' [Hsp Hpt] HF']; subst.
  - cbn. split; [exact HR | apply Rout_nil].
  - cbn [feed_blocks]. rewrite Hsp.
    set (r1n := if bo_split bn then split_frame vn thn nown (bo_cloud_ts bn) else (vn, thn, [])).
    set (r1d := if bo_split bn then split_frame vd thd nowd (bo_cloud_ts bd) else (vd, thd, [])).
    assert (H1 : R (fst (fst r1n)) (fst (fst r1d)) /\ Rout (snd r1n) (snd r1d)).
    { subst r1n r1d. destruct (bo_split bn); [apply sim_split_frame; exact HR | split; [exact HR | apply Rout_nil]]. }
    destruct r1n as [[v1n t1n] o1n]. destruct r1d as [[v1d t1d] o1d]. cbn [fst snd] in H1. destruct H1 as [R1 O1].
    set (v2n := set_open v1n _ _ _ _ _ _ _). set (v2d := set_open v1d _ _ _ _ _ _ _).
    assert (R2 : R v2n v2d).
    { subst v2n v2d. destruct R1 as (Hd & Hc & Hn & Hs & Ho & Hq). unfold R. cbn [v_desc v_cfg v_dec v_open v_pkt_seq set_open].
      rewrite filter_app, Ho, Hpt. intuition. }
    specialize (IH bsd' v2n v2d t1n t1d nown nowd R2 HF'). cbv zeta in IH.
    destruct (feed_blocks v2n t1n nown bsn) as [[v3n t3n] o3n]. destruct (feed_blocks v2d t1d nowd bsd') as [[v3d t3d] o3d].
    cbn [fst snd] in *. destruct IH as [R3 O3]. split; [exact R3 | apply Rout_app; assumption].
Qed.

(* ---- the decoders: everything but the final `keep` filter is independent of dense_points *)
Lemma mech_blocks_dense d c t w sect b pkt_ts : c_dense c = false -> forall its blk s,
  let rn := mech_blocks d c t w sect b pkt_ts its blk s in
  let rd := mech_blocks d (densify c) t w sect b pkt_ts its blk s in
  fst (fst rd) = fst (fst rn) /\ snd rd = snd rn /\ Forall2 Rblk (snd (fst rn)) (snd (fst rd)).
Proof.
  intros Hn. induction its as [|[az_diff ts_off] rest IH]; intros blk s.
  - cbn. repeat split; constructor.
  - cbn [mech_blocks].
    destruct (negb (match_at b (d_off_blocks d + blk * d_sizeof_block d) (d_block_id d))).
    + cbn. repeat split; constructor.
    + change (split_step (densify c) s) with (split_step c s).
      destruct (split_step c s _) as [sp ss].
      change (c_ts_first (densify c)) with (c_ts_first c).
      set (s' := upd_mech_blk _ _ _ _).
      specialize (IH (blk + 1) s'). cbv zeta in IH.
      destruct (mech_blocks d c t w sect b pkt_ts rest (blk + 1) s') as [[sn outsn] badn].
      destruct (mech_blocks d (densify c) t w sect b pkt_ts rest (blk + 1) s') as [[sd outsd] badd].
      cbn [fst snd] in *. destruct IH as (I1 & I2 & I3).
      repeat split; try assumption. constructor; [|exact I3].
      unfold Rblk. cbn [bo_split bo_points]. split; [reflexivity|].
      rewrite (keep_all c _ Hn). rewrite (keep_dense (densify c) _ eq_refl).
      apply filter_ext_in. intros p Hp. reflexivity.
Qed.

Lemma mech_channel_cfg_indep d c1 c2 s t w sect b blk_off block_az az_diff block_ts chan :
  mech_channel d c1 s t w sect b blk_off block_az az_diff block_ts chan =
  mech_channel d c2 s t w sect b blk_off block_az az_diff block_ts chan.
Proof. reflexivity. Qed.

Lemma decode_mech_dense d c s b h1 h2 : c_dense c = false ->
  let rn := decode_msop_mech d c s b h1 h2 in let rd := decode_msop_mech d (densify c) s b h1 h2 in
  mr_state rd = mr_state rn /\ mr_ret rd = mr_ret rn /\ mr_bad_blkid rd = mr_bad_blkid rn /\ mr_bytes rd = mr_bytes rn /\
  mr_end_split rd = mr_end_split rn /\ Forall2 Rblk (mr_blocks rn) (mr_blocks rd).
Proof.
  intros Hn. unfold decode_msop_mech. cbv zeta.
  destruct (match d_variant d with VarBpv4 => _ | VarRsp80 => _ | _ => _ end) as [variant first_pkt].
  change (pkt_time d (densify c)) with (pkt_time d c).
  destruct (pkt_time d c variant b 0 h1 h2) as [pkt_ts b'].
  change (dist_window d (densify c)) with (dist_window d c).
  change (c_start_angle (densify c)) with (c_start_angle c). change (c_end_angle (densify c)) with (c_end_angle c).
  set (s1 := set_pkt_common _ _ _ _ _). set (t := cur_tab d s1). set (its := block_iter d s1 t b).
  pose proof (mech_blocks_dense d c t (dist_window d c) (az_section_init (c_start_angle c) (c_end_angle c)) b pkt_ts Hn its 0 s1) as H.
  cbv zeta in H.
  destruct (mech_blocks d c t _ _ b pkt_ts its 0 s1) as [[s2n outsn] badn].
  destruct (mech_blocks d (densify c) t _ _ b pkt_ts its 0 s1) as [[s2d outsd] badd].
  cbn [fst snd mr_state mr_ret mr_bad_blkid mr_bytes mr_end_split mr_blocks] in *.
  destruct H as (H1 & H2 & H3). subst. repeat split; try reflexivity; [|exact H3].
  clear - H3. induction H3 as [|bn bd ln ld [Hs _] _ IH]; [reflexivity|]. cbn [existsb]. rewrite Hs, IH. reflexivity.
Qed.

Lemma decode_mems_dense d c s b base h1 h2 : c_dense c = false ->
  let rn := decode_msop_mems_sub d c s b base h1 h2 in let rd := decode_msop_mems_sub d (densify c) s b base h1 h2 in
  fst (fst (fst rd)) = fst (fst (fst rn)) /\ snd (fst rd) = snd (fst rn) /\ snd rd = snd rn /\
  Rblk (snd (fst (fst rn))) (snd (fst (fst rd))).
Proof.
  intros Hn. unfold decode_msop_mems_sub. cbv zeta.
  change (pkt_time d (densify c)) with (pkt_time d c).
  destruct (pkt_time d c 0 b base h1 h2) as [pkt_ts b'].
  destruct (seq_step (s_seq s) _) as [sp sq].
  change (c_ts_first (densify c)) with (c_ts_first c).
  change (dist_window d (densify c)) with (dist_window d c).
  cbn [fst snd]. repeat split; try reflexivity.
  cbn [bo_points]. rewrite (keep_all c _ Hn), (keep_dense (densify c) _ eq_refl). reflexivity.
Qed.

Lemma sim_split_opt vn vd thn thd nown nowd (es : option Z) : R vn vd ->
  let rn := match es with Some ts => split_frame vn thn nown ts | None => (vn, thn, []) end in
  let rd := match es with Some ts => split_frame vd thd nowd ts | None => (vd, thd, []) end in
  R (fst (fst rn)) (fst (fst rd)) /\ Rout (snd rn) (snd rd).
Proof. intros HR. destruct es; [apply sim_split_frame; exact HR | split; [exact HR | apply Rout_nil]]. Qed.

Lemma sim_mems_subs nown nowd host : forall k i vn vd thn thd b ret,
  R vn vd ->
  let rn := mems_subs nown host k i vn thn b ret in let rd := mems_subs nowd host k i vd thd b ret in
  R (fst (fst (fst (fst rn)))) (fst (fst (fst (fst rd)))) /\ Rout (snd (fst (fst rn))) (snd (fst (fst rd))) /\
  snd (fst rd) = snd (fst rn) /\ snd rd = snd rn.
Proof.
  induction k as [|k IH]; intros i vn vd thn thd b ret HR.
  - cbn. split; [exact HR|]. split; [apply Rout_nil|]. split; reflexivity.
  - pose proof HR as (Hd & Hc & Hn & Hs & Ho & Hq).
    cbn [mems_subs]. cbv zeta. rewrite Hd, Hc, Hs.
    destruct ((0 <? d_n_sub (v_desc vn)) && negb (match_at b (i * d_sizeof_sub (v_desc vn)) (d_msop_id (v_desc vn)))).
    + apply IH. exact HR.
    + pose proof (decode_mems_dense (v_desc vn) (v_cfg vn) (v_dec vn) b (i * d_sizeof_sub (v_desc vn)) host host Hn) as HD.
      cbv zeta in HD.
      destruct (decode_msop_mems_sub (v_desc vn) (v_cfg vn) (v_dec vn) b (i * d_sizeof_sub (v_desc vn)) host host) as [[[sn bon] bn'] esn].
      destruct (decode_msop_mems_sub (v_desc vn) (densify (v_cfg vn)) (v_dec vn) b (i * d_sizeof_sub (v_desc vn)) host host) as [[[sd bod] bd'] esd].
      cbn [fst snd] in HD. destruct HD as (E1 & E2 & E3 & HB). subst sd bd' esd.
      pose proof (sim_feed_blocks [bon] [bod] (with_dec vn sn) (with_dec vd sn) thn thd nown nowd (R_with_dec vn vd sn HR)
                    (Forall2_cons _ _ HB (Forall2_nil _))) as H1. cbv zeta in H1.
      destruct (feed_blocks (with_dec vn sn) thn nown [bon]) as [[v1n t1n] o1n].
      destruct (feed_blocks (with_dec vd sn) thd nowd [bod]) as [[v1d t1d] o1d]. cbn [fst snd] in H1. destruct H1 as [R1 O1].
      pose proof (sim_split_opt v1n v1d t1n t1d nown nowd esn R1) as H2. cbv zeta in H2.
      destruct (match esn with Some ts => split_frame v1n t1n nown ts | None => (v1n, t1n, []) end) as [[v2n t2n] o2n].
      destruct (match esn with Some ts => split_frame v1d t1d nowd ts | None => (v1d, t1d, []) end) as [[v2d t2d] o2d].
      cbn [fst snd] in H2. destruct H2 as [R2 O2].
      destruct HB as [HBs _]. rewrite HBs.
      specialize (IH (i + 1) v2n v2d t2n t2d bn' (ret || bo_split bon) R2). cbv zeta in IH.
      destruct (mems_subs nown host k (i + 1) v2n t2n bn' (ret || bo_split bon)) as [[[[v3n t3n] o3n] r3n] b3n].
      destruct (mems_subs nowd host k (i + 1) v2d t2d bn' (ret || bo_split bon)) as [[[[v3d t3d] o3d] r3d] b3d].
      cbn [fst snd] in *. destruct IH as (R3 & O3 & E4 & E5).
      split; [exact R3|]. split; [apply Rout_app; [exact O1|]; apply Rout_app; assumption|]. split; assumption.
Qed.

(* ---- whole packets; hypothesis: the NaN-kept run is not at its overflow limit (then neither is the dense run) *)
Lemma filter_length_le_pts (l : list point) : (length (filter p_valid l) <= length l)%nat.
Proof. induction l as [|p l IH]; cbn; [lia|]. destruct (p_valid p); cbn; lia. Qed.

Lemma Rout_errs_l on od e : Rout on od -> clouds_of e = [] -> Rout (on ++ e) od.
Proof. unfold Rout. intros H He. rewrite dpts_app. assert (Hd : dpts e = []) by (unfold dpts; rewrite He; reflexivity). rewrite Hd, app_nil_r. exact H. Qed.

Lemma sim_process_msop bl tbl vn vd thn thd nown nowd host b :
  R vn vd -> Z.of_nat (length (v_open vn)) <= CLOUD_POINT_MAX ->
  let rn := process_msop bl tbl vn thn nown host b in let rd := process_msop bl tbl vd thd nowd host b in
  R (fst (fst (fst (fst rn)))) (fst (fst (fst (fst rd)))) /\ Rout (snd (fst (fst rn))) (snd (fst (fst rd))) /\
  snd (fst rd) = snd (fst rn) /\ snd rd = snd rn.
Proof.
  intros HR Hov. pose proof HR as (Hd & Hc & Hn & Hs & Ho & Hq).
  unfold process_msop. cbv zeta.
  assert (Hovd : Z.of_nat (length (v_open vd)) <= CLOUD_POINT_MAX).
  { rewrite Ho. pose proof (filter_length_le_pts (v_open vn)). lia. }
  destruct (Z.of_nat (length (v_open vn)) >? CLOUD_POINT_MAX) eqn:E1; [lia|].
  destruct (Z.of_nat (length (v_open vd)) >? CLOUD_POINT_MAX) eqn:E2; [lia|].
  rewrite Hd, Hc, Hs. change (c_wait_for_difop (densify (v_cfg vn))) with (c_wait_for_difop (v_cfg vn)).
  destruct (c_wait_for_difop (v_cfg vn) && negb (s_angles_ready (v_dec vn))).
  { pose proof (delay_limit_call_clouds thn nown ERR_NODIFOPRECV) as Cn. pose proof (delay_limit_call_clouds thd nowd ERR_NODIFOPRECV) as Cd.
    destruct (delay_limit_call thn nown ERR_NODIFOPRECV) as [tn en]. destruct (delay_limit_call thd nowd ERR_NODIFOPRECV) as [td ed].
    cbn [fst snd app] in *. split; [exact HR|]. split; [apply Rout_noclouds; assumption|]. split; reflexivity. }
  destruct (negb (blen b =? d_msop_len (v_desc vn))).
  { pose proof (limit_call_clouds thn nown ERR_WRONGMSOPLEN) as Cn. pose proof (limit_call_clouds thd nowd ERR_WRONGMSOPLEN) as Cd.
    destruct (limit_call thn nown ERR_WRONGMSOPLEN) as [tn en]. destruct (limit_call thd nowd ERR_WRONGMSOPLEN) as [td ed].
    cbn [fst snd app] in *. split; [exact HR|]. split; [apply Rout_noclouds; assumption|]. split; reflexivity. }
  destruct (negb (match_at b 0 (d_msop_id (v_desc vn)))).
  { pose proof (limit_call_clouds thn nown ERR_WRONGMSOPID) as Cn. pose proof (limit_call_clouds thd nowd ERR_WRONGMSOPID) as Cd.
    destruct (limit_call thn nown ERR_WRONGMSOPID) as [tn en]. destruct (limit_call thd nowd ERR_WRONGMSOPID) as [td ed].
    cbn [fst snd app] in *. split; [exact HR|]. split; [apply Rout_noclouds; assumption|]. split; reflexivity. }
  destruct (b_crc bl && negb (crc_ok tbl b)).
  { pose proof (limit_call_clouds thn nown ERR_WRONGCRC32) as Cn. pose proof (limit_call_clouds thd nowd ERR_WRONGCRC32) as Cd.
    destruct (limit_call thn nown ERR_WRONGCRC32) as [tn en]. destruct (limit_call thd nowd ERR_WRONGCRC32) as [td ed].
    cbn [fst snd app] in *. split; [exact HR|]. split; [apply Rout_noclouds; assumption|]. split; reflexivity. }
  destruct (d_family (v_desc vn)).
  - pose proof (decode_mech_dense (v_desc vn) (v_cfg vn) (v_dec vn) b host host Hn) as HD. cbv zeta in HD.
    set (rn := decode_msop_mech (v_desc vn) (v_cfg vn) (v_dec vn) b host host) in *.
    set (rd := decode_msop_mech (v_desc vn) (densify (v_cfg vn)) (v_dec vn) b host host) in *.
    destruct HD as (D1 & D2 & D3 & D4 & D5 & D6).
    rewrite D1, D2, D3, D4.
    pose proof (sim_feed_blocks (mr_blocks rn) (mr_blocks rd) (with_dec vn (mr_state rn)) (with_dec vd (mr_state rn)) thn thd nown nowd
                  (R_with_dec vn vd _ HR) D6) as H1. cbv zeta in H1.
    destruct (feed_blocks (with_dec vn (mr_state rn)) thn nown (mr_blocks rn)) as [[v1n t1n] o1n].
    destruct (feed_blocks (with_dec vd (mr_state rn)) thd nowd (mr_blocks rd)) as [[v1d t1d] o1d].
    cbn [fst snd app] in *. destruct H1 as [R1 O1].
    split; [exact R1|]. split; [|split; reflexivity].
    apply Rout_app; [exact O1|]. apply Rout_noclouds; destruct (mr_bad_blkid rn); reflexivity.
  - pose proof (sim_mems_subs nown nowd host (Z.to_nat (if d_n_sub (v_desc vn) =? 0 then 1 else d_n_sub (v_desc vn))) 0 vn vd thn thd b false HR) as H1.
    cbv zeta in H1.
    destruct (mems_subs nown host _ 0 vn thn b false) as [[[[v1n t1n] o1n] retn] bn'].
    destruct (mems_subs nowd host _ 0 vd thd b false) as [[[[v1d t1d] o1d] retd] bd'].
    cbn [fst snd app] in *. destruct H1 as (R1 & O1 & E1' & E2'). exact (conj R1 (conj O1 (conj E1' E2'))).
Qed.

Lemma sim_run_pkt_cb vn vd data ts df bg : R vn vd ->
  R (fst (run_pkt_cb vn data ts df bg)) (fst (run_pkt_cb vd data ts df bg)) /\
  Rout (snd (run_pkt_cb vn data ts df bg)) (snd (run_pkt_cb vd data ts df bg)).
Proof.
  intros HR. pose proof HR as (Hd & Hc & Hn & Hs & Ho & Hq). unfold run_pkt_cb. rewrite Hc.
  change (c_pkt_cb (densify (v_cfg vn))) with (c_pkt_cb (v_cfg vn)).
  destruct (c_pkt_cb (v_cfg vn)); cbn [fst snd].
  - split.
    + unfold R. cbn [v_desc v_cfg v_dec v_open v_pkt_seq set_open]. rewrite Hq. intuition.
    + apply Rout_noclouds; reflexivity.
  - split; [exact HR | apply Rout_nil].
Qed.

Lemma sim_process_packet bl tbl vn vd thn thd nown nowd host b stale :
  R vn vd -> Z.of_nat (length (v_open vn)) <= CLOUD_POINT_MAX ->
  let rn := process_packet bl tbl vn thn nown host b stale in let rd := process_packet bl tbl vd thd nowd host b stale in
  R (fst (fst rn)) (fst (fst rd)) /\ Rout (snd rn) (snd rd).
Proof.
  intros HR Hov. unfold process_packet. cbv zeta.
  destruct ((_ =? 85) && (_ =? 170)).
  - pose proof (sim_process_msop bl tbl vn vd thn thd nown nowd host b HR Hov) as H1. cbv zeta in H1.
    destruct (process_msop bl tbl vn thn nown host b) as [[[[v1n t1n] o1n] retn] bn'].
    destruct (process_msop bl tbl vd thd nowd host b) as [[[[v1d t1d] o1d] retd] bd'].
    cbn [fst snd] in H1. destruct H1 as (R1 & O1 & E1 & E2). subst retd bd'.
    pose proof R1 as (_ & _ & _ & Hs1 & _). rewrite Hs1.
    pose proof (sim_run_pkt_cb v1n v1d bn' (s_prev_pkt_ts (v_dec v1n)) false retn R1) as [R2 O2].
    destruct (run_pkt_cb v1n bn' (s_prev_pkt_ts (v_dec v1n)) false retn) as [v2n o2n].
    destruct (run_pkt_cb v1d bn' (s_prev_pkt_ts (v_dec v1n)) false retn) as [v2d o2d].
    cbn [fst snd] in *. split; [exact R2 | apply Rout_app; assumption].
  - destruct ((_ =? 165) && (_ =? 255)); [|split; [exact HR | apply Rout_nil]].
    pose proof HR as (Hd & Hc & Hn & Hs & Ho & Hq).
    unfold process_difop. cbv zeta. rewrite Hd, Hs.
    assert (Hgen : forall v1n v1d o1n o1d, R v1n v1d -> Rout o1n o1d ->
       R (fst (run_pkt_cb v1n b 0 true false)) (fst (run_pkt_cb v1d b 0 true false)) /\
       Rout (o1n ++ snd (run_pkt_cb v1n b 0 true false)) (o1d ++ snd (run_pkt_cb v1d b 0 true false))).
    { intros v1n v1d o1n o1d R1 O1. pose proof (sim_run_pkt_cb v1n v1d b 0 true false R1) as [R2 O2].
      split; [exact R2 | apply Rout_app; assumption]. }
    destruct (negb (blen b =? d_difop_len (v_desc vn))).
    { pose proof (limit_call_clouds thn nown ERR_WRONGDIFOPLEN) as Cn. pose proof (limit_call_clouds thd nowd ERR_WRONGDIFOPLEN) as Cd.
      destruct (limit_call thn nown ERR_WRONGDIFOPLEN) as [tn en]. destruct (limit_call thd nowd ERR_WRONGDIFOPLEN) as [td ed].
      cbn [fst snd] in *. specialize (Hgen vn vd en ed HR (Rout_noclouds _ _ Cn Cd)).
      destruct (run_pkt_cb vn b 0 true false), (run_pkt_cb vd b 0 true false). exact Hgen. }
    destruct (negb (match_at b 0 (d_difop_id (v_desc vn)))).
    { pose proof (limit_call_clouds thn nown ERR_WRONGDIFOPID) as Cn. pose proof (limit_call_clouds thd nowd ERR_WRONGDIFOPID) as Cd.
      destruct (limit_call thn nown ERR_WRONGDIFOPID) as [tn en]. destruct (limit_call thd nowd ERR_WRONGDIFOPID) as [td ed].
      cbn [fst snd] in *. specialize (Hgen vn vd en ed HR (Rout_noclouds _ _ Cn Cd)).
      destruct (run_pkt_cb vn b 0 true false), (run_pkt_cb vd b 0 true false). exact Hgen. }
    cbn [fst snd].
    specialize (Hgen _ _ [] [] (R_with_dec vn vd (decode_difop (v_desc vn) (b_difop_parse bl) (v_dec vn) b) HR) Rout_nil).
    destruct (run_pkt_cb (with_dec vn _) b 0 true false), (run_pkt_cb (with_dec vd _) b 0 true false). exact Hgen.
Qed.

(* sessions: same packets, same clocks; the two runs may see different caller buffers / throttle
   states (they ask for buffers at different times) *)
Fixpoint nan_run_bounded (bl : build) (tbl : list Z) (v : drv) (th : throttles) (evs : list pkt_ev) : Prop :=
  match evs with
  | [] => True
  | (now, host, b, stale) :: r =>
      Z.of_nat (length (v_open v)) <= CLOUD_POINT_MAX /\
      (let '(v1, th1, _) := process_packet bl tbl v th now host b stale in nan_run_bounded bl tbl v1 th1 r)
  end.

Theorem dense_is_filter bl tbl : forall evs vn vd thn thd,
  R vn vd -> nan_run_bounded bl tbl vn thn evs ->
  Rout (snd (drv_run bl tbl vn thn evs)) (snd (drv_run bl tbl vd thd evs)).
Proof.
  induction evs as [|[[[now host] b] stale] evs IH]; intros vn vd thn thd HR Hb; [apply Rout_nil|].
  cbn [drv_run nan_run_bounded] in *. destruct Hb as [Hov Hb].
  pose proof (sim_process_packet bl tbl vn vd thn thd now now host b stale HR Hov) as H1. cbv zeta in H1.
  destruct (process_packet bl tbl vn thn now host b stale) as [[v1n t1n] o1n].
  destruct (process_packet bl tbl vd thd now host b stale) as [[v1d t1d] o1d].
  cbn [fst snd] in H1. destruct H1 as [R1 O1].
  specialize (IH v1n v1d t1n t1d R1 Hb).
  destruct (drv_run bl tbl v1n t1n evs) as [[v2n t2n] o2n]. destruct (drv_run bl tbl v1d t1d evs) as [[v2d t2d] o2d].
  cbn [fst snd] in *. apply Rout_app; assumption.
Qed.

(* the initial states of the two runs are related *)
Lemma R_init d c an ad fn fd thn thd nown nowd : c_dense c = false ->
  R (fst (fst (init_drv d c an fn thn nown))) (fst (fst (init_drv d (densify c) ad fd thd nowd))).
Proof.
  intros Hn. unfold init_drv.
  destruct (get_cloud (S (length an)) an fn thn nown) as [[[[idn a1] f1] t1] o1].
  destruct (get_cloud (S (length ad)) ad fd thd nowd) as [[[[idd a2] f2] t2] o2].
  cbn [fst]. unfold R. cbn [v_desc v_cfg v_dec v_open v_pkt_seq filter]. repeat split; try assumption; reflexivity.
Qed.
