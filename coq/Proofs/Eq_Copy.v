(* InputRaw::feedPacket as translated by kt.py (the sizes it checks and the memcpy / setData arguments, size_t arithmetic wrapping
   mod 2^64) against the model's raw_feed, and the memory contract that follows: the copy reads inside the caller's buffer and
   writes inside the packet buffer. *)
From RS Require Import Base.Tac Base.Bytes Gen.Kernels_gen Model.Desc Model.Input Proofs.Layout.
Local Open Scope Z_scope.

Lemma wrapu64_small x : 0 <= x < 2 ^ 64 -> wrapu 64 x = x.
Proof. intros H. unfold wrapu. apply Z.mod_small. exact H. Qed.

Theorem gen_feed_packet_eq b off tail buf :
  0 <= off <= 65535 -> 0 <= tail <= 65535 -> 0 <= buf < 2 ^ 63 -> blen b < 2 ^ 63 ->
  InputRaw_feedPacket_copy (blen b) off tail buf =
  match raw_feed off tail buf b with
  | None => None
  | Some p => Some [off; blen p; 0; blen p]
  end.
Proof.
  intros Ho Ht Hb Hn. assert (Hl : 0 <= blen b) by (unfold blen; lia).
  unfold InputRaw_feedPacket_copy, raw_feed. cbv zeta.
  rewrite (wrapu64_small (off + tail)) by lia. change (wrapu 64 0) with 0.
  destruct (blen b <=? off + tail) eqn:E1; cbn [orb]; [reflexivity|].
  rewrite (wrapu64_small (blen b - off)) by lia. rewrite (wrapu64_small (blen b - off - tail)) by lia.
  destruct (blen b - off - tail >? buf) eqn:E2; [reflexivity|].
  assert (Hs : blen (slice b off (blen b - off - tail)) = blen b - off - tail).
  { unfold slice, blen in *. rewrite firstn_length, skipn_length. lia. }
  rewrite Hs. reflexivity.
Qed.

(* what the translated code copies stays inside both buffers, whatever size the caller passes and whatever the layer settings *)
Theorem gen_feed_packet_safe size off tail buf so cl d0 dl :
  0 <= off <= 65535 -> 0 <= tail <= 65535 -> 0 <= buf < 2 ^ 63 -> 0 <= size < 2 ^ 63 ->
  InputRaw_feedPacket_copy size off tail buf = Some [so; cl; d0; dl] ->
  0 < cl /\ so + cl <= size /\ d0 + cl <= buf /\ dl = cl /\ d0 = 0 /\ so = off.
Proof.
  intros Ho Ht Hb Hn. unfold InputRaw_feedPacket_copy.
  rewrite (wrapu64_small (off + tail)) by lia. change (wrapu 64 0) with 0.
  destruct (size <=? off + tail) eqn:E1; cbn [orb]; [discriminate|].
  rewrite (wrapu64_small (size - off)) by lia. rewrite (wrapu64_small (size - off - tail)) by lia.
  destruct (size - off - tail >? buf) eqn:E2; [discriminate|].
  intros H. injection H as <- <- <- <-. lia.
Qed.
