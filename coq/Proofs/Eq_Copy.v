(* InputRaw::feedPacket as translated by kt.py (the sizes it checks and the memcpy / setData arguments, size_t arithmetic wrapping
   mod 2^64) against the model's raw_feed, and the memory contract that follows: the copy reads inside the caller's buffer and
   writes inside the packet buffer. *)
From RS Require Import Base.Tac Base.Bytes Gen.Kernels_gen Model.Desc Model.Input Proofs.Layout.
Local Open Scope Z_scope.

Lemma wrapu64_small x : 0 <= x < 2 ^ 64 -> wrapu 64 x = x.
Proof. intros H. unfold wrapu. apply Z.mod_small. exact H. Qed.

Theorem gen_feed_packet_eq b off tail buf :
  0 <= off <= 65535 -> 0 <= tail <= 65535 -> 0 <= buf < 2 ^ 63 -> blen b < 2 ^ 63 ->
  InputRaw_feedPacket_copy (blen b) off tail buf =
  match raw_feed off tail buf b with
  | None => None
  | Some p => Some [off; blen p; 0; blen p]
  end.
Proof.
  intros Ho Ht Hb Hn. assert (Hl : 0 <= blen b) by (unfold blen; lia).
  unfold InputRaw_feedPacket_copy, raw_feed. cbv zeta.
  rewrite (wrapu64_small (off + tail)) by lia. change (wrapu 64 0) with 0.
  destruct (blen b <=? off + tail) eqn:E1; cbn [orb]; [reflexivity|].
  rewrite (wrapu64_small (blen b - off)) by lia. rewrite (wrapu64_small (blen b - off - tail)) by lia.
  destruct (blen b - off - tail >? buf) eqn:E2; [reflexivity|].
  assert (Hs : blen (slice b off (blen b - off - tail)) = blen b - off - tail).
  { unfold slice, blen in *. rewrite firstn_length, skipn_length. lia. }
  rewrite Hs. reflexivity.
Qed.

(* what the translated code copies stays inside both buffers, whatever size the caller passes and whatever the layer settings *)
Theorem gen_feed_packet_safe size off tail buf so cl d0 dl :
  0 <= off <= 65535 -> 0 <= tail <= 65535 -> 0 <= buf < 2 ^ 63 -> 0 <= size < 2 ^ 63 ->
  InputRaw_feedPacket_copy size off tail buf = Some [so; cl; d0; dl] ->
  0 < cl /\ so + cl <= size /\ d0 + cl <= buf /\ dl = cl /\ d0 = 0 /\ so = off.
Proof.
  intros Ho Ht Hb Hn. unfold InputRaw_feedPacket_copy.
  rewrite (wrapu64_small (off + tail)) by lia. change (wrapu 64 0) with 0.
  destruct (size <=? off + tail) eqn:E1; cbn [orb]; [discriminate|].
  rewrite (wrapu64_small (size - off)) by lia. rewrite (wrapu64_small (size - off - tail)) by lia.
  destruct (size - off - tail >? buf) eqn:E2; [discriminate|].
  intros H. injection H as <- <- <- <-. lia.
Qed.

(* ---- InputPcap::recvPacket: the record guard and the copy (regenerated from input_pcap.hpp) *)
Theorem gen_pcap_copy_eq p0 ret caplen len off tail dfv :
  0 <= ret -> 0 <= caplen < 2 ^ 32 -> 0 <= len < 2 ^ 32 -> 0 <= off <= 70000 -> 0 <= tail <= 70000 ->
  InputPcap_recvPacket_copy p0 ret caplen len off tail dfv =
  if (caplen <? len) || (len <=? off + tail) || (len - off - tail >? 1546) then None
  else Some [off; len - off - tail; 0; len - off - tail].
Proof.
  intros Hr Hc Hl Ho Ht. unfold InputPcap_recvPacket_copy.
  destruct (ret <? 0) eqn:Er; [lia|].
  rewrite (wrapu64_small len), (wrapu64_small (off + tail)) by lia. change (wrapu 64 (42 + 4 + 1500)) with 1546. change (wrapu 64 0) with 0.
  destruct (caplen <? len) eqn:E0; cbn [orb]; [reflexivity|].
  destruct (len <=? off + tail) eqn:E1; cbn [orb]; [reflexivity|].
  rewrite (wrapu64_small (len - off)) by lia. rewrite (wrapu64_small (len - off - tail)) by lia. reflexivity.
Qed.

(* the model's pcap_extract is that guard and that copy, for a record the port filter lets through *)
Theorem gen_pcap_copy_is_model c f :
  0 <= pf_len f < 2 ^ 32 -> blen (pf_data f) < 2 ^ 32 -> 0 <= i_user c <= 65535 -> 0 <= i_tail c <= 65535 ->
  (bpf_udp (i_vlan c) (Some (i_msop_port c)) (pf_data f) || (difop_filter_valid c && bpf_udp (i_vlan c) (Some (i_difop_port c)) (pf_data f))) = true ->
  pcap_extract c f =
  match InputPcap_recvPacket_copy 1 0 (blen (pf_data f)) (pf_len f) (Params_gen.g_ETH_HDR_LEN + (if i_vlan c then Params_gen.g_VLAN_HDR_LEN else 0) + i_user c) (i_tail c) 0 with
  | Some [so; cl; _; _] => Some (slice (pf_data f) so cl)
  | _ => None
  end.
Proof.
  intros Hl Hc Hu Ht Hhit. assert (Hb : 0 <= blen (pf_data f)) by (unfold blen; lia).
  assert (Hoff : 0 <= Params_gen.g_ETH_HDR_LEN + (if i_vlan c then Params_gen.g_VLAN_HDR_LEN else 0) + i_user c <= 70000).
  { change Params_gen.g_ETH_HDR_LEN with 42. change Params_gen.g_VLAN_HDR_LEN with 4. destruct (i_vlan c); lia. }
  rewrite gen_pcap_copy_eq by lia.
  unfold pcap_extract. cbv zeta. rewrite Hhit. cbn [negb]. change Params_gen.g_ETH_LEN with 1546.
  destruct ((blen (pf_data f) <? pf_len f) || _ || _); reflexivity.
Qed.

(* what the regenerated code copies out of a record lies inside the captured bytes and inside the packet buffer *)
Theorem gen_pcap_copy_safe p0 ret caplen len off tail dfv so cl d0 dl :
  0 <= ret -> 0 <= caplen < 2 ^ 32 -> 0 <= len < 2 ^ 32 -> 0 <= off <= 70000 -> 0 <= tail <= 70000 ->
  InputPcap_recvPacket_copy p0 ret caplen len off tail dfv = Some [so; cl; d0; dl] ->
  0 < cl /\ so + cl <= caplen /\ d0 + cl <= 1546 /\ dl = cl /\ d0 = 0 /\ so = off.
Proof.
  intros Hr Hc Hl Ho Ht. rewrite gen_pcap_copy_eq by lia.
  destruct (caplen <? len) eqn:E0; cbn [orb]; [discriminate|].
  destruct (len <=? off + tail) eqn:E1; cbn [orb]; [discriminate|].
  destruct (len - off - tail >? 1546) eqn:E2; [discriminate|].
  intros H. injection H as <- <- <- <-. lia.
Qed.

(* ---- InputSock::recvPacket (select variant): the data range set after recvfrom() returned ret bytes into the packet buffer *)
Theorem gen_sock_copy_eq rv ret off tail : 0 <= ret < 2 ^ 63 -> 0 <= off <= 65535 -> 0 <= tail <= 65535 ->
  InputSock_recvPacket_copy rv ret off tail = if ret <=? off + tail then None else Some [off; ret - off - tail].
Proof.
  intros Hr Ho Ht. unfold InputSock_recvPacket_copy. destruct (ret <? 0) eqn:E; [lia|].
  rewrite (wrapu64_small ret), (wrapu64_small (off + tail)) by lia.
  destruct (ret >? off + tail) eqn:E1; destruct (ret <=? off + tail) eqn:E2; try lia; [|reflexivity].
  rewrite (wrapu64_small (ret - off)) by lia. rewrite (wrapu64_small (ret - off - tail)) by lia. reflexivity.
Qed.
Theorem gen_sock_copy_is_model d off tail buf : 0 <= off <= 65535 -> 0 <= tail <= 65535 -> 0 <= buf < 2 ^ 63 ->
  sock_extract off tail buf d =
  match InputSock_recvPacket_copy 1 (Z.min (blen d) buf) off tail with
  | Some [o; l] => Some (slice d o l)
  | _ => None
  end.
Proof.
  intros Ho Ht Hb. assert (Hd : 0 <= blen d) by (unfold blen; lia).
  rewrite gen_sock_copy_eq by lia. unfold sock_extract. cbv zeta. destruct (Z.min (blen d) buf <=? off + tail); reflexivity.
Qed.
(* the data range lies inside the part of the buffer recvfrom() filled (ret <= buffer size is recvfrom's contract) *)
Theorem gen_sock_copy_safe rv ret off tail buf o l : 0 <= ret <= buf -> buf < 2 ^ 63 -> 0 <= off <= 65535 -> 0 <= tail <= 65535 ->
  InputSock_recvPacket_copy rv ret off tail = Some [o; l] -> 0 < l /\ o + l <= ret /\ o + l <= buf /\ o = off.
Proof.
  intros Hr Hb Ho Ht. rewrite gen_sock_copy_eq by lia. destruct (ret <=? off + tail) eqn:E; [discriminate|].
  intros H. injection H as <- <-. lia.
Qed.
