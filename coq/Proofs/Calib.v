(* C09: calibration gate, atomic load, latch, ring = vertical rank. *)
From RS Require Import Base.Tac Base.Bytes Base.Dyadic Model.Desc Model.Kernels Model.Decoder Model.Driver.
Local Open Scope Z_scope.

(* one entry of the table as the loader sees it *)
Definition entry_angles (d : desc) (b : bytes) (i : Z) : option (Z * Z) :=
  let '(vsign, vval) := cali_entry d b true i in
  if vsign =? 255 then None else
  let v := if vsign =? 0 then vval else - vval in
  if negb (angle_check v) then None else
  let '(hsign, hval) := cali_entry d b false i in
  let h := if hsign =? 0 then hval else - hval in
  if negb (angle_check h) then None else Some (v, h).

(* the whole table is usable iff every one of the first N entries is *)
Fixpoint table_entries (d : desc) (b : bytes) (i : Z) (n : nat) : option (list (Z * Z)) :=
  match n with
  | O => Some []
  | S k => match entry_angles d b i with
           | None => None
           | Some e => match table_entries d b (i + 1) k with None => None | Some r => Some (e :: r) end
           end
  end.

Lemma load_angles_spec d b : forall n i vs hs,
  load_angles d b i n vs hs =
  match table_entries d b i n with
  | None => None
  | Some es => Some (rev vs ++ map fst es, rev hs ++ map snd es)
  end.
Proof.
  induction n as [|n IH]; intros i vs hs.
  - cbn. rewrite !app_nil_r. reflexivity.
  - cbn [load_angles table_entries]. unfold entry_angles.
    destruct (cali_entry d b true i) as [vsign vval].
    destruct (vsign =? 255); [reflexivity|].
    destruct (negb (angle_check (if vsign =? 0 then vval else - vval))); [reflexivity|].
    destruct (cali_entry d b false i) as [hsign hval].
    destruct (negb (angle_check (if hsign =? 0 then hval else - hval))); [reflexivity|].
    rewrite IH. destruct (table_entries d b (i + 1) n) as [es|]; [|reflexivity].
    cbn [rev map fst snd]. rewrite <- !app_assoc. reflexivity.
Qed.

Lemma table_entries_length d b : forall n i es, table_entries d b i n = Some es -> length es = n.
Proof.
  induction n as [|n IH]; intros i es H; cbn in H.
  - injection H as <-. reflexivity.
  - destruct (entry_angles d b i); [|discriminate]. destruct (table_entries d b (i + 1) n) eqn:E; [|discriminate].
    injection H as <-. cbn. f_equal. eapply IH. exact E.
Qed.

(* every accepted entry is set (sign byte not 0xFF) and within [-90, +90) deg *)
Lemma entry_angles_ok d b i v h : entry_angles d b i = Some (v, h) ->
  fst (cali_entry d b true i) <> 255 /\ -9000 <= v < 9000 /\ -9000 <= h < 9000.
Proof.
  unfold entry_angles. destruct (cali_entry d b true i) as [vsign vval]. cbn [fst].
  destruct (vsign =? 255) eqn:E1; [discriminate|].
  destruct (angle_check (if vsign =? 0 then vval else - vval)) eqn:E2; cbn [negb]; [|discriminate].
  destruct (cali_entry d b false i) as [hsign hval].
  destruct (angle_check (if hsign =? 0 then hval else - hval)) eqn:E3; cbn [negb]; [|discriminate].
  intros H. injection H as <- <-. unfold angle_check in *. lia.
Qed.

(* ---- DIFOP: gate opens only on a usable table; a bad table changes nothing; the first table is latched *)
Definition cal_of (s : dstate) := (s_vert s, s_horiz s, s_ring s).

Lemma difop_common_cal d s b :
  let s' := decode_difop_common d s b in
  if s_angles_ready s then s_angles_ready s' = true /\ cal_of s' = cal_of s
  else match table_entries d b 0 (Z.to_nat (d_laser_num d)) with
       | None => s_angles_ready s' = false /\ cal_of s' = cal_of s
       | Some es => s_angles_ready s' = true /\ cal_of s' = (map fst es, map snd es, gen_user_chan (map fst es))
       end.
Proof.
  unfold decode_difop_common, cal_of. cbv zeta.
  destruct (s_angles_ready s) eqn:E; cbn [s_angles_ready s_vert s_horiz s_ring]; [auto|].
  rewrite load_angles_spec. destruct (table_entries d b 0 (Z.to_nat (d_laser_num d))) as [es|];
    cbn [s_angles_ready s_vert s_horiz s_ring rev app]; auto.
Qed.

Lemma decode_difop_cal d wp s b : d_family d = Mech ->
  s_angles_ready (decode_difop d wp s b) = s_angles_ready (decode_difop_common d s b) /\
  cal_of (decode_difop d wp s b) = cal_of (decode_difop_common d s b).
Proof.
  intros Hf. unfold decode_difop, difop_devinfo, cal_of. rewrite Hf. cbv zeta.
  destruct (wp && d_has_devinfo d); [destruct (d_has_devstatus d)|]; split; reflexivity.
Qed.

(* ---- ring = vertical rank *)
Lemma rank_bounds vs a : 0 <= rank_of vs a <= Z.of_nat (length vs).
Proof. unfold rank_of. pose proof (filter_length_le (fun x => x <? a) vs). lia. Qed.

Lemma rank_lt_of_member vs a : In a vs -> rank_of vs a < Z.of_nat (length vs).
Proof.
  unfold rank_of. induction vs as [|x vs IH]; intros Hin; [contradiction|].
  cbn [filter length]. destruct Hin as [->|Hin].
  - assert (E : (a <? a) = false) by lia. rewrite E.
    pose proof (filter_length_le (fun x => x <? a) vs). lia.
  - specialize (IH Hin). destruct (x <? a); cbn [length]; lia.
Qed.

Lemma rank_mono vs a b : a <= b -> rank_of vs a <= rank_of vs b.
Proof.
  intros Hab. unfold rank_of. induction vs as [|x vs IH]; [cbn; lia|].
  cbn [filter]. destruct (x <? a) eqn:E1; destruct (x <? b) eqn:E2; cbn [length]; lia.
Qed.

Lemma rank_strict vs a b : In a vs -> a < b -> rank_of vs a < rank_of vs b.
Proof.
  intros Hin Hab. unfold rank_of. induction vs as [|x vs IH]; [contradiction|].
  cbn [filter]. destruct Hin as [->|Hin].
  - assert (E1 : (a <? a) = false) by lia. assert (E2 : (a <? b) = true) by lia. rewrite E1, E2. cbn [length].
    pose proof (rank_mono vs a b ltac:(lia)) as H. unfold rank_of in H. lia.
  - specialize (IH Hin). destruct (x <? a) eqn:E1; destruct (x <? b) eqn:E2; cbn [length]; lia.
Qed.

(* rings are in [0, N), count the channels strictly below, and order distinct beams bottom-to-top *)
Theorem ring_is_rank vs i : (i < length vs)%nat ->
  let a := nth i vs 0 in
  nth i (gen_user_chan vs) 0 = Z.of_nat (length (filter (fun x => x <? a) vs)) /\
  0 <= nth i (gen_user_chan vs) 0 < Z.of_nat (length vs).
Proof.
  intros Hi. cbv zeta. unfold gen_user_chan.
  rewrite (nth_indep _ 0 (rank_of vs 0)) by (rewrite map_length; exact Hi).
  rewrite (map_nth (rank_of vs) vs 0 i). split; [reflexivity|].
  pose proof (rank_bounds vs (nth i vs 0)). pose proof (rank_lt_of_member vs (nth i vs 0) (nth_In vs 0 Hi)). lia.
Qed.

Theorem ring_orders_beams vs i j : (i < length vs)%nat -> (j < length vs)%nat ->
  nth i vs 0 < nth j vs 0 -> nth i (gen_user_chan vs) 0 < nth j (gen_user_chan vs) 0.
Proof.
  intros Hi Hj Hlt. unfold gen_user_chan.
  rewrite (nth_indep _ 0 (rank_of vs 0)) by (rewrite map_length; exact Hi).
  rewrite (nth_indep (map _ _) 0 (rank_of vs 0)) by (rewrite map_length; exact Hj).
  rewrite !(map_nth (rank_of vs) vs 0). apply rank_strict; [apply nth_In; exact Hi | exact Hlt].
Qed.

(* ---- what each DIFOP announces governs the later decoding *)
Lemma difop_governs d s b :
  let s' := decode_difop_common d s b in
  let rps0 := be16 b (d_off_difop_rpm d) / 60 in
  let rps := if rps0 =? 0 then 10 else rps0 in
  let fs := be16 b (d_off_difop_fov_start d) in let fe := be16 b (d_off_difop_fov_end d) in
  let range := (if fs <? fe then fe - fs else fe + 36000 - fs) mod 65536 in
  s_rps s' = rps /\ s_blks_per_frame s' = blks_per_frame_bd (cur_bd d s) rps /\
  s_block_az_diff s' = (dy_round_half_away (dy_mul_r 53 (dy_of_Z (36000 * rps)) (cur_bd d s))) mod 65536 /\
  s_blind_ns s' = (((36000 - range) mod 65536) * 1000000000) / (36000 * rps).
Proof.
  unfold decode_difop_common, RS_ONE_ROUND. cbv zeta.
  destruct (s_angles_ready s); [repeat split; reflexivity|].
  destruct (load_angles d b 0 _ [] []) as [[vs hs]|]; repeat split; reflexivity.
Qed.
