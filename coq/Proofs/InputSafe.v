(* C12/C13/C16: the input models: what is delivered, from where, and that nothing lies outside the bytes given. *)
From RS Require Import Base.Tac Base.Bytes Model.Desc Model.Input Gen.Params_gen.
Local Open Scope Z_scope.

Lemma slice_len (b : bytes) off n : 0 <= off -> 0 <= n -> off + n <= blen b -> blen (slice b off n) = n.
Proof. intros Ho Hn Hb. unfold slice, blen in *. rewrite firstn_length, skipn_length. lia. Qed.

Lemma skipn_skipn_add {A} (l : list A) a b : skipn a (skipn b l) = skipn (b + a) l.
Proof.
  revert l. induction b as [|b IH]; intros l; [reflexivity|].
  destruct l as [|x l]; [rewrite !skipn_nil; reflexivity|]. cbn [skipn Nat.add]. apply IH.
Qed.
Lemma slice_skipn (b : bytes) base off n : 0 <= base -> 0 <= off ->
  slice (skipn (Z.to_nat base) b) off n = slice b (base + off) n.
Proof. intros Hb Ho. unfold slice. rewrite skipn_skipn_add. f_equal. f_equal. lia. Qed.

(* ---------------------------------------------------------------- pcap records *)
Definition pcap_off (c : incfg) : Z := g_ETH_HDR_LEN + (if i_vlan c then g_VLAN_HDR_LEN else 0) + i_user c.

(* a delivered payload is non-empty, fits the packet buffer, and is the slice [off, len - tail) of
   bytes that were all captured *)
Theorem pcap_extract_safe c f p : 0 <= i_user c -> 0 <= i_tail c -> pcap_extract c f = Some p ->
  p = slice (pf_data f) (pcap_off c) (pf_len f - pcap_off c - i_tail c) /\
  0 < blen p <= g_ETH_LEN /\ pcap_off c + blen p + i_tail c = pf_len f /\ pf_len f <= blen (pf_data f).
Proof.
  intros Hu Ht. unfold pcap_extract, pcap_off. cbv zeta.
  assert (Hoff : 0 <= g_ETH_HDR_LEN + (if i_vlan c then g_VLAN_HDR_LEN else 0) + i_user c)
    by (unfold g_ETH_HDR_LEN, g_VLAN_HDR_LEN; destruct (i_vlan c); lia).
  set (off := g_ETH_HDR_LEN + (if i_vlan c then g_VLAN_HDR_LEN else 0) + i_user c) in *. clearbody off.
  destruct (negb _); [discriminate|].
  destruct ((blen (pf_data f) <? pf_len f) || _ || _) eqn:E; [discriminate|].
  intros H. injection H as <-.
  rewrite slice_len by lia. repeat split; lia.
Qed.

(* records cut by the snap length, too short for the layers, or too long for the buffer: nothing *)
Theorem pcap_extract_none c f :
  (blen (pf_data f) < pf_len f \/ pf_len f <= pcap_off c + i_tail c \/ pf_len f - pcap_off c - i_tail c > g_ETH_LEN) ->
  pcap_extract c f = None.
Proof.
  intros H. unfold pcap_extract, pcap_off in *. cbv zeta.
  set (off := g_ETH_HDR_LEN + (if i_vlan c then g_VLAN_HDR_LEN else 0) + i_user c) in *. clearbody off.
  destruct (negb _); [reflexivity|].
  destruct ((blen (pf_data f) <? pf_len f) || _ || _) eqn:E; [reflexivity|lia].
Qed.

(* ---------------------------------------------------------------- sockets *)
Theorem sock_extract_safe user tail buf_len d p : 0 <= user -> 0 <= tail -> sock_extract user tail buf_len d = Some p ->
  0 < blen p /\ user + blen p + tail = Z.min (blen d) buf_len /\ p = slice d user (blen p).
Proof.
  intros Hu Ht. unfold sock_extract. cbv zeta. destruct (Z.min (blen d) buf_len <=? user + tail) eqn:E; [discriminate|].
  intros H. injection H as <-. rewrite slice_len by lia. repeat split; lia.
Qed.
Theorem sock_extract_none user tail buf_len d : Z.min (blen d) buf_len <= user + tail -> sock_extract user tail buf_len d = None.
Proof. intros H. unfold sock_extract. cbv zeta. destruct (_ <=? _) eqn:E; [reflexivity|lia]. Qed.

(* a datagram that fits the buffer is stripped exactly as the raw-packet API strips it *)
Theorem sock_is_raw user tail buf_len d : blen d <= buf_len -> 0 <= user -> 0 <= tail ->
  sock_extract user tail buf_len d = raw_feed user tail buf_len d.
Proof.
  intros Hl Hu Ht. unfold sock_extract, raw_feed. cbv zeta. rewrite Z.min_l by lia.
  destruct (blen d <=? user + tail) eqn:E1; cbn [orb]; [reflexivity|].
  destruct (blen d - user - tail >? buf_len) eqn:E2; [lia|reflexivity].
Qed.

(* ---------------------------------------------------------------- pcap = raw on plain frames *)
(* the UDP payload of a frame with a 20-byte IP header (what the fixed 42(+4)-byte offset assumes) *)
Definition udp_payload (c : incfg) (f : pframe) : bytes :=
  skipn (Z.to_nat (g_ETH_HDR_LEN + (if i_vlan c then g_VLAN_HDR_LEN else 0))) (pf_data f).

Theorem pcap_is_raw c f : 0 <= i_user c -> 0 <= i_tail c ->
  blen (pf_data f) = pf_len f ->       (* a complete record *)
  g_ETH_HDR_LEN + (if i_vlan c then g_VLAN_HDR_LEN else 0) <= pf_len f ->
  (bpf_udp (i_vlan c) (Some (i_msop_port c)) (pf_data f) || (difop_filter_valid c && bpf_udp (i_vlan c) (Some (i_difop_port c)) (pf_data f))) = true ->
  pcap_extract c f = raw_feed (i_user c) (i_tail c) g_ETH_LEN (udp_payload c f).
Proof.
  intros Hu Ht Hc Hl Hhit. unfold pcap_extract, raw_feed, udp_payload. cbv zeta. rewrite Hhit. cbn [negb].
  set (base := g_ETH_HDR_LEN + (if i_vlan c then g_VLAN_HDR_LEN else 0)) in *.
  assert (Hb0 : 0 <= base) by (subst base; unfold g_ETH_HDR_LEN, g_VLAN_HDR_LEN; destruct (i_vlan c); lia).
  assert (Hpl : blen (skipn (Z.to_nat base) (pf_data f)) = pf_len f - base) by (unfold blen in *; rewrite skipn_length; lia).
  rewrite Hpl, Hc.
  assert (E1 : (pf_len f <? pf_len f) = false) by lia. rewrite E1. cbn [orb].
  replace (pf_len f <=? base + i_user c + i_tail c) with (pf_len f - base <=? i_user c + i_tail c) by lia.
  replace (pf_len f - (base + i_user c) - i_tail c) with (pf_len f - base - i_user c - i_tail c) by lia.
  destruct ((pf_len f - base <=? i_user c + i_tail c) || (pf_len f - base - i_user c - i_tail c >? g_ETH_LEN)); [reflexivity|].
  rewrite slice_skipn by lia. reflexivity.
Qed.

(* foreign ports contribute nothing *)
Theorem pcap_foreign c f :
  bpf_udp (i_vlan c) (Some (i_msop_port c)) (pf_data f) = false ->
  (difop_filter_valid c && bpf_udp (i_vlan c) (Some (i_difop_port c)) (pf_data f)) = false ->
  pcap_extract c f = None.
Proof. intros H1 H2. unfold pcap_extract. cbv zeta. rewrite H1, H2. reflexivity. Qed.

(* DIFOP port 0, or equal to the MSOP port: no second filter / socket *)
Lemma difop_disabled c : i_difop_port c = 0 \/ i_difop_port c = i_msop_port c -> difop_filter_valid c = false.
Proof. unfold difop_filter_valid. intros [H|H]; rewrite H; [reflexivity|]. rewrite Z.eqb_refl. apply andb_false_r. Qed.

(* ---------------------------------------------------------------- jumbo *)
Definition jstate_ok (st : jstate) : Prop := match st with Some (_, acc) => blen acc <= 65535 | None => True end.

Lemma blen_app (a b : bytes) : blen (a ++ b) = blen a + blen b.
Proof. unfold blen. rewrite app_length. lia. Qed.

(* the fragment data lies inside the captured bytes *)
Theorem parse_frag_inside f id off more data : parse_frag f = FFrag id off more data ->
  exists ihl tot, 20 <= ihl /\ ihl <= tot /\ 14 + tot <= blen f /\ data = slice f (14 + ihl) (tot - ihl) /\ blen data = tot - ihl.
Proof.
  unfold parse_frag. cbv zeta.
  destruct (blen f <? 34) eqn:E0; [discriminate|].
  destruct (negb (be16 f 12 =? 2048)); [discriminate|]. destruct (negb (u8 f 23 =? 17)); [discriminate|].
  set (ihl := Z.land (u8 f 14) 15 * 4). set (tot := be16 f 16).
  destruct ((ihl <? 20) || (tot <? ihl) || (blen f <? 14 + tot)) eqn:E; [discriminate|].
  intros H. injection H as _ _ _ <-. exists ihl, tot.
  assert (Hs : blen (slice f (14 + ihl) (tot - ihl)) = tot - ihl) by (apply slice_len; lia).
  repeat split; try lia; auto.
Qed.

(* the fill level never passes 65535 bytes (the C++ fill level is a uint16_t into a 64 KiB buffer) *)
Theorem jumbo_step_ok st fr : jstate_ok st -> (match fr with FFrag _ _ _ data => blen data <= 65535 | FIgnore => True end) ->
  jstate_ok (fst (jumbo_step st fr)).
Proof.
  intros Hs Hd. unfold jumbo_step. destruct fr as [|id off more data]; [exact Hs|].
  destruct ((off =? 0) && negb more); [exact Hs|].
  destruct st as [[cur acc]|].
  - destruct (id =? cur).
    + destruct (off =? blen acc); [|exact Hs].
      destruct (blen acc + blen data >? 65535) eqn:E; [exact I|].
      destruct more; cbn [fst jstate_ok]; [rewrite blen_app; lia | exact I].
    + destruct (off =? 0); [cbn; exact Hd | exact Hs].
  - destruct (off =? 0); [cbn; exact Hd | exact I].
Qed.

(* frames that are ignored leave the assembly untouched and deliver nothing (T4) *)
Theorem jumbo_ignored_inert st fr :
  (fr = FIgnore \/
   exists id off more data cur acc, fr = FFrag id off more data /\ st = Some (cur, acc) /\ ((off =? 0) && negb more = false) /\
      ((id = cur /\ off <> blen acc) \/ (id <> cur /\ off <> 0))) ->
  jumbo_step st fr = (st, None).
Proof.
  intros [-> | (id & off & more & data & cur & acc & -> & -> & Hu & Hc)]; [reflexivity|].
  unfold jumbo_step. rewrite Hu. destruct Hc as [[-> Ho] | [Hi Ho]].
  - rewrite Z.eqb_refl. destruct (off =? blen acc) eqn:E; [lia|reflexivity].
  - destruct (id =? cur) eqn:E; [lia|]. destruct (off =? 0) eqn:E2; [lia|reflexivity].
Qed.

(* an unfragmented datagram is delivered at once, whatever is being assembled, and does not disturb it *)
Theorem jumbo_unfragmented st id data : jumbo_step st (FFrag id 0 false data) = (st, udp_out data).
Proof. reflexivity. Qed.

(* T2/T3: a train of fragments of one identification, in offset order from 0, the last one without the
   more-fragments flag, delivers exactly the concatenation of the fragment payloads minus the 8-byte
   UDP header, attributed to the destination port in that header; nothing is delivered before *)
Fixpoint train (id : Z) (off : Z) (chunks : list bytes) : list ipfrag :=
  match chunks with
  | [] => []
  | [c] => [FFrag id off false c]
  | c :: r => FFrag id off true c :: train id (off + blen c) r
  end.

Lemma train_cons2 id off c c2 r : train id off (c :: c2 :: r) = FFrag id off true c :: train id (off + blen c) (c2 :: r).
Proof. reflexivity. Qed.

Lemma train_run id : forall chunks acc, chunks <> [] -> acc <> [] ->
  blen acc + blen (concat chunks) <= 65535 ->
  jumbo_run (Some (id, acc)) (train id (blen acc) chunks) =
  match udp_out (acc ++ concat chunks) with Some x => [x] | None => [] end.
Proof.
  induction chunks as [|c r IH]; intros acc Hne Ha Hb; [congruence|].
  assert (Hnz : (blen acc =? 0) = false) by (destruct acc; [congruence|unfold blen; cbn [length]; lia]).
  destruct r as [|c2 r].
  - cbn [concat] in Hb. cbn [train jumbo_run jumbo_step concat app]. rewrite app_nil_r in *. rewrite Hnz. cbn [andb].
    rewrite !Z.eqb_refl. destruct (blen acc + blen c >? 65535) eqn:E; [lia|].
    cbn [jumbo_run]. rewrite app_nil_r. reflexivity.
  - rewrite train_cons2. cbn [jumbo_run jumbo_step]. rewrite Hnz. cbn [andb]. rewrite !Z.eqb_refl.
    cbn [concat] in Hb. rewrite !blen_app in Hb.
    assert (H0 : 0 <= blen (concat r)) by (unfold blen; lia). assert (H1 : 0 <= blen c2) by (unfold blen; lia).
    destruct (blen acc + blen c >? 65535) eqn:E; [lia|].
    cbn [app]. rewrite <- (blen_app acc c).
    assert (IH2 : jumbo_run (Some (id, acc ++ c)) (train id (blen (acc ++ c)) (c2 :: r)) =
                  match udp_out ((acc ++ c) ++ concat (c2 :: r)) with Some x => [x] | None => [] end).
    { apply IH; [discriminate | destruct acc; [congruence|discriminate] |]. cbn [concat]. rewrite !blen_app. lia. }
    etransitivity; [exact IH2|]. cbn [concat]. rewrite <- !app_assoc. reflexivity.
Qed.

Theorem jumbo_train id c1 rest st :
  rest <> [] -> c1 <> [] -> blen (concat (c1 :: rest)) <= 65535 ->
  (st = None \/ exists cur acc, st = Some (cur, acc) /\ cur <> id) ->
  jumbo_run st (train id 0 (c1 :: rest)) =
  match udp_out (concat (c1 :: rest)) with Some x => [x] | None => [] end.
Proof.
  intros Hr Hc Hb Hst. destruct rest as [|c2 r]; [congruence|].
  rewrite train_cons2. cbn [jumbo_run]. 
  assert (Hstep : jumbo_step st (FFrag id 0 true c1) = (Some (id, c1), None)).
  { unfold jumbo_step. cbn [andb negb Z.eqb]. destruct Hst as [-> | (cur & acc & -> & Hne)]; [reflexivity|].
    destruct (id =? cur) eqn:E; [lia|reflexivity]. }
  rewrite Hstep. cbn [app]. replace (0 + blen c1) with (blen c1) by lia.
  assert (H2 : jumbo_run (Some (id, c1)) (train id (blen c1) (c2 :: r)) =
               match udp_out (c1 ++ concat (c2 :: r)) with Some x => [x] | None => [] end).
  { apply train_run; [discriminate | exact Hc |]. cbn [concat] in *. rewrite !blen_app in *. lia. }
  exact H2.
Qed.
