(* C20: ENABLE_DIFOP_PARSE is inert for everything but getDeviceInfo/getDeviceStatus:
   the device-info fields of the decoder state are write-only as far as packets, clouds, errors,
   temperature and the open frame are concerned. *)
From RS Require Import Base.Tac Base.Bytes Base.Dyadic Model.Desc Model.Kernels Model.Decoder Model.Driver.
Local Open Scope Z_scope.

Notation devinfo := (option (list Z * list Z * list Z * list Z)).

Lemma set_dev_idem s a b c d : set_dev (set_dev s a b) c d = set_dev s c d.
Proof. destruct s; reflexivity. Qed.
Lemma set_dev_self s : set_dev s (s_devinfo s) (s_devstatus s) = s.
Proof. destruct s; reflexivity. Qed.

(* ---- decoder level: readers ignore the fields, writers carry them along *)
Lemma mech_channel_dev d c s di ds t w sect b base az azd ts chan :
  mech_channel d c (set_dev s di ds) t w sect b base az azd ts chan = mech_channel d c s t w sect b base az azd ts chan.
Proof. destruct s; reflexivity. Qed.
Lemma split_step_dev c s di ds az : split_step c (set_dev s di ds) az = split_step c s az.
Proof. destruct s; reflexivity. Qed.
Lemma upd_mech_blk_dev s di ds sp a b : upd_mech_blk (set_dev s di ds) sp a b = set_dev (upd_mech_blk s sp a b) di ds.
Proof. destruct s; reflexivity. Qed.
Lemma cur_tab_dev d s di ds : cur_tab d (set_dev s di ds) = cur_tab d s.
Proof. destruct s; reflexivity. Qed.
Lemma block_iter_dev d s di ds t b : block_iter d (set_dev s di ds) t b = block_iter d s t b.
Proof. destruct s; reflexivity. Qed.
Lemma set_pkt_common_dev s di ds t f v fp : set_pkt_common (set_dev s di ds) t f v fp = set_dev (set_pkt_common s t f v fp) di ds.
Proof. destruct s; reflexivity. Qed.
Lemma set_prev_pkt_ts_dev s di ds ts : set_prev_pkt_ts (set_dev s di ds) ts = set_dev (set_prev_pkt_ts s ts) di ds.
Proof. destruct s; reflexivity. Qed.
Lemma upd_mems_dev s di ds sq t f a b c : upd_mems (set_dev s di ds) sq t f a b c = set_dev (upd_mems s sq t f a b c) di ds.
Proof. destruct s; reflexivity. Qed.
Lemma set_echo_split_dev s di ds e sb r : set_echo_split (set_dev s di ds) e sb r = set_dev (set_echo_split s e sb r) di ds.
Proof. destruct s; reflexivity. Qed.

Definition on_state3 {B C} (di : devinfo) (ds : option Z) (r : dstate * B * C) : dstate * B * C :=
  let '(s, x, y) := r in (set_dev s di ds, x, y).

Lemma mech_blocks_dev d c t w sect b pkt_ts its : forall blk s di ds,
  mech_blocks d c t w sect b pkt_ts its blk (set_dev s di ds) = on_state3 di ds (mech_blocks d c t w sect b pkt_ts its blk s).
Proof.
  induction its as [|[azd tso] rest IH]; intros blk s di ds; [reflexivity|].
  cbn [mech_blocks]. cbv zeta.
  destruct (negb (match_at b (d_off_blocks d + blk * d_sizeof_block d) (d_block_id d))); [reflexivity|].
  rewrite split_step_dev. destruct (split_step c s _) as [sp ss].
  rewrite upd_mech_blk_dev, IH.
  replace (s_prev_point_ts (set_dev s di ds)) with (s_prev_point_ts s) by (destruct s; reflexivity).
  replace (s_first_point_ts (set_dev s di ds)) with (s_first_point_ts s) by (destruct s; reflexivity).
  destruct (mech_blocks d c t w sect b pkt_ts rest (blk + 1) _) as [[s'' outs] bad]. cbn [on_state3].
  rewrite (map_ext _ _ (mech_channel_dev d c s di ds t w sect _ 0 _ azd (pkt_ts + tso))). reflexivity.
Qed.

Definition mr_on_state (f : dstate -> dstate) (r : msop_result) : msop_result :=
  mk_msop_result (f (mr_state r)) (mr_blocks r) (mr_ret r) (mr_bad_blkid r) (mr_bytes r) (mr_end_split r).

Lemma decode_msop_mech_dev d c s di ds b h1 h2 :
  decode_msop_mech d c (set_dev s di ds) b h1 h2 = mr_on_state (fun x => set_dev x di ds) (decode_msop_mech d c s b h1 h2).
Proof.
  unfold decode_msop_mech.
  replace (s_first_pkt (set_dev s di ds)) with (s_first_pkt s) by (destruct s; reflexivity).
  replace (s_variant (set_dev s di ds)) with (s_variant s) by (destruct s; reflexivity).
  match goal with |- (let '(variant, first_pkt) := ?X in _) = _ => destruct X as [variant first_pkt] end.
  rewrite set_pkt_common_dev, cur_tab_dev.
  destruct (pkt_time d c variant b 0 h1 h2) as [pkt_ts b'].
  rewrite block_iter_dev, mech_blocks_dev.
  destruct (mech_blocks d c _ _ _ b pkt_ts _ 0 _) as [[s2 outs] bad]. cbn [on_state3].
  rewrite set_prev_pkt_ts_dev. reflexivity.
Qed.

Lemma decode_msop_mems_sub_dev d c s di ds b base h1 h2 :
  decode_msop_mems_sub d c (set_dev s di ds) b base h1 h2 =
  let '(s', bo, b', es) := decode_msop_mems_sub d c s b base h1 h2 in (set_dev s' di ds, bo, b', es).
Proof.
  unfold decode_msop_mems_sub.
  destruct (pkt_time d c 0 b base h1 h2) as [pkt_ts b'].
  replace (s_seq (set_dev s di ds)) with (s_seq s) by (destruct s; reflexivity).
  replace (s_prev_point_ts (set_dev s di ds)) with (s_prev_point_ts s) by (destruct s; reflexivity).
  replace (s_first_point_ts (set_dev s di ds)) with (s_first_point_ts s) by (destruct s; reflexivity).
  cbv zeta. destruct (seq_step (s_seq s) _) as [sp sq].
  rewrite upd_mems_dev. reflexivity.
Qed.

Lemma decode_difop_common_dev d s di ds b :
  decode_difop_common d (set_dev s di ds) b = set_dev (decode_difop_common d s b) di ds.
Proof.
  unfold decode_difop_common. cbv zeta.
  replace (s_angles_ready (set_dev s di ds)) with (s_angles_ready s) by (destruct s; reflexivity).
  destruct (s_angles_ready s); [destruct s; reflexivity|].
  destruct (load_angles d b 0 _ [] []) as [[vs hs]|]; destruct s; reflexivity.
Qed.

Lemma difop_devinfo_any d p q s di ds b :
  exists di' ds', difop_devinfo d p (set_dev s di ds) b = set_dev (difop_devinfo d q s b) di' ds'.
Proof.
  assert (H : forall p s, exists a b', difop_devinfo d p s b = set_dev s a b').
  { intros p0 s0. unfold difop_devinfo. destruct (p0 && d_has_devinfo d).
    - destruct (d_has_devstatus d); eauto.
    - exists (s_devinfo s0), (s_devstatus s0). symmetry. apply set_dev_self. }
  destruct (H p (set_dev s di ds)) as (a1 & b1 & E1). destruct (H q s) as (a2 & b2 & E2).
  exists a1, b1. rewrite E1, E2, !set_dev_idem. reflexivity.
Qed.

Lemma decode_difop_dev d p q s di ds b :
  exists di' ds', decode_difop d p (set_dev s di ds) b = set_dev (decode_difop d q s b) di' ds'.
Proof.
  unfold decode_difop. destruct (d_family d).
  - cbv zeta. rewrite decode_difop_common_dev.
    replace (s_reversal (set_dev (decode_difop_common d s b) di ds)) with (s_reversal (decode_difop_common d s b)) by (destruct (decode_difop_common d s b); reflexivity).
    replace (s_blks_per_frame (set_dev (decode_difop_common d s b) di ds)) with (s_blks_per_frame (decode_difop_common d s b)) by (destruct (decode_difop_common d s b); reflexivity).
    rewrite set_echo_split_dev. apply difop_devinfo_any.
  - cbv zeta. destruct (d_sets_echo d).
    + replace (s_split_blks (set_dev s di ds)) with (s_split_blks s) by (destruct s; reflexivity).
      replace (s_reversal (set_dev s di ds)) with (s_reversal s) by (destruct s; reflexivity).
      rewrite set_echo_split_dev. apply difop_devinfo_any.
    + apply difop_devinfo_any.
Qed.

(* ---- driver level *)
Definition vdev (v : drv) (di : devinfo) (ds : option Z) : drv := with_dec v (set_dev (v_dec v) di ds).

Lemma vdev_idem v a b c d : vdev (vdev v a b) c d = vdev v c d.
Proof. destruct v; unfold vdev, with_dec, set_open; cbn. rewrite set_dev_idem. reflexivity. Qed.

Definition on_drv3 {B C} (di : devinfo) (ds : option Z) (r : drv * B * C) : drv * B * C :=
  let '(v, x, y) := r in (vdev v di ds, x, y).

Lemma split_frame_dev v di ds th now ts :
  split_frame (vdev v di ds) th now ts = on_drv3 di ds (split_frame v th now ts).
Proof.
  destruct v as [d c s buf open ps cs an fr]. unfold split_frame, vdev, with_dec, set_open. cbn [v_open v_desc v_cfg v_dec v_open_buf v_pkt_seq v_cloud_seq v_answers v_fresh].
  destruct open as [|p open]; [reflexivity|].
  cbv zeta. destruct (get_cloud _ an fr th now) as [[[[id a] f] th1] o]. reflexivity.
Qed.

Lemma feed_blocks_dev bs : forall v di ds th now,
  feed_blocks (vdev v di ds) th now bs = on_drv3 di ds (feed_blocks v th now bs).
Proof.
  induction bs as [|bo rest IH]; intros v di ds th now; [reflexivity|].
  cbn [feed_blocks].
  destruct (bo_split bo).
  - rewrite split_frame_dev. destruct (split_frame v th now _) as [[v1 th1] o1]. cbn [on_drv3].
    match goal with |- context [feed_blocks ?X th1 now rest] =>
      replace X with (vdev (set_open v1 (v_dec v1) (v_open_buf v1) (v_open v1 ++ bo_points bo) (v_pkt_seq v1) (v_cloud_seq v1) (v_answers v1) (v_fresh v1)) di ds)
        by (destruct v1; reflexivity) end.
    rewrite IH. destruct (feed_blocks _ th1 now rest) as [[v3 th3] o3]. reflexivity.
  - match goal with |- context [feed_blocks ?X th now rest] =>
      replace X with (vdev (set_open v (v_dec v) (v_open_buf v) (v_open v ++ bo_points bo) (v_pkt_seq v) (v_cloud_seq v) (v_answers v) (v_fresh v)) di ds)
        by (destruct v; reflexivity) end.
    rewrite IH. destruct (feed_blocks _ th now rest) as [[v3 th3] o3]. reflexivity.
Qed.

Definition on_drv5 {B C D E} (di : devinfo) (ds : option Z) (r : drv * B * C * D * E) : drv * B * C * D * E :=
  let '(v, x, y, z, u) := r in (vdev v di ds, x, y, z, u).

Lemma with_dec_vdev v s di ds : with_dec (vdev v di ds) (set_dev s di ds) = vdev (with_dec v s) di ds.
Proof. destruct v; reflexivity. Qed.

Lemma mems_subs_dev now host k : forall i v di ds th b ret,
  mems_subs now host k i (vdev v di ds) th b ret = on_drv5 di ds (mems_subs now host k i v th b ret).
Proof.
  induction k as [|k IH]; intros i v di ds th b ret; [reflexivity|].
  cbn [mems_subs]. cbv zeta.
  replace (v_desc (vdev v di ds)) with (v_desc v) by (destruct v; reflexivity).
  replace (v_cfg (vdev v di ds)) with (v_cfg v) by (destruct v; reflexivity).
  destruct ((0 <? d_n_sub (v_desc v)) && negb (match_at b (i * d_sizeof_sub (v_desc v)) (d_msop_id (v_desc v)))); [apply IH|].
  replace (v_dec (vdev v di ds)) with (set_dev (v_dec v) di ds) by (destruct v; reflexivity).
  rewrite decode_msop_mems_sub_dev.
  destruct (decode_msop_mems_sub _ _ (v_dec v) b _ host host) as [[[s' bo] b'] es].
  rewrite with_dec_vdev, feed_blocks_dev.
  destruct (feed_blocks (with_dec v s') th now [bo]) as [[v1 th1] o1]. cbn [on_drv3].
  destruct es as [ts|].
  - rewrite split_frame_dev. destruct (split_frame v1 th1 now ts) as [[v2 th2] o2]. cbn [on_drv3].
    rewrite IH. destruct (mems_subs now host k (i + 1) v2 th2 b' _) as [[[[v3 th3] o3] r3] b3]. reflexivity.
  - rewrite IH. destruct (mems_subs now host k (i + 1) v1 th1 b' _) as [[[[v3 th3] o3] r3] b3]. reflexivity.
Qed.

Lemma process_msop_dev bl tbl v di ds th now host b :
  process_msop bl tbl (vdev v di ds) th now host b = on_drv5 di ds (process_msop bl tbl v th now host b).
Proof.
  unfold process_msop. cbv zeta.
  replace (v_desc (vdev v di ds)) with (v_desc v) by (destruct v; reflexivity).
  replace (v_cfg (vdev v di ds)) with (v_cfg v) by (destruct v; reflexivity).
  replace (v_open (vdev v di ds)) with (v_open v) by (destruct v; reflexivity).
  set (G := Z.of_nat (length (v_open v)) >? CLOUD_POINT_MAX).
  assert (E0 : forall (th' : throttles) (e : list out),
     set_open (vdev v di ds) (v_dec (vdev v di ds)) (v_open_buf (vdev v di ds)) [] (v_pkt_seq (vdev v di ds)) (v_cloud_seq (vdev v di ds)) (v_answers (vdev v di ds)) (v_fresh (vdev v di ds))
     = vdev (set_open v (v_dec v) (v_open_buf v) [] (v_pkt_seq v) (v_cloud_seq v) (v_answers v) (v_fresh v)) di ds)
    by (intros; destruct v; reflexivity).
  (* name the state after the overflow guard on both sides *)
  assert (EG : (if G then let '(t, e) := limit_call th now ERR_CLOUDOVERFLOW in
                  (set_open (vdev v di ds) (v_dec (vdev v di ds)) (v_open_buf (vdev v di ds)) [] (v_pkt_seq (vdev v di ds)) (v_cloud_seq (vdev v di ds)) (v_answers (vdev v di ds)) (v_fresh (vdev v di ds)), t, e)
                else (vdev v di ds, th, [])) =
               on_drv3 di ds (if G then let '(t, e) := limit_call th now ERR_CLOUDOVERFLOW in
                  (set_open v (v_dec v) (v_open_buf v) [] (v_pkt_seq v) (v_cloud_seq v) (v_answers v) (v_fresh v), t, e)
                else (v, th, []))).
  { destruct G; [|reflexivity]. destruct (limit_call th now ERR_CLOUDOVERFLOW) as [t e]. cbn [on_drv3]. rewrite (E0 t e). reflexivity. }
  rewrite EG. clear EG E0.
  match goal with |- context [on_drv3 di ds ?X] => destruct X as [[v0 th0] o0] end. cbn [on_drv3].
  replace (v_dec (vdev v0 di ds)) with (set_dev (v_dec v0) di ds) by (destruct v0; reflexivity).
  replace (s_angles_ready (set_dev (v_dec v0) di ds)) with (s_angles_ready (v_dec v0)) by (destruct (v_dec v0); reflexivity).
  destruct (c_wait_for_difop (v_cfg v) && negb (s_angles_ready (v_dec v0))).
  { destruct (delay_limit_call th0 now ERR_NODIFOPRECV) as [t e]. reflexivity. }
  destruct (negb (blen b =? d_msop_len (v_desc v))).
  { destruct (limit_call th0 now ERR_WRONGMSOPLEN) as [t e]. reflexivity. }
  destruct (negb (match_at b 0 (d_msop_id (v_desc v)))).
  { destruct (limit_call th0 now ERR_WRONGMSOPID) as [t e]. reflexivity. }
  destruct (b_crc bl && negb (crc_ok tbl b)).
  { destruct (limit_call th0 now ERR_WRONGCRC32) as [t e]. reflexivity. }
  destruct (d_family (v_desc v)).
  - rewrite decode_msop_mech_dev. unfold mr_on_state. cbn [mr_state mr_blocks mr_bad_blkid mr_ret mr_bytes].
    rewrite with_dec_vdev, feed_blocks_dev.
    destruct (feed_blocks _ th0 now _) as [[v1 th1] o1]. reflexivity.
  - rewrite mems_subs_dev.
    destruct (mems_subs now host _ 0 v0 th0 b false) as [[[[v1 th1] o1] ret] b']. reflexivity.
Qed.

Lemma run_pkt_cb_dev v di ds data ts a b :
  run_pkt_cb (vdev v di ds) data ts a b = let '(v', o) := run_pkt_cb v data ts a b in (vdev v' di ds, o).
Proof. destruct v as [d c s buf open ps cs an fr]. unfold run_pkt_cb, vdev, with_dec, set_open. cbn. destruct (c_pkt_cb c); reflexivity. Qed.

Lemma process_difop_dev p q v di ds th now b : exists di' ds',
  process_difop (mk_build p true) (vdev v di ds) th now b =
  on_drv3 di' ds' (process_difop (mk_build q false) v th now b).
Proof.
  unfold process_difop. cbv zeta.
  replace (v_desc (vdev v di ds)) with (v_desc v) by (destruct v; reflexivity).
  destruct (negb (blen b =? d_difop_len (v_desc v))).
  { destruct (limit_call th now ERR_WRONGDIFOPLEN) as [t e]. exists di, ds. reflexivity. }
  destruct (negb (match_at b 0 (d_difop_id (v_desc v)))).
  { destruct (limit_call th now ERR_WRONGDIFOPID) as [t e]. exists di, ds. reflexivity. }
  replace (v_dec (vdev v di ds)) with (set_dev (v_dec v) di ds) by (destruct v; reflexivity).
  cbn [b_difop_parse].
  destruct (decode_difop_dev (v_desc v) true false (v_dec v) di ds b) as (di' & ds' & E).
  exists di', ds'. rewrite E. cbn [on_drv3].
  replace (with_dec (vdev v di ds) (set_dev (decode_difop (v_desc v) false (v_dec v) b) di' ds'))
    with (vdev (with_dec v (decode_difop (v_desc v) false (v_dec v) b)) di' ds') by (destruct v; reflexivity).
  reflexivity.
Qed.

(* T1 core: one packet.  A driver built with ENABLE_DIFOP_PARSE and one built without, in states
   that differ at most in the device-info fields, produce the same outputs (clouds, packet records,
   errors) and throttle state, and end in states that again differ at most in those fields. *)
Theorem difop_parse_inert_step crc tbl v di ds th now host b stale : exists di' ds',
  process_packet (mk_build crc true) tbl (vdev v di ds) th now host b stale =
  on_drv3 di' ds' (process_packet (mk_build crc false) tbl v th now host b stale).
Proof.
  unfold process_packet. cbv zeta.
  destruct ((fst (dispatch_bytes b) =? 85) && (snd (dispatch_bytes b) =? 170)).
  - exists di, ds. rewrite process_msop_dev.
    assert (Ecrc : process_msop (mk_build crc true) tbl v th now host b = process_msop (mk_build crc false) tbl v th now host b) by reflexivity.
    rewrite Ecrc.
    destruct (process_msop (mk_build crc false) tbl v th now host b) as [[[[v1 th1] o1] ret] b']. cbn [on_drv5].
    rewrite run_pkt_cb_dev.
    replace (s_prev_pkt_ts (v_dec (vdev v1 di ds))) with (s_prev_pkt_ts (v_dec v1)) by (destruct v1 as [? ? s ? ? ? ? ? ?]; destruct s; reflexivity).
    destruct (run_pkt_cb v1 b' _ false ret) as [v2 o2]. reflexivity.
  - destruct ((fst (dispatch_bytes b) =? 165) && (snd (dispatch_bytes b) =? 255)).
    + destruct (process_difop_dev crc crc v di ds th now b) as (di' & ds' & E). exists di', ds'. rewrite E.
      destruct (process_difop (mk_build crc false) v th now b) as [[v1 th1] o1]. cbn [on_drv3].
      rewrite run_pkt_cb_dev. destruct (run_pkt_cb v1 b 0 true false) as [v2 o2]. reflexivity.
    + exists di, ds. reflexivity.
Qed.

(* a whole packet history on one driver: (wall clock, host clock, bytes) per packet *)
Fixpoint feed_all (bl : build) (tbl : list Z) (v : drv) (th : throttles) (ps : list (Z * Z * bytes)) : drv * throttles * list out :=
  match ps with
  | [] => (v, th, [])
  | (now, host, b) :: r =>
      let '(v1, th1, o1) := process_packet bl tbl v th now host b [] in
      let '(v2, th2, o2) := feed_all bl tbl v1 th1 r in (v2, th2, o1 ++ o2)
  end.

Theorem difop_parse_inert crc tbl ps : forall v di ds th, exists di' ds',
  feed_all (mk_build crc true) tbl (vdev v di ds) th ps = on_drv3 di' ds' (feed_all (mk_build crc false) tbl v th ps).
Proof.
  induction ps as [|[[now host] b] r IH]; intros v di ds th.
  - exists di, ds. reflexivity.
  - cbn [feed_all].
    destruct (difop_parse_inert_step crc tbl v di ds th now host b []) as (di1 & ds1 & E). rewrite E.
    destruct (process_packet (mk_build crc false) tbl v th now host b []) as [[v1 th1] o1]. cbn [on_drv3].
    destruct (IH v1 di1 ds1 th1) as (di2 & ds2 & E2). rewrite E2.
    destruct (feed_all (mk_build crc false) tbl v1 th1 r) as [[v2 th2] o2]. exists di2, ds2. reflexivity.
Qed.

(* what callers can observe besides the outputs is blind to the fields as well *)
Lemma observers_dev v di ds :
  get_temperature (vdev v di ds) = get_temperature v /\ v_open (vdev v di ds) = v_open v /\
  v_open_buf (vdev v di ds) = v_open_buf v /\ v_cloud_seq (vdev v di ds) = v_cloud_seq v /\ v_pkt_seq (vdev v di ds) = v_pkt_seq v.
Proof. destruct v as [d c s buf open ps cs an fr]. destruct s. repeat split; reflexivity. Qed.

(* CRC flag: with the check compiled out (or in, for packets that pass it) nothing else changes *)
Lemma crc_flag_only_rejects tbl v th now host b p :
  crc_ok tbl b = true ->
  process_msop (mk_build true p) tbl v th now host b = process_msop (mk_build false p) tbl v th now host b.
Proof.
  intros H. unfold process_msop. cbn [b_crc]. rewrite H. cbn [negb andb]. reflexivity.
Qed.

Lemma crc_rejects tbl v th now host b p :
  Z.of_nat (length (v_open v)) <= CLOUD_POINT_MAX ->
  (c_wait_for_difop (v_cfg v) && negb (s_angles_ready (v_dec v))) = false ->
  blen b = d_msop_len (v_desc v) -> match_at b 0 (d_msop_id (v_desc v)) = true -> crc_ok tbl b = false ->
  process_msop (mk_build true p) tbl v th now host b =
  (v, fst (limit_call th now ERR_WRONGCRC32), snd (limit_call th now ERR_WRONGCRC32), false, b).
Proof.
  intros Ho Hw Hl Hi Hc. unfold process_msop. cbv zeta.
  destruct (Z.of_nat (length (v_open v)) >? CLOUD_POINT_MAX) eqn:E; [lia|].
  rewrite Hw, Hl, Z.eqb_refl, Hi. cbn [negb b_crc andb]. rewrite Hc. cbn [negb].
  destruct (limit_call th now ERR_WRONGCRC32) as [t e]. reflexivity.
Qed.
