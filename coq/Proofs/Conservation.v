(* C01: every point the decoders emit for an accepted packet lands, in order, in exactly one delivered
   cloud or in the still-open frame; rejected packets add nothing; the only discard is the documented
   overflow guard. *)
From RS Require Import Base.Tac Base.Bytes Base.Dyadic Model.Desc Model.Kernels Model.Decoder Model.Driver Model.Oracles Proofs.Stream Proofs.DriverInv.
Local Open Scope Z_scope.

(* the acceptance gate of processMsopPkt *)
Definition accepts (bl : build) (tbl : list Z) (v : drv) (b : bytes) : bool :=
  negb (c_wait_for_difop (v_cfg v) && negb (s_angles_ready (v_dec v))) &&
  (blen b =? d_msop_len (v_desc v)) && match_at b 0 (d_msop_id (v_desc v)) &&
  negb (b_crc bl && negb (crc_ok tbl b)).

Definition overflowed (v : drv) : bool := Z.of_nat (length (v_open v)) >? CLOUD_POINT_MAX.

(* points of one MEMS (sub) packet: a function of the bytes and the configuration only *)
Definition sub_points (d : desc) (c : dcfg) (b : bytes) (base pkt_ts : Z) : list point :=
  let sb := skipn (Z.to_nat base) b in
  let w := dist_window d c in
  let dual_hdr := u8 sb (d_off_hdr_return_mode d) =? 0 in
  filter (keep c) (flat_map fst (map (mems_block_points d c w sb 0 pkt_ts dual_hdr) (map Z.of_nat (seq 0 (Z.to_nat (d_blocks_per_pkt d)))))).

Lemma mems_sub_points d c s b base h1 h2 :
  bo_points (snd (fst (fst (decode_msop_mems_sub d c s b base h1 h2)))) =
  sub_points d c b base (fst (pkt_time d c 0 b base h1 h2)).
Proof.
  unfold decode_msop_mems_sub, sub_points.
  destruct (pkt_time d c 0 b base h1 h2) as [pkt_ts b'].
  destruct (seq_step (s_seq s) _) as [sp sq]. reflexivity.
Qed.
Lemma mems_sub_bytes d c s b base h1 h2 :
  snd (fst (decode_msop_mems_sub d c s b base h1 h2)) = snd (pkt_time d c 0 b base h1 h2).
Proof.
  unfold decode_msop_mems_sub.
  destruct (pkt_time d c 0 b base h1 h2) as [pkt_ts b'].
  destruct (seq_step (s_seq s) _) as [sp sq]. reflexivity.
Qed.

(* points of all sub packets, threading only the (possibly time-stamped) bytes *)
Fixpoint subs_pts (d : desc) (c : dcfg) (host : Z) (k : nat) (i : Z) (b : bytes) : list point :=
  match k with
  | O => []
  | S k' =>
      let base := i * d_sizeof_sub d in
      if (0 <? d_n_sub d) && negb (match_at b base (d_msop_id d)) then subs_pts d c host k' (i + 1) b
      else sub_points d c b base (fst (pkt_time d c 0 b base host host)) ++
           subs_pts d c host k' (i + 1) (snd (pkt_time d c 0 b base host host))
  end.

Definition msop_pts (v : drv) (host : Z) (b : bytes) : list point :=
  let d := v_desc v in let c := v_cfg v in
  match d_family d with
  | Mech => flat_map bo_points (mr_blocks (decode_msop_mech d c (v_dec v) b host host))
  | Mems => subs_pts d c host (Z.to_nat (if d_n_sub d =? 0 then 1 else d_n_sub d)) 0 b
  end.

Lemma pts_limit t now code : pts_of (snd (limit_call t now code)) = [].
Proof. unfold pts_of. rewrite limit_call_clouds. reflexivity. Qed.
Lemma pts_delay_limit t now code : pts_of (snd (delay_limit_call t now code)) = [].
Proof. unfold pts_of. rewrite delay_limit_call_clouds. reflexivity. Qed.

Lemma split_opt_pts v th now (es : option Z) :
  let r := match es with Some ts => split_frame v th now ts | None => (v, th, []) end in
  pts_of (snd r) ++ v_open (fst (fst r)) = v_open v /\ v_desc (fst (fst r)) = v_desc v /\ v_cfg (fst (fst r)) = v_cfg v.
Proof.
  destruct es as [ts|]; cbv zeta.
  - pose proof (split_frame_spec v th now ts) as H. cbv zeta in H. tauto.
  - cbn. repeat split; reflexivity.
Qed.

Lemma mems_subs_pts now host : forall k i v th b ret,
  let r := mems_subs now host k i v th b ret in
  let v' := fst (fst (fst (fst r))) in
  pts_of (snd (fst (fst r))) ++ v_open v' = v_open v ++ subs_pts (v_desc v) (v_cfg v) host k i b /\
  v_desc v' = v_desc v /\ v_cfg v' = v_cfg v.
Proof.
  induction k as [|k IH]; intros i v th b ret.
  - cbn. rewrite app_nil_r. repeat split; reflexivity.
  - cbn [mems_subs subs_pts]. cbv zeta.
    destruct ((0 <? d_n_sub (v_desc v)) && negb (match_at b (i * d_sizeof_sub (v_desc v)) (d_msop_id (v_desc v)))).
    + apply IH.
    + pose proof (mems_sub_points (v_desc v) (v_cfg v) (v_dec v) b (i * d_sizeof_sub (v_desc v)) host host) as Hp.
      pose proof (mems_sub_bytes (v_desc v) (v_cfg v) (v_dec v) b (i * d_sizeof_sub (v_desc v)) host host) as Hb.
      destruct (decode_msop_mems_sub (v_desc v) (v_cfg v) (v_dec v) b (i * d_sizeof_sub (v_desc v)) host host) as [[[s' bo] b'] es].
      cbn [fst snd] in Hp, Hb.
      pose proof (feed_blocks_spec [bo] (with_dec v s') th now) as H1. cbv zeta in H1.
      destruct (feed_blocks (with_dec v s') th now [bo]) as [[v1 th1] o1]. cbn [fst snd] in H1.
      destruct H1 as (P1 & D1 & C1 & _).
      pose proof (split_opt_pts v1 th1 now es) as H2. cbv zeta in H2.
      destruct (match es with Some ts => split_frame v1 th1 now ts | None => (v1, th1, []) end) as [[v2 th2] o2].
      cbn [fst snd] in H2. destruct H2 as (P2 & D2 & C2).
      specialize (IH (i + 1) v2 th2 b' (ret || bo_split bo)). cbv zeta in IH.
      destruct (mems_subs now host k (i + 1) v2 th2 b' (ret || bo_split bo)) as [[[[v3 th3] o3] r3] b3].
      cbn [fst snd] in *. destruct IH as (P3 & D3 & C3).
      cbn [with_dec set_open v_open v_desc v_cfg flat_map] in *. rewrite app_nil_r in P1.
      split; [|split; congruence].
      rewrite !pts_of_app, <- !app_assoc, P3, D2, C2, D1, C1.
      rewrite (app_assoc (pts_of o2)), P2, app_assoc, P1, <- app_assoc, Hp, Hb. reflexivity.
Qed.

Theorem process_msop_conservation bl tbl v th now host b :
  let r := process_msop bl tbl v th now host b in
  let v' := fst (fst (fst (fst r))) in
  pts_of (snd (fst (fst r))) ++ v_open v' =
    (if overflowed v then [] else v_open v) ++ (if accepts bl tbl v b then msop_pts v host b else []).
Proof.
  unfold process_msop, accepts, overflowed, msop_pts. cbv zeta.
  set (g := if Z.of_nat (length (v_open v)) >? CLOUD_POINT_MAX then _ else (v, th, [])).
  assert (Hg : pts_of (snd g) = [] /\ v_open (fst (fst g)) = (if Z.of_nat (length (v_open v)) >? CLOUD_POINT_MAX then [] else v_open v) /\
               v_dec (fst (fst g)) = v_dec v /\ v_desc (fst (fst g)) = v_desc v /\ v_cfg (fst (fst g)) = v_cfg v).
  { subst g. destruct (_ >? CLOUD_POINT_MAX).
    - pose proof (pts_limit th now ERR_CLOUDOVERFLOW) as He.
      destruct (limit_call th now ERR_CLOUDOVERFLOW) as [t e]. cbn [fst snd] in *. repeat split; auto.
    - cbn. repeat split; reflexivity. }
  destruct g as [[v0 th0] o0]. cbn [fst snd] in Hg. destruct Hg as (G0 & G1 & G2 & G3 & G4).
  rewrite G2.
  destruct (c_wait_for_difop (v_cfg v) && negb (s_angles_ready (v_dec v))); cbn [negb andb].
  { pose proof (pts_delay_limit th0 now ERR_NODIFOPRECV) as He.
    destruct (delay_limit_call th0 now ERR_NODIFOPRECV) as [t e]. cbn [fst snd] in *.
    rewrite pts_of_app, G0, He, G1. cbn [app]. rewrite ?app_nil_r. reflexivity. }
  destruct (blen b =? d_msop_len (v_desc v)); cbn [negb andb].
  2:{ pose proof (pts_limit th0 now ERR_WRONGMSOPLEN) as He.
      destruct (limit_call th0 now ERR_WRONGMSOPLEN) as [t e]. cbn [fst snd] in *.
      rewrite pts_of_app, G0, He, G1. cbn [app]. rewrite ?app_nil_r. reflexivity. }
  destruct (match_at b 0 (d_msop_id (v_desc v))); cbn [negb andb].
  2:{ pose proof (pts_limit th0 now ERR_WRONGMSOPID) as He.
      destruct (limit_call th0 now ERR_WRONGMSOPID) as [t e]. cbn [fst snd] in *.
      rewrite pts_of_app, G0, He, G1. cbn [app]. rewrite ?app_nil_r. reflexivity. }
  destruct (b_crc bl && negb (crc_ok tbl b)); cbn [negb andb].
  { pose proof (pts_limit th0 now ERR_WRONGCRC32) as He.
    destruct (limit_call th0 now ERR_WRONGCRC32) as [t e]. cbn [fst snd] in *.
    rewrite pts_of_app, G0, He, G1. cbn [app]. rewrite ?app_nil_r. reflexivity. }
  destruct (d_family (v_desc v)).
  - set (r := decode_msop_mech (v_desc v) (v_cfg v) (v_dec v) b host host).
    pose proof (feed_blocks_spec (mr_blocks r) (with_dec v0 (mr_state r)) th0 now) as H1. cbv zeta in H1.
    destruct (feed_blocks (with_dec v0 (mr_state r)) th0 now (mr_blocks r)) as [[v1 th1] o1]. cbn [fst snd] in *.
    destruct H1 as (P1 & _). cbn [with_dec set_open v_open] in P1.
    rewrite !pts_of_app, G0. cbn [app].
    assert (He : pts_of (if mr_bad_blkid r then [OErr ERR_WRONGMSOPBLKID] else []) = []).
    { destruct (mr_bad_blkid r); reflexivity. }
    rewrite He, app_nil_r, P1, G1. reflexivity.
  - pose proof (mems_subs_pts now host (Z.to_nat (if d_n_sub (v_desc v) =? 0 then 1 else d_n_sub (v_desc v))) 0 v0 th0 b false) as H1.
    cbv zeta in H1.
    destruct (mems_subs now host (Z.to_nat (if d_n_sub (v_desc v) =? 0 then 1 else d_n_sub (v_desc v))) 0 v0 th0 b false) as [[[[v1 th1] o1] ret] b'].
    cbn [fst snd] in *. destruct H1 as (P1 & _).
    rewrite pts_of_app, G0. cbn [app]. rewrite P1, G1, G3, G4. reflexivity.
Qed.

(* ---- rejected packets are inert: only the documented overflow discard can touch the open frame *)
Theorem process_msop_rejected_inert bl tbl v th now host b :
  accepts bl tbl v b = false ->
  let r := process_msop bl tbl v th now host b in
  let v' := fst (fst (fst (fst r))) in
  v_dec v' = v_dec v /\ v_cloud_seq v' = v_cloud_seq v /\ v_open_buf v' = v_open_buf v /\
  v_open v' = (if overflowed v then [] else v_open v) /\
  clouds_of (snd (fst (fst r))) = [] /\ snd (fst r) = false /\ snd r = b.
Proof.
  unfold process_msop, accepts, overflowed. cbv zeta. intros Ha.
  set (g := if Z.of_nat (length (v_open v)) >? CLOUD_POINT_MAX then _ else (v, th, [])).
  assert (Hg : clouds_of (snd g) = [] /\ v_open (fst (fst g)) = (if Z.of_nat (length (v_open v)) >? CLOUD_POINT_MAX then [] else v_open v) /\
               v_dec (fst (fst g)) = v_dec v /\ v_cloud_seq (fst (fst g)) = v_cloud_seq v /\ v_open_buf (fst (fst g)) = v_open_buf v).
  { subst g. destruct (_ >? CLOUD_POINT_MAX).
    - pose proof (limit_call_clouds th now ERR_CLOUDOVERFLOW) as He.
      destruct (limit_call th now ERR_CLOUDOVERFLOW) as [t e]. cbn [fst snd] in *. repeat split; auto.
    - cbn. repeat split; reflexivity. }
  destruct g as [[v0 th0] o0]. cbn [fst snd] in Hg. destruct Hg as (G0 & G1 & G2 & G3 & G4).
  rewrite G2.
  destruct (c_wait_for_difop (v_cfg v) && negb (s_angles_ready (v_dec v))); cbn [negb andb] in Ha |- *.
  { pose proof (delay_limit_call_clouds th0 now ERR_NODIFOPRECV) as He.
    destruct (delay_limit_call th0 now ERR_NODIFOPRECV) as [t e]. cbn [fst snd] in *.
    rewrite clouds_of_app, G0, He. repeat split; auto. }
  destruct (blen b =? d_msop_len (v_desc v)); cbn [negb andb] in Ha |- *.
  2:{ pose proof (limit_call_clouds th0 now ERR_WRONGMSOPLEN) as He.
      destruct (limit_call th0 now ERR_WRONGMSOPLEN) as [t e]. cbn [fst snd] in *.
      rewrite clouds_of_app, G0, He. repeat split; auto. }
  destruct (match_at b 0 (d_msop_id (v_desc v))); cbn [negb andb] in Ha |- *.
  2:{ pose proof (limit_call_clouds th0 now ERR_WRONGMSOPID) as He.
      destruct (limit_call th0 now ERR_WRONGMSOPID) as [t e]. cbn [fst snd] in *.
      rewrite clouds_of_app, G0, He. repeat split; auto. }
  destruct (b_crc bl && negb (crc_ok tbl b)); cbn [negb andb] in Ha |- *; [|discriminate].
  pose proof (limit_call_clouds th0 now ERR_WRONGCRC32) as He.
  destruct (limit_call th0 now ERR_WRONGCRC32) as [t e]. cbn [fst snd] in *.
  rewrite clouds_of_app, G0, He. repeat split; auto.
Qed.

(* ---- whole sessions *)
(* what one packet event contributes, and whether it empties the open frame first *)
Definition ev_is_msop (b stale : bytes) : bool :=
  (fst (dispatch_bytes b) =? 85) && (snd (dispatch_bytes b) =? 170).

Lemma process_packet_conservation bl tbl v th now host b stale :
  let r := process_packet bl tbl v th now host b stale in
  pts_of (snd r) ++ v_open (fst (fst r)) =
    (if ev_is_msop b stale && overflowed v then [] else v_open v) ++
    (if ev_is_msop b stale && accepts bl tbl v b then msop_pts v host b else []).
Proof.
  unfold process_packet, ev_is_msop. cbv zeta.
  destruct ((_ =? 85) && (_ =? 170)); cbn [andb].
  - pose proof (process_msop_conservation bl tbl v th now host b) as H1. cbv zeta in H1.
    destruct (process_msop bl tbl v th now host b) as [[[[v1 th1] o1] ret] b']. cbn [fst snd] in H1.
    unfold run_pkt_cb. destruct (c_pkt_cb (v_cfg v1)); cbn [fst snd].
    + rewrite pts_of_app. unfold pts_of at 2. cbn [clouds_of flat_map app]. rewrite app_nil_r.
      cbn [v_open set_open]. exact H1.
    + rewrite app_nil_r. exact H1.
  - rewrite app_nil_r.
    destruct ((_ =? 165) && (_ =? 255)); [|reflexivity].
    unfold process_difop. cbv zeta.
    assert (Hcb : forall v1 o1, pts_of o1 = [] -> v_open v1 = v_open v ->
              pts_of (o1 ++ snd (run_pkt_cb v1 b 0 true false)) ++ v_open (fst (run_pkt_cb v1 b 0 true false)) = v_open v).
    { intros v1 o1 Ho Hv. unfold run_pkt_cb. destruct (c_pkt_cb (v_cfg v1)); cbn [fst snd];
        rewrite pts_of_app, Ho; cbn; exact Hv. }
    destruct (negb (blen b =? d_difop_len (v_desc v))).
    { pose proof (pts_limit th now ERR_WRONGDIFOPLEN) as He.
      destruct (limit_call th now ERR_WRONGDIFOPLEN) as [t e]. cbn [fst snd] in *.
      specialize (Hcb v e He eq_refl). destruct (run_pkt_cb v b 0 true false). exact Hcb. }
    destruct (negb (match_at b 0 (d_difop_id (v_desc v)))).
    { pose proof (pts_limit th now ERR_WRONGDIFOPID) as He.
      destruct (limit_call th now ERR_WRONGDIFOPID) as [t e]. cbn [fst snd] in *.
      specialize (Hcb v e He eq_refl). destruct (run_pkt_cb v b 0 true false). exact Hcb. }
    set (v1 := with_dec v _).
    specialize (Hcb v1 [] eq_refl eq_refl). destruct (run_pkt_cb v1 b 0 true false). exact Hcb.
Qed.

(* the accepted packets' points, in arrival order *)
Fixpoint accepted_pts (bl : build) (tbl : list Z) (v : drv) (th : throttles) (evs : list pkt_ev) : list point :=
  match evs with
  | [] => []
  | (now, host, b, stale) :: r =>
      (if ev_is_msop b stale && accepts bl tbl v b then msop_pts v host b else []) ++
      (let '(v1, th1, _) := process_packet bl tbl v th now host b stale in accepted_pts bl tbl v1 th1 r)
  end.

(* the documented discard (open frame beyond 1,000,000 points when an MSOP packet arrives) never fires *)
Fixpoint no_overflow (bl : build) (tbl : list Z) (v : drv) (th : throttles) (evs : list pkt_ev) : Prop :=
  match evs with
  | [] => True
  | (now, host, b, stale) :: r =>
      (ev_is_msop b stale && overflowed v)%bool = false /\
      (let '(v1, th1, _) := process_packet bl tbl v th now host b stale in no_overflow bl tbl v1 th1 r)
  end.

Theorem session_conservation bl tbl : forall evs v th,
  no_overflow bl tbl v th evs ->
  let r := drv_run bl tbl v th evs in
  pts_of (snd r) ++ v_open (fst (fst r)) = v_open v ++ accepted_pts bl tbl v th evs.
Proof.
  induction evs as [|[[[now host] b] stale] evs IH]; intros v th Hno.
  - cbn. rewrite app_nil_r. reflexivity.
  - cbn [drv_run accepted_pts no_overflow] in *. destruct Hno as [Hov Hno].
    pose proof (process_packet_conservation bl tbl v th now host b stale) as H1. cbv zeta in H1.
    rewrite Hov in H1.
    destruct (process_packet bl tbl v th now host b stale) as [[v1 th1] o1]. cbn [fst snd] in H1.
    specialize (IH v1 th1 Hno). cbv zeta in IH.
    destruct (drv_run bl tbl v1 th1 evs) as [[v2 th2] o2]. cbn [fst snd] in *.
    rewrite pts_of_app, <- app_assoc, IH, app_assoc, H1, <- app_assoc. reflexivity.
Qed.

Lemma overflowed_guard v : overflowed v = overflow_guard (Z.of_nat (length (v_open v))).
Proof. reflexivity. Qed.
Lemma overflow_guard_iff n : overflow_guard n = true <-> n > 1000000.
Proof. unfold overflow_guard, CLOUD_POINT_MAX. lia. Qed.

(* ---- the documented discard, stated on its own: it happens exactly when an MSOP-dispatched packet arrives while the open frame
   holds more than 1,000,000 points; then the open frame is dropped as a whole, ERRCODE_CLOUDOVERFLOW is offered to the throttle
   (reported if more than a second has passed since its last report), and what is delivered or open afterwards is what this packet
   contributed; in every other case nothing of the open frame is lost *)
Lemma process_msop_overflow_report bl tbl v th now host b : overflowed v = true ->
  now - (match th_get th ERR_CLOUDOVERFLOW with Some p => p | None => 0 end) > 1 ->
  In (OErr ERR_CLOUDOVERFLOW) (snd (fst (fst (process_msop bl tbl v th now host b)))).
Proof.
  unfold overflowed. intros Hov Hnow. unfold process_msop. cbv zeta. rewrite Hov.
  unfold limit_call at 1. cbv zeta. destruct (now - _ >? 1) eqn:E; [|lia].
  set (v0 := set_open v _ _ _ _ _ _ _).
  destruct (c_wait_for_difop (v_cfg v) && negb (s_angles_ready (v_dec v0))).
  { destruct (delay_limit_call _ now ERR_NODIFOPRECV) as [t e]. cbn [fst snd]. apply in_or_app. left. left. reflexivity. }
  destruct (negb (blen b =? d_msop_len (v_desc v))).
  { destruct (limit_call _ now ERR_WRONGMSOPLEN) as [t e]. cbn [fst snd]. apply in_or_app. left. left. reflexivity. }
  destruct (negb (match_at b 0 (d_msop_id (v_desc v)))).
  { destruct (limit_call _ now ERR_WRONGMSOPID) as [t e]. cbn [fst snd]. apply in_or_app. left. left. reflexivity. }
  destruct (b_crc bl && negb (crc_ok tbl b)).
  { destruct (limit_call _ now ERR_WRONGCRC32) as [t e]. cbn [fst snd]. apply in_or_app. left. left. reflexivity. }
  destruct (d_family (v_desc v)).
  - destruct (feed_blocks _ _ now _) as [[v1 th1] o1]. cbn [fst snd]. apply in_or_app. left. left. reflexivity.
  - destruct (mems_subs now host _ 0 v0 _ b false) as [[[[v1 th1] o1] ret] b']. cbn [fst snd]. apply in_or_app. left. left. reflexivity.
Qed.
