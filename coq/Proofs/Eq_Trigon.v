(* Trigon::sin / Trigon::cos as translated by kt.py from trigon.hpp (the index each of them uses into its
   table) against the model's clamp, and against the extent of the tables Trigon::Trigon really allocates
   (requested sizes and pointer offsets recorded by the probe: Gen/Params_gen.v). *)
From RS Require Import Base.Tac Gen.Kernels_gen Gen.Params_gen Model.Desc Model.Kernels Model.Decoder.
Local Open Scope Z_scope.

Lemma gen_trig_sin_eq a : Trigon_sin a = trig_idx a.
Proof. unfold Trigon_sin, trig_idx, TRIGON_MIN, TRIGON_MAX. destruct ((a <? -9000) || (a >=? 45000)); reflexivity. Qed.
Lemma gen_trig_cos_eq a : Trigon_cos a = trig_idx a.
Proof. unfold Trigon_cos, trig_idx, TRIGON_MIN, TRIGON_MAX. destruct ((a <? -9000) || (a >=? 45000)); reflexivity. Qed.

(* every index the translated code forms lies inside the table it indexes, for every int32 angle (indeed every integer) *)
Lemma gen_trig_sin_in_table a : g_TRIG_SIN_LO <= Trigon_sin a < g_TRIG_SIN_LO + g_TRIG_SIN_LEN.
Proof.
  rewrite gen_trig_sin_eq. unfold g_TRIG_SIN_LO, g_TRIG_SIN_LEN, trig_idx, TRIGON_MIN, TRIGON_MAX.
  destruct (a <? -9000) eqn:E1; destruct (a >=? 45000) eqn:E2; cbn [orb]; lia.
Qed.
Lemma gen_trig_cos_in_table a : g_TRIG_COS_LO <= Trigon_cos a < g_TRIG_COS_LO + g_TRIG_COS_LEN.
Proof.
  rewrite gen_trig_cos_eq. unfold g_TRIG_COS_LO, g_TRIG_COS_LEN, trig_idx, TRIGON_MIN, TRIGON_MAX.
  destruct (a <? -9000) eqn:E1; destruct (a >=? 45000) eqn:E2; cbn [orb]; lia.
Qed.
