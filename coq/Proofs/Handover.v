(* The frame hand-over of LidarDriverImpl - splitFrame(), setPointCloudHeader(), getPointCloud() - regenerated from the source as
   statement trees (Gen/Kernels_gen.v: *_effects, leaves = source text) and given a meaning here: every leaf text is looked up in a
   fixed dictionary of atomic actions on the model's driver state, `if` / `while` / `return` are interpreted as such, and the
   interpreted trees are proved equal to the model's split_frame / get_cloud / header computation for every state.
   A leaf the dictionary does not know, another order of the statements, a changed condition: the equalities below no longer hold. *)
From Coq Require Import String.
From RS Require Import Base.Tac Base.Bytes Base.Dyadic Model.Desc Model.Kernels Model.Decoder Model.Driver Gen.Kernels_gen.
Local Open Scope Z_scope.

(* ---------------------------------------------------------------- a small interpreter for statement trees *)
Section Interp.
  Variable St : Type.
  Variable atom : string -> St -> option St.
  Variable cond : string -> St -> option bool.

  Inductive res := Fail | OutOfFuel | Go (s : St) | Ret (s : St) (what : string).

  (* every step takes one unit of fuel; a `while` runs its body and then itself again *)
  Fixpoint run (fuel : nat) (effs : list eff) (s : St) : res :=
    match fuel with
    | O => OutOfFuel
    | S k =>
        match effs with
        | [] => Go s
        | EStmt t :: r => match atom t s with Some s' => run k r s' | None => Fail end
        | EReturn t :: _ => Ret s t
        | EIf c t e :: r =>
            match cond c s with
            | None => Fail
            | Some b => match run k (if b then t else e) s with Go s' => run k r s' | x => x end
            end
        | EWhile c b :: r =>
            match cond c s with
            | None => Fail
            | Some false => run k r s
            | Some true => match run k b s with Go s' => run k (EWhile c b :: r) s' | x => x end
            end
        end
    end.

  Lemma run_eq k effs s : run (S k) effs s =
    match effs with
    | [] => Go s
    | EStmt t :: r => match atom t s with Some s' => run k r s' | None => Fail end
    | EReturn t :: _ => Ret s t
    | EIf c t e :: r =>
        match cond c s with
        | None => Fail
        | Some b => match run k (if b then t else e) s with Go s' => run k r s' | x => x end
        end
    | EWhile c b :: r =>
        match cond c s with
        | None => Fail
        | Some false => run k r s
        | Some true => match run k b s with Go s' => run k (EWhile c b :: r) s' | x => x end
        end
    end.
  Proof. reflexivity. Qed.

  (* more fuel does not change a result that was reached *)
  Lemma run_mono : forall k effs s r, run k effs s = r -> r <> OutOfFuel -> forall k', (k <= k')%nat -> run k' effs s = r.
  Proof.
    induction k as [|k IH]; intros effs s r Hr Hne k' Hk.
    - cbn in Hr. congruence.
    - destruct k' as [|k']; [lia|]. assert (Hk' : (k <= k')%nat) by lia.
      rewrite run_eq in *. destruct effs as [|e rest]; [exact Hr|].
      destruct e as [t | c t e | c b | t].
      + destruct (atom t s) as [s'|]; [|exact Hr]. apply (IH _ _ _ Hr Hne _ Hk').
      + destruct (cond c s) as [bv|]; [|exact Hr].
        destruct (run k (if bv then t else e) s) as [| |s'|s' w] eqn:E1.
        * rewrite (IH _ _ _ E1 ltac:(discriminate) _ Hk'). exact Hr.
        * congruence.
        * rewrite (IH _ _ _ E1 ltac:(discriminate) _ Hk'). apply (IH _ _ _ Hr Hne _ Hk').
        * rewrite (IH _ _ _ E1 ltac:(discriminate) _ Hk'). exact Hr.
      + destruct (cond c s) as [[|]|]; [| apply (IH _ _ _ Hr Hne _ Hk') | exact Hr].
        destruct (run k b s) as [| |s'|s' w] eqn:E1.
        * rewrite (IH _ _ _ E1 ltac:(discriminate) _ Hk'). exact Hr.
        * congruence.
        * rewrite (IH _ _ _ E1 ltac:(discriminate) _ Hk'). apply (IH _ _ _ Hr Hne _ Hk').
        * rewrite (IH _ _ _ E1 ltac:(discriminate) _ Hk'). exact Hr.
      + exact Hr.
  Qed.
End Interp.
Arguments Fail {St}. Arguments OutOfFuel {St}. Arguments Go {St}. Arguments Ret {St}.

(* ---------------------------------------------------------------- getPointCloud() *)
Record gst := mk_gst {
  g_ans : list (option Z); g_fresh : Z; g_th : throttles; g_out : list out;
  g_cloud : option Z;        (* the local `cloud`: what the get callback returned *)
  g_emptied : bool           (* resize(0) was applied to it *)
}.

Definition g_atom (now : Z) (t : string) (g : gst) : option gst :=
  if (t =? "std::shared_ptr<T_PointCloud> cloud = cb_get_cloud_()")%string then
    match g_ans g with
    | [] => Some (mk_gst [] (g_fresh g + 1) (g_th g) (g_out g ++ [OGet (Some (g_fresh g))]) (Some (g_fresh g)) false)
    | a :: r => Some (mk_gst r (g_fresh g) (g_th g) (g_out g ++ [OGet a]) a false)
    end
  else if (t =? "cloud->points.resize(0)")%string then
    match g_cloud g with
    | Some _ => Some (mk_gst (g_ans g) (g_fresh g) (g_th g) (g_out g) (g_cloud g) true)
    | None => None            (* a null pointer is dereferenced *)
    end
  else if (t =? "LIMIT_CALL(runExceptionCallback(Error(ERRCODE_POINTCLOUDNULL)), 1)")%string then
    let '(th1, e) := limit_call (g_th g) now ERR_POINTCLOUDNULL in
    Some (mk_gst (g_ans g) (g_fresh g) th1 (g_out g ++ e) (g_cloud g) (g_emptied g))
  else None.
Definition g_cond (t : string) (g : gst) : option bool :=
  if (t =? "1")%string then Some true
  else if (t =? "cloud")%string then Some (match g_cloud g with Some _ => true | None => false end)
  else None.

Definition ret_cloud : string := "cloud".
Definition run_get (now : Z) (effs : list eff) (fuel : nat) (g : gst) := run gst (g_atom now) g_cond fuel effs g.

(* the regenerated loop returns what the model's get_cloud computes - the buffer the caller handed over, emptied, the rest of the
   script, the reports - for every script of the get callback (any number of nulls), every throttle state and every clock value *)
Lemma get_cloud_none k rest fresh th now : get_cloud (S k) (None :: rest) fresh th now =
  let '(th1, e) := limit_call th now ERR_POINTCLOUDNULL in
  let '(id, a, f, th2, o) := get_cloud k rest fresh th1 now in (id, a, f, th2, OGet None :: e ++ o).
Proof. reflexivity. Qed.

Theorem getPointCloud_code_is_model now : forall ans fresh th o0,
  let '(id, a, f, th1, o) := get_cloud (S (length ans)) ans fresh th now in
  run_get now LidarDriverImpl_getPointCloud_effects (6 + length ans) (mk_gst ans fresh th o0 None false) =
  Ret (mk_gst a f th1 (o0 ++ o) (Some id) true) "cloud".
Proof.
  induction ans as [|x r IH]; intros fresh th o0.
  - reflexivity.
  - destruct x as [id|].
    + reflexivity.
    + cbn [length]. rewrite get_cloud_none.
      destruct (limit_call th now ERR_POINTCLOUDNULL) as [th1 e] eqn:El.
      specialize (IH fresh th1 ((o0 ++ [OGet None]) ++ e)).
      destruct (get_cloud (S (length r)) r fresh th1 now) as [[[[id a] f] th2] o] eqn:Eg.
      unfold run_get in *. unfold LidarDriverImpl_getPointCloud_effects in *.
      change (6 + S (length r))%nat with (S (6 + length r)). rewrite run_eq.
      cbn [g_cond String.eqb Ascii.eqb Bool.eqb].
      (* one iteration: the callback answers null, the report site, back to the loop head *)
      match goal with |- context [run gst ?fa ?fc (6 + length r) ?body ?g0] =>
        assert (Hb : run gst fa fc (6 + length r) body g0 = Go (mk_gst r fresh th1 ((o0 ++ [OGet None]) ++ e) None false))
      end.
      { apply (run_mono gst _ _ 5); [|discriminate|lia].
        cbn [run g_cond g_atom String.eqb Ascii.eqb Bool.eqb g_ans g_fresh g_th g_out g_cloud g_emptied]. rewrite El. reflexivity. }
      rewrite Hb. cbv beta iota zeta in IH. rewrite IH. rewrite <- !app_assoc. reflexivity.
Qed.

(* ---------------------------------------------------------------- setPointCloudHeader(msg, height, ts) *)
Record hst := mk_hst {
  hd_next_seq : Z;                 (* point_cloud_seq_ *)
  hd_npts : Z;                     (* msg->points.size() *)
  hd_seq : Z; hd_ts : Z; hd_dense : bool; hd_height : Z; hd_width : Z; hd_frame_id : bool   (* fields of msg; frame_id: set or not *)
}.
Definition h_atom (cfg_dense : bool) (height ts : Z) (t : string) (h : hst) : option hst :=
  if (t =? "msg->seq = point_cloud_seq_++")%string then
    Some (mk_hst ((hd_next_seq h + 1) mod 4294967296) (hd_npts h) (hd_next_seq h) (hd_ts h) (hd_dense h) (hd_height h) (hd_width h) (hd_frame_id h))
  else if (t =? "msg->timestamp = ts")%string then
    Some (mk_hst (hd_next_seq h) (hd_npts h) (hd_seq h) ts (hd_dense h) (hd_height h) (hd_width h) (hd_frame_id h))
  else if (t =? "msg->is_dense = driver_param_.decoder_param.dense_points")%string then
    Some (mk_hst (hd_next_seq h) (hd_npts h) (hd_seq h) (hd_ts h) cfg_dense (hd_height h) (hd_width h) (hd_frame_id h))
  else if (t =? "msg->height = 1")%string then
    Some (mk_hst (hd_next_seq h) (hd_npts h) (hd_seq h) (hd_ts h) (hd_dense h) 1 (hd_width h) (hd_frame_id h))
  else if (t =? "msg->width = (uint32_t)msg->points.size()")%string then
    Some (mk_hst (hd_next_seq h) (hd_npts h) (hd_seq h) (hd_ts h) (hd_dense h) (hd_height h) (hd_npts h mod 4294967296) (hd_frame_id h))
  else if (t =? "msg->height = height")%string then
    Some (mk_hst (hd_next_seq h) (hd_npts h) (hd_seq h) (hd_ts h) (hd_dense h) height (hd_width h) (hd_frame_id h))
  else if (t =? "msg->width = (uint32_t)msg->points.size() / msg->height")%string then
    (if hd_height h =? 0 then None          (* division by zero *)
     else Some (mk_hst (hd_next_seq h) (hd_npts h) (hd_seq h) (hd_ts h) (hd_dense h) (hd_height h) ((hd_npts h mod 4294967296) / hd_height h) (hd_frame_id h)))
  else if (t =? "msg->frame_id = driver_param_.frame_id")%string then
    Some (mk_hst (hd_next_seq h) (hd_npts h) (hd_seq h) (hd_ts h) (hd_dense h) (hd_height h) (hd_width h) true)
  else None.
Definition h_cond (t : string) (h : hst) : option bool :=
  if (t =? "msg->is_dense")%string then Some (hd_dense h) else None.

(* the header the model's split_frame gives a cloud of n points *)
Definition model_header (dense : bool) (lasers n seq ts : Z) : Z * Z * bool * Z * Z :=
  (seq, ts, dense, (if dense then 1 else lasers), (if dense then n else n / lasers)).

Theorem setPointCloudHeader_code_is_model dense lasers n seq ts h0 :
  0 <= n < 4294967296 -> 0 < lasers ->
  hd_next_seq h0 = seq -> hd_npts h0 = n ->
  exists h, run hst (h_atom dense lasers ts) h_cond 12 LidarDriverImpl_setPointCloudHeader_effects h0 = Go h /\
            (hd_seq h, hd_ts h, hd_dense h, hd_height h, hd_width h) = model_header dense lasers n seq ts /\
            hd_next_seq h = (seq + 1) mod 4294967296 /\ hd_frame_id h = true.
Proof.
  intros Hn Hl Hs Hp. unfold LidarDriverImpl_setPointCloudHeader_effects, model_header.
  destruct dense; cbn [run h_cond h_atom String.eqb Ascii.eqb Bool.eqb hd_next_seq hd_npts hd_seq hd_ts hd_dense hd_height hd_width hd_frame_id].
  - eexists. split; [reflexivity|]. cbn [hd_next_seq hd_npts hd_seq hd_ts hd_dense hd_height hd_width hd_frame_id].
    rewrite Hs, Hp, (Z.mod_small n) by lia. repeat split; reflexivity.
  - destruct (lasers =? 0) eqn:E; [lia|].
    eexists. split; [reflexivity|]. cbn [hd_next_seq hd_npts hd_seq hd_ts hd_dense hd_height hd_width hd_frame_id].
    rewrite Hs, Hp, (Z.mod_small n) by lia. repeat split; reflexivity.
Qed.

(* ---------------------------------------------------------------- splitFrame(height, ts) *)
(* the local `cloud` and the decoder's cloud are the same object until the decoder is given another one; afterwards the local one
   keeps its points - unless the caller handed the very same buffer back, which getPointCloud() has emptied *)
Record sst := mk_sst {
  s_v : drv; s_th : throttles; s_out : list out;
  s_local : option (Z * list point);   (* None: `cloud` is the decoder's open cloud; Some (buf, pts): an object of its own *)
  s_hdr : option (Z * Z * bool * Z * Z) (* header written on `cloud`: seq, ts, dense, height, width *)
}.
Definition local_pts (s : sst) : list point := match s_local s with None => v_open (s_v s) | Some (_, p) => p end.
Definition local_buf (s : sst) : Z := match s_local s with None => v_open_buf (s_v s) | Some (b, _) => b end.

Definition s_atom (now ts : Z) (t : string) (s : sst) : option sst :=
  let v := s_v s in
  if (t =? "std::shared_ptr<T_PointCloud> cloud = decoder_ptr_->point_cloud_")%string then
    Some (mk_sst v (s_th s) (s_out s) None (s_hdr s))
  else if (t =? "setPointCloudHeader(cloud, height, ts)")%string then
    let n := Z.of_nat (length (local_pts s)) in
    let v' := set_open v (v_dec v) (v_open_buf v) (v_open v) (v_pkt_seq v) ((v_cloud_seq v + 1) mod 4294967296) (v_answers v) (v_fresh v) in
    Some (mk_sst v' (s_th s) (s_out s) (s_local s) (Some (model_header (c_dense (v_cfg v)) (d_laser_num (v_desc v)) n (v_cloud_seq v) ts)))
  else if (t =? "cb_put_cloud_(cloud)")%string then
    match s_hdr s with
    | Some (seq, cts, dense, h, w) =>
        Some (mk_sst v (s_th s) (s_out s ++ [OCloud (mk_cloud seq (local_buf s) h w dense cts (local_pts s))]) (s_local s) (s_hdr s))
    | None => None              (* a cloud without header is handed over *)
    end
  else if (t =? "decoder_ptr_->point_cloud_ = getPointCloud()")%string then
    let '(id, a, f, th1, o) := get_cloud (S (length (v_answers v))) (v_answers v) (v_fresh v) (s_th s) now in
    let old_buf := local_buf s in let old_pts := local_pts s in
    let v' := set_open v (v_dec v) id [] (v_pkt_seq v) (v_cloud_seq v) a f in
    Some (mk_sst v' th1 (s_out s ++ o) (if id =? old_buf then None else Some (old_buf, old_pts)) (s_hdr s))
  else None.
Definition s_cond (t : string) (s : sst) : option bool :=
  if (t =? "cloud->points.size() > 0")%string then Some (match local_pts s with [] => false | _ => true end) else None.

(* the regenerated splitFrame() is the model's split_frame: same driver state afterwards, same throttles, same outputs in the same
   order (the cloud is handed over - with every point it held - before the get callback is asked for the next buffer), for every
   state, script of the get callback and clock value *)
Theorem splitFrame_code_is_model v th now ts :
  exists s, run sst (s_atom now ts) s_cond 8 LidarDriverImpl_splitFrame_effects (mk_sst v th [] None None) = Go s /\
            (s_v s, s_th s, s_out s) = split_frame v th now ts.
Proof.
  unfold LidarDriverImpl_splitFrame_effects, split_frame.
  cbn [run s_cond s_atom String.eqb Ascii.eqb Bool.eqb s_v s_th s_out s_local s_hdr local_pts local_buf].
  destruct (v_open v) as [|p ps] eqn:Eo.
  - eexists. split; [reflexivity|]. reflexivity.
  - cbn [run s_cond s_atom String.eqb Ascii.eqb Bool.eqb s_v s_th s_out s_local s_hdr local_pts local_buf set_open v_open v_open_buf v_answers v_fresh v_cloud_seq v_cfg v_desc v_dec v_pkt_seq model_header].
    rewrite Eo.
    destruct (get_cloud (S (length (v_answers v))) (v_answers v) (v_fresh v) th now) as [[[[id a] f] th1] o] eqn:Eg.
    eexists. split; [reflexivity|].
    cbn [s_v s_th s_out app]. unfold set_open. cbn [v_desc v_cfg v_dec v_pkt_seq v_cloud_seq]. destruct (c_dense (v_cfg v)); reflexivity.
Qed.

(* corollaries in the words of C01 and C11 *)
(* a non-empty open frame is handed over whole - every point it holds, in order - and the decoder goes on with an empty buffer *)
Corollary splitFrame_code_whole_frame v th now ts p ps : v_open v = p :: ps ->
  exists s c rest, run sst (s_atom now ts) s_cond 8 LidarDriverImpl_splitFrame_effects (mk_sst v th [] None None) = Go s /\
                   s_out s = OCloud c :: rest /\ cl_points c = p :: ps /\ cl_seq c = v_cloud_seq v /\ cl_buf c = v_open_buf v /\
                   v_open (s_v s) = [] /\ v_cloud_seq (s_v s) = (v_cloud_seq v + 1) mod 4294967296.
Proof.
  intros Ho. destruct (splitFrame_code_is_model v th now ts) as (s & Hr & He).
  unfold split_frame in He. rewrite Ho in He.
  destruct (get_cloud (S (length (v_answers v))) (v_answers v) (v_fresh v) th now) as [[[[id a] f] th1] o].
  injection He as E1 E2 E3. eexists s, _, _. split; [exact Hr|]. split; [exact E3|].
  rewrite E1. cbn. repeat split; reflexivity.
Qed.
(* a frame boundary on an empty open frame (the first block after stop() emptied it; a dense frame without a valid point) delivers
   nothing, asks the caller for nothing and uses up no sequence number *)
Corollary splitFrame_code_empty_frame v th now ts : v_open v = [] ->
  exists s, run sst (s_atom now ts) s_cond 8 LidarDriverImpl_splitFrame_effects (mk_sst v th [] None None) = Go s /\
            s_v s = v /\ s_th s = th /\ s_out s = [].
Proof.
  intros Ho. destruct (splitFrame_code_is_model v th now ts) as (s & Hr & He).
  unfold split_frame in He. rewrite Ho in He. injection He as E1 E2 E3. exists s. repeat split; assumption.
Qed.
