(* C10: invariants of the packet pipeline model, for every schedule. *)
From RS Require Import Base.Tac Model.Queue.
Local Open Scope nat_scope.

(* ------------------------------------------------------------------ counting occurrences *)
Definition cnt (x : bid) (l : list bid) : nat := count_occ Nat.eq_dec l x.
Lemma cnt_app x a b : cnt x (a ++ b) = cnt x a + cnt x b.
Proof. apply count_occ_app. Qed.
Lemma cnt_nil x : cnt x [] = 0. Proof. reflexivity. Qed.
Lemma cnt_cons x y l : cnt x (y :: l) = (if Nat.eq_dec y x then 1 else 0) + cnt x l.
Proof. unfold cnt. cbn. destruct (Nat.eq_dec y x); reflexivity. Qed.
Lemma cnt_one x y : cnt x [y] = if Nat.eq_dec y x then 1 else 0.
Proof. rewrite cnt_cons, cnt_nil. lia. Qed.
Lemma cnt_in x l : In x l -> 1 <= cnt x l.
Proof. intros H. apply (count_occ_In Nat.eq_dec) in H. unfold cnt. lia. Qed.
Lemma cnt_zero_notin x l : cnt x l = 0 -> ~ In x l.
Proof. intros H Hin. apply cnt_in in Hin. lia. Qed.

Definition powned (p : pstate) : list bid := match p with PGot b | PFilled b _ => [b] | _ => [] end.
Definition cowned (c : cstate) : list bid := match c with CHave b | CDone b => [b] | _ => [] end.
Definition pcount (x : bid) (ps : list pstate) : nat := cnt x (flat_map powned ps).
Definition total (x : bid) (s : sys) : nat :=
  cnt x (q_free s) + cnt x (q_stuffed s) + pcount x (q_prods s) + cnt x (cowned (q_cons s)).

Lemma pcount_upd l : forall i p v x, nth_error l i = Some p ->
  pcount x (upd l i v) + cnt x (powned p) = pcount x l + cnt x (powned v).
Proof.
  induction l as [|a r IH]; intros i p v x H; [destruct i; discriminate|].
  destruct i as [|k]; cbn in H.
  - injection H as ->. unfold pcount. cbn [upd flat_map]. rewrite !cnt_app. lia.
  - unfold pcount in *. cbn [upd flat_map]. rewrite !cnt_app. specialize (IH k p v x H). lia.
Qed.
Lemma pcount_ge l : forall i p x, nth_error l i = Some p -> cnt x (powned p) <= pcount x l.
Proof.
  induction l as [|a r IH]; intros i p x H; [destruct i; discriminate|].
  destruct i as [|k]; cbn in H; unfold pcount in *; cbn [flat_map]; rewrite cnt_app.
  - injection H as ->. lia.
  - specialize (IH k p x H). lia.
Qed.
Lemma nth_upd_same {A} (l : list A) : forall i v, i < length l -> nth_error (upd l i v) i = Some v.
Proof. induction l as [|a r IH]; intros i v H; cbn in H; [lia|]. destruct i; cbn; [reflexivity|]. apply IH. lia. Qed.
Lemma nth_upd_other {A} (l : list A) : forall i j v, i <> j -> nth_error (upd l i v) j = nth_error l j.
Proof.
  induction l as [|a r IH]; intros i j v H; [destruct i; reflexivity|].
  destruct i, j; cbn; try reflexivity; try lia. apply IH. lia.
Qed.
Lemma nth_some_lt {A} (l : list A) i p : nth_error l i = Some p -> i < length l.
Proof. intros H. apply nth_error_Some. congruence. Qed.
Lemma upd_length {A} (l : list A) : forall i v, length (upd l i v) = length l.
Proof. induction l as [|a r IH]; intros i v; [destruct i; reflexivity|]. destruct i; cbn; [reflexivity|]. rewrite IH. reflexivity. Qed.

(* ------------------------------------------------------------------ (1) exclusive ownership *)
Record InvOwn (s : sys) : Prop := {
  I_own : forall x, total x s <= 1;
  I_fresh : forall x, 1 <= total x s -> x < q_next s }.

Ltac cnt_norm := repeat (progress (rewrite ?cnt_app, ?cnt_cons, ?cnt_nil in * )).
Ltac eq_cases :=
  repeat match goal with
         | |- context [Nat.eq_dec ?a ?b] => destruct (Nat.eq_dec a b); try subst
         | H : context [Nat.eq_dec ?a ?b] |- _ => destruct (Nat.eq_dec a b); try subst
         end.
(* the ownership goals after a step: everything is a sum of occurrence counts *)
Ltac own_goal Ho Hf x :=
  specialize (Ho x); specialize (Hf x); unfold total, with_prod in *;
  cbn [q_free q_stuffed q_prods q_cons q_next] in *.

Lemma prod_step_own s i y : InvOwn s -> InvOwn (prod_step s i y).
Proof.
  intros [Ho Hf]. unfold prod_step. destruct (nth_error (q_prods s) i) as [p|] eqn:E; [|split; assumption].
  destruct p as [|b|b z|we sz|sz|].
  - (* get *) destruct (q_free s) as [|b r] eqn:Ef.
    + assert (Hn : total (q_next s) s = 0).
      { destruct (total (q_next s) s) eqn:Et; [reflexivity|]. assert (q_next s < q_next s) by (apply Hf; lia). lia. }
      split; intros x; pose proof (pcount_upd _ _ _ (PGot (q_next s)) x E) as Hp; cbn [powned] in Hp;
        own_goal Ho Hf x; rewrite Ef in *; cnt_norm; eq_cases; lia.
    + split; intros x; pose proof (pcount_upd _ _ _ (PGot b) x E) as Hp; cbn [powned] in Hp;
        own_goal Ho Hf x; rewrite Ef in *; cnt_norm; eq_cases; lia.
  - (* fill *) split; intros x; pose proof (pcount_upd _ _ _ (PFilled b y) x E) as Hp; cbn [powned] in Hp; own_goal Ho Hf x; cnt_norm; eq_cases; lia.
  - (* push *) split; intros x;
      pose proof (pcount_upd _ _ _ (PNotify (match q_stuffed s with [] => true | _ => false end) (length (q_stuffed s ++ [b]))) x E) as Hp;
      cbn [powned] in Hp; own_goal Ho Hf x; cnt_norm; eq_cases; lia.
  - (* notify *)
    assert (Hc : forall x, cnt x (cowned (match q_cons s with CWait => if we then CIdle else CWait | c => c end)) = cnt x (cowned (q_cons s)))
      by (intros x; destruct (q_cons s); try reflexivity; destruct we; reflexivity).
    split; intros x; pose proof (pcount_upd _ _ _ (PCheck sz) x E) as Hp; cbn [powned] in Hp; own_goal Ho Hf x; rewrite Hc; cnt_norm; lia.
  - (* check *) destruct (POOL_MAX <? sz).
    + split; intros x; pose proof (pcount_upd _ _ _ PClear x E) as Hp; cbn [powned] in Hp; own_goal Ho Hf x; cnt_norm; lia.
    + split; intros x; pose proof (pcount_upd _ _ _ PIdle x E) as Hp; cbn [powned] in Hp; own_goal Ho Hf x; cnt_norm; lia.
  - (* clear *) split; intros x; pose proof (pcount_upd _ _ _ PIdle x E) as Hp; cbn [powned] in Hp; own_goal Ho Hf x; cnt_norm; lia.
Qed.

Lemma cons_step_own s : InvOwn s -> InvOwn (cons_step s).
Proof.
  intros [Ho Hf]. unfold cons_step. destruct (q_cons s) as [| |b|b] eqn:Ec.
  - destruct (q_stuffed s) as [|b r] eqn:Es; [|destruct (g_pending s) as [|e pr]];
      split; intros x; own_goal Ho Hf x; rewrite ?Ec, ?Es in *; cbn [cowned] in *; cnt_norm; eq_cases; lia.
  - split; assumption.
  - split; intros x; own_goal Ho Hf x; rewrite ?Ec in *; cbn [cowned] in *; cnt_norm; eq_cases; lia.
  - split; intros x; own_goal Ho Hf x; rewrite ?Ec in *; cbn [cowned] in *; cnt_norm; eq_cases; lia.
Qed.

Lemma timeout_step_own s : InvOwn s -> InvOwn (timeout_step s).
Proof.
  intros [Ho Hf]. unfold timeout_step. destruct (q_cons s) eqn:Ec; try (split; assumption).
  split; intros x; own_goal Ho Hf x; rewrite ?Ec in *; cbn [cowned] in *; cnt_norm; lia.
Qed.

Lemma step_own s a : InvOwn s -> InvOwn (step s a).
Proof. destruct a; cbn [step]; [apply prod_step_own | apply cons_step_own | apply timeout_step_own]. Qed.

(* a buffer a producer holds is in no queue and not with the consumer, and two producers never hold the same one *)
Lemma own_exclusive s i p b : InvOwn s -> nth_error (q_prods s) i = Some p -> In b (powned p) ->
  ~ In b (q_free s) /\ ~ In b (q_stuffed s) /\ ~ In b (cowned (q_cons s)) /\
  (forall j p', j <> i -> nth_error (q_prods s) j = Some p' -> ~ In b (powned p')).
Proof.
  intros [Ho _] E Hin. specialize (Ho b). unfold total in Ho.
  pose proof (pcount_ge _ _ _ b E) as Hge. apply cnt_in in Hin.
  repeat split; try (apply cnt_zero_notin; lia).
  intros j p' Hj Ej Hin'. apply cnt_in in Hin'.
  (* two distinct positions both contributing *)
  assert (H2 : forall l i j p p', i <> j -> nth_error l i = Some p -> nth_error l j = Some p' -> cnt b (powned p) + cnt b (powned p') <= pcount b l).
  { clear. induction l as [|a r IH]; intros i j p p' Hn E1 E2; [destruct i; discriminate|].
    unfold pcount in *. cbn [flat_map]. rewrite cnt_app.
    destruct i as [|i], j as [|j]; cbn in E1, E2; try lia.
    - injection E1 as ->. pose proof (pcount_ge r j p' b E2). unfold pcount in H. lia.
    - injection E2 as ->. pose proof (pcount_ge r i p b E1). unfold pcount in H. lia.
    - specialize (IH i j p p' ltac:(lia) E1 E2). lia. }
  specialize (H2 (q_prods s) i j p p' ltac:(lia) E Ej). lia.
Qed.

Lemma nth_upd_inv {A} (l : list A) i j v p : nth_error (upd l i v) j = Some p ->
  (j = i /\ p = v) \/ (j <> i /\ nth_error l j = Some p).
Proof.
  intros H. destruct (Nat.eq_dec j i) as [->|Hn].
  - left. split; [reflexivity|]. assert (i < length l) by (rewrite <- (upd_length l i v); eapply nth_some_lt; exact H).
    rewrite nth_upd_same in H by assumption. congruence.
  - right. split; [exact Hn|]. rewrite nth_upd_other in H by lia. exact H.
Qed.

(* ------------------------------------------------------------------ (2) buffer contents *)
Record InvMem (s : sys) : Prop := {
  I_mem : map (q_mem s) (q_stuffed s) = map snd (g_pending s);
  I_filled : forall i b y, nth_error (q_prods s) i = Some (PFilled b y) -> q_mem s b = y;
  I_held : match q_cons s with
           | CHave b => exists e, g_held s = [e] /\ q_mem s b = snd e
           | _ => g_held s = []
           end }.

Lemma map_set_mem m b y l : ~ In b l -> map (set_mem m b y) l = map m l.
Proof.
  intros H. apply map_ext_in. intros a Ha. unfold set_mem. destruct (Nat.eqb a b) eqn:E; [|reflexivity].
  apply Nat.eqb_eq in E. subst. contradiction.
Qed.

Lemma prod_step_mem s i y : InvOwn s -> InvMem s -> InvMem (prod_step s i y).
Proof.
  intros HO [Hm Hfl Hh]. unfold prod_step. destruct (nth_error (q_prods s) i) as [p|] eqn:E; [|split; assumption].
  assert (Hlt : i < length (q_prods s)) by (eapply nth_some_lt; exact E).
  destruct p as [|b|b z|we sz|sz|].
  - destruct (q_free s) as [|b r]; (split; cbn [q_mem q_stuffed g_pending q_prods q_cons g_held]; [exact Hm | | exact Hh]);
      intros j b' y' Hj; apply nth_upd_inv in Hj; destruct Hj as [[_ Hc]|[_ Hj]]; try discriminate; eapply Hfl; exact Hj.
  - (* fill *)
    destruct (own_exclusive s i (PGot b) b HO E ltac:(now left)) as (_ & Hns & Hnc & Hnp).
    split; cbn [q_mem q_stuffed g_pending q_prods q_cons g_held].
    + rewrite map_set_mem by exact Hns. exact Hm.
    + intros j b' y' Hj. apply nth_upd_inv in Hj. destruct Hj as [[_ Hc]|[Hne Hj]].
      * injection Hc as -> ->. unfold set_mem. rewrite Nat.eqb_refl. reflexivity.
      * assert (b' <> b) by (intros ->; apply (Hnp j (PFilled b y') Hne Hj); now left).
        unfold set_mem. destruct (Nat.eqb b' b) eqn:Eb; [apply Nat.eqb_eq in Eb; contradiction|]. eapply Hfl; exact Hj.
    + destruct (q_cons s) as [| |b'|b']; try exact Hh.
      destruct Hh as (e & He & Hme). exists e. split; [exact He|].
      unfold set_mem. destruct (Nat.eqb b' b) eqn:Eb; [|exact Hme]. apply Nat.eqb_eq in Eb. subst. exfalso. apply Hnc. now left.
  - (* push *) split; cbn [q_mem q_stuffed g_pending q_prods q_cons g_held].
    + rewrite !map_app, Hm. cbn [map snd]. rewrite (Hfl i b z E). reflexivity.
    + intros j b' y' Hj. apply nth_upd_inv in Hj. destruct Hj as [[_ Hc]|[_ Hj]]; try discriminate. eapply Hfl; exact Hj.
    + exact Hh.
  - (* notify *) split; cbn [q_mem q_stuffed g_pending q_prods q_cons g_held].
    + exact Hm.
    + intros j b' y' Hj. apply nth_upd_inv in Hj. destruct Hj as [[_ Hc]|[_ Hj]]; try discriminate. eapply Hfl; exact Hj.
    + destruct (q_cons s); try exact Hh. destruct we; exact Hh.
  - destruct (POOL_MAX <? sz); (split; cbn [with_prod q_mem q_stuffed g_pending q_prods q_cons g_held]; [exact Hm | | exact Hh]);
      intros j b' y' Hj; apply nth_upd_inv in Hj; destruct Hj as [[_ Hc]|[_ Hj]]; try discriminate; eapply Hfl; exact Hj.
  - split; cbn [q_mem q_stuffed g_pending q_prods q_cons g_held]; [reflexivity | | exact Hh].
    intros j b' y' Hj; apply nth_upd_inv in Hj; destruct Hj as [[_ Hc]|[_ Hj]]; try discriminate; eapply Hfl; exact Hj.
Qed.

Lemma cons_step_mem s : InvMem s -> InvMem (cons_step s).
Proof.
  intros [Hm Hfl Hh]. unfold cons_step. destruct (q_cons s) as [| |b|b] eqn:Ec.
  - revert Hm. destruct (q_stuffed s) as [|b r] eqn:Es; [|destruct (g_pending s) as [|e pr] eqn:Ep]; intros Hm.
    + split; cbn [q_mem q_stuffed g_pending q_prods q_cons g_held]; [exact Hm | exact Hfl | exact Hh].
    + discriminate Hm.
    + cbn [map] in Hm. injection Hm as Hb Hr.
      split; cbn [q_mem q_stuffed g_pending q_prods q_cons g_held]; [exact Hr | exact Hfl | exists e; split; [reflexivity | exact Hb]].
  - split; [exact Hm | exact Hfl | rewrite Ec; exact Hh].
  - split; cbn [q_mem q_stuffed g_pending q_prods q_cons g_held]; [exact Hm | exact Hfl | reflexivity].
  - split; cbn [q_mem q_stuffed g_pending q_prods q_cons g_held]; [exact Hm | exact Hfl | exact Hh].
Qed.

Lemma timeout_step_mem s : InvMem s -> InvMem (timeout_step s).
Proof.
  intros [Hm Hfl Hh]. unfold timeout_step. destruct (q_cons s) eqn:Ec; try (split; [exact Hm | exact Hfl | rewrite Ec; exact Hh]).
  split; cbn [q_mem q_stuffed g_pending q_prods q_cons g_held]; [exact Hm | exact Hfl | exact Hh].
Qed.

(* ------------------------------------------------------------------ (3) history: order, at-most-once, accounting *)
Fixpoint incr (l : list entry) : Prop :=
  match l with [] => True | e :: r => Forall (fun e' => fst e < fst e') r /\ incr r end.

Lemma incr_app_one l e : incr l -> Forall (fun e' => fst e' < fst e) l -> incr (l ++ [e]).
Proof.
  induction l as [|a r IH]; intros Hi Hf; cbn; [split; [constructor|exact I]|].
  destruct Hi as [Ha Hr]. inversion Hf as [|? ? Hae Hre]; subst. split.
  - apply Forall_app. split; [exact Ha | constructor; [exact Hae | constructor]].
  - apply IH; assumption.
Qed.
Lemma incr_app_l a b : incr (a ++ b) -> incr a.
Proof.
  induction a as [|x r IH]; intros H; [exact I|]. cbn in *. destruct H as [Hf Hr]. split; [|apply IH; exact Hr].
  apply Forall_app in Hf. apply Hf.
Qed.
Lemma incr_app_disj a b e : incr (a ++ b) -> In e a -> In e b -> False.
Proof.
  induction a as [|x r IH]; intros H Ha Hb; [contradiction|]. cbn in H. destruct H as [Hf Hr].
  destruct Ha as [->|Ha]; [|exact (IH Hr Ha Hb)].
  rewrite Forall_forall in Hf. specialize (Hf e ltac:(apply in_or_app; right; exact Hb)). lia.
Qed.
Lemma incr_NoDup l : incr l -> NoDup (map fst l).
Proof.
  induction l as [|x r IH]; intros H; [constructor|]. cbn in *. destruct H as [Hf Hr]. constructor; [|apply IH; exact Hr].
  intros Hin. apply in_map_iff in Hin. destruct Hin as (e & He & Hin). rewrite Forall_forall in Hf. specialize (Hf e Hin). lia.
Qed.

Definition live (s : sys) : list entry := g_decoded s ++ g_held s ++ g_pending s.

Record InvHist (s : sys) : Prop := {
  I_seqs : map fst (g_pushed s) = seq 0 (length (g_pushed s));
  I_sorted : incr (live s);
  I_live_in : incl (live s) (g_pushed s);
  I_drop_in : incl (g_dropped s) (g_pushed s);
  I_part : forall e, In e (g_pushed s) -> In e (live s) \/ In e (g_dropped s);
  I_disj : forall e, In e (live s) -> ~ In e (g_dropped s) }.

Lemma pushed_lt s e : map fst (g_pushed s) = seq 0 (length (g_pushed s)) -> In e (g_pushed s) -> fst e < length (g_pushed s).
Proof. intros Hs Hin. apply (in_map fst) in Hin. rewrite Hs in Hin. apply in_seq in Hin. lia. Qed.

Lemma hist_same s s' : g_pushed s' = g_pushed s -> live s' = live s -> g_dropped s' = g_dropped s -> InvHist s -> InvHist s'.
Proof. intros E1 E2 E3 [H1 H2 H3 H4 H5 H6]. split; rewrite ?E1, ?E2, ?E3; assumption. Qed.

Lemma prod_step_hist s i y : InvHist s -> InvHist (prod_step s i y).
Proof.
  intros H. unfold prod_step. destruct (nth_error (q_prods s) i) as [p|] eqn:E; [|exact H].
  destruct p as [|b|b z|we sz|sz|]; try (apply (hist_same s); [reflexivity .. | exact H]).
  - destruct (q_free s); (apply (hist_same s); [reflexivity .. | exact H]).
  - (* push *) destruct H as [H1 H2 H3 H4 H5 H6].
    set (e := (length (g_pushed s), z)).
    assert (El : forall d h p, d ++ h ++ (p ++ [e]) = (d ++ h ++ p) ++ [e]) by (intros; rewrite !app_assoc; reflexivity).
    split; unfold live in *; cbn [g_pushed g_pending g_held g_decoded g_dropped]; fold e; rewrite ?El.
    + rewrite map_app, app_length. cbn [map fst length e]. rewrite Nat.add_1_r, seq_S. f_equal. exact H1.
    + apply incr_app_one; [exact H2|]. apply Forall_forall. intros e' He'. cbn [fst e]. apply (pushed_lt s e' H1). apply H3. exact He'.
    + intros e' He'. apply in_app_or in He'. apply in_or_app. destruct He' as [He'|He']; [left; apply H3; exact He' | right; exact He'].
    + intros e' He'. apply in_or_app. left. apply H4. exact He'.
    + intros e' He'. apply in_app_or in He'. destruct He' as [He'|[<-|[]]].
      * destruct (H5 e' He') as [Hl|Hd]; [left; apply in_or_app; left; exact Hl | right; exact Hd].
      * left. apply in_or_app. right. now left.
    + intros e' He' Hd. apply in_app_or in He'. destruct He' as [He'|[<-|[]]]; [exact (H6 e' He' Hd)|].
      apply H4 in Hd. apply (pushed_lt s e H1) in Hd. cbn [fst e] in Hd. lia.
  - destruct (POOL_MAX <? sz); (apply (hist_same s); [reflexivity .. | exact H]).
  - (* clear *) destruct H as [H1 H2 H3 H4 H5 H6].
    assert (El : live s = (g_decoded s ++ g_held s ++ []) ++ g_pending s) by (unfold live; rewrite app_nil_r, app_assoc; reflexivity).
    split; unfold live in *; cbn [g_pushed g_pending g_held g_decoded g_dropped].
    + exact H1.
    + rewrite El in H2. apply incr_app_l in H2. exact H2.
    + intros e He. apply H3. rewrite app_nil_r in He. apply in_app_or in He. apply in_or_app. destruct He as [He|He]; [left; exact He|right; apply in_or_app; left; exact He].
    + intros e He. apply in_app_or in He. destruct He as [He|He]; [apply H4; exact He|]. apply H3. apply in_or_app. right. apply in_or_app. right. exact He.
    + intros e He. destruct (H5 e He) as [Hl|Hd]; [|right; apply in_or_app; left; exact Hd].
      apply in_app_or in Hl. destruct Hl as [Hl|Hl]; [left; apply in_or_app; left; exact Hl|].
      apply in_app_or in Hl. destruct Hl as [Hl|Hl]; [left; apply in_or_app; right; apply in_or_app; left; exact Hl | right; apply in_or_app; right; exact Hl].
    + intros e He Hd. apply in_app_or in Hd. destruct Hd as [Hd|Hd].
      * apply (H6 e); [|exact Hd]. rewrite app_nil_r in He. apply in_app_or in He. apply in_or_app. destruct He as [He|He]; [left; exact He|right; apply in_or_app; left; exact He].
      * rewrite El in H2. exact (incr_app_disj _ _ e H2 He Hd).
Qed.

Lemma cons_step_hist s : InvMem s -> InvHist s -> InvHist (cons_step s).
Proof.
  intros [Hm Hfl Hh] H. unfold cons_step. destruct (q_cons s) as [| |b|b] eqn:Ec.
  - destruct (q_stuffed s) as [|b r]; [apply (hist_same s); [reflexivity .. | exact H]|].
    destruct (g_pending s) as [|e pr] eqn:Ep; [apply (hist_same s); [reflexivity | unfold live; cbn; rewrite Ep; reflexivity | reflexivity | exact H]|].
    apply (hist_same s); [reflexivity | | reflexivity | exact H].
    unfold live. cbn [g_pushed g_pending g_held g_decoded g_dropped]. rewrite Hh, Ep. reflexivity.
  - exact H.
  - destruct Hh as (e & He & Hme). apply (hist_same s); [reflexivity | | reflexivity | exact H].
    unfold live. cbn [g_pushed g_pending g_held g_decoded g_dropped]. rewrite He. cbn [map app]. rewrite Hme.
    destruct e as [n x]. cbn [fst snd]. rewrite <- app_assoc. reflexivity.
  - apply (hist_same s); [reflexivity .. | exact H].
Qed.

Lemma timeout_step_hist s : InvHist s -> InvHist (timeout_step s).
Proof. intros H. unfold timeout_step. destruct (q_cons s); try exact H. apply (hist_same s); [reflexivity .. | exact H]. Qed.

(* ------------------------------------------------------------------ (4) the overflow rule *)
Record InvOver (s : sys) : Prop := {
  I_rep : 0 < g_reports s -> POOL_MAX < g_maxsz s;
  I_drop : g_dropped s <> [] -> 0 < g_reports s;
  I_clr : forall i, nth_error (q_prods s) i = Some PClear -> 0 < g_reports s;
  I_sz : forall i sz, (nth_error (q_prods s) i = Some (PCheck sz) \/ exists we, nth_error (q_prods s) i = Some (PNotify we sz)) -> sz <= g_maxsz s }.

Lemma prod_step_over s i y : InvOver s -> InvOver (prod_step s i y).
Proof.
  intros [Hr Hd Hc Hs]. unfold prod_step. destruct (nth_error (q_prods s) i) as [p|] eqn:E; [|split; assumption].
  assert (Hsz' : forall v, (forall sz, v <> PCheck sz) -> (forall we sz, v <> PNotify we sz) ->
            forall j sz, (nth_error (upd (q_prods s) i v) j = Some (PCheck sz) \/ exists we, nth_error (upd (q_prods s) i v) j = Some (PNotify we sz)) -> sz <= g_maxsz s).
  { intros v Hv1 Hv2 j sz [Hj|[we Hj]]; apply nth_upd_inv in Hj; destruct Hj as [[_ Hj]|[_ Hj]]; subst;
      try (exfalso; eapply Hv1; reflexivity); try (exfalso; eapply Hv2; reflexivity); apply (Hs j); [left; exact Hj | right; exists we; exact Hj]. }
  assert (Hc' : forall v, v <> PClear -> forall j, nth_error (upd (q_prods s) i v) j = Some PClear -> 0 < g_reports s).
  { intros v Hv j Hj. apply nth_upd_inv in Hj. destruct Hj as [[_ Hj]|[_ Hj]]; [subst; contradiction | exact (Hc j Hj)]. }
  destruct p as [|b|b z|we sz|sz|].
  - destruct (q_free s); (split; cbn [g_reports g_maxsz g_dropped q_prods]; [exact Hr | exact Hd | apply Hc'; discriminate | apply Hsz'; discriminate]).
  - split; cbn [g_reports g_maxsz g_dropped q_prods]; [exact Hr | exact Hd | apply Hc'; discriminate | apply Hsz'; discriminate].
  - (* push *) split; cbn [g_reports g_maxsz g_dropped q_prods].
    + intros H. specialize (Hr H). lia.
    + exact Hd.
    + apply Hc'. discriminate.
    + intros j sz [Hj|[we Hj]]; apply nth_upd_inv in Hj; destruct Hj as [[_ Hj]|[_ Hj]]; try discriminate.
      * assert (sz <= g_maxsz s) by (apply (Hs j); left; exact Hj). lia.
      * injection Hj as _ ->. lia.
      * assert (sz <= g_maxsz s) by (apply (Hs j); right; exists we; exact Hj). lia.
  - (* notify *) split; cbn [g_reports g_maxsz g_dropped q_prods]; [exact Hr | exact Hd | apply Hc'; discriminate |].
    intros j sz' [Hj|[we' Hj]]; apply nth_upd_inv in Hj; destruct Hj as [[_ Hj]|[_ Hj]]; try discriminate.
    + injection Hj as ->. apply (Hs i). right. exists we. exact E.
    + apply (Hs j). left. exact Hj.
    + apply (Hs j). right. exists we'. exact Hj.
  - (* check *) destruct (POOL_MAX <? sz) eqn:El.
    + split; cbn [g_reports g_maxsz g_dropped q_prods].
      * intros _. assert (sz <= g_maxsz s) by (apply (Hs i); left; exact E). lia.
      * intros _. lia.
      * intros _ _. lia.
      * apply Hsz'; discriminate.
    + split; cbn [with_prod g_reports g_maxsz g_dropped q_prods]; [exact Hr | exact Hd | apply Hc'; discriminate | apply Hsz'; discriminate].
  - (* clear *) split; cbn [g_reports g_maxsz g_dropped q_prods]; [exact Hr | intros _; exact (Hc i E) | apply Hc'; discriminate | apply Hsz'; discriminate].
Qed.

Lemma cons_step_over s : InvOver s -> InvOver (cons_step s).
Proof.
  intros [Hr Hd Hc Hs]. unfold cons_step. destruct (q_cons s); try (split; assumption).
  destruct (q_stuffed s); [split; assumption|]. destruct (g_pending s); split; assumption.
Qed.
Lemma timeout_step_over s : InvOver s -> InvOver (timeout_step s).
Proof. intros [Hr Hd Hc Hs]. unfold timeout_step. destruct (q_cons s); split; assumption. Qed.

(* ------------------------------------------------------------------ (5) no lost wake-up *)
Definition InvWake (s : sys) : Prop :=
  q_cons s = CWait -> q_stuffed s = [] \/ exists i sz, nth_error (q_prods s) i = Some (PNotify true sz).

Lemma prod_step_wake s i y : InvWake s -> InvWake (prod_step s i y).
Proof.
  intros Hw. unfold prod_step. destruct (nth_error (q_prods s) i) as [p|] eqn:E; [|exact Hw].
  assert (Hlt : i < length (q_prods s)) by (eapply nth_some_lt; exact E).
  assert (Keep : forall v, (forall sz, p <> PNotify true sz) -> q_cons s = CWait ->
            q_stuffed s = [] \/ exists j sz, nth_error (upd (q_prods s) i v) j = Some (PNotify true sz)).
  { intros v Hp Hc. destruct (Hw Hc) as [Hl|(j & sz & Hj)]; [left; exact Hl|]. right. exists j, sz.
    rewrite nth_upd_other; [exact Hj|]. intros ->. rewrite E in Hj. injection Hj as ->. exact (Hp sz eq_refl). }
  destruct p as [|b|b z|we sz|sz|]; unfold InvWake.
  - destruct (q_free s); cbn [q_cons q_stuffed q_prods]; intros Hc; apply Keep; [discriminate | exact Hc | discriminate | exact Hc].
  - cbn [q_cons q_stuffed q_prods]. intros Hc. apply Keep; [discriminate | exact Hc].
  - (* push *) cbn [q_cons q_stuffed q_prods]. intros Hc. right.
    destruct (q_stuffed s) as [|b0 r] eqn:Es.
    + exists i, (length ([] ++ [b])). apply nth_upd_same. exact Hlt.
    + destruct (Hw Hc) as [Hl|(j & sz & Hj)]; [congruence|]. exists j, sz.
      rewrite nth_upd_other; [exact Hj|]. intros ->. rewrite E in Hj. discriminate.
  - (* notify *) cbn [q_cons q_stuffed q_prods]. destruct (q_cons s) eqn:Ec; try discriminate.
    destruct we; [discriminate|]. intros _.
    destruct (Hw Ec) as [Hl|(j & sz' & Hj)]; [left; exact Hl|]. right. exists j, sz'.
    rewrite nth_upd_other; [exact Hj|]. intros ->. rewrite E in Hj. discriminate.
  - destruct (POOL_MAX <? sz); cbn [with_prod q_cons q_stuffed q_prods]; intros Hc; apply Keep; [discriminate | exact Hc | discriminate | exact Hc].
  - cbn [q_cons q_stuffed q_prods]. intros _. left. reflexivity.
Qed.

Lemma cons_step_wake s : InvMem s -> InvWake s -> InvWake (cons_step s).
Proof.
  intros [Hm _ _] Hw. unfold cons_step, InvWake. destruct (q_cons s) eqn:Ec.
  - destruct (q_stuffed s) as [|b r] eqn:Es; [cbn; intros _; left; reflexivity|].
    destruct (g_pending s); [discriminate Hm|]. cbn. discriminate.
  - exact Hw.
  - cbn. discriminate.
  - cbn. discriminate.
Qed.
Lemma timeout_step_wake s : InvWake s -> InvWake (timeout_step s).
Proof. intros Hw. unfold timeout_step, InvWake. destruct (q_cons s) eqn:Ec; try exact Hw. cbn. discriminate. Qed.

(* ------------------------------------------------------------------ all together, every schedule *)
Definition Inv (s : sys) : Prop := InvOwn s /\ InvMem s /\ InvHist s /\ InvOver s /\ InvWake s.

Lemma inv_init n : Inv (init n).
Proof.
  assert (Hp : forall x, pcount x (repeat PIdle n) = 0) by (intros x; unfold pcount; induction n as [|k IH]; [reflexivity | exact IH]).
  assert (Hn : forall i p, nth_error (repeat PIdle n) i = Some p -> p = PIdle).
  { intros i p H. apply nth_error_In in H. apply repeat_spec in H. exact H. }
  assert (Ht : forall x, total x (init n) = 0) by (intros x; unfold total, init; cbn [q_free q_stuffed q_prods q_cons cowned]; rewrite Hp; reflexivity).
  split; [|split; [|split; [|split]]].
  - split; intros x; rewrite Ht; lia.
  - split; cbn [init q_mem q_stuffed g_pending q_prods q_cons g_held]; [reflexivity | | reflexivity].
    intros i b y H. apply Hn in H. discriminate.
  - split; unfold live; cbn [init g_pushed g_pending g_held g_decoded g_dropped app map length seq incr]; try reflexivity; try exact I; intros e [].
  - split; cbn [init g_reports g_maxsz g_dropped q_prods].
    + lia.
    + intros H. contradiction.
    + intros i H. apply Hn in H. discriminate.
    + intros i sz [H|[we H]]; apply Hn in H; discriminate.
  - intros H. discriminate.
Qed.

Lemma inv_step s a : Inv s -> Inv (step s a).
Proof.
  intros (HO & HM & HH & HV & HW). destruct a as [i x| |]; cbn [step].
  - split; [|split; [|split; [|split]]]; [apply prod_step_own | apply prod_step_mem | apply prod_step_hist | apply prod_step_over | apply prod_step_wake]; assumption.
  - split; [|split; [|split; [|split]]]; [apply cons_step_own | apply cons_step_mem | apply cons_step_hist | apply cons_step_over | apply cons_step_wake]; assumption.
  - split; [|split; [|split; [|split]]]; [apply timeout_step_own | apply timeout_step_mem | apply timeout_step_hist | apply timeout_step_over | apply timeout_step_wake]; assumption.
Qed.

Theorem inv_run sched : forall s, Inv s -> Inv (run s sched).
Proof. induction sched as [|a r IH]; intros s H; [exact H|]. cbn [run fold_left]. apply IH. apply inv_step. exact H. Qed.

Theorem inv_reachable n sched : Inv (run (init n) sched).
Proof. apply inv_run. apply inv_init. Qed.
