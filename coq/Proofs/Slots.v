(* C01/C07: what one block / one packet emits, slot by slot. *)
From RS Require Import Base.Tac Base.Bytes Base.Dyadic Model.Desc Model.Kernels Model.Decoder Model.Driver.
Local Open Scope Z_scope.

(* ---- one mechanical channel slot *)
Definition laser_of (d : desc) (chan : Z) : Z := if d_is16 d then chan mod 16 else chan.

Lemma mech_channel_fields d c s t w sect b blk_off block_az az_diff block_ts chan :
  let p := mech_channel d c s t w sect b blk_off block_az az_diff block_ts chan in
  p_ring p = nthZ (s_ring s) (laser_of d chan) /\
  p_ts p = block_ts + nthZ (t_chan_ns t) chan /\
  p_int p = (if p_valid p then u8 b (blk_off + d_off_blk_chan d + chan * d_sizeof_chan d + d_off_chan_int d) else 0).
Proof.
  unfold mech_channel, laser_of. cbv zeta.
  destruct (dist_in w _ && az_in sect _); cbn [p_ring p_ts p_int p_valid p_proj]; repeat split; reflexivity.
Qed.

(* the validity decision of a slot *)
Lemma mech_channel_valid d c s t w sect b blk_off block_az az_diff block_ts chan :
  let raw := be16 b (blk_off + d_off_blk_chan d + chan * d_sizeof_chan d + d_off_chan_dist d) in
  let adv := dy_trunc (dy_mul_r 24 (dy_of_Z az_diff) (nthdy (t_chan_azis t) chan)) in
  let ahf0 := block_az + adv + nthZ (s_horiz s) (laser_of d chan) in
  let ahf := if s_reversal s then 36000 - ahf0 else ahf0 in
  p_valid (mech_channel d c s t w sect b blk_off block_az az_diff block_ts chan) =
  dist_in w (dy_mul_r 24 (dy_of_Z raw) (t_dist_res t)) && az_in sect ahf.
Proof.
  unfold mech_channel, laser_of. cbv zeta.
  destruct (dist_in w _ && az_in sect _); reflexivity.
Qed.

(* with NaN points kept nothing is filtered: one point per channel *)
Lemma keep_all c l : c_dense c = false -> filter (keep c) l = l.
Proof.
  intros Hd. induction l as [|p l IH]; [reflexivity|].
  cbn [filter]. unfold keep at 1. rewrite Hd, orb_true_r. rewrite IH. reflexivity.
Qed.
(* dense output: exactly the valid points *)
Lemma keep_dense c l : c_dense c = true -> filter (keep c) l = filter p_valid l.
Proof.
  intros Hd. apply filter_ext. intros p. unfold keep. rewrite Hd. cbn. apply orb_false_r.
Qed.

(* ---- the blocks of one mechanical packet *)
Fixpoint good_blocks (d : desc) (b : bytes) (blk : Z) (n : nat) : nat :=
  match n with
  | O => O
  | S k => if match_at b (d_off_blocks d + blk * d_sizeof_block d) (d_block_id d) then S (good_blocks d b (blk + 1) k) else O
  end.

Lemma mech_blocks_shape d c t w sect b pkt_ts : forall its blk s,
  let r := mech_blocks d c t w sect b pkt_ts its blk s in
  length (snd (fst r)) = good_blocks d b blk (length its) /\
  (snd r = true <-> (good_blocks d b blk (length its) < length its)%nat) /\
  (c_dense c = false -> Forall (fun bo => length (bo_points bo) = Z.to_nat (d_chans_per_blk d)) (snd (fst r))).
Proof.
  induction its as [|[az_diff ts_off] rest IH]; intros blk s.
  - cbn. repeat split; try constructor; intros H; try discriminate; lia.
  - cbn [mech_blocks good_blocks length].
    destruct (match_at b (d_off_blocks d + blk * d_sizeof_block d) (d_block_id d)); cbn [negb].
    + destruct (split_step c s _) as [sp ss].
      set (s' := upd_mech_blk _ _ _ _).
      specialize (IH (blk + 1) s'). cbv zeta in IH.
      destruct (mech_blocks d c t w sect b pkt_ts rest (blk + 1) s') as [[s'' outs] bad].
      cbn [fst snd length] in *. destruct IH as (L & Bd & F).
      split; [lia|]. split; [rewrite Bd; lia|].
      intros Hd. constructor; [|auto].
      cbn [bo_points]. rewrite (keep_all c _ Hd), map_length, map_length, seq_length. reflexivity.
    + cbn [fst snd length]. split; [reflexivity|]. split; [split; intros; [lia|reflexivity]|]. intros _. constructor.
Qed.
