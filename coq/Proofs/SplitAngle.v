(* C03: facts about the split-by-angle kernel and azimuth streams. *)
From RS Require Import Base.Tac Model.Kernels Model.Spec.
Local Open Scope Z_scope.

Lemma crossesb_iff s p a : crossesb s p a = true <-> crosses s p a.
Proof. unfold crossesb, crosses. cbv zeta. lia. Qed.

Lemma step_iff s p a :
  0 <= s < 36000 -> 0 <= p < 36000 -> 0 <= a < 36000 ->
  (fst (split_angle_step s p a) = true <-> crosses s p a) /\ snd (split_angle_step s p a) = a.
Proof.
  intros Hs Hp Ha. unfold split_angle_step, crosses. cbn [fst snd]. split; [|reflexivity].
  destruct (a <? p) eqn:E; cbn [andb orb]; lia.
Qed.

Lemma step_b s p a :
  0 <= s < 36000 -> 0 <= p < 36000 -> 0 <= a < 36000 ->
  fst (split_angle_step s p a) = crossesb s p a.
Proof.
  intros Hs Hp Ha. destruct (step_iff s p a Hs Hp Ha) as [H _].
  rewrite <- crossesb_iff in H.
  destruct (fst (split_angle_step s p a)), (crossesb s p a); intuition congruence.
Qed.

Lemma first_block s a : 0 <= s < 36000 -> 0 <= a < 36000 -> fst (split_angle_step s s a) = false.
Proof. intros Hs Ha. unfold split_angle_step. cbn [fst]. destruct (a <? s) eqn:E; lia. Qed.

(* legacy kernel: refuted *)
Lemma legacy_refuted :
  exists s p a, 0 <= s < 36000 /\ 0 <= p < 36000 /\ 0 <= a < 36000 /\
    crosses s p a /\ fst (split_angle_step_legacy s p a) = false.
Proof. exists 35990, 35980, 0. unfold crosses. vm_compute. intuition congruence. Qed.

(* one step, in terms of the unwrapped azimuth u (u mod 360deg = prev): the kernel fires iff the
   revolution index relative to s changes across the step *)
Lemma step_rev s p a u :
  0 <= s < 36000 -> 0 <= a < 36000 -> u mod 36000 = p ->
  (fst (split_angle_step s p a) = true <-> rev_index s (u + (a - p) mod 36000) <> rev_index s u).
Proof.
  intros Hs Ha Hu.
  assert (Hp : 0 <= p < 36000) by (subst p; apply Z.mod_pos_bound; lia).
  destruct (step_iff s p a Hs Hp Ha) as [H _]. rewrite H. clear H.
  unfold crosses, rev_index. cbv zeta.
  set (d := (a - p) mod 36000). set (e := (s - p) mod 36000).
  assert (0 <= d < 36000) by (apply Z.mod_pos_bound; lia).
  assert (0 <= e < 36000) by (apply Z.mod_pos_bound; lia).
  subst d e p. lia.
Qed.

(* ---- streams ---- *)
(* run the kernel over a list of block azimuths; returns the per-block split flags *)
Fixpoint run_angle (s prev : Z) (azs : list Z) : list bool :=
  match azs with
  | [] => []
  | a :: r => fst (split_angle_step s prev a) :: run_angle s (snd (split_angle_step s prev a)) r
  end.

(* unwrapped azimuths of a stream starting at unwrapped position u (u mod 360deg = prev) *)
Fixpoint unwrap (u prev : Z) (azs : list Z) : list Z :=
  match azs with
  | [] => []
  | a :: r => let u' := u + (a - prev) mod 36000 in u' :: unwrap u' a r
  end.

Fixpoint rev_changes (s u : Z) (us : list Z) : list bool :=
  match us with
  | [] => []
  | u' :: r => negb (rev_index s u' =? rev_index s u) :: rev_changes s u' r
  end.

Lemma unwrap_mod u p a : 0 <= a < 36000 -> u mod 36000 = p -> (u + (a - p) mod 36000) mod 36000 = a.
Proof. intros Ha Hu. subst p. lia. Qed.

Theorem stream_splits s : 0 <= s < 36000 ->
  forall azs prev u, Forall (fun a => 0 <= a < 36000) azs -> u mod 36000 = prev ->
  run_angle s prev azs = rev_changes s u (unwrap u prev azs).
Proof.
  intros Hs. induction azs as [|a r IH]; intros prev u HF Hu; [reflexivity|].
  inversion HF as [|? ? Ha HF']; subst.
  cbn [run_angle unwrap rev_changes]. f_equal.
  - pose proof (step_rev s (u mod 36000) a u Hs Ha eq_refl) as H.
    destruct (fst (split_angle_step s (u mod 36000) a)) eqn:E.
    + assert (rev_index s (u + (a - u mod 36000) mod 36000) <> rev_index s u) by (apply H; reflexivity).
      symmetry. apply negb_true_iff. apply Z.eqb_neq. assumption.
    + symmetry. apply negb_false_iff. apply Z.eqb_eq.
      destruct (Z.eq_dec (rev_index s (u + (a - u mod 36000) mod 36000)) (rev_index s u)) as [e|ne]; [exact e|].
      apply H in ne. congruence.
  - unfold split_angle_step at 1. cbn [snd]. apply IH; [assumption|].
    apply unwrap_mod; [assumption|reflexivity].
Qed.

(* revolution indices never decrease and grow by at most one per step: consecutive clouds are
   consecutive revolutions *)
Lemma rev_step s u a p : 0 <= s < 36000 -> 0 <= a < 36000 -> u mod 36000 = p ->
  let u' := u + (a - p) mod 36000 in
  rev_index s u <= rev_index s u' <= rev_index s u + 1.
Proof.
  intros Hs Ha Hu u'. subst u'. unfold rev_index.
  assert (0 <= (a - p) mod 36000 < 36000) by (apply Z.mod_pos_bound; lia). lia.
Qed.
