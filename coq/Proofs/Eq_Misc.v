From RS Require Import Base.Tac Gen.Kernels_gen Model.Kernels.
Local Open Scope Z_scope.

Lemma gen_angle_check_eq v : ChanAngles_angleCheck v = angle_check v.
Proof. reflexivity. Qed.

(* temperature words: the C++ uses shifts and masks; equality with the arithmetic closed form is a
   complete sweep of the 256 x 256 byte pairs, lifted to a forall by forallb_forall. *)
Definition bytes256 := zrange 0 256.
Definition temp_sweep (f g : Z -> Z -> Z) : bool :=
  forallb (fun b0 => forallb (fun b1 => f b0 b1 =? g b0 b1) bytes256) bytes256.

Lemma temp_sweep_sound f g : temp_sweep f g = true ->
  forall b0 b1, 0 <= b0 < 256 -> 0 <= b1 < 256 -> f b0 b1 = g b0 b1.
Proof.
  unfold temp_sweep. intros H b0 b1 H0 H1.
  rewrite forallb_forall in H. specialize (H b0 (zrange_In 0 256 b0 H0)).
  rewrite forallb_forall in H. specialize (H b1 (zrange_In 0 256 b1 H1)).
  lia.
Qed.

Lemma gen_temp_le_eq b0 b1 : 0 <= b0 < 256 -> 0 <= b1 < 256 -> fn_parseTempInLe b0 b1 = temp_le b0 b1.
Proof. apply temp_sweep_sound. vm_compute. reflexivity. Qed.

Lemma gen_temp_be_eq b0 b1 : 0 <= b0 < 256 -> 0 <= b1 < 256 -> fn_parseTempInBe b0 b1 = temp_be b0 b1.
Proof. apply temp_sweep_sound. vm_compute. reflexivity. Qed.
