(* parseTimeUTCWithUs / createTimeUTCWithUs as translated by kt.py from basic_attr.hpp (loops unrolled, uint64 wrap explicit)
   against the model's parse_utc / create_utc, for every field content / every uint64 microsecond count. *)
From RS Require Import Base.Tac Base.Bytes Gen.Kernels_gen Model.Decoder.
Local Open Scope Z_scope.

Lemma wrapu_small n x : 0 <= x < 2 ^ n -> wrapu n x = x.
Proof. intros H. unfold wrapu. apply Z.mod_small. exact H. Qed.

(* one step of the big-endian accumulation: x <<= 8; x += b *)
Lemma acc_step x b : 0 <= x < 2 ^ 48 -> 0 <= b < 256 ->
  wrapu 64 (wrapu 64 (Z.shiftl x 8) + b) = x * 256 + b.
Proof.
  intros Hx Hb. rewrite Z.shiftl_mul_pow2 by lia. change (2 ^ 8) with 256.
  rewrite (wrapu_small 64 (x * 256)) by lia. apply wrapu_small. lia.
Qed.

Lemma gen_parse_utc_eq b0 b1 b2 b3 b4 b5 c0 c1 c2 c3 :
  0 <= b0 < 256 -> 0 <= b1 < 256 -> 0 <= b2 < 256 -> 0 <= b3 < 256 -> 0 <= b4 < 256 -> 0 <= b5 < 256 ->
  0 <= c0 < 256 -> 0 <= c1 < 256 -> 0 <= c2 < 256 -> 0 <= c3 < 256 ->
  fn_parseTimeUTCWithUs b0 b1 b2 b3 b4 b5 c0 c1 c2 c3 = parse_utc [b0; b1; b2; b3; b4; b5; c0; c1; c2; c3] 0.
Proof.
  intros. unfold fn_parseTimeUTCWithUs. cbv zeta.
  change (wrapu 64 0) with 0. change (wrapu 64 1000000) with 1000000.
  rewrite (acc_step 0 b0) by lia.
  rewrite (acc_step (0 * 256 + b0) b1) by lia.
  rewrite (acc_step ((0 * 256 + b0) * 256 + b1) b2) by lia.
  rewrite (acc_step (((0 * 256 + b0) * 256 + b1) * 256 + b2) b3) by lia.
  rewrite (acc_step ((((0 * 256 + b0) * 256 + b1) * 256 + b2) * 256 + b3) b4) by lia.
  rewrite (acc_step (((((0 * 256 + b0) * 256 + b1) * 256 + b2) * 256 + b3) * 256 + b4) b5) by lia.
  rewrite (acc_step 0 c0) by lia.
  rewrite (acc_step (0 * 256 + c0) c1) by lia.
  rewrite (acc_step ((0 * 256 + c0) * 256 + c1) c2) by lia.
  rewrite (acc_step (((0 * 256 + c0) * 256 + c1) * 256 + c2) c3) by lia.
  unfold wrapu. rewrite Z.add_mod_idemp_l by lia.
  unfold parse_utc, be48, be32, be16.
  repeat match goal with |- context [u8 ?l ?i] => let v := eval cbv in (u8 l i) in change (u8 l i) with v end.
  change 18446744073709551616 with (2 ^ 64). f_equal. ring.
Qed.

(* low byte and shift of a uint64 value *)
Lemma low_byte x : 0 <= x -> wrapu 8 (Z.land x (wrapu 64 255)) = x mod 256.
Proof.
  intros H. change (wrapu 64 255) with (Z.ones 8). rewrite Z.land_ones by lia. change (2 ^ 8) with 256.
  apply wrapu_small. change (2 ^ 8) with 256. apply Z.mod_pos_bound. lia.
Qed.
Lemma shr8 x : 0 <= x < 2 ^ 64 -> wrapu 64 (Z.shiftr x 8) = x / 256.
Proof.
  intros H. rewrite Z.shiftr_div_pow2 by lia. change (2 ^ 8) with 256. apply wrapu_small.
  split; [apply Z.div_pos; lia|]. apply Z.div_lt_upper_bound; lia.
Qed.
Lemma div256_range x : 0 <= x < 2 ^ 64 -> 0 <= x / 256 < 2 ^ 64.
Proof. intros H. split; [apply Z.div_pos; lia|]. apply Z.div_lt_upper_bound; lia. Qed.

Lemma gen_create_utc_eq us : 0 <= us < 2 ^ 64 -> fn_createTimeUTCWithUs us = create_utc us.
Proof.
  intros H. unfold fn_createTimeUTCWithUs, create_utc. cbv zeta. change (wrapu 64 1000000) with 1000000.
  rewrite Z.quot_div_nonneg, Z.rem_mod_nonneg by lia.
  assert (Hs : 0 <= us / 1000000 < 2 ^ 48).
  { split; [apply Z.div_pos; lia|]. apply Z.div_lt_upper_bound; lia. }
  assert (Hu : 0 <= us mod 1000000 < 1000000) by (apply Z.mod_pos_bound; lia).
  rewrite (wrapu_small 64 (us / 1000000)) by lia. rewrite (wrapu_small 64 (us mod 1000000)) by lia.
  change 281474976710656 with (2 ^ 48). rewrite (Z.mod_small (us / 1000000) (2 ^ 48)) by lia.
  set (s := us / 1000000) in *. set (u := us mod 1000000) in *.
  assert (R : forall x, 0 <= x < 2 ^ 64 -> 0 <= x / 256 < 2 ^ 64) by exact div256_range.
  assert (Hs0 : 0 <= s < 2 ^ 64) by lia. assert (Hu0 : 0 <= u < 2 ^ 64) by lia.
  pose proof (R _ Hs0) as Hs1. pose proof (R _ Hs1) as Hs2. pose proof (R _ Hs2) as Hs3. pose proof (R _ Hs3) as Hs4. pose proof (R _ Hs4) as Hs5.
  pose proof (R _ Hu0) as Hu1. pose proof (R _ Hu1) as Hu2. pose proof (R _ Hu2) as Hu3.
  rewrite (shr8 s) by exact Hs0. rewrite (shr8 (s / 256)) by exact Hs1. rewrite (shr8 (s / 256 / 256)) by exact Hs2.
  rewrite (shr8 (s / 256 / 256 / 256)) by exact Hs3. rewrite (shr8 (s / 256 / 256 / 256 / 256)) by exact Hs4.
  rewrite (shr8 u) by exact Hu0. rewrite (shr8 (u / 256)) by exact Hu1. rewrite (shr8 (u / 256 / 256)) by exact Hu2.
  rewrite !low_byte by lia.
  cbn [be_bytes app]. reflexivity.
Qed.
