(* C19 / C01: LidarDriverImpl::internalProcessPacket - the dispatch of a queued packet on its first two bytes - regenerated from the
   source as a statement tree and interpreted over the model's driver state: the interpreted current source is the model's
   process_packet (same driver state, throttles and outputs) for every packet content, state, build and clock value. *)
From Coq Require Import String.
From RS Require Import Base.Tac Base.Bytes Base.Dyadic Model.Desc Model.Kernels Model.Decoder Model.Driver Gen.Kernels_gen Proofs.Handover.
Local Open Scope Z_scope.

Record dm := mk_dm {
  x_v : drv; x_th : throttles; x_out : list out;
  x_bytes : bytes;            (* the packet in the buffer (processMsopPkt may rewrite its header time) *)
  x_split : bool;             (* the local pkt_to_split *)
  x_recycled : bool           (* the buffer went back to the free pool *)
}.

Inductive dtag := DDeclMsop | DDeclDifop | DHook | DId | DMsop | DCbMsop | DDifop | DCbDifop | DRecycle.
Inductive dctag := DShort | DIsMsop | DIsDifop.
Definition dtag_of (t : string) : option dtag :=
  if String.prefix "RS_VERIF_EVENT(" t then Some DHook
  else if (t =? "static const uint8_t msop_id[] = {0x55, 0xAA}")%string then Some DDeclMsop
  else if (t =? "static const uint8_t difop_id[] = {0xA5, 0xFF}")%string then Some DDeclDifop
  else if (t =? "uint8_t* id = pkt->data()")%string then Some DId
  else if (t =? "bool pkt_to_split = decoder_ptr_->processMsopPkt(pkt->data(), pkt->dataSize())")%string then Some DMsop
  else if (t =? "runPacketCallBack(pkt->data(), pkt->dataSize(), decoder_ptr_->prevPktTs(), false, pkt_to_split)")%string then Some DCbMsop
  else if (t =? "decoder_ptr_->processDifopPkt(pkt->data(), pkt->dataSize())")%string then Some DDifop
  else if (t =? "runPacketCallBack(pkt->data(), pkt->dataSize(), 0, true, false)")%string then Some DCbDifop
  else if (t =? "free_pkt_queue_.push(pkt)")%string then Some DRecycle
  else None.
Definition dctag_of (t : string) : option dctag :=
  if (t =? "pkt->dataSize() < sizeof(msop_id)")%string then Some DShort
  else if (t =? "memcmp(id, msop_id, sizeof(msop_id)) == 0")%string then Some DIsMsop
  else if (t =? "memcmp(id, difop_id, sizeof(difop_id)) == 0")%string then Some DIsDifop
  else None.

Section Dispatch.
  Variables (bl : build) (tbl : list Z) (now host : Z).

  Definition d_act (g : dtag) (m : dm) : option dm :=
    match g with
    | DDeclMsop | DDeclDifop | DHook | DId => Some m
    | DMsop =>
        let '(v1, th1, o1, ret, b') := process_msop bl tbl (x_v m) (x_th m) now host (x_bytes m) in
        Some (mk_dm v1 th1 (x_out m ++ o1) b' ret (x_recycled m))
    | DCbMsop =>
        let '(v2, o2) := run_pkt_cb (x_v m) (x_bytes m) (s_prev_pkt_ts (v_dec (x_v m))) false (x_split m) in
        Some (mk_dm v2 (x_th m) (x_out m ++ o2) (x_bytes m) (x_split m) (x_recycled m))
    | DDifop =>
        let '(v1, th1, o1) := process_difop bl (x_v m) (x_th m) now (x_bytes m) in
        Some (mk_dm v1 th1 (x_out m ++ o1) (x_bytes m) (x_split m) (x_recycled m))
    | DCbDifop =>
        let '(v2, o2) := run_pkt_cb (x_v m) (x_bytes m) 0 true false in
        Some (mk_dm v2 (x_th m) (x_out m ++ o2) (x_bytes m) (x_split m) (x_recycled m))
    | DRecycle => if x_recycled m then None else Some (mk_dm (x_v m) (x_th m) (x_out m) (x_bytes m) (x_split m) true)
    end.
  Definition d_test (g : dctag) (m : dm) : bool :=
    match g with
    | DShort => blen (x_bytes m) <? 2
    | DIsMsop => match x_bytes m with x :: y :: _ => (x =? 85) && (y =? 170) | _ => false end
    | DIsDifop => match x_bytes m with x :: y :: _ => (x =? 165) && (y =? 255) | _ => false end
    end.
  Definition d_atom (t : string) (m : dm) : option dm := match dtag_of t with Some g => d_act g m | None => None end.
  Definition d_cond (t : string) (m : dm) : option bool := match dctag_of t with Some g => Some (d_test g m) | None => None end.
  Definition drun (effs : list eff) (m : dm) := run dm d_atom d_cond 12 effs m.

  Ltac dtags :=
    match goal with
    | |- context [d_atom ?t ?m] => let g := eval vm_compute in (dtag_of t) in change (d_atom t m) with (match g with Some g' => d_act g' m | None => None end); cbv beta iota
    | |- context [d_cond ?t ?m] => let g := eval vm_compute in (dctag_of t) in change (d_cond t m) with (match g with Some g' => Some (d_test g' m) | None => None end); cbv beta iota
    end.
  Ltac dstep := repeat first [ rewrite run_eq; cbv beta iota | dtags | progress cbn [d_act d_test x_v x_th x_out x_bytes x_split x_recycled] ].

  (* every queued packet: dispatched on its first two bytes - a packet shorter than that is neither -, decoded, handed to the packet
     callback with the decoder's packet time and the split flag of THIS packet (MSOP) or time 0 (DIFOP), and its buffer goes back
     to the free pool exactly once, whatever the packet was *)
  Theorem internalProcessPacket_code_is_model v th b stale :
    exists m, drun LidarDriverImpl_internalProcessPacket_effects (mk_dm v th [] b false false) = Go m /\
              (x_v m, x_th m, x_out m) = process_packet bl tbl v th now host b stale /\ x_recycled m = true.
  Proof.
    unfold LidarDriverImpl_internalProcessPacket_effects, drun, process_packet, dispatch_bytes.
    dstep.
    destruct b as [|x [|y r]].
    - cbn [blen length Z.of_nat Z.ltb Z.compare]. dstep. eexists. repeat split; reflexivity.
    - unfold blen. cbn [length]. replace (Z.of_nat 1 <? 2) with true by reflexivity. dstep. eexists. repeat split; reflexivity.
    - assert (Hb : (blen (x :: y :: r) <? 2) = false) by (unfold blen; cbn [length]; lia).
      rewrite Hb. cbn [fst snd]. dstep.
      destruct ((x =? 85) && (y =? 170)) eqn:E1.
      + dstep. destruct (process_msop bl tbl v th now host (x :: y :: r)) as [[[[v1 th1] o1] ret] b'] eqn:Em.
        dstep. destruct (run_pkt_cb v1 b' (s_prev_pkt_ts (v_dec v1)) false ret) as [v2 o2] eqn:Ec.
        dstep. eexists. repeat split; reflexivity.
      + dstep. destruct ((x =? 165) && (y =? 255)) eqn:E2.
        * dstep. destruct (process_difop bl v th now (x :: y :: r)) as [[v1 th1] o1] eqn:Ed.
          dstep. destruct (run_pkt_cb v1 (x :: y :: r) 0 true false) as [v2 o2] eqn:Ec.
          dstep. eexists. repeat split; reflexivity.
        * dstep. eexists. repeat split; reflexivity.
  Qed.
End Dispatch.

(* ---------------------------------------------------------------- runPacketCallBack(data, size, timestamp, is_difop, is_frame_begin) *)
(* the record handed to the packet callback: regenerated statement tree, interpreted; it is the model's run_pkt_cb: a record is made
   only when a callback is registered, it carries the arguments, the next packet number (consumed only then, wrapping at 2^32) and a
   copy of exactly `size` bytes, and every field is set before the callback sees it *)
Record rm := mk_rm {
  r_v : drv; r_out : list out;
  r_ts : option Z; r_difop : option bool; r_begin : option bool; r_seq : option Z; r_fid : bool;
  r_len : option Z; r_data : option bytes
}.
Inductive rtag := RDecl | RTs | RDifop | RBegin | RSeq | RFid | RResize | RCopy | RCall.
Definition rtag_of (t : string) : option rtag :=
  if (t =? "Packet pkt")%string then Some RDecl
  else if (t =? "pkt.timestamp = timestamp")%string then Some RTs
  else if (t =? "pkt.is_difop = is_difop")%string then Some RDifop
  else if (t =? "pkt.is_frame_begin = is_frame_begin")%string then Some RBegin
  else if (t =? "pkt.seq = pkt_seq_++")%string then Some RSeq
  else if (t =? "pkt.frame_id = driver_param_.frame_id")%string then Some RFid
  else if (t =? "pkt.buf_.resize(data_size)")%string then Some RResize
  else if (t =? "memcpy (pkt.buf_.data(), data, data_size)")%string then Some RCopy
  else if (t =? "cb_put_pkt_(pkt)")%string then Some RCall
  else None.

Section PktCb.
  Variables (data : bytes) (ts : Z) (is_difop begin_ : bool).
  Definition r_act (g : rtag) (m : rm) : option rm :=
    let v := r_v m in
    match g with
    | RDecl => Some (mk_rm v (r_out m) None None None None false None None)
    | RTs => Some (mk_rm v (r_out m) (Some ts) (r_difop m) (r_begin m) (r_seq m) (r_fid m) (r_len m) (r_data m))
    | RDifop => Some (mk_rm v (r_out m) (r_ts m) (Some is_difop) (r_begin m) (r_seq m) (r_fid m) (r_len m) (r_data m))
    | RBegin => Some (mk_rm v (r_out m) (r_ts m) (r_difop m) (Some begin_) (r_seq m) (r_fid m) (r_len m) (r_data m))
    | RSeq =>
        let v' := set_open v (v_dec v) (v_open_buf v) (v_open v) ((v_pkt_seq v + 1) mod 4294967296) (v_cloud_seq v) (v_answers v) (v_fresh v) in
        Some (mk_rm v' (r_out m) (r_ts m) (r_difop m) (r_begin m) (Some (v_pkt_seq v)) (r_fid m) (r_len m) (r_data m))
    | RFid => Some (mk_rm v (r_out m) (r_ts m) (r_difop m) (r_begin m) (r_seq m) true (r_len m) (r_data m))
    | RResize => Some (mk_rm v (r_out m) (r_ts m) (r_difop m) (r_begin m) (r_seq m) (r_fid m) (Some (blen data)) (r_data m))
    | RCopy => match r_len m with
               | Some n => if n =? blen data then Some (mk_rm v (r_out m) (r_ts m) (r_difop m) (r_begin m) (r_seq m) (r_fid m) (r_len m) (Some data)) else None
               | None => None       (* a copy into a buffer that was not sized *)
               end
    | RCall => match r_ts m, r_difop m, r_begin m, r_seq m, r_data m with
               | Some t, Some d, Some b, Some s, Some bs => if r_fid m then Some (mk_rm v (r_out m ++ [OPkt s d b t bs]) (r_ts m) (r_difop m) (r_begin m) (r_seq m) (r_fid m) (r_len m) (r_data m)) else None
               | _, _, _, _, _ => None   (* the callback would see a field that was never set *)
               end
    end.
  Definition r_atom (t : string) (m : rm) : option rm := match rtag_of t with Some g => r_act g m | None => None end.
  Definition r_cond (t : string) (m : rm) : option bool := if (t =? "cb_put_pkt_")%string then Some (c_pkt_cb (v_cfg (r_v m))) else None.
  Definition rrun (effs : list eff) (m : rm) := run rm r_atom r_cond 14 effs m.

  Ltac rtags :=
    match goal with
    | |- context [r_atom ?t ?m] => let g := eval vm_compute in (rtag_of t) in change (r_atom t m) with (match g with Some g' => r_act g' m | None => None end); cbv beta iota
    end.
  Ltac rstep := repeat first [ rewrite run_eq; cbv beta iota | rtags | progress cbn [r_act r_v r_out r_ts r_difop r_begin r_seq r_fid r_len r_data] ].

  Theorem runPacketCallBack_code_is_model v :
    exists m, rrun LidarDriverImpl_runPacketCallBack_effects (mk_rm v [] None None None None false None None) = Go m /\
              (r_v m, r_out m) = run_pkt_cb v data ts is_difop begin_.
  Proof.
    unfold LidarDriverImpl_runPacketCallBack_effects, rrun, run_pkt_cb.
    rewrite run_eq; cbv beta iota.
    change (r_cond "cb_put_pkt_" ?m) with (Some (c_pkt_cb (v_cfg (r_v m)))). cbn [r_v].
    destruct (c_pkt_cb (v_cfg v)).
    - rstep. rewrite Z.eqb_refl. rstep. eexists. split; reflexivity.
    - rstep. eexists. split; reflexivity.
  Qed.
End PktCb.
