(* C19 / C01: LidarDriverImpl::internalProcessPacket - the dispatch of a queued packet on its first two bytes - regenerated from the
   source as a statement tree and interpreted over the model's driver state: the interpreted current source is the model's
   process_packet (same driver state, throttles and outputs) for every packet content, state, build and clock value. *)
From Coq Require Import String.
From RS Require Import Base.Tac Base.Bytes Base.Dyadic Model.Desc Model.Kernels Model.Decoder Model.Driver Gen.Kernels_gen Proofs.Handover.
Local Open Scope Z_scope.

Record dm := mk_dm {
  x_v : drv; x_th : throttles; x_out : list out;
  x_bytes : bytes;            (* the packet in the buffer (processMsopPkt may rewrite its header time) *)
  x_split : bool;             (* the local pkt_to_split *)
  x_recycled : bool           (* the buffer went back to the free pool *)
}.

Inductive dtag := DDeclMsop | DDeclDifop | DHook | DId | DMsop | DCbMsop | DDifop | DCbDifop | DRecycle.
Inductive dctag := DShort | DIsMsop | DIsDifop.
Definition dtag_of (t : string) : option dtag :=
  if String.prefix "RS_VERIF_EVENT(" t then Some DHook
  else if (t =? "static const uint8_t msop_id[] = {0x55, 0xAA}")%string then Some DDeclMsop
  else if (t =? "static const uint8_t difop_id[] = {0xA5, 0xFF}")%string then Some DDeclDifop
  else if (t =? "uint8_t* id = pkt->data()")%string then Some DId
  else if (t =? "bool pkt_to_split = decoder_ptr_->processMsopPkt(pkt->data(), pkt->dataSize())")%string then Some DMsop
  else if (t =? "runPacketCallBack(pkt->data(), pkt->dataSize(), decoder_ptr_->prevPktTs(), false, pkt_to_split)")%string then Some DCbMsop
  else if (t =? "decoder_ptr_->processDifopPkt(pkt->data(), pkt->dataSize())")%string then Some DDifop
  else if (t =? "runPacketCallBack(pkt->data(), pkt->dataSize(), 0, true, false)")%string then Some DCbDifop
  else if (t =? "free_pkt_queue_.push(pkt)")%string then Some DRecycle
  else None.
Definition dctag_of (t : string) : option dctag :=
  if (t =? "pkt->dataSize() < sizeof(msop_id)")%string then Some DShort
  else if (t =? "memcmp(id, msop_id, sizeof(msop_id)) == 0")%string then Some DIsMsop
  else if (t =? "memcmp(id, difop_id, sizeof(difop_id)) == 0")%string then Some DIsDifop
  else None.

Section Dispatch.
  Variables (bl : build) (tbl : list Z) (now host : Z).

  Definition d_act (g : dtag) (m : dm) : option dm :=
    match g with
    | DDeclMsop | DDeclDifop | DHook | DId => Some m
    | DMsop =>
        let '(v1, th1, o1, ret, b') := process_msop bl tbl (x_v m) (x_th m) now host (x_bytes m) in
        Some (mk_dm v1 th1 (x_out m ++ o1) b' ret (x_recycled m))
    | DCbMsop =>
        let '(v2, o2) := run_pkt_cb (x_v m) (x_bytes m) (s_prev_pkt_ts (v_dec (x_v m))) false (x_split m) in
        Some (mk_dm v2 (x_th m) (x_out m ++ o2) (x_bytes m) (x_split m) (x_recycled m))
    | DDifop =>
        let '(v1, th1, o1) := process_difop bl (x_v m) (x_th m) now (x_bytes m) in
        Some (mk_dm v1 th1 (x_out m ++ o1) (x_bytes m) (x_split m) (x_recycled m))
    | DCbDifop =>
        let '(v2, o2) := run_pkt_cb (x_v m) (x_bytes m) 0 true false in
        Some (mk_dm v2 (x_th m) (x_out m ++ o2) (x_bytes m) (x_split m) (x_recycled m))
    | DRecycle => if x_recycled m then None else Some (mk_dm (x_v m) (x_th m) (x_out m) (x_bytes m) (x_split m) true)
    end.
  Definition d_test (g : dctag) (m : dm) : bool :=
    match g with
    | DShort => blen (x_bytes m) <? 2
    | DIsMsop => match x_bytes m with x :: y :: _ => (x =? 85) && (y =? 170) | _ => false end
    | DIsDifop => match x_bytes m with x :: y :: _ => (x =? 165) && (y =? 255) | _ => false end
    end.
  Definition d_atom (t : string) (m : dm) : option dm := match dtag_of t with Some g => d_act g m | None => None end.
  Definition d_cond (t : string) (m : dm) : option bool := match dctag_of t with Some g => Some (d_test g m) | None => None end.
  Definition drun (effs : list eff) (m : dm) := run dm d_atom d_cond 12 effs m.

  Ltac dtags :=
    match goal with
    | |- context [d_atom ?t ?m] => let g := eval vm_compute in (dtag_of t) in change (d_atom t m) with (match g with Some g' => d_act g' m | None => None end); cbv beta iota
    | |- context [d_cond ?t ?m] => let g := eval vm_compute in (dctag_of t) in change (d_cond t m) with (match g with Some g' => Some (d_test g' m) | None => None end); cbv beta iota
    end.
  Ltac dstep := repeat first [ rewrite run_eq; cbv beta iota | dtags | progress cbn [d_act d_test x_v x_th x_out x_bytes x_split x_recycled] ].

  (* every queued packet: dispatched on its first two bytes - a packet shorter than that is neither -, decoded, handed to the packet
     callback with the decoder's packet time and the split flag of THIS packet (MSOP) or time 0 (DIFOP), and its buffer goes back
     to the free pool exactly once, whatever the packet was *)
  Theorem internalProcessPacket_code_is_model v th b stale :
    exists m, drun LidarDriverImpl_internalProcessPacket_effects (mk_dm v th [] b false false) = Go m /\
              (x_v m, x_th m, x_out m) = process_packet bl tbl v th now host b stale /\ x_recycled m = true.
  Proof.
    unfold LidarDriverImpl_internalProcessPacket_effects, drun, process_packet, dispatch_bytes.
    dstep.
    destruct b as [|x [|y r]].
    - cbn [blen length Z.of_nat Z.ltb Z.compare]. dstep. eexists. repeat split; reflexivity.
    - unfold blen. cbn [length]. replace (Z.of_nat 1 <? 2) with true by reflexivity. dstep. eexists. repeat split; reflexivity.
    - assert (Hb : (blen (x :: y :: r) <? 2) = false) by (unfold blen; cbn [length]; lia).
      rewrite Hb. cbn [fst snd]. dstep.
      destruct ((x =? 85) && (y =? 170)) eqn:E1.
      + dstep. destruct (process_msop bl tbl v th now host (x :: y :: r)) as [[[[v1 th1] o1] ret] b'] eqn:Em.
        dstep. destruct (run_pkt_cb v1 b' (s_prev_pkt_ts (v_dec v1)) false ret) as [v2 o2] eqn:Ec.
        dstep. eexists. repeat split; reflexivity.
      + dstep. destruct ((x =? 165) && (y =? 255)) eqn:E2.
        * dstep. destruct (process_difop bl v th now (x :: y :: r)) as [[v1 th1] o1] eqn:Ed.
          dstep. destruct (run_pkt_cb v1 (x :: y :: r) 0 true false) as [v2 o2] eqn:Ec.
          dstep. eexists. repeat split; reflexivity.
        * dstep. eexists. repeat split; reflexivity.
  Qed.
End Dispatch.
