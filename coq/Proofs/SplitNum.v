(* C15: fixed-size frames. *)
From RS Require Import Base.Tac Base.Bytes Base.Dyadic Model.Desc Model.Kernels Model.Decoder Gen.Params_gen.
Local Open Scope Z_scope.

(* split flags of k consecutive blocks with a constant N, from counter value blks *)
Fixpoint run_num (n blks : Z) (k : nat) : list bool :=
  match k with
  | O => []
  | S k' => fst (split_num_step n blks) :: run_num n (snd (split_num_step n blks)) k'
  end.

Lemma num_step_spec n blks : 1 <= n <= 65535 -> 0 <= blks < n ->
  fst (split_num_step n blks) = (blks + 1 =? n) /\
  snd (split_num_step n blks) = (blks + 1) mod n /\ 0 <= snd (split_num_step n blks) < n.
Proof.
  intros Hn Hb. unfold split_num_step.
  assert (E : (blks + 1) mod 65536 = blks + 1) by (apply Z.mod_small; lia). rewrite E.
  destruct (blks + 1 >=? n) eqn:G; cbn [fst snd].
  - assert (blks + 1 = n) by lia. subst n. rewrite Z.eqb_refl, Z_mod_same_full. repeat split; lia.
  - assert (Hs : (blks + 1) mod n = blks + 1) by (apply Z.mod_small; lia). rewrite Hs.
    repeat split; lia.
Qed.

(* block j (0-based) of the stream opens a new cloud iff (blks + j + 1) is a multiple of N *)
Theorem run_num_spec n : 1 <= n <= 65535 -> forall k blks j, 0 <= blks < n -> (j < k)%nat ->
  nth j (run_num n blks k) false = ((blks + Z.of_nat j + 1) mod n =? 0).
Proof.
  intros Hn. induction k as [|k IH]; intros blks j Hb Hj; [lia|].
  destruct (num_step_spec n blks Hn Hb) as (F & S & B).
  cbn [run_num]. destruct j as [|j].
  - cbn [nth]. rewrite F. replace (blks + Z.of_nat 0 + 1) with (blks + 1) by lia.
    destruct (blks + 1 =? n) eqn:E.
    + assert (blks + 1 = n) by lia. subst n. rewrite Z_mod_same_full. reflexivity.
    + rewrite Z.mod_small by lia. lia.
  - cbn [nth]. rewrite IH; [|lia|lia]. rewrite S.
    replace (blks + Z.of_nat (Datatypes.S j) + 1) with ((blks + 1) + (Z.of_nat j + 1)) by lia.
    rewrite <- (Zplus_mod_idemp_l (blks + 1)). f_equal. f_equal. lia.
Qed.

(* from the initial counter 0: splits happen before blocks N-1, 2N-1, 3N-1, ... (0-based): the first
   cloud has N-1 blocks, every later one exactly N *)
Corollary run_num_from_zero n k j : 1 <= n <= 65535 -> (j < k)%nat ->
  nth j (run_num n 0 k) false = ((Z.of_nat j + 1) mod n =? 0).
Proof. intros Hn Hj. rewrite (run_num_spec n Hn k 0 j) by lia. f_equal. Qed.

(* ---- N for SPLIT_BY_FIXED_BLKS *)
(* the double-precision computation equals the exact floor of 1/(rps*T) for every rps a DIFOP can
   announce (rpm is 16 bits: rps <= 1092), for every mechanical descriptor: finite sweep *)
Definition tabs_of (d : desc) : list tab := [d_tab_base d; d_tab_alt1 d; d_tab_alt2 d].
(* variant tables: which firing/lens table is in force *)
Lemma cur_tab_in d s : In (cur_tab d s) (tabs_of d).
Proof.
  unfold cur_tab, tabs_of. destruct (d_variant d); cbn; auto.
  - destruct (s_echo_dual s); auto.
  - destruct (s_variant s =? 1); auto.
  - destruct (s_first_pkt s); auto. destruct (s_variant s =? 3); auto.
Qed.
Definition exact_blks_bd (bd : dy) (rps : Z) : Z :=
  (* floor(1 / (rps * m * 2^e)) with BLOCK_DURATION = m * 2^e, e < 0 *)
  (2 ^ (- de bd)) / (rps * dm bd).
Definition exact_blks (d : desc) (rps : Z) : Z := exact_blks_bd (d_block_duration d) rps.
(* every block period a decoder of this type can hold: the constructor's and those of its variant tables (Bpearl v4: 55.56 us) *)
Definition bds_of (d : desc) : list dy := d_block_duration d :: map t_block_dur (tabs_of d).
Definition blks_sweep (d : desc) : bool :=
  forallb (fun bd => forallb (fun rps => blks_per_frame_bd bd rps =? exact_blks_bd bd rps) (zrange 1 1093)) (bds_of d).
Definition mech_descs : list desc := filter (fun d => match d_family d with Mech => true | Mems => false end) all_descs.

Lemma blks_sweep_all : forallb blks_sweep mech_descs = true.
Proof. vm_compute. reflexivity. Qed.

Theorem blks_per_frame_bd_exact d bd rps : In d mech_descs -> In bd (bds_of d) -> 1 <= rps < 1093 ->
  blks_per_frame_bd bd rps = exact_blks_bd bd rps.
Proof.
  intros Hd Hb Hr. pose proof blks_sweep_all as H. rewrite forallb_forall in H. specialize (H d Hd).
  unfold blks_sweep in H. rewrite forallb_forall in H. specialize (H bd Hb).
  rewrite forallb_forall in H. specialize (H rps (zrange_In 1 1093 rps Hr)). lia.
Qed.
Theorem blks_per_frame_exact d rps : In d mech_descs -> 1 <= rps < 1093 ->
  blks_per_frame_of d rps = exact_blks d rps.
Proof. intros Hd Hr. apply (blks_per_frame_bd_exact d); [exact Hd | left; reflexivity | exact Hr]. Qed.
Lemma cur_bd_in d s : In (cur_bd d s) (bds_of d).
Proof. right. unfold cur_bd. apply (in_map t_block_dur), cur_tab_in. Qed.
(* the constructor's period is the base table's; only the Bpearl has a table with another period *)
Definition bd_tabs_ok (d : desc) : bool :=
  dy_eqb (t_block_dur (d_tab_base d)) (d_block_duration d) &&
  match d_variant d with
  | VarBpv4 => true
  | _ => forallb (fun t => dy_eqb (t_block_dur t) (d_block_duration d)) (tabs_of d)
  end.
Lemma bd_tabs_all : forallb bd_tabs_ok mech_descs = true.
Proof. vm_compute. reflexivity. Qed.

(* a fresh decoder: 600 rpm single return *)
Definition init_split_ok (d : desc) : bool :=
  (d_init_blks_per_frame d =? blks_per_frame_of d 10) &&
  (d_init_split_blks d =? split_blks_of d false (d_init_blks_per_frame d)).
Lemma init_split_all : forallb init_split_ok mech_descs = true.
Proof. vm_compute. reflexivity. Qed.

(* after any accepted DIFOP: N follows that packet's rpm and return mode *)
Lemma difop_split_blks d wp s b : d_family d = Mech ->
  let s' := decode_difop d wp s b in
  let rps0 := be16 b (d_off_difop_rpm d) / 60 in
  let rps := if rps0 =? 0 then 10 else rps0 in
  s_echo_dual s' = echo_of d (u8 b (d_off_difop_return_mode d)) /\
  s_blks_per_frame s' = blks_per_frame_bd (cur_bd d s) rps /\
  s_split_blks s' = split_blks_of d (s_echo_dual s') (s_blks_per_frame s').
Proof.
  intros Hf. unfold decode_difop. rewrite Hf. cbv zeta.
  unfold difop_devinfo.
  assert (H1 : s_blks_per_frame (decode_difop_common d s b) =
               blks_per_frame_bd (cur_bd d s) (if be16 b (d_off_difop_rpm d) / 60 =? 0 then 10 else be16 b (d_off_difop_rpm d) / 60)).
  { unfold decode_difop_common. cbv zeta. destruct (s_angles_ready s); [reflexivity|].
    destruct (load_angles d b 0 _ [] []) as [[vs hs]|]; reflexivity. }
  destruct (wp && d_has_devinfo d); [destruct (d_has_devstatus d)|];
    cbn [s_echo_dual s_blks_per_frame s_split_blks set_dev set_echo_split]; rewrite H1; repeat split; reflexivity.
Qed.
