(* C16: the delivery condition of the jumbo reassembler as ONE equivalence over arbitrary frame sequences.
   A datagram is delivered at a frame iff that frame is an unfragmented datagram, or it is the last fragment (no more-fragments
   flag) of an identification whose fragments arrived in offset order from offset 0, one directly behind the other as far as
   that identification is concerned: between them only frames the reassembler ignores (non-IPv4 / non-UDP / inconsistent frames,
   unfragmented datagrams, fragments of that identification at a wrong offset, non-first fragments of other identifications). *)
From RS Require Import Base.Tac Base.Bytes Model.Desc Model.Input Gen.Params_gen Proofs.InputSafe.
Local Open Scope Z_scope.

Definition jafter (st : jstate) (frs : list ipfrag) : jstate := fold_left (fun s f => fst (jumbo_step s f)) frs st.

Lemma jafter_app st a b : jafter st (a ++ b) = jafter (jafter st a) b.
Proof. unfold jafter. apply fold_left_app. Qed.
Lemma jafter_snoc st a f : jafter st (a ++ [f]) = fst (jumbo_step (jafter st a) f).
Proof. rewrite jafter_app. reflexivity. Qed.

(* frames that neither advance nor disturb the assembly (id, acc) *)
Definition inert_for (id : Z) (acc : bytes) (fr : ipfrag) : Prop :=
  match fr with
  | FIgnore => True
  | FFrag i off more d =>
      (off = 0 /\ more = false) \/ (i = id /\ off <> blen acc /\ ~ (off = 0 /\ more = false)) \/ (i <> id /\ off <> 0)
  end.

(* the frames, in order, by which the bytes acc of identification id were gathered: a first fragment at offset 0 with the
   more-fragments flag, then each next fragment exactly at the fill level, inert frames anywhere in between *)
Inductive chain (id : Z) : bytes -> list ipfrag -> Prop :=
| ch_first d : chain id d [FFrag id 0 true d]
| ch_skip acc frs fr : chain id acc frs -> inert_for id acc fr -> chain id acc (frs ++ [fr])
| ch_next acc frs d : chain id acc frs -> blen acc + blen d <= 65535 -> chain id (acc ++ d) (frs ++ [FFrag id (blen acc) true d]).

(* a first fragment of id starts a new assembly in these states *)
Definition startable (st : jstate) (id : Z) : Prop :=
  st = None \/ exists cur a, st = Some (cur, a) /\ cur <> id.

Lemma unfrag_false off more : (off =? 0) && negb more = false <-> ~ (off = 0 /\ more = false).
Proof.
  split.
  - intros H [-> ->]. cbn in H. discriminate.
  - intros H. destruct more; cbn [negb]; [apply andb_false_r|]. rewrite andb_true_r.
    destruct (off =? 0) eqn:E; [|reflexivity]. exfalso. apply H. split; [lia|reflexivity].
Qed.

Lemma inert_step id acc fr : inert_for id acc fr -> jumbo_step (Some (id, acc)) fr = (Some (id, acc), snd (jumbo_step (Some (id, acc)) fr)).
Proof.
  destruct fr as [|i off more d]; [reflexivity|]. cbn [inert_for].
  intros [[-> ->] | [(-> & Ho & Hu) | (Hi & Ho)]].
  - reflexivity.
  - unfold jumbo_step. apply unfrag_false in Hu. rewrite Hu, Z.eqb_refl. destruct (off =? blen acc) eqn:E; [lia|reflexivity].
  - unfold jumbo_step. destruct ((off =? 0) && negb more); [reflexivity|].
    destruct (i =? id) eqn:E; [lia|]. destruct (off =? 0) eqn:E2; [lia|reflexivity].
Qed.

(* a chain run from a state in which its first fragment starts an assembly ends with exactly its bytes gathered *)
Lemma chain_run id acc frs : chain id acc frs -> forall st, startable st id -> jafter st frs = Some (id, acc).
Proof.
  induction 1 as [d | acc frs fr Hc IH Hi | acc frs d Hc IH Hb]; intros st Hs.
  - unfold jafter. cbn [fold_left]. unfold jumbo_step. cbn [andb negb Z.eqb].
    destruct Hs as [-> | (cur & a & -> & Hne)]; [reflexivity|].
    destruct (id =? cur) eqn:E; [lia|reflexivity].
  - rewrite jafter_snoc, (IH st Hs), (inert_step id acc fr Hi). reflexivity.
  - rewrite jafter_snoc, (IH st Hs). unfold jumbo_step.
    destruct ((blen acc =? 0) && negb true) eqn:U; [cbn [negb] in U; rewrite andb_false_r in U; discriminate|].
    rewrite !Z.eqb_refl. destruct (blen acc + blen d >? 65535) eqn:E; [lia|reflexivity].
Qed.

(* invariant of every run from the idle state: an assembly in progress is a chain that was started in a startable state *)
Definition jinv (st : jstate) (P : list ipfrag) : Prop :=
  match st with
  | None => True
  | Some (id, acc) => exists A C, P = A ++ C /\ chain id acc C /\ startable (jafter None A) id
  end.

Lemma jinv_step P f : jinv (jafter None P) P -> jinv (jafter None (P ++ [f])) (P ++ [f]).
Proof.
  rewrite jafter_snoc. set (st := jafter None P). intros Hinv.
  assert (Hskip : forall id acc, st = Some (id, acc) -> inert_for id acc f -> jinv (fst (jumbo_step st f)) (P ++ [f])).
  { intros id acc E Hi. rewrite E, (inert_step id acc f Hi). cbn [fst jinv]. rewrite E in Hinv. destruct Hinv as (A & C & -> & Hc & Hs).
    exists A, (C ++ [f]). split; [apply app_assoc_reverse|]. split; [apply ch_skip; assumption | exact Hs]. }
  assert (Hnew : forall id d, startable st id -> jinv (Some (id, d)) (P ++ [FFrag id 0 true d])).
  { intros id d Hs. cbn [jinv]. exists P, [FFrag id 0 true d]. split; [reflexivity|]. split; [apply ch_first | exact Hs]. }
  destruct f as [|i off more d].
  - destruct st as [[id acc]|] eqn:E; [apply (Hskip id acc eq_refl I) | exact I].
  - destruct ((off =? 0) && negb more) eqn:U.
    + (* unfragmented *)
      assert (off = 0 /\ more = false) as [-> ->] by (destruct more; cbn [negb] in U; [rewrite andb_false_r in U; discriminate | split; [lia|reflexivity]]).
      destruct st as [[id acc]|] eqn:E; [apply (Hskip id acc eq_refl); left; split; reflexivity | exact I].
    + pose proof U as Un. apply unfrag_false in Un.
      destruct st as [[id acc]|] eqn:E.
      * destruct (Z.eq_dec i id) as [->|Hne].
        -- destruct (Z.eq_dec off (blen acc)) as [->|Ho].
           ++ unfold jumbo_step. rewrite U, !Z.eqb_refl.
              destruct (blen acc + blen d >? 65535) eqn:Ov; [exact I|].
              destruct more; [|exact I]. cbn [fst jinv].
              destruct Hinv as (A & C & -> & Hc & Hs). exists A, (C ++ [FFrag id (blen acc) true d]).
              split; [apply app_assoc_reverse|]. split; [apply ch_next; [exact Hc|lia] | exact Hs].
           ++ apply (Hskip id acc eq_refl). right; left. repeat split; assumption.
        -- destruct (Z.eq_dec off 0) as [->|Ho].
           ++ unfold jumbo_step. rewrite U. destruct (i =? id) eqn:Ei; [lia|]. cbn [Z.eqb fst].
              assert (more = true) as -> by (destruct more; [reflexivity | exfalso; apply Un; split; reflexivity]).
              apply Hnew. right. exists id, acc. split; [reflexivity | lia].
           ++ apply (Hskip id acc eq_refl). right; right. split; assumption.
      * unfold jumbo_step. rewrite U. destruct (off =? 0) eqn:Eo; [|exact I]. cbn [fst].
        assert (off = 0) as -> by lia.
        assert (more = true) as -> by (destruct more; [reflexivity | exfalso; apply Un; split; reflexivity]).
        apply Hnew. left. reflexivity.
Qed.

Theorem jinv_run P : jinv (jafter None P) P.
Proof.
  induction P as [|f P IH] using rev_ind; [exact I|]. apply jinv_step, IH.
Qed.

(* one step: a delivery happens exactly in these two situations *)
Theorem step_delivers_iff st fr x :
  snd (jumbo_step st fr) = Some x <->
  (exists id d, fr = FFrag id 0 false d /\ udp_out d = Some x) \/
  (exists id acc d, st = Some (id, acc) /\ fr = FFrag id (blen acc) false d /\ blen acc <> 0 /\ blen acc + blen d <= 65535 /\ udp_out (acc ++ d) = Some x).
Proof.
  split.
  - destruct fr as [|i off more d]; [discriminate|]. unfold jumbo_step.
    destruct ((off =? 0) && negb more) eqn:U.
    + assert (off = 0 /\ more = false) as [-> ->] by (destruct more; cbn [negb] in U; [rewrite andb_false_r in U; discriminate | split; [lia|reflexivity]]).
      cbn [snd]. intros H. left. exists i, d. split; [reflexivity | exact H].
    + destruct st as [[id acc]|].
      * destruct (i =? id) eqn:Ei.
        -- destruct (off =? blen acc) eqn:Eo; [|discriminate].
           destruct (blen acc + blen d >? 65535) eqn:Ov; [discriminate|]. destruct more; [discriminate|].
           cbn [snd]. intros H. right. exists id, acc, d. assert (i = id) as -> by lia. assert (off = blen acc) as -> by lia.
           repeat split; try assumption; try lia.
           all: try (intros Z0; rewrite Z0 in U; cbn in U; discriminate).
        -- destruct (off =? 0); discriminate.
      * destruct (off =? 0); discriminate.
  - intros [(id & d & -> & H) | (id & acc & d & -> & -> & Hnz & Hb & H)].
    + exact H.
    + unfold jumbo_step. destruct ((blen acc =? 0) && negb false) eqn:U; [cbn [negb] in U; lia|].
      rewrite !Z.eqb_refl. destruct (blen acc + blen d >? 65535) eqn:Ov; [lia|]. exact H.
Qed.

(* the whole equivalence, for every frame sequence P read so far (from the idle state) and every next frame f *)
Theorem delivery_iff P f x :
  snd (jumbo_step (jafter None P) f) = Some x <->
  (exists id d, f = FFrag id 0 false d /\ udp_out d = Some x) \/
  (exists id acc d A C, P = A ++ C /\ startable (jafter None A) id /\ chain id acc C /\
     f = FFrag id (blen acc) false d /\ blen acc <> 0 /\ blen acc + blen d <= 65535 /\ udp_out (acc ++ d) = Some x).
Proof.
  rewrite step_delivers_iff. split.
  - intros [H | (id & acc & d & Hst & -> & Hnz & Hb & Hx)]; [left; exact H|]. right.
    pose proof (jinv_run P) as Hinv. rewrite Hst in Hinv. destruct Hinv as (A & C & -> & Hc & Hs).
    exists id, acc, d, A, C. repeat split; assumption.
  - intros [H | (id & acc & d & A & C & -> & Hs & Hc & -> & Hnz & Hb & Hx)]; [left; exact H|]. right.
    exists id, acc, d. rewrite jafter_app, (chain_run id acc C Hc _ Hs). repeat split; assumption.
Qed.

(* what a chain gathers: the payloads of its advancing fragments, concatenated in order (the other frames contribute nothing) *)
Fixpoint gathered (id : Z) (fill : Z) (started : bool) (frs : list ipfrag) : bytes :=
  match frs with
  | [] => []
  | FFrag i off true d :: r =>
      if negb started then (if (i =? id) && (off =? 0) then d ++ gathered id (blen d) true r else gathered id fill false r)
      else if (i =? id) && (off =? fill) && (fill + blen d <=? 65535) then d ++ gathered id (fill + blen d) true r else gathered id fill true r
  | _ :: r => gathered id fill started r
  end.
