(* C02_T2: error budget of the single-precision evaluation of the coordinate formulas, under the
   standard model of binary32 arithmetic: every operation returns exact * (1 + e), |e| <= 2^-24;
   every table entry is within 2^-23 of the true sine/cosine.  Real analysis with Interval. *)
From Coq Require Import Reals Lra.
From Interval Require Import Tactic.
Local Open Scope R_scope.

Definition u := / 16777216.      (* 2^-24 *)
Definition tb := / 8388608.      (* 2^-23: table accuracy *)

(* x = d*cos(v)*cos(hf) + RX*cos(h), evaluated left to right in binary32:
   kv, kh, kl: true cosines; a, b, c: table errors; e1..e4: rounding errors *)
Theorem x_error_budget d rx kv kh kl a b c e1 e2 e3 e4 :
  0 <= d <= 328 -> -1/10 <= rx <= 1/10 ->
  -1 <= kv <= 1 -> -1 <= kh <= 1 -> -1 <= kl <= 1 ->
  Rabs a <= tb -> Rabs b <= tb -> Rabs c <= tb ->
  Rabs e1 <= u -> Rabs e2 <= u -> Rabs e3 <= u -> Rabs e4 <= u ->
  Rabs (((d * (kv + a) * (1 + e1) * (kh + b)) * (1 + e2) + rx * (kl + c) * (1 + e3)) * (1 + e4)
        - (d * kv * kh + rx * kl)) <= 1 / 1000.
Proof.
  intros Hd Hrx Hcv Hch Hcl Ha Hb Hc H1 H2 H3 H4.
  unfold u, tb in *.
  replace (((d * (kv + a) * (1 + e1) * (kh + b)) * (1 + e2) + rx * (kl + c) * (1 + e3)) * (1 + e4) - (d * kv * kh + rx * kl))
    with (d * ((kv * b + a * kh + a * b) + (kv + a) * (kh + b) * ((1 + e1) * (1 + e2) * (1 + e4) - 1))
          + rx * (c + (kl + c) * ((1 + e3) * (1 + e4) - 1))) by ring.
  interval with (i_prec 40).
Qed.

(* z = d*sin(v) + RZ *)
Theorem z_error_budget d rz sv a e1 e2 :
  0 <= d <= 328 -> -1/10 <= rz <= 1/10 -> -1 <= sv <= 1 -> Rabs a <= tb -> Rabs e1 <= u -> Rabs e2 <= u ->
  Rabs (((d * (sv + a)) * (1 + e1) + rz) * (1 + e2) - (d * sv + rz)) <= 1 / 1000.
Proof.
  intros Hd Hrz Hsv Ha H1 H2. unfold u, tb in *.
  replace (((d * (sv + a)) * (1 + e1) + rz) * (1 + e2) - (d * sv + rz))
    with (d * (a + (sv + a) * ((1 + e1) * (1 + e2) - 1)) + rz * e2) by ring.
  interval with (i_prec 40).
Qed.

(* MEMS unit vector: x = vx * d / 32768 with |vx| <= 32768 (two operations) *)
Theorem vec_error_budget d vx e1 e2 :
  0 <= d <= 328 -> -32768 <= vx <= 32768 -> Rabs e1 <= u -> Rabs e2 <= u ->
  Rabs (((vx * d) * (1 + e1) / 32768) * (1 + e2) - vx * d / 32768) <= 1 / 1000.
Proof.
  intros Hd Hv H1 H2. unfold u in *.
  replace (((vx * d) * (1 + e1) / 32768) * (1 + e2) - vx * d / 32768)
    with ((vx / 32768) * d * ((1 + e1) * (1 + e2) - 1)) by (unfold Rdiv; ring).
  interval with (i_prec 40).
Qed.
