(* The rate-limited report sites of the current source (expansions of LIMIT_CALL / DELAY_LIMIT_CALL in processMsopPkt,
   processDifopPkt, getPointCloud, packetPut - extracted by kt.py) have the shape the model assumes: one throttle cell per code
   (each site mentions exactly one ERRCODE, no code has two sites), every code the model throttles has its site, and the limited
   body does nothing but report (no state change - a discard, a clear - hides behind the process-wide timer). *)
From Coq Require Import List String Bool.
From RS Require Import Gen.Kernels_gen.
Import ListNotations.
Local Open Scope string_scope.

Definition site_ok (s : string * list string * list string) : bool :=
  match s with (_, [_], []) => true | _ => false end.
Definition site_codes : list string := flat_map (fun s => snd (fst s)) throttle_sites.
Fixpoint nodupb (l : list string) : bool :=
  match l with [] => true | x :: r => negb (existsb (String.eqb x) r) && nodupb r end.
Definition modelled_codes : list string :=
  ["ERRCODE_CLOUDOVERFLOW"; "ERRCODE_NODIFOPRECV"; "ERRCODE_WRONGMSOPLEN"; "ERRCODE_WRONGMSOPID"; "ERRCODE_WRONGDIFOPLEN"; "ERRCODE_WRONGDIFOPID";
   "ERRCODE_POINTCLOUDNULL"; "ERRCODE_PKTBUFOVERFLOW"].

Lemma throttle_sites_shape :
  forallb site_ok throttle_sites = true /\ nodupb site_codes = true /\
  forallb (fun c => existsb (String.eqb c) site_codes) modelled_codes = true.
Proof. vm_compute. repeat split; reflexivity. Qed.

Lemma nodupb_sound l : nodupb l = true -> NoDup l.
Proof.
  induction l as [|x r IH]; intros H; [constructor|]. cbn [nodupb] in H. apply andb_prop in H. destruct H as [H1 H2].
  constructor; [|apply IH, H2]. intros Hin. apply negb_true_iff in H1.
  assert (existsb (String.eqb x) r = true) as E by (apply existsb_exists; exists x; split; [exact Hin | apply String.eqb_refl]).
  congruence.
Qed.

(* each ERRCODE has its own cell: no two sites share a code *)
Lemma one_cell_per_code : NoDup site_codes.
Proof. apply nodupb_sound. apply throttle_sites_shape. Qed.
