(* C10: packetGet() and packetPut() of LidarDriverImpl - the producer's side of the packet pipeline - regenerated from the source as
   statement trees (Gen/Kernels_gen.v) and interpreted over the queue model's state: what the interpreted current source does to the
   free pool, the queue of filled buffers, the reports and the clears is what the model's producer steps do (Model/Queue.v:
   PIdle -> PGot; PFilled -> push, notify, check, report, clear), taken one after the other.
   The dictionary reads `free_pkt_queue_.pop()` / `pkt_queue_.push(pkt)` / `pkt_queue_.clear()` as the SyncQueue operations the model
   gives them (their own critical sections are what the recorded traces of C10 are checked against), a hook invocation as nothing. *)
From Coq Require Import String.
From RS Require Import Base.Tac Model.Queue Gen.Kernels_gen Proofs.Handover.
Local Open Scope nat_scope.

Record pm := mk_pm {
  p_s : sys; p_i : nat;
  p_pkt : option bid;        (* packetGet: the local `pkt` *)
  p_sz : nat                 (* packetPut: the local `sz` *)
}.

Definition is_hook (t : string) : bool := String.prefix "RS_VERIF_EVENT(" t.

(* the model's producer i advanced by one of its micro-steps (the payload argument matters only to the fill step, which neither
   function performs) *)
Definition adv (s : sys) (i : nat) : sys := prod_step s i 0%Z.

(* leaf texts are first mapped to tags (a closed computation on the regenerated strings), then the tags are given their meaning *)
Inductive qtag := QHook | QConst | QPop | QPush | QReport | QClear.
Inductive qctag := QNotNull | QNotStuffed | QOver.
Definition qtag_of (t : string) : option qtag :=
  if is_hook t then Some QHook
  else if (t =? "constexpr static int PACKET_POOL_MAX = 1024")%string then Some QConst
  else if (t =? "std::shared_ptr<Buffer> pkt = free_pkt_queue_.pop()")%string then Some QPop
  else if (t =? "size_t sz = pkt_queue_.push(pkt)")%string then Some QPush
  else if (t =? "LIMIT_CALL(runExceptionCallback(Error(ERRCODE_PKTBUFOVERFLOW)), 1)")%string then Some QReport
  else if (t =? "pkt_queue_.clear()")%string then Some QClear
  else None.
Definition qctag_of (t : string) : option qctag :=
  if (t =? "pkt.get() != NULL")%string then Some QNotNull
  else if (t =? "!stuffed")%string then Some QNotStuffed
  else if (t =? "sz > PACKET_POOL_MAX")%string then Some QOver
  else None.

Definition q_act (g : qtag) (m : pm) : option pm :=
  let s := p_s m in let i := p_i m in
  match g with
  | QHook | QConst => Some m
  | QPop =>
      match nth_error (q_prods s) i, q_free s with
      | Some PIdle, b :: _ => Some (mk_pm (adv s i) i (Some b) (p_sz m))      (* the model's step pops the same buffer *)
      | Some PIdle, [] => Some (mk_pm s i None (p_sz m))                      (* an empty pool: a null pointer comes back *)
      | _, _ => None
      end
  | QPush =>
      (* SyncQueue::push: append under the lock, wake the consumer if the queue was empty, return the size seen under the lock *)
      match nth_error (q_prods s) i with
      | Some (PFilled _ _) =>
          let s2 := adv (adv s i) i in                             (* PFilled -> PNotify -> PCheck sz *)
          match nth_error (q_prods s2) i with
          | Some (PCheck sz) => Some (mk_pm s2 i (p_pkt m) sz)
          | _ => None
          end
      | _ => None
      end
  | QReport =>
      match nth_error (q_prods s) i with
      | Some (PCheck sz) => if POOL_MAX <? sz then Some (mk_pm (adv s i) i (p_pkt m) (p_sz m)) else None     (* PCheck -> PClear, counted as a report *)
      | _ => None
      end
  | QClear =>
      match nth_error (q_prods s) i with
      | Some PClear => Some (mk_pm (adv s i) i (p_pkt m) (p_sz m))
      | _ => None
      end
  end.
Definition q_test (g : qctag) (m : pm) : bool :=
  match g with
  | QNotNull => match p_pkt m with Some _ => true | None => false end
  | QNotStuffed => false                 (* the hand-over of a filled buffer: stuffed = true *)
  | QOver => POOL_MAX <? p_sz m
  end.
Definition q_atom (t : string) (m : pm) : option pm := match qtag_of t with Some g => q_act g m | None => None end.
Definition q_cond (t : string) (m : pm) : option bool := match qctag_of t with Some g => Some (q_test g m) | None => None end.

Definition qrun (effs : list eff) (m : pm) := run pm q_atom q_cond 10 effs m.

(* what the function's return leaves behind *)
Definition finish_get (m : pm) (ret : string) : option sys :=
  if (ret =? "pkt")%string then (match p_pkt m with Some _ => Some (p_s m) | None => None end)
  else if (ret =? "std::make_shared<Buffer>(size)")%string then
    (match p_pkt m with None => Some (adv (p_s m) (p_i m)) | Some _ => None end)        (* the model's step allocates a new buffer *)
  else None.

Lemma nth_upd {A} (l : list A) i v : i < length l -> nth_error (upd l i v) i = Some v.
Proof. revert i; induction l as [|a l IH]; intros [|i] H; cbn in *; try lia; [reflexivity | apply IH; lia]. Qed.
Lemma nth_len {A} (l : list A) i x : nth_error l i = Some x -> i < length l.
Proof. intros H. apply nth_error_Some. congruence. Qed.

Ltac qtags :=
  match goal with
  | |- context [q_atom ?t ?m] => let g := eval vm_compute in (qtag_of t) in change (q_atom t m) with (match g with Some g' => q_act g' m | None => None end); cbv beta iota
  | |- context [q_cond ?t ?m] => let g := eval vm_compute in (qctag_of t) in change (q_cond t m) with (match g with Some g' => Some (q_test g' m) | None => None end); cbv beta iota
  end.
Ltac qstep := repeat first [ rewrite run_eq; cbv beta iota | qtags | progress cbn [q_act q_test p_s p_i p_pkt p_sz] ].

(* packetGet(): a buffer from the free pool if there is one - the oldest -, else a newly allocated one: the model's PIdle step *)
Theorem packetGet_code_is_model s i : nth_error (q_prods s) i = Some PIdle ->
  exists m r, qrun LidarDriverImpl_packetGet_effects (mk_pm s i None 0) = Ret m r /\ finish_get m r = Some (prod_step s i 0%Z).
Proof.
  intros Hp. unfold LidarDriverImpl_packetGet_effects, qrun.
  qstep. rewrite Hp. destruct (q_free s) as [|b r] eqn:Ef.
  - qstep. eexists _, _. split; [reflexivity|]. reflexivity.
  - qstep. eexists _, _. split; [reflexivity|]. reflexivity.
Qed.

(* packetPut(pkt, true): push; if the size the push saw is above 1024: report, then clear - else nothing more. The model's producer
   goes PFilled -> PNotify -> PCheck -> (PClear -> PIdle | PIdle): the same queue, pool, ghost history, reports and clears *)
Fixpoint advn (n : nat) (s : sys) (i : nat) : sys := match n with O => s | S k => advn k (adv s i) i end.

Theorem packetPut_code_is_model s i b y : nth_error (q_prods s) i = Some (PFilled b y) ->
  exists m, qrun LidarDriverImpl_packetPut_effects (mk_pm s i None 0) = Go m /\
            ((POOL_MAX <? length (q_stuffed s ++ [b])) = true  -> p_s m = advn 4 s i /\ nth_error (q_prods (p_s m)) i = Some PIdle) /\
            ((POOL_MAX <? length (q_stuffed s ++ [b])) = false -> p_s m = advn 2 s i /\ nth_error (q_prods (p_s m)) i = Some (PCheck (length (q_stuffed s ++ [b]))) /\
                                                                   advn 3 s i = with_prod (p_s m) i PIdle).
Proof.
  intros Hp. pose proof (nth_len _ _ _ Hp) as Hl.
  unfold LidarDriverImpl_packetPut_effects, qrun.
  set (s1 := adv s i). assert (H1 : nth_error (q_prods s1) i = Some (PNotify (match q_stuffed s with [] => true | _ => false end) (length (q_stuffed s ++ [b])))).
  { unfold s1, adv, prod_step. rewrite Hp. cbn [q_prods]. apply nth_upd, Hl. }
  assert (Hl1 : i < length (q_prods s1)) by (apply (nth_len _ _ _ H1)).
  set (s2 := adv s1 i). assert (H2 : nth_error (q_prods s2) i = Some (PCheck (length (q_stuffed s ++ [b])))).
  { unfold s2, adv, prod_step. rewrite H1. cbn [q_prods]. apply nth_upd, Hl1. }
  assert (Hl2 : i < length (q_prods s2)) by (apply (nth_len _ _ _ H2)).
  qstep. rewrite Hp. fold s1. fold s2. rewrite H2. cbv beta iota. qstep.
  destruct (POOL_MAX <? length (q_stuffed s ++ [b])) eqn:Eo.
  - set (s3 := adv s2 i). assert (H3 : nth_error (q_prods s3) i = Some PClear).
    { unfold s3, adv, prod_step. rewrite H2, Eo. cbn [q_prods]. apply nth_upd, Hl2. }
    assert (Hl3 : i < length (q_prods s3)) by (apply (nth_len _ _ _ H3)).
    qstep. rewrite H2, Eo. fold s3. qstep. rewrite H3. qstep.
    eexists. split; [reflexivity|]. cbn [p_s]. split; [|intros; discriminate]. intros _. split; [reflexivity|].
    fold (adv s3 i). unfold adv at 1, prod_step. rewrite H3. cbn [q_prods]. apply nth_upd, Hl3.
  - qstep. eexists. split; [reflexivity|]. cbn [p_s]. split; [intros; discriminate|]. intros _. split; [reflexivity|]. split; [exact H2|].
    cbn [advn]. fold s1. fold s2. unfold adv at 1, prod_step. rewrite H2, Eo. reflexivity.
Qed.
