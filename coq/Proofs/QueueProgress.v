(* C10: progress.  From every state that satisfies the buffer-content invariant, the decoding thread alone
   (its own steps plus the always-enabled time-out of its wait) empties the queue in a bounded number of
   steps: nothing in the pipeline can block it - there is no state in which queued packets are stuck. *)
From RS Require Import Base.Tac Model.Queue Proofs.QueueInv.
Local Open Scope nat_scope.

(* remaining work of the decoding thread *)
Definition mu (s : sys) : nat :=
  3 * length (q_stuffed s) + match q_cons s with CIdle | CWait => 0 | CHave _ => 2 | CDone _ => 1 end.

Definition pair_step (s : sys) : sys := step (step s ATimeout) ACons.

Lemma pair_mem s : InvMem s -> InvMem (pair_step s).
Proof. intros H. unfold pair_step. cbn [step]. apply cons_step_mem. apply timeout_step_mem. exact H. Qed.

Lemma pair_decreases s : InvMem s -> 0 < mu s -> mu (pair_step s) < mu s.
Proof.
  intros [Hm _ _] Hp. unfold pair_step, mu in *. cbn [step].
  unfold timeout_step. destruct (q_cons s) eqn:Ec; cbn [q_cons q_stuffed] in *.
  - (* CIdle *) unfold cons_step. rewrite Ec. destruct (q_stuffed s) as [|b r] eqn:Es; [cbn in Hp; lia|].
    destruct (g_pending s) as [|e pr]; [rewrite ?Es in Hm; discriminate Hm|]. cbn [q_cons q_stuffed length]. lia.
  - (* CWait -> CIdle by the time-out *) unfold cons_step. cbn [q_cons q_stuffed g_pending].
    destruct (q_stuffed s) as [|b r] eqn:Es; [cbn in Hp; lia|].
    destruct (g_pending s) as [|e pr]; [rewrite ?Es in Hm; discriminate Hm|]. cbn [q_cons q_stuffed length]. lia.
  - unfold cons_step. rewrite Ec. cbn [q_cons q_stuffed]. lia.
  - unfold cons_step. rewrite Ec. cbn [q_cons q_stuffed]. lia.
Qed.

Lemma pair_zero s : mu s = 0 -> mu (pair_step s) = 0.
Proof.
  intros H. unfold pair_step, mu in *. cbn [step]. unfold timeout_step.
  destruct (q_cons s) eqn:Ec; cbn [q_cons q_stuffed] in *; try lia.
  - unfold cons_step. rewrite Ec. destruct (q_stuffed s) as [|b r]; [cbn; lia | cbn in H; lia].
  - unfold cons_step. cbn [q_cons q_stuffed g_pending]. destruct (q_stuffed s) as [|b r]; [cbn; lia | cbn in H; lia].
Qed.

Fixpoint pairs (k : nat) (s : sys) : sys := match k with O => s | S j => pairs j (pair_step s) end.

Lemma pairs_drain k : forall s, InvMem s -> mu s <= k -> mu (pairs k s) = 0.
Proof.
  induction k as [|k IH]; intros s HM Hk; cbn [pairs]; [lia|].
  apply IH; [apply pair_mem; exact HM|].
  destruct (Nat.eq_dec (mu s) 0) as [E|E]; [rewrite (pair_zero s E); lia|].
  pose proof (pair_decreases s HM ltac:(lia)). lia.
Qed.

(* the schedule the lemma speaks about is an ordinary schedule of the model *)
Fixpoint pair_sched (k : nat) : list action := match k with O => [] | S j => ATimeout :: ACons :: pair_sched j end.
Lemma pairs_is_run k : forall s, pairs k s = run s (pair_sched k).
Proof. induction k as [|k IH]; intros s; [reflexivity|]. cbn [pairs pair_sched run fold_left]. rewrite IH. reflexivity. Qed.

(* steps of the decoding thread drop nothing and add nothing to what was handed over *)
Lemma pair_ghost s : g_dropped (pair_step s) = g_dropped s /\ g_pushed (pair_step s) = g_pushed s /\ g_maxsz (pair_step s) = g_maxsz s.
Proof.
  unfold pair_step. cbn [step]. unfold timeout_step, cons_step.
  destruct (q_cons s) eqn:Ec; cbn [q_cons q_stuffed g_pending g_dropped g_pushed g_maxsz]; rewrite ?Ec;
    try (destruct (q_stuffed s); [|destruct (g_pending s)]); cbn [q_cons q_stuffed g_pending g_dropped g_pushed g_maxsz]; repeat split.
Qed.
Lemma pairs_ghost k : forall s, g_dropped (pairs k s) = g_dropped s /\ g_pushed (pairs k s) = g_pushed s.
Proof.
  induction k as [|k IH]; intros s; [split; reflexivity|]. cbn [pairs].
  destruct (IH (pair_step s)) as [H1 H2]. destruct (pair_ghost s) as (G1 & G2 & _). split; congruence.
Qed.

(* Progress: from every reachable state, if only the decoding thread runs (with its time-out), after at most
   mu s rounds the queue is empty, the decoder holds nothing, nothing more was dropped, and every packet
   handed over so far that was not dropped by an earlier overflow clear has been decoded. *)
Theorem drain_progress n sched :
  let s := run (init n) sched in
  let s' := run s (pair_sched (mu s)) in
  q_stuffed s' = [] /\ g_held s' = [] /\ g_dropped s' = g_dropped s /\
  (forall e, In e (g_pushed s) -> ~ In e (g_dropped s) -> In e (g_decoded s')).
Proof.
  intros s s'. subst s'. rewrite <- pairs_is_run.
  destruct (inv_reachable n sched) as (HO & HM & HH & HV & HW). fold s in HO, HM, HH, HV, HW.
  pose proof (pairs_drain (mu s) s HM (le_n _)) as Hz.
  (* the invariant still holds: pairs is a run *)
  assert (HI : Inv (pairs (mu s) s)) by (rewrite pairs_is_run; apply inv_run; exact (conj HO (conj HM (conj HH (conj HV HW))))).
  destruct HI as (_ & HM' & HH' & _ & _).
  set (t := pairs (mu s) s) in *.
  assert (Hst : q_stuffed t = []) by (unfold mu in Hz; destruct (q_stuffed t); [reflexivity | cbn in Hz; lia]).
  assert (Hc : q_cons t = CIdle \/ q_cons t = CWait) by (unfold mu in Hz; rewrite Hst in Hz; destruct (q_cons t); cbn in Hz; try lia; auto).
  destruct HM' as [Hmem _ Hheld].
  assert (Hh : g_held t = []) by (destruct Hc as [E|E]; rewrite E in Hheld; exact Hheld).
  assert (Hp : g_pending t = []) by (rewrite Hst in Hmem; destruct (g_pending t); [reflexivity | discriminate Hmem]).
  destruct (pairs_ghost (mu s) s) as [Gd Gp]. fold t in Gd, Gp.
  repeat split; try assumption.
  intros e He Hnd. destruct HH' as [_ _ _ _ Hpart _]. unfold live in Hpart. rewrite Hh, Hp in Hpart. cbn [app] in Hpart. rewrite app_nil_r in Hpart.
  rewrite Gp, Gd in Hpart. destruct (Hpart e He) as [H|H]; [exact H | contradiction].
Qed.
