(* C04: MEMS frames follow packet numbers. *)
From RS Require Import Base.Tac Model.Kernels Model.Spec.
Local Open Scope Z_scope.

Lemma safe_min_spec p : safe_min p = Z.max 0 (p - 10).
Proof. unfold safe_min, SEQ_RANGE. destruct (p >? 10) eqn:E; lia. Qed.

(* T1: a rewind: the number is more than 10 below the tracked position *)
Lemma seq_split_iff st s : 0 <= s ->
  (fst (seq_step st s) = true <-> s + 10 < sq_prev st) /\ fst (seq_step st s) = rewindb (sq_prev st) s.
Proof.
  intros Hs. unfold seq_step, rewindb. cbv zeta. rewrite safe_min_spec.
  destruct (s <? Z.max 0 (sq_prev st - 10)) eqn:E1; cbn [fst].
  - split; [split; intros; [lia|reflexivity]|]. lia.
  - destruct (s <? sq_prev st); [|destruct (s <=? safe_max (sq_prev st))]; cbn [fst]; (split; [split; intros; [discriminate|lia]|lia]).
Qed.

(* on a rewind the position restarts at the packet's number; the largest number ever seen is kept *)
Lemma seq_rewind_state st s : fst (seq_step st s) = true ->
  sq_prev (snd (seq_step st s)) = s /\ sq_looped (snd (seq_step st s)) = true.
Proof.
  unfold seq_step. cbv zeta. destruct (s <? safe_min (sq_prev st)); cbn [fst snd sq_prev sq_looped]; [auto|].
  destruct (s <? sq_prev st); [|destruct (s <=? safe_max (sq_prev st))]; cbn [fst]; discriminate.
Qed.

(* T2: a tolerated number (within 10 of the position, position <= 65525) never splits and moves the
   position to the running maximum *)
Lemma seq_tolerated st s : 0 <= s -> sq_prev st <= 65525 ->
  sq_prev st - 10 <= s <= sq_prev st + 10 ->
  fst (seq_step st s) = false /\ sq_prev (snd (seq_step st s)) = Z.max (sq_prev st) s /\
  sq_looped (snd (seq_step st s)) = sq_looped st.
Proof.
  intros Hs Hp Ht. unfold seq_step. cbv zeta. rewrite safe_min_spec. unfold safe_max, SEQ_RANGE.
  assert (E : (sq_prev st + 10) mod 65536 = sq_prev st + 10) by (apply Z.mod_small; lia).
  rewrite E.
  destruct (s <? Z.max 0 (sq_prev st - 10)) eqn:E1; [lia|].
  destruct (s <? sq_prev st) eqn:E2; cbn [fst snd sq_prev sq_looped]; [repeat split; lia|].
  destruct (s <=? sq_prev st + 10) eqn:E3; cbn [fst snd sq_prev sq_looped]; [repeat split; lia|lia].
Qed.

(* the first packet of a session: any number becomes the position, no split *)
Lemma seq_first s : 0 <= s < 65536 ->
  fst (seq_step seq_init s) = false /\ sq_prev (snd (seq_step seq_init s)) = s.
Proof.
  intros Hs. unfold seq_step, seq_init. cbn [sq_prev sq_max sq_looped]. cbv zeta.
  change (safe_min 0) with 0. change (safe_max 0) with 10.
  destruct (s <? 0) eqn:E1; [lia|]. destruct (s <=? 10); cbn; split; reflexivity.
Qed.

(* ---- streams *)
Fixpoint run_seq (st : seq_state) (l : list Z) : list bool * seq_state :=
  match l with
  | [] => ([], st)
  | s :: r => let '(f, st') := seq_step st s in let '(fs, st'') := run_seq st' r in (f :: fs, st'')
  end.

Lemma run_seq_app st a b :
  run_seq st (a ++ b) = (fst (run_seq st a) ++ fst (run_seq (snd (run_seq st a)) b), snd (run_seq (snd (run_seq st a)) b)).
Proof.
  revert st. induction a as [|s a IH]; intros st; cbn [app run_seq fst snd].
  - destruct (run_seq st b); reflexivity.
  - destruct (seq_step st s) as [f st']. rewrite IH.
    destruct (run_seq st' a) as [fa sa]. cbn [fst snd]. destruct (run_seq sa b); reflexivity.
Qed.

(* the tail of a scan: every number within 10 of the position tracked so far *)
Fixpoint tolerated (p : Z) (l : list Z) : Prop :=
  match l with
  | [] => True
  | s :: r => 0 <= s <= 65525 /\ p - 10 <= s <= p + 10 /\ tolerated (Z.max p s) r
  end.
Fixpoint track (p : Z) (l : list Z) : Z := match l with [] => p | s :: r => track (Z.max p s) r end.

Lemma run_tolerated : forall l st, sq_prev st <= 65525 -> tolerated (sq_prev st) l ->
  fst (run_seq st l) = repeat false (length l) /\ sq_prev (snd (run_seq st l)) = track (sq_prev st) l /\
  sq_looped (snd (run_seq st l)) = sq_looped st /\ track (sq_prev st) l <= 65525.
Proof.
  induction l as [|s r IH]; intros st Hp Ht.
  - cbn. repeat split; auto.
  - cbn [tolerated] in Ht. destruct Ht as (Hs & Hw & Hr).
    destruct (seq_tolerated st s) as (F & P & Lp); try lia.
    cbn [run_seq track length repeat]. destruct (seq_step st s) as [f st'] eqn:E. cbn [fst snd] in F, P, Lp. subst f.
    specialize (IH st'). rewrite P in IH. specialize (IH ltac:(lia) Hr).
    destruct (run_seq st' r) as [fs st'']. cbn [fst snd] in *. destruct IH as (I1 & I2 & I3 & I4).
    rewrite I1. repeat split; auto. congruence.
Qed.

(* a scan = its first received number f followed by tolerated numbers; it follows the previous scan if
   f is more than 10 below the position reached there *)
Definition scan_flags (first_of_session : bool) (n : nat) : list bool := negb first_of_session :: repeat false n.

Lemma run_scan st f rest : 0 <= f <= 65525 -> f + 10 < sq_prev st -> tolerated f rest ->
  fst (run_seq st (f :: rest)) = scan_flags false (length rest) /\
  sq_prev (snd (run_seq st (f :: rest))) = track f rest /\ track f rest <= 65525 /\
  sq_looped (snd (run_seq st (f :: rest))) = true.
Proof.
  intros Hf Hr Ht. cbn [run_seq].
  destruct (seq_split_iff st f ltac:(lia)) as [[_ Hsp] _]. specialize (Hsp Hr).
  destruct (seq_rewind_state st f Hsp) as [P Lp].
  destruct (seq_step st f) as [fl st']. cbn [fst snd] in *. subst fl.
  destruct (run_tolerated rest st') as (I1 & I2 & I3 & I4); [lia | rewrite P; exact Ht |].
  destruct (run_seq st' rest) as [fs st'']. cbn [fst snd] in *.
  unfold scan_flags. cbn [negb]. rewrite I1, I2, P, I3, Lp. repeat split; auto. rewrite P in I4. exact I4.
Qed.

(* whole streams: every scan after the first opens exactly one new cloud, at its first packet *)
Fixpoint scans_ok (p : Z) (scans : list (Z * list Z)) : Prop :=
  match scans with
  | [] => True
  | (f, rest) :: more => 0 <= f <= 65525 /\ f + 10 < p /\ tolerated f rest /\ scans_ok (track f rest) more
  end.

Theorem whole_scans : forall scans st, scans_ok (sq_prev st) scans ->
  fst (run_seq st (flat_map (fun s => fst s :: snd s) scans)) =
  flat_map (fun s => scan_flags false (length (snd s))) scans.
Proof.
  induction scans as [|[f rest] more IH]; intros st H; [reflexivity|].
  cbn [scans_ok] in H. destruct H as (Hf & Hr & Ht & Hm).
  cbn [flat_map fst snd]. rewrite run_seq_app.
  destruct (run_scan st f rest Hf Hr Ht) as (F & P & B & _).
  cbn [fst]. rewrite F. f_equal. apply IH. rewrite P. exact Hm.
Qed.

(* the first scan of a session (possibly truncated): no split at all *)
Theorem first_scan f rest : 0 <= f <= 65525 -> tolerated f rest ->
  fst (run_seq seq_init (f :: rest)) = scan_flags true (length rest) /\
  sq_prev (snd (run_seq seq_init (f :: rest))) = track f rest.
Proof.
  intros Hf Ht. cbn [run_seq]. destruct (seq_first f ltac:(lia)) as [F P].
  destruct (seq_step seq_init f) as [fl st']. cbn [fst snd] in *. subst fl.
  destruct (run_tolerated rest st') as (I1 & I2 & _); [lia | rewrite P; exact Ht |].
  destruct (run_seq st' rest) as [fs st'']. cbn [fst snd] in *. unfold scan_flags. cbn [negb]. rewrite I1, I2, P. auto.
Qed.

(* T3 (M1): the end-of-scan split fires after a packet iff a complete scan was seen (a rewind
   happened) and the packet carries the largest number seen so far, or - recorded quirk - the packet
   is numbered 0 before any rewind *)
Lemma m1_end_split st s : 0 <= s ->
  let st' := snd (seq_step st s) in
  (seq_max_seq st' =? s) = (if sq_looped st' then sq_max st' =? s else s =? 0).
Proof. intros Hs. cbv zeta. unfold seq_max_seq. destruct (sq_looped _); [reflexivity|]. apply Z.eqb_sym. Qed.

Lemma seq_max_tracks st s : sq_max (snd (seq_step st s)) = Z.max (sq_max st) s.
Proof.
  unfold seq_step. cbv zeta. destruct (s >? sq_max st) eqn:E;
  destruct (s <? safe_min (sq_prev st)); [| destruct (s <? sq_prev st); [|destruct (s <=? safe_max (sq_prev st))] |
                                            | destruct (s <? sq_prev st); [|destruct (s <=? safe_max (sq_prev st))]];
  cbn [snd sq_max]; lia.
Qed.
