(* C20: the table-driven CRC-32 of basic_attr.hpp is the bit-by-bit reflected IEEE CRC-32. *)
From RS Require Import Base.Tac Base.Bytes Model.Desc Model.Driver Gen.Params_gen.
Local Open Scope Z_scope.

Definition POLY : Z := 3988292384.   (* 0xEDB88320 *)
(* one bit of the reflected algorithm *)
Definition bit_step (x : Z) : Z := Z.lxor (Z.shiftr x 1) (if Z.odd x then POLY else 0).
Definition iter8 (x : Z) : Z := bit_step (bit_step (bit_step (bit_step (bit_step (bit_step (bit_step (bit_step x))))))).
(* one byte, bit by bit *)
Definition crc_bitwise_step (c b : Z) : Z := iter8 (Z.lxor c b).
Definition crc_bitwise (data : bytes) : Z :=
  Z.lxor (fold_left crc_bitwise_step data 4294967295) 4294967295.

(* T2: every one of the 256 regenerated table entries is 8 bitwise rounds of its index *)
Lemma table_is_bitwise : g_crc_table = map iter8 (zrange 0 256).
Proof. vm_compute. reflexivity. Qed.

Lemma table_nth i : 0 <= i < 256 -> nth (Z.to_nat i) g_crc_table 0 = iter8 i.
Proof.
  intros H. rewrite table_is_bitwise.
  assert (Hs : forall n lo k, (k < n)%nat -> nth k (map iter8 (zrange_aux lo n)) 0 = iter8 (lo + Z.of_nat k)).
  { induction n as [|n IH]; intros lo k Hk; [lia|]. cbn [zrange_aux map]. destruct k as [|k].
    - cbn. f_equal. lia.
    - cbn [nth]. rewrite IH by lia. f_equal. lia. }
  unfold zrange. rewrite Hs by lia. f_equal. lia.
Qed.

(* XOR-linearity of the bit step *)
Lemma odd_lxor a b : Z.odd (Z.lxor a b) = xorb (Z.odd a) (Z.odd b).
Proof. rewrite <- !Z.bit0_odd. apply Z.lxor_spec. Qed.

Lemma bit_step_lxor a b : bit_step (Z.lxor a b) = Z.lxor (bit_step a) (bit_step b).
Proof.
  unfold bit_step. rewrite Z.shiftr_lxor, odd_lxor.
  destruct (Z.odd a), (Z.odd b); cbn [xorb];
    rewrite ?Z.lxor_0_r; rewrite ?Z.lxor_assoc; try reflexivity.
  - (* both odd: P xor P cancels *)
    rewrite (Z.lxor_comm (Z.shiftr b 1) POLY), <- (Z.lxor_assoc POLY POLY), Z.lxor_nilpotent, Z.lxor_0_l. reflexivity.
  - rewrite (Z.lxor_comm POLY (Z.shiftr b 1)). reflexivity.
Qed.

Lemma iter8_lxor a b : iter8 (Z.lxor a b) = Z.lxor (iter8 a) (iter8 b).
Proof. unfold iter8. rewrite !bit_step_lxor. reflexivity. Qed.

Lemma bit_step_even k : 0 <= k -> bit_step (2 * k) = k.
Proof.
  intros Hk. unfold bit_step. rewrite Z.odd_mul. cbn [Z.odd andb]. rewrite Z.lxor_0_r.
  rewrite Z.shiftr_div_pow2 by lia. change (2 ^ 1) with 2. rewrite Z.mul_comm, Z.div_mul by lia. reflexivity.
Qed.

Lemma iter8_shift hi : 0 <= hi -> iter8 (hi * 256) = hi.
Proof.
  intros H. unfold iter8.
  replace (hi * 256) with (2 * (2 * (2 * (2 * (2 * (2 * (2 * (2 * hi)))))))) by lia.
  rewrite !bit_step_even by lia. reflexivity.
Qed.

(* disjoint bit ranges: addition is xor *)
Lemma split_lxor hi lo : 0 <= hi -> 0 <= lo < 256 -> hi * 256 + lo = Z.lxor (hi * 256) lo.
Proof.
  intros Hh Hl. apply Z.add_nocarry_lxor.
  apply Z.bits_inj'. intros n Hn. rewrite Z.land_spec, Z.bits_0.
  destruct (Z_lt_dec n 8) as [Hlt|Hge].
  - replace (hi * 256) with (hi * 2 ^ 8) by lia. rewrite Z.mul_pow2_bits_low by lia. reflexivity.
  - rewrite (Z.bits_above_log2 lo n); [apply andb_false_r | lia |].
    destruct (Z.eq_dec lo 0) as [->|Hne]; [cbn; lia|].
    assert (Z.log2 lo < 8) by (apply Z.log2_lt_pow2; lia). lia.
Qed.

Lemma log2_byte x : 0 <= x < 256 -> Z.log2 x < 8.
Proof. intros H. destruct (Z.eq_dec x 0) as [->|Hne]; [cbn; lia|]. apply Z.log2_lt_pow2; lia. Qed.

Lemma lxor_byte_bound a b : 0 <= a < 256 -> 0 <= b < 256 -> 0 <= Z.lxor a b < 256.
Proof.
  intros Ha Hb. split; [apply Z.lxor_nonneg; lia|].
  destruct (Z.eq_dec (Z.lxor a b) 0) as [->|Hne]; [lia|].
  assert (Hp : 0 < Z.lxor a b) by (pose proof (proj2 (Z.lxor_nonneg a b) ltac:(lia)); lia).
  change 256 with (2 ^ 8). apply (proj2 (Z.log2_lt_pow2 (Z.lxor a b) 8 Hp)).
  apply Z.le_lt_trans with (Z.max (Z.log2 a) (Z.log2 b)); [apply Z.log2_lxor; lia|].
  apply Z.max_lub_lt; apply log2_byte; assumption.
Qed.

(* T3 (one byte): the table-driven step of the code equals the bit-by-bit step, for every running
   value and every byte *)
Theorem crc_step_is_bitwise c b : 0 <= c -> 0 <= b < 256 -> crc_step g_crc_table c b = crc_bitwise_step c b.
Proof.
  intros Hc Hb. unfold crc_step, crc_bitwise_step.
  set (lo := c mod 256). set (hi := c / 256).
  assert (Hlo : 0 <= lo < 256) by (subst lo; apply Z.mod_pos_bound; lia).
  assert (Hhi : 0 <= hi) by (subst hi; apply Z.div_pos; lia).
  assert (Ec : c = hi * 256 + lo) by (subst hi lo; rewrite Z.mul_comm; apply Z.div_mod; lia).
  pose proof (lxor_byte_bound lo b Hlo Hb) as Hx.
  rewrite table_nth by exact Hx.
  clearbody lo hi. subst c. rewrite (split_lxor hi lo Hhi Hlo), Z.lxor_assoc.
  rewrite (iter8_lxor (hi * 256) (Z.lxor lo b)), iter8_shift by lia. apply Z.lxor_comm.
Qed.

Lemma crc_step_nonneg c b : 0 <= c -> 0 <= b < 256 -> 0 <= crc_step g_crc_table c b.
Proof.
  intros Hc Hb. rewrite crc_step_is_bitwise by assumption. unfold crc_bitwise_step, iter8.
  assert (Hs : forall x, 0 <= x -> 0 <= bit_step x).
  { intros x Hx. unfold bit_step. apply Z.lxor_nonneg. split; intros _.
    - destruct (Z.odd x); unfold POLY; lia.
    - apply Z.shiftr_nonneg. exact Hx. }
  repeat apply Hs. apply Z.lxor_nonneg. lia.
Qed.

(* T3: for all byte strings *)
Theorem crc_table_is_bitwise : forall data s, 0 <= s -> Forall (fun b => 0 <= b < 256) data ->
  fold_left (crc_step g_crc_table) data s = fold_left crc_bitwise_step data s.
Proof.
  induction data as [|b r IH]; intros s Hs HF; [reflexivity|].
  inversion HF as [|? ? Hb HF']; subst. cbn [fold_left].
  rewrite <- crc_step_is_bitwise by assumption. apply IH; [apply crc_step_nonneg; assumption | exact HF'].
Qed.

Theorem crc_calc_is_bitwise data : Forall (fun b => 0 <= b < 256) data ->
  crc_calc g_crc_table data 0 true = crc_bitwise data.
Proof. intros H. unfold crc_calc, crc_bitwise. rewrite crc_table_is_bitwise by (auto; lia). reflexivity. Qed.

(* T4: chaining: continuing from a previous value equals one pass over the concatenation *)
Theorem crc_chaining tbl a b : crc_calc tbl b (crc_calc tbl a 0 true) false = crc_calc tbl (a ++ b) 0 true.
Proof.
  unfold crc_calc. rewrite fold_left_app.
  rewrite Z.lxor_assoc, Z.lxor_nilpotent, Z.lxor_0_r. reflexivity.
Qed.

Lemma in_firstn {A} (n : nat) (l : list A) x : In x (firstn n l) -> In x l.
Proof. revert l. induction n as [|n IH]; intros l H; [contradiction|]. destruct l as [|y l]; [contradiction|]. cbn in H. destruct H as [->|H]; [now left | right; auto]. Qed.
Lemma in_skipn {A} (n : nat) (l : list A) x : In x (skipn n l) -> In x l.
Proof. revert l. induction n as [|n IH]; intros l H; [exact H|]. destruct l as [|y l]; [contradiction|]. right. apply IH. exact H. Qed.

(* T5: the acceptance rule: stored big-endian CRC at length-6 against the CRC of everything before
   it followed by the final 2-byte rolling counter *)
Theorem crc_rule b : Forall (fun x => 0 <= x < 256) b -> 6 <= blen b ->
  crc_ok g_crc_table b = (crc_bitwise (firstn (Z.to_nat (blen b - 6)) b ++ slice b (blen b - 2) 2) =? be32 b (blen b - 6)).
Proof.
  intros HF Hl. unfold crc_ok. cbv zeta. rewrite crc_chaining.
  rewrite crc_calc_is_bitwise; [reflexivity|].
  rewrite Forall_forall in HF. apply Forall_app. split; apply Forall_forall; intros x Hx; apply HF.
  - eapply in_firstn; exact Hx.
  - unfold slice in Hx. apply in_firstn in Hx. eapply in_skipn; exact Hx.
Qed.
