(* C02 (transform option): the rigid motion applied to every point when ENABLE_TRANSFORM is compiled in.
   Decoder::Decoder builds  trans_ = Translation(x,y,z) * Rz(yaw) * Ry(pitch) * Rx(roll)  (Eigen angle-axis
   rotations about the unit axes) and transformPoint multiplies the homogeneous point by it.
   The definitions below are the ones ocaml/driver.ml transliterates (in double) to evaluate the model's
   points for the transform build; the theorems are over the real numbers. *)
From Coq Require Import Reals Lra.
Local Open Scope R_scope.

Definition vec := (R * R * R)%type.

Definition rot_x (a : R) (p : vec) : vec :=
  let '(x, y, z) := p in (x, cos a * y - sin a * z, sin a * y + cos a * z).
Definition rot_y (a : R) (p : vec) : vec :=
  let '(x, y, z) := p in (cos a * x + sin a * z, y, - sin a * x + cos a * z).
Definition rot_z (a : R) (p : vec) : vec :=
  let '(x, y, z) := p in (cos a * x - sin a * y, sin a * x + cos a * y, z).
Definition translate (t p : vec) : vec :=
  let '(tx, ty, tz) := t in let '(x, y, z) := p in (x + tx, y + ty, z + tz).

(* roll about x first, then pitch about y, then yaw about z, then the translation *)
Definition transform (t : vec) (roll pitch yaw : R) (p : vec) : vec :=
  translate t (rot_z yaw (rot_y pitch (rot_x roll p))).

Definition sqnorm (p : vec) : R := let '(x, y, z) := p in x * x + y * y + z * z.
Definition sub (p q : vec) : vec := let '(x, y, z) := p in let '(a, b, c) := q in (x - a, y - b, z - c).
Definition dot (p q : vec) : R := let '(x, y, z) := p in let '(a, b, c) := q in x * a + y * b + z * c.

Lemma vec_eq (a b c a' b' c' : R) : a = a' -> b = b' -> c = c' -> (a, b, c) = (a', b', c').
Proof. intros; subst; reflexivity. Qed.

Lemma sc2 a : sin a * sin a + cos a * cos a = 1.
Proof. generalize (sin2_cos2 a). unfold Rsqr. lra. Qed.

(* identity parameters leave every point where it is (what C20 relies on for ENABLE_TRANSFORM) *)
Theorem transform_identity p : transform (0, 0, 0) 0 0 0 p = p.
Proof.
  destruct p as [[x y] z]. unfold transform, translate, rot_z, rot_y, rot_x.
  rewrite sin_0, cos_0. apply vec_eq; ring.
Qed.

(* the 3x4 matrix of the composition: what Eigen's product  T * Rz * Ry * Rx  contains *)
Theorem transform_matrix tx ty tz roll pitch yaw x y z :
  transform (tx, ty, tz) roll pitch yaw (x, y, z) =
  let cr := cos roll in let sr := sin roll in
  let cp := cos pitch in let sp := sin pitch in
  let cy := cos yaw in let sy := sin yaw in
  ( (cy * cp) * x + (cy * sp * sr - sy * cr) * y + (cy * sp * cr + sy * sr) * z + tx,
    (sy * cp) * x + (sy * sp * sr + cy * cr) * y + (sy * sp * cr - cy * sr) * z + ty,
    (- sp) * x + (cp * sr) * y + (cp * cr) * z + tz ).
Proof.
  unfold transform, translate, rot_z, rot_y, rot_x. cbv zeta. apply vec_eq; ring.
Qed.

(* each elementary rotation preserves lengths ... *)
Lemma rot_x_norm a p : sqnorm (rot_x a p) = sqnorm p.
Proof.
  destruct p as [[x y] z]. unfold sqnorm, rot_x.
  replace (x * x + (cos a * y - sin a * z) * (cos a * y - sin a * z) + (sin a * y + cos a * z) * (sin a * y + cos a * z))
    with (x * x + (sin a * sin a + cos a * cos a) * (y * y + z * z)) by ring.
  rewrite sc2. ring.
Qed.
Lemma rot_y_norm a p : sqnorm (rot_y a p) = sqnorm p.
Proof.
  destruct p as [[x y] z]. unfold sqnorm, rot_y.
  replace ((cos a * x + sin a * z) * (cos a * x + sin a * z) + y * y + (- sin a * x + cos a * z) * (- sin a * x + cos a * z))
    with (y * y + (sin a * sin a + cos a * cos a) * (x * x + z * z)) by ring.
  rewrite sc2. ring.
Qed.
Lemma rot_z_norm a p : sqnorm (rot_z a p) = sqnorm p.
Proof.
  destruct p as [[x y] z]. unfold sqnorm, rot_z.
  replace ((cos a * x - sin a * y) * (cos a * x - sin a * y) + (sin a * x + cos a * y) * (sin a * x + cos a * y) + z * z)
    with (z * z + (sin a * sin a + cos a * cos a) * (x * x + y * y)) by ring.
  rewrite sc2. ring.
Qed.
(* ... and is linear *)
Lemma rot_x_sub a p q : sub (rot_x a p) (rot_x a q) = rot_x a (sub p q).
Proof. destruct p as [[x y] z], q as [[u v] w]. unfold sub, rot_x. apply vec_eq; ring. Qed.
Lemma rot_y_sub a p q : sub (rot_y a p) (rot_y a q) = rot_y a (sub p q).
Proof. destruct p as [[x y] z], q as [[u v] w]. unfold sub, rot_y. apply vec_eq; ring. Qed.
Lemma rot_z_sub a p q : sub (rot_z a p) (rot_z a q) = rot_z a (sub p q).
Proof. destruct p as [[x y] z], q as [[u v] w]. unfold sub, rot_z. apply vec_eq; ring. Qed.
Lemma translate_sub t p q : sub (translate t p) (translate t q) = sub p q.
Proof. destruct t as [[a b] c], p as [[x y] z], q as [[u v] w]. unfold sub, translate. apply vec_eq; ring. Qed.

(* the transform is a rigid motion: the distance between any two points is unchanged, whatever the
   six parameters are - so the cloud keeps its shape and scale, only its pose changes *)
Theorem transform_rigid t roll pitch yaw p q :
  sqnorm (sub (transform t roll pitch yaw p) (transform t roll pitch yaw q)) = sqnorm (sub p q).
Proof.
  unfold transform. rewrite translate_sub, rot_z_sub, rot_z_norm, rot_y_sub, rot_y_norm, rot_x_sub, rot_x_norm.
  reflexivity.
Qed.

(* the translation is the image of the sensor origin; with no rotation the transform is that shift *)
Theorem transform_origin t roll pitch yaw : transform t roll pitch yaw (0, 0, 0) = t.
Proof.
  destruct t as [[a b] c]. unfold transform, translate, rot_z, rot_y, rot_x. apply vec_eq; ring.
Qed.
Theorem transform_pure_translation t p : transform t 0 0 0 p = translate t p.
Proof.
  destruct p as [[x y] z]. unfold transform, rot_z, rot_y, rot_x. rewrite sin_0, cos_0.
  f_equal. apply vec_eq; ring.
Qed.

(* the order of the three rotations matters and is fixed: a quarter turn of roll followed by a quarter
   turn of yaw sends the y axis to the z axis (the other order would send it to -x) *)
Theorem transform_order_witness : transform (0, 0, 0) (PI / 2) 0 (PI / 2) (0, 1, 0) = (0, 0, 1).
Proof.
  unfold transform, translate, rot_z, rot_y, rot_x. rewrite sin_0, cos_0, sin_PI2, cos_PI2.
  apply vec_eq; ring.
Qed.

(* yaw alone is the rotation of the horizontal plane by that angle: a point at azimuth-free polar
   position (r, b) moves to (r, b + yaw) *)
Theorem transform_yaw_polar r b yaw z :
  transform (0, 0, 0) 0 0 yaw (r * cos b, r * sin b, z) = (r * cos (b + yaw), r * sin (b + yaw), z).
Proof.
  unfold transform, translate, rot_z, rot_y, rot_x. rewrite sin_0, cos_0, cos_plus, sin_plus.
  apply vec_eq; ring.
Qed.
