(* C17: driver instances do not influence each other's clouds and packet records.
   The only state shared between instances is the process-wide error throttle (static prev_tm of
   LIMIT_CALL); it decides whether an error report is emitted and nothing else. *)
From RS Require Import Base.Tac Base.Bytes Base.Dyadic Model.Desc Model.Kernels Model.Decoder Model.Driver Model.Input Model.Scenario.
Local Open Scope Z_scope.

Definition is_err (o : out) : bool := match o with OErr _ => true | _ => false end.
(* the outputs that are not error reports: get/put of clouds and packet records *)
Definition quiet (os : list out) : list out := filter (fun o => negb (is_err o)) os.

Lemma quiet_app a b : quiet (a ++ b) = quiet a ++ quiet b.
Proof. apply filter_app. Qed.

Lemma limit_call_quiet th now c : quiet (snd (limit_call th now c)) = [].
Proof. unfold limit_call. destruct (now - _ >? 1); reflexivity. Qed.
Lemma delay_limit_call_quiet th now c : quiet (snd (delay_limit_call th now c)) = [].
Proof. unfold delay_limit_call. destruct (th_get th c); [destruct (now - _ >? 1)|]; reflexivity. Qed.

(* ---- every function that threads the throttle: the driver state and the quiet outputs do not depend on it *)
Lemma get_cloud_th fuel : forall answers fresh th th' now,
  let r := get_cloud fuel answers fresh th now in let r' := get_cloud fuel answers fresh th' now in
  fst (fst (fst (fst r))) = fst (fst (fst (fst r'))) /\ snd (fst (fst (fst r))) = snd (fst (fst (fst r'))) /\
  snd (fst (fst r)) = snd (fst (fst r')) /\ quiet (snd r) = quiet (snd r').
Proof.
  induction fuel as [|k IH]; intros answers fresh th th' now; cbv zeta.
  - destruct answers as [|[id|] rest]; cbn; repeat split; reflexivity.
  - destruct answers as [|[id|] rest]; [cbn; repeat split; reflexivity .. |].
    cbn [get_cloud].
    pose proof (limit_call_quiet th now ERR_POINTCLOUDNULL) as Q1. pose proof (limit_call_quiet th' now ERR_POINTCLOUDNULL) as Q2.
    destruct (limit_call th now ERR_POINTCLOUDNULL) as [th1 e1]. destruct (limit_call th' now ERR_POINTCLOUDNULL) as [th1' e1'].
    cbn [snd] in Q1, Q2.
    specialize (IH rest fresh th1 th1' now). cbv zeta in IH.
    destruct (get_cloud k rest fresh th1 now) as [[[[id a] f] th2] o]. destruct (get_cloud k rest fresh th1' now) as [[[[id' a'] f'] th2'] o'].
    cbn [fst snd] in *. destruct IH as (-> & -> & -> & Ho). repeat split; try reflexivity.
    cbn [quiet filter is_err negb]. fold (quiet (e1 ++ o)). fold (quiet (e1' ++ o')). rewrite !quiet_app, Q1, Q2, Ho. reflexivity.
Qed.

Definition same3 (r r' : drv * throttles * list out) : Prop :=
  fst (fst r) = fst (fst r') /\ quiet (snd r) = quiet (snd r').

Lemma split_frame_th v th th' now ts : same3 (split_frame v th now ts) (split_frame v th' now ts).
Proof.
  unfold split_frame, same3. destruct (v_open v) as [|p pts]; [split; reflexivity|]. cbv zeta.
  pose proof (get_cloud_th (S (length (v_answers v))) (v_answers v) (v_fresh v) th th' now) as H. cbv zeta in H.
  destruct (get_cloud _ (v_answers v) (v_fresh v) th now) as [[[[id a] f] th1] o].
  destruct (get_cloud _ (v_answers v) (v_fresh v) th' now) as [[[[id' a'] f'] th1'] o'].
  cbn [fst snd] in *. destruct H as (-> & -> & -> & Ho). split; [reflexivity|].
  cbn [quiet filter is_err negb]. fold (quiet o). fold (quiet o'). rewrite Ho. reflexivity.
Qed.

Lemma feed_blocks_th bs : forall v th th' now, same3 (feed_blocks v th now bs) (feed_blocks v th' now bs).
Proof.
  induction bs as [|bo rest IH]; intros v th th' now; [split; reflexivity|].
  cbn [feed_blocks]. destruct (bo_split bo).
  - pose proof (split_frame_th v th th' now (bo_cloud_ts bo)) as [Hv Ho].
    destruct (split_frame v th now _) as [[v1 th1] o1]. destruct (split_frame v th' now _) as [[v1' th1'] o1'].
    cbn [fst snd] in Hv, Ho. subst v1'.
    match goal with |- context [feed_blocks ?X th1 now rest] => specialize (IH X th1 th1' now) end.
    destruct (feed_blocks _ th1 now rest) as [[v3 th3] o3]. destruct (feed_blocks _ th1' now rest) as [[v3' th3'] o3'].
    unfold same3 in *. cbn [fst snd] in *. destruct IH as [Hv Ho']. split; [exact Hv|]. rewrite !quiet_app, Ho, Ho'. reflexivity.
  - match goal with |- context [feed_blocks ?X th now rest] => specialize (IH X th th' now) end.
    destruct (feed_blocks _ th now rest) as [[v3 th3] o3]. destruct (feed_blocks _ th' now rest) as [[v3' th3'] o3'].
    unfold same3 in *. cbn [fst snd] in *. destruct IH as [Hv Ho']. split; [exact Hv|]. cbn [app]. exact Ho'.
Qed.

Definition same5 (r r' : drv * throttles * list out * bool * bytes) : Prop :=
  let '(v, _, o, ret, b) := r in let '(v', _, o', ret', b') := r' in v = v' /\ quiet o = quiet o' /\ ret = ret' /\ b = b'.

Lemma mems_subs_th now host k : forall i v th th' b ret,
  same5 (mems_subs now host k i v th b ret) (mems_subs now host k i v th' b ret).
Proof.
  induction k as [|k IH]; intros i v th th' b ret; [cbn; auto|].
  cbn [mems_subs]. cbv zeta.
  destruct ((0 <? d_n_sub (v_desc v)) && negb (match_at b (i * d_sizeof_sub (v_desc v)) (d_msop_id (v_desc v)))); [apply IH|].
  destruct (decode_msop_mems_sub _ _ (v_dec v) b _ host host) as [[[s' bo] b'] es].
  pose proof (feed_blocks_th [bo] (with_dec v s') th th' now) as [Hv Ho].
  destruct (feed_blocks (with_dec v s') th now [bo]) as [[v1 th1] o1]. destruct (feed_blocks (with_dec v s') th' now [bo]) as [[v1' th1'] o1'].
  cbn [fst snd] in Hv, Ho. subst v1'.
  destruct es as [ts|].
  - pose proof (split_frame_th v1 th1 th1' now ts) as [Hv2 Ho2].
    destruct (split_frame v1 th1 now ts) as [[v2 th2] o2]. destruct (split_frame v1 th1' now ts) as [[v2' th2'] o2'].
    cbn [fst snd] in Hv2, Ho2. subst v2'.
    specialize (IH (i + 1) v2 th2 th2' b' (ret || bo_split bo)).
    destruct (mems_subs now host k (i + 1) v2 th2 b' _) as [[[[v3 th3] o3] r3] b3].
    destruct (mems_subs now host k (i + 1) v2 th2' b' _) as [[[[v3' th3'] o3'] r3'] b3'].
    cbn [same5] in *. destruct IH as (-> & Ho3 & -> & ->). repeat split; try reflexivity. rewrite !quiet_app, Ho, Ho2, Ho3. reflexivity.
  - specialize (IH (i + 1) v1 th1 th1' b' (ret || bo_split bo)).
    destruct (mems_subs now host k (i + 1) v1 th1 b' _) as [[[[v3 th3] o3] r3] b3].
    destruct (mems_subs now host k (i + 1) v1 th1' b' _) as [[[[v3' th3'] o3'] r3'] b3'].
    cbn [same5] in *. destruct IH as (-> & Ho3 & -> & ->). repeat split; try reflexivity. rewrite !quiet_app, Ho, Ho3. reflexivity.
Qed.

Lemma process_msop_th bl tbl v th th' now host b :
  same5 (process_msop bl tbl v th now host b) (process_msop bl tbl v th' now host b).
Proof.
  unfold process_msop. cbv zeta.
  (* overflow guard *)
  set (G := Z.of_nat (length (v_open v)) >? CLOUD_POINT_MAX).
  assert (HG : same3 (if G then let '(t, e) := limit_call th now ERR_CLOUDOVERFLOW in
                        (set_open v (v_dec v) (v_open_buf v) [] (v_pkt_seq v) (v_cloud_seq v) (v_answers v) (v_fresh v), t, e) else (v, th, []))
                     (if G then let '(t, e) := limit_call th' now ERR_CLOUDOVERFLOW in
                        (set_open v (v_dec v) (v_open_buf v) [] (v_pkt_seq v) (v_cloud_seq v) (v_answers v) (v_fresh v), t, e) else (v, th', []))).
  { destruct G; [|split; reflexivity].
    pose proof (limit_call_quiet th now ERR_CLOUDOVERFLOW) as Q1. pose proof (limit_call_quiet th' now ERR_CLOUDOVERFLOW) as Q2.
    destruct (limit_call th now ERR_CLOUDOVERFLOW) as [t e]. destruct (limit_call th' now ERR_CLOUDOVERFLOW) as [t' e'].
    cbn [snd] in Q1, Q2. split; cbn [fst snd]; [reflexivity | rewrite Q1, Q2; reflexivity]. }
  match type of HG with same3 ?X ?Y => destruct X as [[v0 th0] o0]; destruct Y as [[v0' th0'] o0'] end.
  destruct HG as [Hv Ho]. cbn [fst snd] in Hv, Ho. subst v0'.
  assert (LC : forall c, quiet (snd (limit_call th0 now c)) = [] /\ quiet (snd (limit_call th0' now c)) = [])
    by (intros c; split; apply limit_call_quiet).
  destruct (c_wait_for_difop (v_cfg v) && negb (s_angles_ready (v_dec v0))).
  { pose proof (delay_limit_call_quiet th0 now ERR_NODIFOPRECV) as Q1. pose proof (delay_limit_call_quiet th0' now ERR_NODIFOPRECV) as Q2.
    destruct (delay_limit_call th0 now ERR_NODIFOPRECV) as [t e]. destruct (delay_limit_call th0' now ERR_NODIFOPRECV) as [t' e'].
    cbn [snd] in Q1, Q2. cbn [same5]. repeat split; try reflexivity. rewrite !quiet_app, Q1, Q2, Ho. reflexivity. }
  destruct (negb (blen b =? d_msop_len (v_desc v))).
  { destruct (LC ERR_WRONGMSOPLEN) as [Q1 Q2].
    destruct (limit_call th0 now ERR_WRONGMSOPLEN) as [t e]. destruct (limit_call th0' now ERR_WRONGMSOPLEN) as [t' e'].
    cbn [snd] in Q1, Q2. cbn [same5]. repeat split; try reflexivity. rewrite !quiet_app, Q1, Q2, Ho. reflexivity. }
  destruct (negb (match_at b 0 (d_msop_id (v_desc v)))).
  { destruct (LC ERR_WRONGMSOPID) as [Q1 Q2].
    destruct (limit_call th0 now ERR_WRONGMSOPID) as [t e]. destruct (limit_call th0' now ERR_WRONGMSOPID) as [t' e'].
    cbn [snd] in Q1, Q2. cbn [same5]. repeat split; try reflexivity. rewrite !quiet_app, Q1, Q2, Ho. reflexivity. }
  destruct (b_crc bl && negb (crc_ok tbl b)).
  { destruct (LC ERR_WRONGCRC32) as [Q1 Q2].
    destruct (limit_call th0 now ERR_WRONGCRC32) as [t e]. destruct (limit_call th0' now ERR_WRONGCRC32) as [t' e'].
    cbn [snd] in Q1, Q2. cbn [same5]. repeat split; try reflexivity. rewrite !quiet_app, Q1, Q2, Ho. reflexivity. }
  destruct (d_family (v_desc v)).
  - set (r := decode_msop_mech (v_desc v) (v_cfg v) (v_dec v0) b host host).
    pose proof (feed_blocks_th (mr_blocks r) (with_dec v0 (mr_state r)) th0 th0' now) as [Hv1 Ho1].
    destruct (feed_blocks _ th0 now (mr_blocks r)) as [[v1 th1] o1]. destruct (feed_blocks _ th0' now (mr_blocks r)) as [[v1' th1'] o1'].
    cbn [fst snd] in Hv1, Ho1. subst v1'. cbn [same5]. repeat split; try reflexivity.
    rewrite !quiet_app, Ho, Ho1. reflexivity.
  - pose proof (mems_subs_th now host (Z.to_nat (if d_n_sub (v_desc v) =? 0 then 1 else d_n_sub (v_desc v))) 0 v0 th0 th0' b false) as H.
    destruct (mems_subs now host _ 0 v0 th0 b false) as [[[[v1 th1] o1] ret] b1].
    destruct (mems_subs now host _ 0 v0 th0' b false) as [[[[v1' th1'] o1'] ret'] b1'].
    cbn [same5] in *. destruct H as (-> & Ho1 & -> & ->). repeat split; try reflexivity. rewrite !quiet_app, Ho, Ho1. reflexivity.
Qed.

Lemma process_difop_th bl v th th' now b : same3 (process_difop bl v th now b) (process_difop bl v th' now b).
Proof.
  unfold process_difop. cbv zeta.
  destruct (negb (blen b =? d_difop_len (v_desc v))).
  { pose proof (limit_call_quiet th now ERR_WRONGDIFOPLEN) as Q1. pose proof (limit_call_quiet th' now ERR_WRONGDIFOPLEN) as Q2.
    destruct (limit_call th now ERR_WRONGDIFOPLEN) as [t e]. destruct (limit_call th' now ERR_WRONGDIFOPLEN) as [t' e'].
    cbn [snd] in Q1, Q2. split; cbn [fst snd]; [reflexivity | rewrite Q1, Q2; reflexivity]. }
  destruct (negb (match_at b 0 (d_difop_id (v_desc v)))).
  { pose proof (limit_call_quiet th now ERR_WRONGDIFOPID) as Q1. pose proof (limit_call_quiet th' now ERR_WRONGDIFOPID) as Q2.
    destruct (limit_call th now ERR_WRONGDIFOPID) as [t e]. destruct (limit_call th' now ERR_WRONGDIFOPID) as [t' e'].
    cbn [snd] in Q1, Q2. split; cbn [fst snd]; [reflexivity | rewrite Q1, Q2; reflexivity]. }
  split; reflexivity.
Qed.

Lemma run_pkt_cb_quiet v data ts a b : quiet (snd (run_pkt_cb v data ts a b)) = snd (run_pkt_cb v data ts a b).
Proof. unfold run_pkt_cb. destruct (c_pkt_cb (v_cfg v)); reflexivity. Qed.

(* one packet: the new driver state and the non-error outputs are functions of the instance's own
   state, the clocks and the packet alone *)
Theorem process_packet_th bl tbl v th th' now host b stale :
  same3 (process_packet bl tbl v th now host b stale) (process_packet bl tbl v th' now host b stale).
Proof.
  unfold process_packet. cbv zeta.
  destruct ((fst (dispatch_bytes b) =? 85) && (snd (dispatch_bytes b) =? 170)).
  - pose proof (process_msop_th bl tbl v th th' now host b) as H.
    destruct (process_msop bl tbl v th now host b) as [[[[v1 th1] o1] ret] b1].
    destruct (process_msop bl tbl v th' now host b) as [[[[v1' th1'] o1'] ret'] b1'].
    cbn [same5] in H. destruct H as (-> & Ho & -> & ->).
    destruct (run_pkt_cb v1' b1' _ false ret') as [v2 o2] eqn:E.
    split; cbn [fst snd]; [reflexivity|]. rewrite !quiet_app, Ho. reflexivity.
  - destruct ((fst (dispatch_bytes b) =? 165) && (snd (dispatch_bytes b) =? 255)); [|split; reflexivity].
    pose proof (process_difop_th bl v th th' now b) as [Hv Ho].
    destruct (process_difop bl v th now b) as [[v1 th1] o1]. destruct (process_difop bl v th' now b) as [[v1' th1'] o1'].
    cbn [fst snd] in Hv, Ho. subst v1'.
    destruct (run_pkt_cb v1 b 0 true false) as [v2 o2].
    split; cbn [fst snd]; [reflexivity|]. rewrite !quiet_app, Ho. reflexivity.
Qed.

Lemma init_drv_th d c answers fresh th th' now : same3 (init_drv d c answers fresh th now) (init_drv d c answers fresh th' now).
Proof.
  unfold init_drv.
  pose proof (get_cloud_th (S (length answers)) answers fresh th th' now) as H. cbv zeta in H.
  destruct (get_cloud _ answers fresh th now) as [[[[id a] f] th1] o]. destruct (get_cloud _ answers fresh th' now) as [[[[id' a'] f'] th1'] o'].
  cbn [fst snd] in *. destruct H as (-> & -> & -> & Ho). split; [reflexivity | exact Ho].
Qed.

(* ---- worlds *)
Lemma lookup_update {A} (l : list (Z * A)) k v k' : lookup (update l k v) k' = if k' =? k then Some v else lookup l k'.
Proof.
  induction l as [|[k0 v0] r IH]; cbn.
  - destruct (k' =? k); reflexivity.
  - destruct (k =? k0) eqn:E; cbn.
    + destruct (k' =? k) eqn:E'; [reflexivity|]. assert (k' =? k0 = false) by lia. rewrite H. reflexivity.
    + destruct (k' =? k0) eqn:E0; [assert (k' =? k = false) by lia; rewrite H; reflexivity | exact IH].
Qed.

Lemma lookup_remove_key {A} (l : list (Z * A)) k k' : lookup (remove_key l k) k' = if k' =? k then None else lookup l k'.
Proof.
  induction l as [|[k0 v0] r IH]; cbn.
  - destruct (k' =? k); reflexivity.
  - destruct (k =? k0) eqn:E; cbn.
    + rewrite IH. destruct (k' =? k) eqn:E'; [reflexivity|]. assert (k' =? k0 = false) by lia. rewrite H. reflexivity.
    + destruct (k' =? k0) eqn:E0; [assert (k' =? k = false) by lia; rewrite H; reflexivity | exact IH].
Qed.

(* what instance i can see of the world *)
Definition view (i : Z) (w : world) := (lookup (w_drvs w) i, lookup (w_in w) i, w_now w, w_host w).

Definition ev_inst (e : event) : option Z :=
  match e with
  | EInit i _ _ _ | EPkt i _ | EStop i | ETemp i | EDev i | EOpen i | ESetInput i _ _ | EFrame i _ | EDgram i _ _ | EEof i | EDestroy i => Some i
  | EWall _ | EHost _ => None
  end.
Definition sout_inst (o : sout) : Z :=
  match o with SOut i _ | STemp i _ | SDev i _ _ | SOpen i _ _ | SNoDrv i | SInErr i _ => i end.
Definition sout_err (o : sout) : bool := match o with SOut _ (OErr _) => true | _ => false end.
(* the non-error outputs of instance i *)
Definition mine (i : Z) (os : list sout) : list sout := filter (fun o => (sout_inst o =? i) && negb (sout_err o)) os.
Definition concerns (i : Z) (e : event) : bool := match ev_inst e with Some j => j =? i | None => true end.

Lemma mine_app i a b : mine i (a ++ b) = mine i a ++ mine i b.
Proof. apply filter_app. Qed.
Lemma mine_map_other i j os : j <> i -> mine i (map (SOut j) os) = [].
Proof. intros H. induction os as [|o r IH]; [reflexivity|]. cbn. assert (j =? i = false) by lia. rewrite H0. exact IH. Qed.
Lemma mine_map_same i os os' : quiet os = quiet os' -> mine i (map (SOut i) os) = mine i (map (SOut i) os').
Proof.
  intros H.
  assert (E : forall l, filter (fun o => (sout_inst o =? i) && negb (sout_err o)) (map (SOut i) l) = map (SOut i) (filter (fun o => negb (is_err o)) l)).
  { induction l as [|o r IH]; [reflexivity|]. cbn. rewrite Z.eqb_refl. destruct o; cbn; rewrite IH; reflexivity. }
  unfold mine, quiet in *. rewrite !E, H. reflexivity.
Qed.

Lemma deliver_other bl tbl w i j p : j <> i ->
  view i (fst (deliver bl tbl w j p)) = view i w /\ mine i (snd (deliver bl tbl w j p)) = [].
Proof.
  intros Hn. unfold deliver. destruct (lookup (w_drvs w) j) as [[v stale]|].
  - destruct (process_packet bl tbl v (w_th w) (w_now w) (w_host w) p stale) as [[v' th] o]. cbn [fst snd].
    split; [|apply mine_map_other; exact Hn]. unfold view. cbn. rewrite lookup_update. assert (i =? j = false) by lia. rewrite H. reflexivity.
  - cbn. assert (j =? i = false) by lia. rewrite H. split; reflexivity.
Qed.

Lemma deliver_same bl tbl w w' i p : view i w = view i w' ->
  view i (fst (deliver bl tbl w i p)) = view i (fst (deliver bl tbl w' i p)) /\
  mine i (snd (deliver bl tbl w i p)) = mine i (snd (deliver bl tbl w' i p)).
Proof.
  intros Hv. unfold view in Hv. injection Hv as Hd Hi Hn Hh. unfold deliver. rewrite <- Hd.
  destruct (lookup (w_drvs w) i) as [[v stale]|] eqn:E; [|split; [unfold view; cbn; congruence | reflexivity]].
  rewrite <- Hn, <- Hh.
  pose proof (process_packet_th bl tbl v (w_th w) (w_th w') (w_now w) (w_host w) p stale) as [Hv' Ho].
  destruct (process_packet bl tbl v (w_th w) _ _ p stale) as [[v1 th1] o1]. destruct (process_packet bl tbl v (w_th w') _ _ p stale) as [[v1' th1'] o1'].
  cbn [fst snd] in *. subst v1'. split; [|apply mine_map_same; exact Ho].
  unfold view. cbn. rewrite !lookup_update, Z.eqb_refl. congruence.
Qed.

(* an event of another instance changes nothing instance i can see and produces no output of i *)
Theorem step_other bl tbl w e i j : ev_inst e = Some j -> j <> i ->
  view i (fst (step bl tbl w e)) = view i w /\ mine i (snd (step bl tbl w e)) = [].
Proof.
  intros He Hn. assert (Hji : j =? i = false) by lia. assert (Hij : i =? j = false) by lia.
  destruct e; cbn in He; try discriminate; injection He as ->; cbn [step].
  - (* EInit *) destruct (init_drv d c answers _ (w_th w) (w_now w)) as [[v th] o]. cbn [fst snd].
    split; [|apply mine_map_other; exact Hn]. unfold view. cbn. rewrite lookup_update, Hij. reflexivity.
  - (* EPkt *) destruct (lookup (w_drvs w) j) as [[v stale]|]; [|cbn; rewrite Hji; split; reflexivity].
    destruct (raw_feed _ _ _ b) as [payload|]; [|split; reflexivity].
    destruct (process_packet bl tbl v (w_th w) (w_now w) (w_host w) payload stale) as [[v' th] o]. cbn [fst snd].
    split; [|apply mine_map_other; exact Hn]. unfold view. cbn. rewrite lookup_update, Hij. reflexivity.
  - (* EStop *) destruct (lookup (w_drvs w) j) as [[v stale]|]; cbn; [|rewrite Hji; split; reflexivity].
    split; [|reflexivity]. unfold view. cbn. rewrite lookup_update, Hij. reflexivity.
  - destruct (lookup (w_drvs w) j) as [[v stale]|]; cbn; rewrite Hji; split; reflexivity.
  - destruct (lookup (w_drvs w) j) as [[v stale]|]; cbn; rewrite Hji; split; reflexivity.
  - destruct (lookup (w_drvs w) j) as [[v stale]|]; cbn; rewrite Hji; split; reflexivity.
  - (* ESetInput *) cbn. split; [|reflexivity]. unfold view. cbn. rewrite lookup_update, Hij. reflexivity.
  - (* EFrame *) destruct (lookup (w_in w) j) as [[[mode ic] js]|]; [|cbn; rewrite Hji; split; reflexivity].
    destruct (mode =? 3).
    + destruct (jumbo_extract ic js f) as [js' o].
      set (w1 := mk_world (w_drvs w) (w_th w) (w_now w) (w_host w) (update (w_in w) j (mode, ic, js'))).
      assert (Hw1 : view i w1 = view i w) by (unfold view, w1; cbn; rewrite lookup_update, Hij; reflexivity).
      destruct o as [p|]; [|split; [exact Hw1 | reflexivity]].
      destruct (deliver_other bl tbl w1 i j p Hn) as [H1 H2]. split; [congruence | exact H2].
    + destruct (pcap_extract ic f) as [p|]; [apply deliver_other; exact Hn | split; reflexivity].
  - (* EDgram *) destruct (lookup (w_in w) j) as [[[mode ic] js]|]; [|cbn; rewrite Hji; split; reflexivity].
    destruct (lookup (w_drvs w) j) as [[v stale]|]; [|cbn; rewrite Hji; split; reflexivity].
    destruct (sock_accepts ic port); [|split; reflexivity].
    destruct (sock_extract _ _ _ d) as [p|]; [apply deliver_other; exact Hn | split; reflexivity].
  - (* EEof *) cbn. rewrite Hji. split; reflexivity.
  - (* EDestroy *) cbn. split; [|reflexivity]. unfold view. cbn. rewrite !lookup_remove_key, Hij. reflexivity.
Qed.

(* an event of instance i (or a clock event) acts on two worlds that look the same to i in the same way *)
Theorem step_same bl tbl w w' e i : concerns i e = true -> view i w = view i w' ->
  view i (fst (step bl tbl w e)) = view i (fst (step bl tbl w' e)) /\
  mine i (snd (step bl tbl w e)) = mine i (snd (step bl tbl w' e)).
Proof.
  intros Hc Hv. pose proof Hv as Hv0. unfold view in Hv. injection Hv as Hd Hi Hn Hh.
  unfold concerns in Hc. destruct e; cbn in Hc; try (assert (i0 = i) by lia; subst i0); cbn [step].
  - (* EInit *) rewrite <- Hn.
    pose proof (init_drv_th d c answers (1000 * (i + 1)) (w_th w) (w_th w') (w_now w)) as [Hv' Ho].
    destruct (init_drv d c answers _ (w_th w) (w_now w)) as [[v th] o]. destruct (init_drv d c answers _ (w_th w') (w_now w)) as [[v' th'] o'].
    cbn [fst snd] in *. subst v'. split; [|apply mine_map_same; exact Ho].
    unfold view. cbn. rewrite !lookup_update, Z.eqb_refl. congruence.
  - (* EWall *) split; [|reflexivity]. unfold view. cbn. congruence.
  - (* EHost *) split; [|reflexivity]. unfold view. cbn. congruence.
  - (* EPkt *) rewrite <- Hd. destruct (lookup (w_drvs w) i) as [[v stale]|]; [|split; [exact Hv0 | reflexivity]].
    destruct (raw_feed _ _ _ b) as [payload|]; [|split; [exact Hv0 | reflexivity]].
    rewrite <- Hn, <- Hh.
    pose proof (process_packet_th bl tbl v (w_th w) (w_th w') (w_now w) (w_host w) payload stale) as [Hv' Ho].
    destruct (process_packet bl tbl v (w_th w) _ _ payload stale) as [[v1 th1] o1]. destruct (process_packet bl tbl v (w_th w') _ _ payload stale) as [[v1' th1'] o1'].
    cbn [fst snd] in *. subst v1'. split; [|apply mine_map_same; exact Ho].
    unfold view. cbn. rewrite !lookup_update, Z.eqb_refl. congruence.
  - (* EStop *) rewrite <- Hd. destruct (lookup (w_drvs w) i) as [[v stale]|]; [|split; [exact Hv0 | reflexivity]].
    split; [|reflexivity]. unfold view. cbn. rewrite !lookup_update, Z.eqb_refl. congruence.
  - rewrite <- Hd. destruct (lookup (w_drvs w) i) as [[v stale]|]; split; try exact Hv0; reflexivity.
  - rewrite <- Hd. destruct (lookup (w_drvs w) i) as [[v stale]|]; split; try exact Hv0; reflexivity.
  - rewrite <- Hd. destruct (lookup (w_drvs w) i) as [[v stale]|]; split; try exact Hv0; reflexivity.
  - (* ESetInput *) split; [|reflexivity]. unfold view. cbn. rewrite !lookup_update, Z.eqb_refl. congruence.
  - (* EFrame *) rewrite <- Hi. destruct (lookup (w_in w) i) as [[[mode ic] js]|]; [|split; [exact Hv0 | reflexivity]].
    destruct (mode =? 3).
    + destruct (jumbo_extract ic js f) as [js' o].
      set (w1 := mk_world (w_drvs w) (w_th w) (w_now w) (w_host w) (update (w_in w) i (mode, ic, js'))).
      set (w1' := mk_world (w_drvs w') (w_th w') (w_now w') (w_host w') (update (w_in w') i (mode, ic, js'))).
      assert (Hw1 : view i w1 = view i w1') by (unfold view, w1, w1'; cbn; rewrite !lookup_update, Z.eqb_refl; congruence).
      destruct o as [p|]; [apply deliver_same; exact Hw1 | split; [exact Hw1 | reflexivity]].
    + destruct (pcap_extract ic f) as [p|]; [apply deliver_same; exact Hv0 | split; [exact Hv0 | reflexivity]].
  - (* EDgram *) rewrite <- Hi, <- Hd. destruct (lookup (w_in w) i) as [[[mode ic] js]|]; [|split; [exact Hv0 | reflexivity]].
    destruct (lookup (w_drvs w) i) as [[v stale]|]; [|split; [exact Hv0 | reflexivity]].
    destruct (sock_accepts ic port); [|split; [exact Hv0 | reflexivity]].
    destruct (sock_extract _ _ _ d) as [p|]; [apply deliver_same; exact Hv0 | split; [exact Hv0 | reflexivity]].
  - (* EEof *) split; [exact Hv0 | reflexivity].
  - (* EDestroy *) split; [|reflexivity]. unfold view. cbn. rewrite !lookup_remove_key, Z.eqb_refl. congruence.
Qed.

(* the whole history: what instance i produces (clouds, buffer requests, packet records, getter
   results) is what it produces when every event of every other instance is removed *)
Theorem instance_independent bl tbl i es : forall w w', view i w = view i w' ->
  mine i (run bl tbl w es) = mine i (run bl tbl w' (filter (concerns i) es)).
Proof.
  induction es as [|e r IH]; intros w w' Hv; [reflexivity|].
  cbn [run filter]. destruct (concerns i e) eqn:Hc.
  - cbn [run]. destruct (step_same bl tbl w w' e i Hc Hv) as [Hv1 Ho].
    destruct (step bl tbl w e) as [w1 o1]. destruct (step bl tbl w' e) as [w1' o1']. cbn [fst snd] in *.
    rewrite !mine_app, Ho, (IH w1 w1' Hv1). reflexivity.
  - unfold concerns in Hc. destruct (ev_inst e) as [j|] eqn:Ee; [|discriminate].
    assert (Hn : j <> i) by lia.
    destruct (step_other bl tbl w e i j Ee Hn) as [Hv1 Ho].
    destruct (step bl tbl w e) as [w1 o1]. cbn [fst snd] in *.
    rewrite mine_app, Ho. cbn [app]. apply IH. congruence.
Qed.
