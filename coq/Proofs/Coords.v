(* C02: which table entries the coordinate formulas look up. *)
From RS Require Import Base.Tac Base.Bytes Base.Dyadic Model.Desc Model.Kernels Model.Decoder Gen.Params_gen.
From RS Require Import Proofs.SplitNum.
Local Open Scope Z_scope.

(* azimuth advance of a channel inside a block: (int32_t)((float)az_diff * CHAN_AZIS[chan]) *)
Definition adv_of (az_diff : Z) (frac : dy) : Z := dy_trunc (dy_mul_r 24 (dy_of_Z az_diff) frac).

Fixpoint dedup (l : list dy) : list dy :=
  match l with
  | [] => []
  | x :: r => if existsb (fun y => (dm x =? dm y) && (de x =? de y)) r then dedup r else x :: dedup r
  end.
Lemma dedup_In l : forall x, In x l -> exists y, In y (dedup l) /\ dm x = dm y /\ de x = de y.
Proof.
  induction l as [|a l IH]; intros x H; [contradiction|].
  cbn [dedup]. destruct (existsb _ l) eqn:E.
  - destruct H as [<-|H]; [|auto].
    apply existsb_exists in E. destruct E as (y & Hy & Hyy). destruct (IH y Hy) as (z & Hz & H1 & H2).
    exists z. split; [exact Hz|]. lia.
  - destruct H as [<-|H]; [exists a; cbn; auto|].
    destruct (IH x H) as (z & Hz & Hzz). exists z. split; [right; exact Hz | exact Hzz].
Qed.

Definition all_fracs : list dy :=
  dedup (flat_map (fun d => t_chan_azis (d_tab_base d) ++ t_chan_azis (d_tab_alt1 d) ++ t_chan_azis (d_tab_alt2 d)) mech_descs).

Definition AZ_DIFF_MAX : Z := 4400.   (* 2 x the nominal step at 6500 rpm; wire steps above 100 are replaced by the nominal step *)

Definition adv_ok (frac : dy) : bool :=
  forallb (fun n => let a := adv_of n frac in (0 <=? a) && (a <=? n)) (zrange 0 (AZ_DIFF_MAX + 1)).

Lemma adv_sweep : forallb adv_ok all_fracs = true.
Proof. vm_compute. reflexivity. Qed.

Lemma dy_eta (a b : dy) : dm a = dm b -> de a = de b -> a = b.
Proof. destruct a, b. cbn. intros -> ->. reflexivity. Qed.


Lemma frac_in_all d t frac : In d mech_descs -> In t (tabs_of d) -> In frac (t_chan_azis t) ->
  exists y, In y all_fracs /\ frac = y.
Proof.
  intros Hd Ht Hf.
  assert (Hin : In frac (flat_map (fun d => t_chan_azis (d_tab_base d) ++ t_chan_azis (d_tab_alt1 d) ++ t_chan_azis (d_tab_alt2 d)) mech_descs)).
  { apply in_flat_map. exists d. split; [exact Hd|]. rewrite !in_app_iff.
    destruct Ht as [<-|[<-|[<-|[]]]]; auto. }
  destruct (dedup_In _ frac Hin) as (y & Hy & E1 & E2). exists y. split; [exact Hy | apply dy_eta; assumption].
Qed.

(* the azimuth advance of a channel lies within the block's step, for every step the driver can
   form (wire steps up to 1 deg, or the nominal step of any announceable rpm, doubled for 16-beam
   single return: at most 4364) and every firing fraction of every mechanical model variant *)
Theorem adv_within_step d t frac n : In d mech_descs -> In t (tabs_of d) -> In frac (t_chan_azis t) ->
  0 <= n <= AZ_DIFF_MAX -> 0 <= adv_of n frac <= n.
Proof.
  intros Hd Ht Hf Hn. destruct (frac_in_all d t frac Hd Ht Hf) as (y & Hy & ->).
  pose proof adv_sweep as H. rewrite forallb_forall in H. specialize (H y Hy). unfold adv_ok in H.
  rewrite forallb_forall in H. specialize (H n (zrange_In 0 (AZ_DIFF_MAX + 1) n ltac:(lia))). cbv zeta in H. lia.
Qed.

Lemma trig_idx_id a : -9000 <= a < 45000 -> trig_idx a = a.
Proof. intros H. unfold trig_idx, TRIGON_MIN, TRIGON_MAX. destruct (a <? -9000) eqn:E1; destruct (a >=? 45000) eqn:E2; cbn; lia. Qed.

(* every table index formed for a mechanical point is inside the trig tables: the clamp-to-0 never
   fires, so the entry looked up is the entry of that angle *)
Theorem mech_indices_unclamped (block_az adv vert horiz : Z) (reversal : bool) :
  0 <= block_az < 36000 -> 0 <= adv <= AZ_DIFF_MAX -> -9000 <= vert < 9000 -> -2000 <= horiz <= 2000 ->
  let ah0 := block_az + adv in let ahf0 := ah0 + horiz in
  let ah := if reversal then 36000 - ah0 else ah0 in
  let ahf := if reversal then 36000 - ahf0 else ahf0 in
  trig_idx vert = vert /\ trig_idx ah = ah /\ trig_idx ahf = ahf.
Proof.
  intros Ha Hd Hv Hh. cbv zeta. unfold AZ_DIFF_MAX in Hd.
  destruct reversal; repeat split; apply trig_idx_id; lia.
Qed.

(* the nominal step of every announceable rpm is within the swept range *)
Definition step_ok (d : desc) : bool :=
  forallb (fun rps => let s := (dy_round_half_away (dy_mul_r 53 (dy_of_Z (36000 * rps)) (d_block_duration d))) mod 65536 in
                      (0 <=? s) && ((if d_is16 d then 2 * s else s) <=? AZ_DIFF_MAX)) (zrange 1 1093).
(* ... and so is it for every block period the decoder can hold (Bpearl v4) *)
Definition step_ok_bd (d : desc) : bool :=
  forallb (fun bd => forallb (fun rps => let s := (dy_round_half_away (dy_mul_r 53 (dy_of_Z (36000 * rps)) bd)) mod 65536 in
                      (0 <=? s) && ((if d_is16 d then 2 * s else s) <=? AZ_DIFF_MAX)) (zrange 1 1093)) (bds_of d).
Lemma nominal_steps_in_range_bd : forallb step_ok_bd mech_descs = true.
Proof. vm_compute. reflexivity. Qed.
Lemma nominal_steps_in_range : forallb step_ok mech_descs = true.
Proof. vm_compute. reflexivity. Qed.

(* M1: indices in range iff raw pitch/yaw >= 23768 (angles >= -90 deg); below, the clamp substitutes 0 (finding D18) *)
Lemma m1_idx raw : 0 <= raw < 65536 -> (trig_idx (raw - 32768) = raw - 32768 <-> 23768 <= raw \/ raw = 32768).
Proof.
  intros H. unfold trig_idx, TRIGON_MIN, TRIGON_MAX.
  destruct (raw - 32768 <? -9000) eqn:E1; destruct (raw - 32768 >=? 45000) eqn:E2; cbn; lia.
Qed.

(* variant tables: which firing/lens table is in force *)
