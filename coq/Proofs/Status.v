(* C18: status getters. *)
From RS Require Import Base.Tac Base.Bytes Base.Dyadic Model.Desc Model.Kernels Model.Decoder Model.Driver.
From RS Require Import Proofs.Stream.
Local Open Scope Z_scope.

Lemma mech_blocks_temp d c t w sect b pkt_ts : forall its blk s,
  let s' := fst (fst (mech_blocks d c t w sect b pkt_ts its blk s)) in
  s_temp s' = s_temp s /\ s_temp_flag s' = s_temp_flag s /\ s_devinfo s' = s_devinfo s /\ s_devstatus s' = s_devstatus s.
Proof.
  induction its as [|[az_diff ts_off] rest IH]; intros blk s; [cbn; auto|].
  cbn [mech_blocks]. destruct (negb (match_at b _ (d_block_id d))); [cbn; auto|].
  destruct (split_step c s _) as [sp ss]. set (s1 := upd_mech_blk _ _ _ _).
  specialize (IH (blk + 1) s1). cbv zeta in IH.
  destruct (mech_blocks d c t w sect b pkt_ts rest (blk + 1) s1) as [[s2 outs] bad]. cbn [fst snd] in *.
  exact IH.
Qed.

(* an accepted mechanical packet: temperature = this packet's field (even if a bad block id cuts it short) *)
Theorem mech_packet_temp d c s b h1 h2 :
  let s' := mr_state (decode_msop_mech d c s b h1 h2) in
  s_temp s' = Some (temp_raw d b 0) /\ s_temp_flag s' = true /\ s_devinfo s' = s_devinfo s /\ s_devstatus s' = s_devstatus s.
Proof.
  unfold decode_msop_mech. cbv zeta.
  destruct (match d_variant d with VarBpv4 => _ | VarRsp80 => _ | _ => _ end) as [variant first_pkt].
  destruct (pkt_time d c variant b 0 h1 h2) as [pkt_ts b'].
  set (s1 := set_pkt_common _ _ _ _ _). set (t := cur_tab d s1).
  pose proof (mech_blocks_temp d c t (dist_window d c) (az_section_init (c_start_angle c) (c_end_angle c)) b pkt_ts (block_iter d s1 t b) 0 s1) as H.
  cbv zeta in H.
  destruct (mech_blocks d c t _ _ b pkt_ts (block_iter d s1 t b) 0 s1) as [[s2 outs] bad]. cbn [fst snd mr_state] in *.
  destruct H as (H1 & H2 & H3 & H4). cbn [s_temp s_temp_flag s_devinfo s_devstatus set_prev_pkt_ts]. rewrite H1, H2, H3, H4. auto.
Qed.

Theorem mems_packet_temp d c s b base h1 h2 :
  let s' := fst (fst (fst (decode_msop_mems_sub d c s b base h1 h2))) in
  s_temp s' = Some (temp_raw d (skipn (Z.to_nat base) b) 0) /\ s_temp_flag s' = true /\
  s_devinfo s' = s_devinfo s /\ s_devstatus s' = s_devstatus s.
Proof.
  unfold decode_msop_mems_sub. destruct (pkt_time d c 0 b base h1 h2) as [pkt_ts b'].
  destruct (seq_step (s_seq s) _) as [sp sq]. cbn. auto.
Qed.

(* temperature words: sign-and-magnitude *)
Lemma temp_le_spec b0 b1 : 0 <= b0 < 256 -> 0 <= b1 < 256 ->
  temp_le b0 b1 = (if b1 <? 128 then 1 else -1) * ((b1 mod 128) * 32 + b0 / 8) /\ - 4095 <= temp_le b0 b1 <= 4095.
Proof. intros H0 H1. unfold temp_le. destruct (b1 >=? 128) eqn:E; destruct (b1 <? 128) eqn:E'; lia. Qed.
Lemma temp_be_spec b0 b1 : 0 <= b0 < 256 -> 0 <= b1 < 256 ->
  temp_be b0 b1 = (if b0 <? 128 then 1 else -1) * ((b0 mod 128) * 16 + b1 / 16) /\ - 2047 <= temp_be b0 b1 <= 2047.
Proof. intros H0 H1. unfold temp_be. destruct (b0 >=? 128) eqn:E; destruct (b0 <? 128) eqn:E'; lia. Qed.

(* DIFOP leaves the temperature alone; device info only with parsing compiled in *)
Lemma difop_temp d wp s b :
  s_temp (decode_difop d wp s b) = s_temp s /\ s_temp_flag (decode_difop d wp s b) = s_temp_flag s.
Proof.
  unfold decode_difop, difop_devinfo. destruct (d_family d); cbv zeta.
  - assert (H : s_temp (decode_difop_common d s b) = s_temp s /\ s_temp_flag (decode_difop_common d s b) = s_temp_flag s).
    { unfold decode_difop_common. cbv zeta. destruct (s_angles_ready s); [auto|].
      destruct (load_angles d b 0 _ [] []) as [[vs hs]|]; auto. }
    destruct (wp && d_has_devinfo d); [destruct (d_has_devstatus d)|]; cbn; exact H.
  - destruct (d_sets_echo d); (destruct (wp && d_has_devinfo d); [destruct (d_has_devstatus d)|]); cbn; auto.
Qed.

Lemma difop_devinfo_off d s b : s_devinfo (decode_difop d false s b) = s_devinfo s /\ s_devstatus (decode_difop d false s b) = s_devstatus s.
Proof.
  unfold decode_difop, difop_devinfo. cbn [andb]. destruct (d_family d); cbv zeta.
  - assert (H : s_devinfo (decode_difop_common d s b) = s_devinfo s /\ s_devstatus (decode_difop_common d s b) = s_devstatus s).
    { unfold decode_difop_common. cbv zeta. destruct (s_angles_ready s); [auto|].
      destruct (load_angles d b 0 _ [] []) as [[vs hs]|]; auto. }
    cbn. exact H.
  - destruct (d_sets_echo d); cbn; auto.
Qed.

Lemma difop_devinfo_on d s b : d_has_devinfo d = true -> d_has_devstatus d = true ->
  s_devinfo (decode_difop d true s b) =
    Some (slice b (d_off_difop_sn d) (d_sn_len d) ++ repeat 0 (Z.to_nat (6 - d_sn_len d)),
          slice b (d_off_difop_mac d) 6, slice b (d_off_difop_top_ver d) 5, slice b (d_off_difop_bottom_ver d) 5) /\
  s_devstatus (decode_difop d true s b) = Some (be16 b (d_off_difop_vol12 d)).
Proof.
  intros H1 H2. unfold decode_difop, difop_devinfo. cbn [andb]. rewrite H1, H2.
  destruct (d_family d); cbv zeta; [|destruct (d_sets_echo d)]; cbn; auto.
Qed.
