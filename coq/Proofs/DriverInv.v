(* C06 (and the framing half of C01/C14): every output history of the driver model passes the
   `scan` oracle: clouds are non-empty, well-shaped, numbered consecutively, each carried by the buffer
   most recently obtained from the caller and handed back once; packet records are numbered
   consecutively. *)
From RS Require Import Base.Tac Base.Bytes Base.Dyadic Model.Desc Model.Kernels Model.Decoder Model.Driver Model.Oracles.
Local Open Scope Z_scope.

Definition hist_of (v : drv) : hist := mk_hist (v_cloud_seq v) (Some (v_open_buf v)) (v_pkt_seq v).

Lemma scan_app d c : forall a b h,
  scan d c h (a ++ b) = match scan d c h a with Some h' => scan d c h' b | None => None end.
Proof.
  induction a as [|x a IH]; intros b h; [reflexivity|].
  cbn [app scan]. destruct x as [[id|]|cl|s df bg ts data|code]; try apply IH.
  - destruct (h_buf h); [|reflexivity]. destruct (_ && _ && _); [apply IH|reflexivity].
  - destruct (s =? h_pkt h); [apply IH|reflexivity].
Qed.

Lemma scan_limit d c h t now code : scan d c h (snd (limit_call t now code)) = Some h.
Proof. unfold limit_call. destruct (th_get t code); destruct (_ >? 1); reflexivity. Qed.
Lemma scan_delay_limit d c h t now code : scan d c h (snd (delay_limit_call t now code)) = Some h.
Proof. unfold delay_limit_call. destruct (th_get t code); [destruct (_ >? 1)|]; reflexivity. Qed.

(* getPointCloud: whatever the caller answers (nulls included), the driver ends up holding the first
   non-null answer, and emits no cloud *)
Lemma scan_get_cloud d c : forall fuel answers fresh th now h,
  (length answers < fuel)%nat ->
  let r := get_cloud fuel answers fresh th now in
  scan d c h (snd r) = Some (mk_hist (h_seq h) (Some (fst (fst (fst (fst r))))) (h_pkt h)).
Proof.
  induction fuel as [|k IH]; intros answers fresh th now h Hlen; [inversion Hlen|].
  - destruct answers as [|[id|] r]; try reflexivity.
    cbn [get_cloud].
    pose proof (scan_limit d c h th now ERR_POINTCLOUDNULL) as Hl.
    destruct (limit_call th now ERR_POINTCLOUDNULL) as [th1 e].
    assert (Hl' : (length r < k)%nat) by (cbn [length] in Hlen; lia).
    specialize (IH r fresh th1 now h Hl'). cbv zeta in IH.
    destruct (get_cloud k r fresh th1 now) as [[[[id a] f] th2] o].
    cbn [fst snd scan] in *. rewrite scan_app, Hl. exact IH.
Qed.

Lemma scan_split_frame v th now ts :
  let r := split_frame v th now ts in
  scan (v_desc v) (v_cfg v) (hist_of v) (snd r) = Some (hist_of (fst (fst r))) /\
  v_desc (fst (fst r)) = v_desc v /\ v_cfg (fst (fst r)) = v_cfg v.
Proof.
  unfold split_frame. destruct (v_open v) as [|p ps] eqn:Eo.
  - cbn. repeat split; reflexivity.
  - pose proof (scan_get_cloud (v_desc v) (v_cfg v) (S (length (v_answers v))) (v_answers v) (v_fresh v) th now
                  (mk_hist ((v_cloud_seq v + 1) mod 4294967296) None (v_pkt_seq v)) (Nat.lt_succ_diag_r _)) as Hg.
    cbv zeta in Hg.
    destruct (get_cloud (S (length (v_answers v))) (v_answers v) (v_fresh v) th now) as [[[[id a] f] th1] o].
    cbn [fst snd] in *. split; [|split; reflexivity].
    cbn [scan hist_of h_buf h_seq h_pkt].
    assert (Hok : cloud_okb (v_desc v) (v_cfg v)
              (mk_cloud (v_cloud_seq v) (v_open_buf v) (if c_dense (v_cfg v) then 1 else d_laser_num (v_desc v))
                 (if c_dense (v_cfg v) then Z.of_nat (length (p :: ps))
                  else Z.of_nat (length (p :: ps)) / (if c_dense (v_cfg v) then 1 else d_laser_num (v_desc v)))
                 (c_dense (v_cfg v)) ts (p :: ps)) = true).
    { unfold cloud_okb, cloud_height, cloud_width. cbn [cl_points cl_dense cl_height cl_width negb andb].
      rewrite Bool.eqb_reflx, !Z.eqb_refl. reflexivity. }
    rewrite Hok. cbn [cl_seq cl_buf]. rewrite !Z.eqb_refl. cbn [andb].
    rewrite Hg. reflexivity.
Qed.

Lemma scan_feed_blocks : forall bs v th now,
  let r := feed_blocks v th now bs in
  scan (v_desc v) (v_cfg v) (hist_of v) (snd r) = Some (hist_of (fst (fst r))) /\
  v_desc (fst (fst r)) = v_desc v /\ v_cfg (fst (fst r)) = v_cfg v.
Proof.
  induction bs as [|bo rest IH]; intros v th now.
  - cbn. repeat split; reflexivity.
  - cbn [feed_blocks].
    set (r1 := if bo_split bo then split_frame v th now (bo_cloud_ts bo) else (v, th, [])).
    assert (H1 : scan (v_desc v) (v_cfg v) (hist_of v) (snd r1) = Some (hist_of (fst (fst r1))) /\
                 v_desc (fst (fst r1)) = v_desc v /\ v_cfg (fst (fst r1)) = v_cfg v).
    { subst r1. destruct (bo_split bo); [apply scan_split_frame|]. cbn. repeat split; reflexivity. }
    destruct r1 as [[v1 th1] o1]. cbn [fst snd] in H1. destruct H1 as (Hs & Hd & Hc).
    set (v2 := set_open v1 (v_dec v1) (v_open_buf v1) (v_open v1 ++ bo_points bo) (v_pkt_seq v1) (v_cloud_seq v1) (v_answers v1) (v_fresh v1)).
    specialize (IH v2 th1 now). cbv zeta in IH.
    destruct (feed_blocks v2 th1 now rest) as [[v3 th3] o3]. cbn [fst snd] in *.
    destruct IH as (Is & Id & Ic).
    subst v2. cbn [v_desc v_cfg set_open hist_of v_cloud_seq v_open_buf v_pkt_seq] in *.
    rewrite scan_app, Hs. fold (hist_of v1). rewrite <- Hd, <- Hc.
    repeat split; try congruence. exact Is.
Qed.

(* ---- whole packets *)
Definition inv_step (v v' : drv) (o : list out) : Prop :=
  scan (v_desc v) (v_cfg v) (hist_of v) o = Some (hist_of v') /\ v_desc v' = v_desc v /\ v_cfg v' = v_cfg v.

Lemma inv_step_refl v : inv_step v v [].
Proof. repeat split; reflexivity. Qed.

Lemma inv_step_trans v1 v2 v3 o1 o2 : inv_step v1 v2 o1 -> inv_step v2 v3 o2 -> inv_step v1 v3 (o1 ++ o2).
Proof.
  intros (S1 & D1 & C1) (S2 & D2 & C2). unfold inv_step. rewrite scan_app, S1, <- D1, <- C1.
  repeat split; congruence.
Qed.

Lemma inv_step_hist v v' o : hist_of v = hist_of v' -> v_desc v' = v_desc v -> v_cfg v' = v_cfg v ->
  scan (v_desc v) (v_cfg v) (hist_of v) o = Some (hist_of v) -> inv_step v v' o.
Proof. intros Hh Hd Hc Hs. unfold inv_step. rewrite <- Hh. auto. Qed.

Lemma inv_with_dec v s : inv_step v (with_dec v s) [].
Proof. repeat split; reflexivity. Qed.

Lemma inv_split_frame v th now ts : inv_step v (fst (fst (split_frame v th now ts))) (snd (split_frame v th now ts)).
Proof. apply scan_split_frame. Qed.

Lemma inv_feed_blocks v th now bs : inv_step v (fst (fst (feed_blocks v th now bs))) (snd (feed_blocks v th now bs)).
Proof. apply scan_feed_blocks. Qed.

Lemma inv_mems_subs now host : forall k i v th b ret,
  let r := mems_subs now host k i v th b ret in
  inv_step v (fst (fst (fst (fst r)))) (snd (fst (fst r))).
Proof.
  induction k as [|k IH]; intros i v th b ret; [apply inv_step_refl|].
  cbn [mems_subs]. cbv zeta.
  destruct ((0 <? d_n_sub (v_desc v)) && negb (match_at b (i * d_sizeof_sub (v_desc v)) (d_msop_id (v_desc v)))).
  - apply IH.
  - destruct (decode_msop_mems_sub (v_desc v) (v_cfg v) (v_dec v) b (i * d_sizeof_sub (v_desc v)) host host) as [[[s' bo] b'] es].
    pose proof (inv_feed_blocks (with_dec v s') th now [bo]) as H1.
    destruct (feed_blocks (with_dec v s') th now [bo]) as [[v1 th1] o1]. cbn [fst snd] in H1.
    set (r2 := match es with Some ts => split_frame v1 th1 now ts | None => (v1, th1, []) end).
    assert (H2 : inv_step v1 (fst (fst r2)) (snd r2)).
    { subst r2. destruct es; [apply inv_split_frame | apply inv_step_refl]. }
    destruct r2 as [[v2 th2] o2]. cbn [fst snd] in H2.
    specialize (IH (i + 1) v2 th2 b' (ret || bo_split bo)). cbv zeta in IH.
    destruct (mems_subs now host k (i + 1) v2 th2 b' (ret || bo_split bo)) as [[[[v3 th3] o3] r3] b3].
    cbn [fst snd] in *.
    pose proof (inv_step_trans _ _ _ _ _ (inv_with_dec v s') H1) as H01. cbn [app] in H01.
    exact (inv_step_trans _ _ _ _ _ H01 (inv_step_trans _ _ _ _ _ H2 IH)).
Qed.

Lemma inv_errs_only v o : (forall x, In x o -> exists c, x = OErr c) -> inv_step v v o.
Proof.
  intros H. unfold inv_step. split; [|split; reflexivity].
  induction o as [|x o IH]; [reflexivity|].
  destruct (H x (or_introl eq_refl)) as [c ->]. cbn [scan]. apply IH. intros y Hy. apply H. right. exact Hy.
Qed.

Lemma limit_call_errs t now code : forall x, In x (snd (limit_call t now code)) -> exists c, x = OErr c.
Proof.
  unfold limit_call. destruct (th_get t code); destruct (_ >? 1); cbn; intros x Hx; try contradiction;
    destruct Hx as [<-|[]]; eauto.
Qed.
Lemma delay_limit_call_errs t now code : forall x, In x (snd (delay_limit_call t now code)) -> exists c, x = OErr c.
Proof.
  unfold delay_limit_call. destruct (th_get t code); [destruct (_ >? 1)|]; cbn; intros x Hx; try contradiction;
    destruct Hx as [<-|[]]; eauto.
Qed.

(* clearing the open frame (overflow guard) keeps the history *)
Lemma inv_clear v : inv_step v (set_open v (v_dec v) (v_open_buf v) [] (v_pkt_seq v) (v_cloud_seq v) (v_answers v) (v_fresh v)) [].
Proof. repeat split; reflexivity. Qed.

Lemma inv_process_msop bl tbl v th now host b :
  let r := process_msop bl tbl v th now host b in
  inv_step v (fst (fst (fst (fst r)))) (snd (fst (fst r))).
Proof.
  unfold process_msop. cbv zeta.
  set (g := if Z.of_nat (length (v_open v)) >? CLOUD_POINT_MAX then _ else (v, th, [])).
  assert (Hg : inv_step v (fst (fst g)) (snd g)).
  { subst g. destruct (_ >? CLOUD_POINT_MAX); [|apply inv_step_refl].
    pose proof (limit_call_errs th now ERR_CLOUDOVERFLOW) as He.
    destruct (limit_call th now ERR_CLOUDOVERFLOW) as [t e]. cbn [fst snd] in *.
    pose proof (inv_step_trans _ _ _ _ _ (inv_clear v) (inv_errs_only _ e He)) as H. exact H. }
  destruct g as [[v0 th0] o0]. cbn [fst snd] in Hg.
  assert (Hdc : v_desc v0 = v_desc v /\ v_cfg v0 = v_cfg v) by (destruct Hg as (_ & ? & ?); auto).
  destruct Hdc as [Hd Hc].
  destruct (c_wait_for_difop (v_cfg v) && negb (s_angles_ready (v_dec v0))).
  { pose proof (delay_limit_call_errs th0 now ERR_NODIFOPRECV) as He.
    destruct (delay_limit_call th0 now ERR_NODIFOPRECV) as [t e]. cbn [fst snd] in *.
    exact (inv_step_trans _ _ _ _ _ Hg (inv_errs_only _ e He)). }
  destruct (negb (blen b =? d_msop_len (v_desc v))).
  { pose proof (limit_call_errs th0 now ERR_WRONGMSOPLEN) as He.
    destruct (limit_call th0 now ERR_WRONGMSOPLEN) as [t e]. cbn [fst snd] in *.
    exact (inv_step_trans _ _ _ _ _ Hg (inv_errs_only _ e He)). }
  destruct (negb (match_at b 0 (d_msop_id (v_desc v)))).
  { pose proof (limit_call_errs th0 now ERR_WRONGMSOPID) as He.
    destruct (limit_call th0 now ERR_WRONGMSOPID) as [t e]. cbn [fst snd] in *.
    exact (inv_step_trans _ _ _ _ _ Hg (inv_errs_only _ e He)). }
  destruct (b_crc bl && negb (crc_ok tbl b)).
  { pose proof (limit_call_errs th0 now ERR_WRONGCRC32) as He.
    destruct (limit_call th0 now ERR_WRONGCRC32) as [t e]. cbn [fst snd] in *.
    exact (inv_step_trans _ _ _ _ _ Hg (inv_errs_only _ e He)). }
  destruct (d_family (v_desc v)).
  - set (r := decode_msop_mech (v_desc v) (v_cfg v) (v_dec v0) b host host).
    pose proof (inv_feed_blocks (with_dec v0 (mr_state r)) th0 now (mr_blocks r)) as H1.
    destruct (feed_blocks (with_dec v0 (mr_state r)) th0 now (mr_blocks r)) as [[v1 th1] o1]. cbn [fst snd] in *.
    pose proof (inv_step_trans _ _ _ _ _ (inv_with_dec v0 (mr_state r)) H1) as H01. cbn [app] in H01.
    assert (He : inv_step v1 v1 (if mr_bad_blkid r then [OErr ERR_WRONGMSOPBLKID] else [])).
    { apply inv_errs_only. destruct (mr_bad_blkid r); cbn; intros x Hx; try contradiction. destruct Hx as [<-|[]]. eauto. }
    exact (inv_step_trans _ _ _ _ _ Hg (inv_step_trans _ _ _ _ _ H01 He)).
  - pose proof (inv_mems_subs now host (Z.to_nat (if d_n_sub (v_desc v) =? 0 then 1 else d_n_sub (v_desc v))) 0 v0 th0 b false) as H1.
    cbv zeta in H1.
    destruct (mems_subs now host (Z.to_nat (if d_n_sub (v_desc v) =? 0 then 1 else d_n_sub (v_desc v))) 0 v0 th0 b false) as [[[[v1 th1] o1] ret] b'].
    cbn [fst snd] in *.
    exact (inv_step_trans _ _ _ _ _ Hg H1).
Qed.

Lemma inv_process_difop bl v th now b :
  let r := process_difop bl v th now b in inv_step v (fst (fst r)) (snd r).
Proof.
  unfold process_difop. cbv zeta.
  destruct (negb (blen b =? d_difop_len (v_desc v))).
  { pose proof (limit_call_errs th now ERR_WRONGDIFOPLEN) as He.
    destruct (limit_call th now ERR_WRONGDIFOPLEN) as [t e]. cbn [fst snd] in *. exact (inv_errs_only _ e He). }
  destruct (negb (match_at b 0 (d_difop_id (v_desc v)))).
  { pose proof (limit_call_errs th now ERR_WRONGDIFOPID) as He.
    destruct (limit_call th now ERR_WRONGDIFOPID) as [t e]. cbn [fst snd] in *. exact (inv_errs_only _ e He). }
  cbn [fst snd]. apply inv_with_dec.
Qed.

Lemma inv_run_pkt_cb v data ts df bg :
  let r := run_pkt_cb v data ts df bg in inv_step v (fst r) (snd r).
Proof.
  unfold run_pkt_cb. cbv zeta. destruct (c_pkt_cb (v_cfg v)); [|apply inv_step_refl].
  cbn [fst snd]. unfold inv_step. cbn [scan hist_of h_pkt h_seq h_buf v_pkt_seq v_cloud_seq v_open_buf set_open v_desc v_cfg].
  rewrite Z.eqb_refl. repeat split; reflexivity.
Qed.

Lemma inv_process_packet bl tbl v th now host b stale :
  let r := process_packet bl tbl v th now host b stale in inv_step v (fst (fst r)) (snd r).
Proof.
  unfold process_packet. cbv zeta.
  destruct ((_ =? 85) && (_ =? 170)).
  - pose proof (inv_process_msop bl tbl v th now host b) as H1. cbv zeta in H1.
    destruct (process_msop bl tbl v th now host b) as [[[[v1 th1] o1] ret] b']. cbn [fst snd] in H1.
    pose proof (inv_run_pkt_cb v1 b' (s_prev_pkt_ts (v_dec v1)) false ret) as H2. cbv zeta in H2.
    destruct (run_pkt_cb v1 b' (s_prev_pkt_ts (v_dec v1)) false ret) as [v2 o2]. cbn [fst snd] in *.
    exact (inv_step_trans _ _ _ _ _ H1 H2).
  - destruct ((_ =? 165) && (_ =? 255)); [|apply inv_step_refl].
    pose proof (inv_process_difop bl v th now b) as H1. cbv zeta in H1.
    destruct (process_difop bl v th now b) as [[v1 th1] o1]. cbn [fst snd] in H1.
    pose proof (inv_run_pkt_cb v1 b 0 true false) as H2. cbv zeta in H2.
    destruct (run_pkt_cb v1 b 0 true false) as [v2 o2]. cbn [fst snd] in *.
    exact (inv_step_trans _ _ _ _ _ H1 H2).
Qed.

(* ---- a whole session of one driver: init, then any packets at any clock readings *)
Definition pkt_ev := (Z * Z * bytes * bytes)%type.   (* wall clock, host clock, payload, stale pool bytes *)
Fixpoint drv_run (bl : build) (tbl : list Z) (v : drv) (th : throttles) (evs : list pkt_ev) : drv * throttles * list out :=
  match evs with
  | [] => (v, th, [])
  | (now, host, b, stale) :: r =>
      let '(v1, th1, o1) := process_packet bl tbl v th now host b stale in
      let '(v2, th2, o2) := drv_run bl tbl v1 th1 r in
      (v2, th2, o1 ++ o2)
  end.

Lemma inv_drv_run bl tbl : forall evs v th,
  let r := drv_run bl tbl v th evs in inv_step v (fst (fst r)) (snd r).
Proof.
  induction evs as [|[[[now host] b] stale] evs IH]; intros v th; [apply inv_step_refl|].
  cbn [drv_run].
  pose proof (inv_process_packet bl tbl v th now host b stale) as H1. cbv zeta in H1.
  destruct (process_packet bl tbl v th now host b stale) as [[v1 th1] o1]. cbn [fst snd] in H1.
  specialize (IH v1 th1). cbv zeta in IH.
  destruct (drv_run bl tbl v1 th1 evs) as [[v2 th2] o2]. cbn [fst snd] in *.
  exact (inv_step_trans _ _ _ _ _ H1 IH).
Qed.

Theorem session_history_ok bl tbl d c answers fresh th0 now0 evs :
  let '(v0, th1, o0) := init_drv d c answers fresh th0 now0 in
  let '(v1, th2, o1) := drv_run bl tbl v0 th1 evs in
  exists h, scan d c (mk_hist 0 None 0) (o0 ++ o1) = Some h /\ h_seq h = v_cloud_seq v1.
Proof.
  unfold init_drv.
  pose proof (scan_get_cloud d c (S (length answers)) answers fresh th0 now0 (mk_hist 0 None 0) (Nat.lt_succ_diag_r _)) as Hg.
  cbv zeta in Hg.
  destruct (get_cloud (S (length answers)) answers fresh th0 now0) as [[[[id a] f] th1] o]. cbn [fst snd] in Hg.
  set (v0 := mk_drv d c (init_dstate d c) id [] 0 0 a f).
  pose proof (inv_drv_run bl tbl evs v0 th1) as H. cbv zeta in H.
  destruct (drv_run bl tbl v0 th1 evs) as [[v1 th2] o1]. cbn [fst snd] in H.
  destruct H as (Hs & _ & _). subst v0. cbn [v_desc v_cfg hist_of v_cloud_seq v_open_buf v_pkt_seq] in Hs.
  exists (hist_of v1). rewrite scan_app, Hg. cbn [h_seq h_pkt]. split; [exact Hs|reflexivity].
Qed.
