(* C05: point and cloud time stamps. *)
From RS Require Import Base.Tac Base.Bytes Base.Dyadic Model.Desc Model.Kernels Model.Decoder Model.Driver Model.Oracles.
From RS Require Import Proofs.Stream Proofs.Slots.
Local Open Scope Z_scope.

(* time stamp of the last point of a list, or t if there is none *)
Definition last_ts (l : list point) (t : Z) : Z := match l with [] => t | _ => p_ts (last l (mk_point PNone 0 0 0)) end.

Lemma last_app_cons {A} (a : list A) x b d : last (a ++ x :: b) d = last (x :: b) d.
Proof.
  induction a as [|y a IH]; [reflexivity|]. cbn [app]. rewrite <- IH.
  destruct (a ++ x :: b) eqn:E; [destruct a; discriminate|]. reflexivity.
Qed.

Lemma last_ts_app a b t : last_ts (a ++ b) t = last_ts b (last_ts a t).
Proof.
  unfold last_ts. destruct b as [|x b]; [rewrite app_nil_r; reflexivity|].
  destruct (a ++ x :: b) eqn:E; [destruct a; discriminate|]. rewrite <- E. rewrite last_app_cons. reflexivity.
Qed.

(* a block list is "chained" from time t when every block that opens a new cloud stamps the cloud
   with the time of the last slot decoded before it *)
Fixpoint chained (t : Z) (bs : list blk_out) : Prop :=
  match bs with
  | [] => True
  | bo :: r => (bo_split bo = true -> bo_cloud_ts bo = t) /\ chained (last_ts (bo_points bo) t) r
  end.
Fixpoint chain_end (t : Z) (bs : list blk_out) : Z :=
  match bs with [] => t | bo :: r => chain_end (last_ts (bo_points bo) t) r end.

(* ---- mechanical blocks: with NaN points kept and cloud stamping by last point *)
Lemma map_last_ts {A} (f : A -> point) (l : list A) (x : A) t :
  last_ts (map f (l ++ [x])) t = p_ts (f x).
Proof. rewrite map_app. cbn [map]. rewrite last_ts_app. reflexivity. Qed.

Lemma seq_snoc n : (0 < n)%nat -> seq 0 n = seq 0 (n - 1) ++ [(n - 1)%nat].
Proof. intros H. replace n with (S (n - 1)) at 1 by lia. rewrite seq_S. reflexivity. Qed.

Lemma mech_blocks_chained d c t w sect b pkt_ts :
  c_dense c = false -> c_ts_first c = false -> 0 < d_chans_per_blk d ->
  forall its blk s,
  let r := mech_blocks d c t w sect b pkt_ts its blk s in
  chained (s_prev_point_ts s) (snd (fst r)) /\
  s_prev_point_ts (fst (fst r)) = chain_end (s_prev_point_ts s) (snd (fst r)).
Proof.
  intros Hd Hf Hc. induction its as [|[az_diff ts_off] rest IH]; intros blk s.
  - cbn. auto.
  - cbn [mech_blocks].
    destruct (negb (match_at b (d_off_blocks d + blk * d_sizeof_block d) (d_block_id d))); [cbn; auto|].
    destruct (split_step c s _) as [sp ss]. rewrite Hf.
    set (s' := upd_mech_blk _ _ _ _).
    specialize (IH (blk + 1) s'). cbv zeta in IH.
    destruct (mech_blocks d c t w sect b pkt_ts rest (blk + 1) s') as [[s'' outs] bad].
    cbn [fst snd chained chain_end bo_split bo_cloud_ts bo_points] in *.
    rewrite (keep_all c _ Hd).
    assert (Hlast : last_ts (map (mech_channel d c s t w sect (skipn (Z.to_nat (d_off_blocks d + blk * d_sizeof_block d)) b) 0
                                     (be16 b (d_off_blocks d + blk * d_sizeof_block d + d_off_blk_az d)) az_diff (pkt_ts + ts_off))
                                  (map Z.of_nat (seq 0 (Z.to_nat (d_chans_per_blk d))))) (s_prev_point_ts s)
                    = s_prev_point_ts s').
    { rewrite (seq_snoc (Z.to_nat (d_chans_per_blk d))) by lia. rewrite map_app. cbn [map]. rewrite map_last_ts.
      pose proof (mech_channel_fields d c s t w sect (skipn (Z.to_nat (d_off_blocks d + blk * d_sizeof_block d)) b) 0
                    (be16 b (d_off_blocks d + blk * d_sizeof_block d + d_off_blk_az d)) az_diff (pkt_ts + ts_off)
                    (Z.of_nat (Z.to_nat (d_chans_per_blk d) - 1))) as Hfld. cbv zeta in Hfld.
      destruct Hfld as (_ & Hts & _). rewrite Hts.
      subst s'. cbn [s_prev_point_ts upd_mech_blk].
      destruct (0 <? d_chans_per_blk d) eqn:E; [|lia]. f_equal. f_equal. lia. }
    rewrite Hlast. destruct IH as [I1 I2]. split; [split; [intros _; reflexivity | exact I1] | exact I2].
Qed.

(* ---- feeding chained blocks: every delivered cloud is stamped with its last point's time *)
Definition stamped_last (cl : cloud) : Prop := cl_ts cl = last_ts (cl_points cl) (cl_ts cl).
(* T is the time of the last slot decoded so far; if the open frame is non-empty its last point carries it *)
Definition open_inv (v : drv) (T : Z) : Prop := last_ts (v_open v) T = T.

Lemma split_frame_stamped v th now T : open_inv v T ->
  Forall stamped_last (clouds_of (snd (split_frame v th now T))) /\ open_inv (fst (fst (split_frame v th now T))) T.
Proof.
  intros HI. pose proof (split_frame_spec v th now T) as H. cbv zeta in H.
  destruct H as (_ & _ & _ & _ & _ & He & Hn).
  destruct (v_open v) as [|p ps] eqn:Eo.
  - rewrite (He eq_refl). cbn. split; [constructor | unfold open_inv; rewrite Eo; reflexivity].
  - destruct Hn as (Ho' & o' & Ho & Hc & _); [discriminate|].
    split; [|unfold open_inv; rewrite Ho'; reflexivity].
    rewrite Ho. cbn [clouds_of flat_map]. fold (clouds_of o'). rewrite Hc. cbn [app].
    constructor; [|constructor]. unfold stamped_last. cbn [cl_ts cl_points]. unfold open_inv in HI. rewrite Eo in HI.
    symmetry. exact HI.
Qed.

Lemma feed_blocks_stamped : forall bs v th now T,
  open_inv v T -> chained T bs ->
  let r := feed_blocks v th now bs in
  Forall stamped_last (clouds_of (snd r)) /\ open_inv (fst (fst r)) (chain_end T bs).
Proof.
  induction bs as [|bo rest IH]; intros v th now T HI HC.
  - cbn. split; [constructor | exact HI].
  - cbn [chained chain_end] in *. destruct HC as [Hsp Hrest]. cbn [feed_blocks].
    set (r1 := if bo_split bo then split_frame v th now (bo_cloud_ts bo) else (v, th, [])).
    assert (H1 : Forall stamped_last (clouds_of (snd r1)) /\ open_inv (fst (fst r1)) T).
    { subst r1. destruct (bo_split bo) eqn:E.
      - rewrite (Hsp eq_refl). apply split_frame_stamped. exact HI.
      - cbn. split; [constructor | exact HI]. }
    destruct r1 as [[v1 th1] o1]. cbn [fst snd] in H1. destruct H1 as [F1 I1].
    set (v2 := set_open v1 (v_dec v1) (v_open_buf v1) (v_open v1 ++ bo_points bo) (v_pkt_seq v1) (v_cloud_seq v1) (v_answers v1) (v_fresh v1)).
    assert (I2 : open_inv v2 (last_ts (bo_points bo) T)).
    { subst v2. unfold open_inv in *. cbn [v_open set_open]. rewrite last_ts_app.
      destruct (bo_points bo) as [|q qs] eqn:Eb.
      - cbn [last_ts] in *. exact I1.
      - reflexivity. }
    specialize (IH v2 th1 now _ I2 Hrest). cbv zeta in IH.
    destruct (feed_blocks v2 th1 now rest) as [[v3 th3] o3]. cbn [fst snd] in *. destruct IH as [F3 I3].
    split; [|exact I3]. rewrite clouds_of_app. apply Forall_app. split; assumption.
Qed.

(* one accepted mechanical packet: every cloud it delivers is stamped with the time of its last
   point, and the invariant is carried to the next packet *)
Theorem mech_packet_stamped d c s b host1 host2 v th now :
  d_family d = Mech -> c_dense c = false -> c_ts_first c = false -> 0 < d_chans_per_blk d ->
  open_inv v (s_prev_point_ts s) ->
  let r := decode_msop_mech d c s b host1 host2 in
  let f := feed_blocks (with_dec v (mr_state r)) th now (mr_blocks r) in
  Forall stamped_last (clouds_of (snd f)) /\ open_inv (fst (fst f)) (s_prev_point_ts (mr_state r)).
Proof.
  intros Hfam Hd Hf Hc HI. unfold decode_msop_mech. cbv zeta.
  destruct (match d_variant d with VarBpv4 => _ | VarRsp80 => _ | _ => _ end) as [variant first_pkt].
  destruct (pkt_time d c variant b 0 host1 host2) as [pkt_ts b'].
  set (s1 := set_pkt_common _ _ _ _ _). set (t := cur_tab d s1).
  pose proof (mech_blocks_chained d c t (dist_window d c) (az_section_init (c_start_angle c) (c_end_angle c)) b pkt_ts Hd Hf Hc
                (block_iter d s1 t b) 0 s1) as H. cbv zeta in H.
  destruct (mech_blocks d c t _ _ b pkt_ts (block_iter d s1 t b) 0 s1) as [[s2 outs] bad].
  cbn [fst snd mr_state mr_blocks] in *. destruct H as [HC HE].
  assert (Hs1 : s_prev_point_ts s1 = s_prev_point_ts s) by reflexivity. rewrite Hs1 in HC, HE.
  pose proof (feed_blocks_stamped outs (with_dec v (set_prev_pkt_ts s2 pkt_ts)) th now (s_prev_point_ts s)) as HF.
  cbv zeta in HF. specialize (HF HI HC).
  cbn [s_prev_point_ts set_prev_pkt_ts]. rewrite HE. exact HF.
Qed.

(* ---- T7: with the LiDAR clock nothing depends on the host clock *)
Lemma pkt_time_host_indep d c variant b base h1 h2 h1' h2' : c_lidar_clock c = true ->
  pkt_time d c variant b base h1 h2 = pkt_time d c variant b base h1' h2'.
Proof. intros H. unfold pkt_time. rewrite H. reflexivity. Qed.

Lemma decode_mech_host_indep d c s b h1 h2 h1' h2' : c_lidar_clock c = true ->
  decode_msop_mech d c s b h1 h2 = decode_msop_mech d c s b h1' h2'.
Proof.
  intros H. unfold decode_msop_mech. cbv zeta.
  destruct (match d_variant d with VarBpv4 => _ | VarRsp80 => _ | _ => _ end) as [variant first_pkt].
  rewrite (pkt_time_host_indep d c variant b 0 h1 h2 h1' h2' H). reflexivity.
Qed.

Lemma decode_mems_host_indep d c s b base h1 h2 h1' h2' : c_lidar_clock c = true ->
  decode_msop_mems_sub d c s b base h1 h2 = decode_msop_mems_sub d c s b base h1' h2'.
Proof. intros H. unfold decode_msop_mems_sub. rewrite (pkt_time_host_indep d c 0 b base h1 h2 h1' h2' H). reflexivity. Qed.

Lemma mems_subs_host_indep now host host' : forall k i v th b ret, c_lidar_clock (v_cfg v) = true ->
  mems_subs now host k i v th b ret = mems_subs now host' k i v th b ret.
Proof.
  induction k as [|k IH]; intros i v th b ret H; [reflexivity|].
  cbn [mems_subs]. cbv zeta.
  destruct ((0 <? d_n_sub (v_desc v)) && negb (match_at b (i * d_sizeof_sub (v_desc v)) (d_msop_id (v_desc v)))); [apply IH; exact H|].
  rewrite (decode_mems_host_indep (v_desc v) (v_cfg v) (v_dec v) b _ host host host' host' H).
  destruct (decode_msop_mems_sub (v_desc v) (v_cfg v) (v_dec v) b (i * d_sizeof_sub (v_desc v)) host' host') as [[[s' bo] b'] es].
  pose proof (feed_blocks_spec [bo] (with_dec v s') th now) as F. cbv zeta in F.
  destruct (feed_blocks (with_dec v s') th now [bo]) as [[v1 th1] o1]. cbn [fst snd] in F. destruct F as (_ & _ & C1 & _).
  assert (H1 : c_lidar_clock (v_cfg v1) = true) by (rewrite C1; exact H).
  destruct es as [ts|].
  - pose proof (split_frame_spec v1 th1 now ts) as S2. cbv zeta in S2.
    destruct (split_frame v1 th1 now ts) as [[v2 th2] o2]. cbn [fst snd] in S2. destruct S2 as (_ & _ & C2 & _).
    rewrite (IH (i + 1) v2 th2 b' (ret || bo_split bo)); [reflexivity | rewrite C2; exact H1].
  - rewrite (IH (i + 1) v1 th1 b' (ret || bo_split bo) H1). reflexivity.
Qed.

Theorem process_packet_host_indep bl tbl v th now host host' b stale : c_lidar_clock (v_cfg v) = true ->
  process_packet bl tbl v th now host b stale = process_packet bl tbl v th now host' b stale.
Proof.
  intros H. unfold process_packet. cbv zeta.
  destruct ((_ =? 85) && (_ =? 170)); [|reflexivity].
  assert (Hm : process_msop bl tbl v th now host b = process_msop bl tbl v th now host' b).
  { unfold process_msop. cbv zeta.
    set (g := if Z.of_nat (length (v_open v)) >? CLOUD_POINT_MAX then _ else (v, th, [])).
    assert (Hg : v_cfg (fst (fst g)) = v_cfg v).
    { subst g. destruct (_ >? CLOUD_POINT_MAX); [destruct (limit_call th now ERR_CLOUDOVERFLOW)|]; reflexivity. }
    destruct g as [[v0 th0] o0]. cbn [fst snd] in Hg.
    destruct (c_wait_for_difop (v_cfg v) && negb (s_angles_ready (v_dec v0))); [reflexivity|].
    destruct (negb (blen b =? d_msop_len (v_desc v))); [reflexivity|].
    destruct (negb (match_at b 0 (d_msop_id (v_desc v)))); [reflexivity|].
    destruct (b_crc bl && negb (crc_ok tbl b)); [reflexivity|].
    destruct (d_family (v_desc v)).
    - rewrite (decode_mech_host_indep (v_desc v) (v_cfg v) (v_dec v0) b host host host' host' H). reflexivity.
    - rewrite (mems_subs_host_indep now host host' _ 0 v0 th0 b false); [reflexivity | rewrite Hg; exact H]. }
  rewrite Hm. reflexivity.
Qed.
